#!/bin/sh
# usage: tools/seedround.sh <agent-out-dir> <PROPERTY-ID> <seed-name> <scratch-worktree>
# Confirms an agent's change (tools/confirm_seed.py), removes the agent's worktree and output, then trials the kept
# change against the quick tier of the owning check (tools/seedtest.sh; /repo is not touched).
OUT="$1"; P="$2"; NAME="$3"; WT="$4"
cd /verif || exit 2
python3 tools/confirm_seed.py "$OUT" "$P" "$NAME" 2>&1 | tail -3
[ -n "$WT" ] && git -C /repo worktree remove --force "$WT" 2>/dev/null
rm -rf "$OUT"
[ -f "seeded/$NAME/patch.diff" ] || exit 1
tools/seedtest.sh "/verif/seeded/$NAME/patch.diff" "$P" quick 2>&1 | grep -v "^KNOWN" | head -5
