#!/bin/sh
# dev helper: rebuild reasm driver, replay scen.ndjson in cwd, validate
cd /verif/harness && GOFLAGS=-mod=mod GOPROXY=off go build -tags verif -o /verif/out/bin/reasm ./cmd/reasm || exit 1
cd /verif/out/t4 && cp /verif/specs/Reasm*.tla /verif/specs/Reasm*.cfg . && /verif/out/bin/reasm -scenarios scen.ndjson -units 3 -trace trace.ndjson -rand ${1:-200} && timeout 900 tlc -workers 1 -metadir /verif/out/t4/m2 -config ReasmTrace.cfg ReasmTrace.tla 2>&1 | grep -E "VERDICT|rror" | python3 -c "
import sys,json
for l in sys.stdin:
    if 'VERDICT' in l:
        v=json.loads(json.loads(l)[8:])
        print(v['lines'],v['nbad'])
        for b in v['bad']: print(b)
    else: print(l)
"
