#!/usr/bin/env python3
"""confirm_seed.py <mutation-dir> <PROPERTY-ID> <name>  -- confirms a seeded change in a scratch worktree of /repo HEAD:
   demo passes without the patch, fails with it, the existing tests still pass with it; then stores it under
   /verif/seeded/<name>/ (patch.diff, demo, DEMO.txt, meta.json)."""
import json, os, re, shutil, subprocess, sys
src, pid, name = sys.argv[1], sys.argv[2], sys.argv[3]
env = dict(os.environ, GOFLAGS="-mod=mod", GOPROXY="off")
env.pop("GOSUMDB", None); env.pop("GOTOOLCHAIN", None)
wt = "/tmp/confirmwt-%d" % os.getpid()
def sh(cmd, cwd=None, ok=None):
    p = subprocess.run(cmd, shell=True, cwd=cwd, env=env, stdout=subprocess.PIPE, stderr=subprocess.STDOUT, text=True)
    return p.returncode, p.stdout
patch = os.path.join(src, "patch.rebased.diff")
if not os.path.exists(patch):
    patch = os.path.join(src, "patch.diff")
demo = os.path.join(src, "demo_test.go")
txt = open(demo).read()
pkg = re.search(r"^package (\w+)", txt, re.M).group(1)
pkgdir = {"gopacket": ".", "gopacket_test": ".", "layers": "layers", "layers_test": "layers", "reassembly": "reassembly", "reassembly_test": "reassembly",
          "tcpassembly": "tcpassembly", "tcpassembly_test": "tcpassembly", "ip4defrag": "ip4defrag", "ip4defrag_test": "ip4defrag",
          "ip6defrag": "ip6defrag", "pcap": "pcap", "pcap_test": "pcap", "pcapgo": "pcapgo", "pcapgo_test": "pcapgo", "tcpreader": "tcpassembly/tcpreader", "tcpreader_test": "tcpassembly/tcpreader"}[pkg]
tests = re.findall(r"^func (Test\w+)\(", txt, re.M)
runre = "^(" + "|".join(tests) + ")$"
rc, out = sh("git -C /repo worktree add -q --detach %s HEAD" % wt)
res = {}
try:
    shutil.copy(demo, os.path.join(wt, pkgdir, "zz_seed_demo_test.go"))
    cmd = "go test -vet=off -count=1 -timeout 120s -run '%s' ./%s/" % (runre, pkgdir)
    rc0, out0 = sh(cmd, cwd=wt)
    res["demo_without_patch"] = "pass" if rc0 == 0 else "FAIL"
    rc, o = sh("git apply %s" % patch, cwd=wt)
    if rc != 0:
        print("PATCH DOES NOT APPLY", o); sys.exit(1)
    rc1, out1 = sh(cmd, cwd=wt)
    res["demo_with_patch"] = "fail" if rc1 != 0 else "PASS"
    os.remove(os.path.join(wt, pkgdir, "zz_seed_demo_test.go"))
    rc2, out2 = sh("go test -vet=off -count=1 . ./layers/ ./reassembly/ ./tcpassembly/... ./ip4defrag/ ./ip6defrag/ ./pcapgo/ ./defrag/... 2>&1 | grep -E '^(--- FAIL|FAIL|ok|panic)'", cwd=wt)
    fails = [l for l in out2.splitlines() if l.startswith("--- FAIL")]
    unexpected = [l for l in fails if "TestEthernetHandle_Close_" not in l]
    pkgfail = [l for l in out2.splitlines() if l.startswith("FAIL\t") and "pcapgo" not in l]
    res["existing_tests_with_patch"] = "pass" if not unexpected and not pkgfail else "FAIL: %s %s" % (unexpected, pkgfail)
finally:
    sh("git -C /repo worktree remove --force %s" % wt)
print(name, res)
good = res.get("demo_without_patch") == "pass" and res.get("demo_with_patch") == "fail" and res.get("existing_tests_with_patch") == "pass"
if not good:
    print("NOT CONFIRMED"); print(out0[-1500:] if res.get("demo_without_patch") != "pass" else out1[-800:]); sys.exit(1)
dst = os.path.join("/verif/seeded", name)
os.makedirs(dst, exist_ok=True)
shutil.copy(patch, os.path.join(dst, "patch.diff"))
shutil.copy(demo, os.path.join(dst, "demo_test.go"))
if os.path.exists(os.path.join(src, "DEMO.txt")):
    shutil.copy(os.path.join(src, "DEMO.txt"), os.path.join(dst, "DEMO.txt"))
meta = {}
try:
    meta = json.load(open(os.path.join(src, "meta.json")))
except Exception:
    pass
meta.update({"property": pid, "confirmed_on_repo_head": subprocess.run("git -C /repo log --format=%h -1", shell=True, stdout=subprocess.PIPE, text=True).stdout.strip(),
             "confirmation": res, "demo_package_dir": pkgdir, "demo_tests": tests,
             "what_i_ran": "tools/confirm_seed.py: demo test without patch (pass), with patch (fail), existing test packages with patch (pass) in a scratch worktree",
             "rebased_onto_fixes": patch.endswith("rebased.diff")})
json.dump(meta, open(os.path.join(dst, "meta.json"), "w"), indent=1)
print("stored", dst)
