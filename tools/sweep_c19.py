#!/usr/bin/env python3
"""Development tool (not run by any check): sweeps the non-recovering decode paths with many seeds and prints
known-finding entries (one per source file whose decoders panic on malformed input) for known_findings.jsonl."""
import json, os, subprocess, sys, collections
sys.path.insert(0, os.path.dirname(os.path.abspath(__file__)))
import vlib
binp = vlib.go_build("./cmd/pkt")
wd = vlib.scratch("sweep19")
N = int(sys.argv[1]) if len(sys.argv) > 1 else 300000
procs = []
for k in range(14):
    tp = os.path.join(wd, "t%d.ndjson" % k)
    procs.append((tp, subprocess.Popen([binp, "-mode", "real", "-n", str(N), "-seed", str(int(sys.argv[2] if len(sys.argv) > 2 else 424200) + k * 7919), "-what", "raw", "-maxlen", "9000", "-trace", tp, "-enum", "%d/14/1" % k],
                                       env=vlib.goenv(), stdout=subprocess.DEVNULL, stderr=subprocess.DEVNULL)))
files = collections.defaultdict(lambda: collections.Counter())
examples = {}
for tp, p in procs:
    try:
        p.wait(timeout=1500)
    except subprocess.TimeoutExpired:
        p.kill()
    if not os.path.exists(tp):
        continue
    with open(tp) as f:
        for line in f:
            if '"outcome":"panic"' not in line:
                continue
            e = json.loads(line)
            parts = e["sig"].split("|")
            fn, fl = parts[1], parts[2]
            files[fl][fn] += 1
            examples.setdefault(fl, e["in"][:80])
    os.remove(tp)
known = set()
for l in open(os.path.join(os.path.dirname(os.path.abspath(__file__)), "..", "known_findings.jsonl")):
    if l.startswith("{"):
        d = json.loads(l)
        if d.get("property") == "C19" and "file" in d.get("match", {}):
            known.add(d["match"]["file"])
for fl in sorted(files):
    fns = sorted(files[fl])
    if fl in known:
        continue
    print("NEW", fl, dict(files[fl]), examples[fl])
    print(json.dumps({"id": "C19-" + fl.replace("/", "-"), "property": "C19",
                      "what": "decoders in %s panic instead of returning an error on malformed/truncated input when recovery is off (%s); e.g. input %s" % (fl, ", ".join(f.replace("layers.", "") for f in fns), examples[fl]),
                      "match": {"reason": "panic-no-recovery", "file": fl}}))
