"""Shared plumbing for the gopacket TLA+ conformance checks (python3 stdlib only).

Exit codes used by every check:
  0  property held on everything explored (KNOWN-FINDING lines allowed)
  1  violation of the property by the real code  (prints VIOLATION property=<id> replay=<path>)
  2  infrastructure problem (TLC/JVM/Go build/driver breakage) -- never a verdict
"""
import json, os, re, shutil, subprocess, sys, time, hashlib, glob

VERIF = os.path.dirname(os.path.dirname(os.path.abspath(__file__)))
REPO = os.environ.get("VERIF_REPO", "/repo")
OUT = os.path.join(VERIF, "out")
SPECS = os.path.join(VERIF, "specs")
HARNESS = os.path.join(VERIF, "harness")
EVID = os.path.join(VERIF, "evidence")
FINDINGS = os.path.join(VERIF, "known_findings.jsonl")
NCPU = os.cpu_count() or 4


class Infra(Exception):
    """Harness / tool breakage: exit 2, never a violation."""


def log(*a):
    print(*a, flush=True)


def goenv():
    e = dict(os.environ)
    e["GOFLAGS"] = "-mod=mod"
    e["GOPROXY"] = "off"
    e.pop("GOSUMDB", None)      # GOSUMDB=off breaks the offline toolchain switch to go1.25.0
    e.pop("GOTOOLCHAIN", None)
    e.setdefault("GOMAXPROCS", str(NCPU))
    e["VERIF_REPO"] = os.path.abspath(REPO)
    return e


ALT = os.path.abspath(REPO) != "/repo"     # checks pointed at a scratch worktree (seeded-change trials)


def scratch(name):
    d = os.path.join(OUT, "%s-%d" % (name, os.getpid()))
    if os.path.isdir(d):
        shutil.rmtree(d, ignore_errors=True)
    os.makedirs(d, exist_ok=True)
    return d


def sync_gosum():
    """harness/go.sum must cover /repo's requirements; refresh it from the working tree."""
    src = os.path.join(REPO, "go.sum")
    dst = os.path.join(HARNESS, "go.sum")
    try:
        have = set(open(dst).read().splitlines()) if os.path.exists(dst) else set()
        want = open(src).read().splitlines()
        missing = [l for l in want if l not in have]
        if missing:
            with open(dst, "a") as f:
                for l in missing:
                    f.write(l + "\n")
    except OSError as ex:
        raise Infra("go.sum sync failed: %s" % ex)


def go_build(pkg, name=None, race=False, tags="verif", test=False, timeout=1500):
    """Build ./cmd/<pkg> (or a test binary with test=True) from /repo's current working tree
    (or from $VERIF_REPO, a scratch worktree, through an alternative modfile)."""
    sync_gosum()
    os.makedirs(os.path.join(OUT, "bin"), exist_ok=True)
    name = name or (pkg.strip("./").replace("/", "_") + ("_race" if race else ""))
    if ALT:
        name += "-alt%d" % os.getpid()
    outp = os.path.join(OUT, "bin", name)
    cmd = ["go", "test", "-c"] if test else ["go", "build"]
    if ALT:
        alt = os.path.join(HARNESS, "go.alt%d.mod" % os.getpid())
        txt = open(os.path.join(HARNESS, "go.mod")).read().replace("=> /repo", "=> " + os.path.abspath(REPO))
        open(alt, "w").write(txt)
        shutil.copy(os.path.join(HARNESS, "go.sum"), alt[:-4] + ".sum")
        cmd += ["-modfile=" + alt]
    cmd += ["-tags", tags, "-o", outp]
    if race:
        cmd.append("-race")
    cmd.append(pkg)
    t0 = time.time()
    p = subprocess.run(cmd, cwd=HARNESS, env=goenv(), stdout=subprocess.PIPE, stderr=subprocess.STDOUT,
                       text=True, timeout=timeout)
    if ALT:
        for f in (alt, alt[:-4] + ".sum"):
            if os.path.exists(f):
                os.remove(f)
    if p.returncode != 0:
        raise Infra("go build %s failed:\n%s" % (pkg, p.stdout[-4000:]))
    log("[build] %s %s in %.1fs" % (pkg, "(race)" if race else "", time.time() - t0))
    return outp


def run(cmd, timeout=3600, cwd=None, env=None, stdin=None, ok_codes=(0,), capture=True):
    p = subprocess.run(cmd, cwd=cwd, env=env or goenv(), input=stdin, text=True,
                       stdout=subprocess.PIPE if capture else None,
                       stderr=subprocess.STDOUT if capture else None, timeout=timeout)
    if p.returncode not in ok_codes:
        raise Infra("command %s exited %d:\n%s" % (cmd, p.returncode, (p.stdout or "")[-4000:]))
    return p


class TLCResult:
    def __init__(self):
        self.generated = 0
        self.distinct = 0
        self.depth = 0
        self.out = ""
        self.violated = None      # name of violated invariant/property, or "deadlock"
        self.error = None
        self.wall = 0.0
        self.printed = []         # PrintT lines (unquoted)
        self.coverage = {}


TLC_JAR = "/opt/veriftools/tla/tla2tools.jar:/opt/veriftools/tla/CommunityModules-deps.jar"


def tlc(module, cfg=None, workdir=None, workers=None, timeout=900, extra=(), files=(), heap=None,
        simulate=None, depth=None, seed=None, keep_out=True, deque=False, cfg_subst=None):
    """Run TLC on specs/<module>.tla in a private scratch copy. `files` are extra files (traces)
    copied into the scratch dir.  Returns TLCResult; raises Infra on tool failure."""
    wd = workdir or scratch("tlc-%s-%d" % (module, os.getpid()))
    os.makedirs(wd, exist_ok=True)
    for f in glob.glob(os.path.join(SPECS, "*.tla")) + glob.glob(os.path.join(SPECS, "*.cfg")):
        shutil.copy(f, wd)
    for f in files:
        if os.path.abspath(os.path.dirname(f)) != os.path.abspath(wd):
            shutil.copy(f, wd)
    cfg = cfg or module
    if cfg_subst:
        cp = os.path.join(wd, cfg + ".cfg")
        txt = open(cp).read()
        for a, b in cfg_subst.items():
            txt, n = re.subn(a, b, txt)
            if n == 0:
                raise Infra("cfg_subst %r did not match in %s.cfg" % (a, cfg))
        open(cp, "w").write(txt)
    java = ["java", "-XX:+UseParallelGC", "-Xss64m"]
    if heap:
        java.append("-Xmx%s" % heap)
    if deque:
        java.append("-Dtlc2.tool.queue.IStateQueue=StateDeque")
    cmd = ["timeout", str(timeout)] + java + ["-cp", TLC_JAR, "tlc2.TLC",
           "-workers", str(workers or min(NCPU, 8)), "-metadir", os.path.join(wd, "meta"),
           "-config", cfg + ".cfg"]
    if simulate:
        cmd += ["-simulate", simulate]
    if depth:
        cmd += ["-depth", str(depth)]
    if seed is not None:
        cmd += ["-seed", str(seed)]
    cmd += list(extra) + [module + ".tla"]
    t0 = time.time()
    env = dict(os.environ)
    env.pop("JAVA_TOOL_OPTIONS", None)
    p = subprocess.run(cmd, cwd=wd, env=env, stdout=subprocess.PIPE, stderr=subprocess.STDOUT, text=True)
    r = TLCResult()
    r.wall = time.time() - t0
    r.out = p.stdout
    if keep_out:
        with open(os.path.join(wd, module + "." + cfg + ".tlc.log"), "w") as f:
            f.write(p.stdout)
    m = None
    for m in re.finditer(r"(\d+) states generated, (\d+) distinct states found", p.stdout):
        pass
    if m:
        r.generated, r.distinct = int(m.group(1)), int(m.group(2))
    m = re.search(r"depth of the complete state graph search is (\d+)", p.stdout)
    if m:
        r.depth = int(m.group(1))
    for line in p.stdout.splitlines():
        if line.startswith('"') and line.endswith('"'):
            try:
                r.printed.append(json.loads(line))
            except ValueError:
                pass
    m = re.search(r"Error: Invariant (\S+) is violated", p.stdout)
    if m:
        r.violated = m.group(1)
    m2 = re.search(r"Error: Action property (\S+) is violated", p.stdout)
    if m2:
        r.violated = m2.group(1)
    if "Error: Temporal properties were violated" in p.stdout:
        r.violated = r.violated or "temporal"
    if "Error: Deadlock reached" in p.stdout:
        r.violated = "deadlock"
    if p.returncode == 124:
        raise Infra("TLC timed out after %ss on %s/%s" % (timeout, module, cfg))
    if r.violated is None and ("Error:" in p.stdout or p.returncode != 0):
        if "Model checking completed. No error has been found." not in p.stdout and \
           "Progress(" not in p.stdout.split("Error:")[0][-10:]:
            r.error = p.stdout[-3000:]
    if r.error and r.violated is None and not simulate:
        raise Infra("TLC failed on %s/%s (rc=%d):\n%s" % (module, cfg, p.returncode, r.error))
    return r


def validate_trace(module, trace_path, name=None, timeout=1800, heap=None):
    """Implementation -> model: run the (total) trace module over one ndjson file.  The module prints
    'VERDICT {"lines":n,"bad":[...]}' in its final state.  Returns that dict (+ states)."""
    wd = scratch("trace-%s-%s-%d" % (module, name or "t", os.getpid()))
    dst = os.path.join(wd, "trace.ndjson")
    if os.path.abspath(trace_path) != dst:
        shutil.copy(trace_path, dst)
    r = tlc(module, workdir=wd, workers=1, timeout=timeout, heap=heap)
    v = None
    for line in r.printed:
        if isinstance(line, str) and line.startswith("VERDICT "):
            v = json.loads(line[len("VERDICT "):])
    if v is None or r.violated:
        raise Infra("trace validation of %s produced no verdict (violated=%s):\n%s" % (module, r.violated, r.out[-3000:]))
    nlines = sum(1 for _ in open(dst))
    if v["lines"] != nlines:
        raise Infra("trace validation consumed %s of %d lines" % (v["lines"], nlines))
    v["states"] = r.distinct
    v["generated"] = r.generated
    v["wall"] = r.wall
    shutil.rmtree(wd, ignore_errors=True)
    return v


def sany(module):
    p = subprocess.run(["tla-sany", module + ".tla"], cwd=SPECS, stdout=subprocess.PIPE,
                       stderr=subprocess.STDOUT, text=True)
    return p.returncode == 0 and "Semantic errors" not in p.stdout and "Parse Error" not in p.stdout, p.stdout


# ---------------------------------------------------------------------------------------------
# known findings

def load_findings(pid):
    """Returns (open_findings, fixed_entries) for property pid."""
    op, fx = [], []
    if os.path.exists(FINDINGS):
        for line in open(FINDINGS):
            line = line.strip()
            if not line or line.startswith("#"):
                continue
            if line.startswith("fixed:"):
                if ("property=%s " % pid) in line:
                    fx.append(line)
                continue
            try:
                d = json.loads(line)
            except ValueError:
                continue
            if d.get("property") == pid:
                op.append(d)
    return op, fx


def match_finding(findings, sig):
    """sig: dict describing a rejection. A finding matches when every key of its `match` dict is
    present in sig with equal value (strings: finding value may be a regex when key ends with _re)."""
    for f in findings:
        ok = True
        for k, v in f.get("match", {}).items():
            if k.endswith("_re"):
                if not re.search(v, str(sig.get(k[:-3], ""))):
                    ok = False
                    break
            elif sig.get(k) != v:
                ok = False
                break
        if ok:
            return f
    return None


# ---------------------------------------------------------------------------------------------
# evidence

def write_evidence(pid, tier, seed, level, coverage, wall, violations=0, assumptions=()):
    global EVID
    if ALT:      # trial runs against a scratch worktree never touch the committed evidence
        EVID = os.path.join(OUT, "evidence-alt")
    os.makedirs(EVID, exist_ok=True)
    if isinstance(coverage.get("samples"), list) and not coverage["samples"]:
        raise Infra("%s: the run recorded no sample event (drivers killed or empty traces) - no evidence written" % pid)
    ev = {"property_id": pid, "tier": tier, "seed": int(seed), "level": level,
          "coverage": coverage, "assumptions": list(assumptions), "wall_s": round(wall, 2),
          "violations": int(violations)}
    tmp = os.path.join(EVID, pid + ".json.tmp")
    with open(tmp, "w") as f:
        json.dump(ev, f, indent=1, sort_keys=True, default=str)
        f.write("\n")
    os.replace(tmp, os.path.join(EVID, pid + ".json"))


def write_replay(pid, name, payload):
    d = os.path.join(OUT, "replay")
    os.makedirs(d, exist_ok=True)
    p = os.path.join(d, "%s-%s.json" % (pid, name))
    with open(p, "w") as f:
        json.dump(payload, f, indent=1, default=str)
    return p


def read_ndjson(path):
    out = []
    with open(path) as f:
        for line in f:
            line = line.strip()
            if line:
                out.append(json.loads(line))
    return out


def digest(x):
    return hashlib.sha1(json.dumps(x, sort_keys=True, default=str).encode()).hexdigest()[:12]


class Verdict:
    """Collects violations / known findings for one check run."""

    def __init__(self, pid):
        self.pid = pid
        self.open, self.fixed = load_findings(pid)
        self.violations = []     # (sig, replay_path)
        self.known = {}          # finding id -> count
        self.vcount = {}         # signature digest -> occurrences

    def reject(self, sig, replay_payload=None):
        f = match_finding(self.open, sig)
        if f is not None:
            self.known[f["id"]] = self.known.get(f["id"], 0) + 1
            return False
        name = digest(sig)
        if name in self.vcount:           # same signature already reported: count only
            self.vcount[name] += 1
            return True
        self.vcount[name] = 1
        path = write_replay(self.pid, name, {"property": self.pid, "signature": sig, "replay": replay_payload})
        self.violations.append((sig, path))
        return True

    def finish(self):
        for f in self.open:
            if f["id"] in self.known:
                log("KNOWN-FINDING: property=%s %s (%d occurrences this run)" % (self.pid, f["what"], self.known[f["id"]]))
        seen = set()
        for sig, path in self.violations[:20]:
            log("VIOLATION property=%s replay=%s" % (self.pid, path))
            log("  signature: %s (x%d)" % (json.dumps(sig, sort_keys=True, default=str)[:600], self.vcount.get(digest(sig), 1)))
            seen.add(path)
        if len(self.violations) > 20:
            log("  ... %d more violations" % (len(self.violations) - 20))
        return 1 if self.violations else 0
