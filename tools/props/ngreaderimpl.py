"""Implementation-shaped model of the pcapng reader of gopacket/pcapgo (specs/NgReaderImpl.tla) and its binding to the code.

NgReaderImpl.tla transcribes /repo/pcapgo/ngread.go (+ ngread_dsb.go, ngread_nrb.go) function by function over the byte
image of an ABSTRACT block stream (NgReaderImplEnc.tla: section headers of either byte order and any version, interface
descriptions with link type / snap length / if_tsresol / if_tsoffset / strings, enhanced, simple and obsolete packet
blocks, statistics, secrets, name resolution and unknown blocks, and the corruption classes that change the reader's
control flow).  This module

  1. lets TLC check NgReaderImplMC: for every block sequence within the bound, every reader configuration
     (WantMixedLinkType, ErrorOnMismatchingLinkType, SkipUnknownVersion, copying / zero-copy call) and every truncation
     class, what the transcription emits is accepted by PcapFile!Judge where the stream is one the NgWriter produces
     (full read, interface table, truncated reads) and by NgReader!JudgeR (the envelope of C15) always (invariant
     ImplSatisfiesProp), and the structural invariants read off the code hold (interface table of the current section,
     link-type filter, buffers of returned packets, every returned packet is its source block read with the resolution
     and offset of its own interface, reader at a block boundary after every call, no panic);
  2. switches the pre-fix shapes of the code on through constants and requires TLC to refute each;
  3. exports runs (stream, configuration, truncation, predicted events per reader call) - a seed-selected slice, every
     run that takes a code decision no exported run has taken, and the walks of TLC's simulation mode on a larger bound -,
     has harness/cmd/ngread_impl materialise each stream as real pcapng bytes (raw and, where possible, through the real
     NgWriter), run the real NgReader, compare predicted with observed events (drift: reported, never a verdict), and has
     TLC validate what the real code did with the EXISTING trace specs: PcapFileTrace (verdicts belong to C14) and
     NgReaderTrace (verdicts belong to C15) - the only source of verdicts.

`run_impl(ctx, verdict_for)` is the entry point (verdict_for(reason, property) -> vlib.Verdict or None);
tools/props/x14impl.py is the stand-alone check `bin/check X14IMPL`."""
import itertools, json, os, re, shutil, time
from concurrent.futures import ThreadPoolExecutor
import vlib
from vlib import log

MODULE = "NgReaderImplMC"
SPEC = "NgReaderImpl.tla"
SOURCE = "/repo/pcapgo/ngread.go (+ ngread_dsb.go, ngread_nrb.go)"
DRIVER = "./cmd/ngread_impl"

INVS = "ImplSatisfiesProp InterfacesOfCurrentSection LinkTypeFiltered ReturnedBuffers NoPanic ModelCoversInput PacketsMatchSource"

# mode bfs: exhaustive check + export of the runs with hash % mod == seed % mod (+ every run with a new code decision)
# mode sim: TLC simulation (random walks; one configuration and truncation per stream, drawn at random; every walk exported)
PLANS = {
    "quick": [
        # first: the plan whose runs return most packets (the binding self-test draws from it)
        dict(name="grow-b4", mode="bfs", heads="MC_HeadsG", alpha="MC_AlphaG", blocks=4, grid="MC_CfgsReads", cuts="MC_CutsNone", mod=4, workers=3, step=8),
        dict(name="writer-b3", mode="bfs", heads="MC_HeadsW", alpha="MC_AlphaW", blocks=3, grid="MC_CfgsPair", cuts="MC_CutsFew", mod=2, workers=3),
        dict(name="mixed-b5", mode="bfs", heads="MC_HeadsOne", alpha="MC_AlphaMix", blocks=5, grid="MC_CfgsMix", cuts="MC_CutsOff", mod=4, workers=2, full=True),
        dict(name="sections-b3", mode="bfs", heads="MC_HeadsS", alpha="MC_AlphaSSmall", blocks=3, grid="MC_CfgsPair", cuts="MC_CutsFew", mod=4, workers=3),
        dict(name="hostile-b3", mode="bfs", heads="MC_HeadsH", alpha="MC_AlphaHSmall", blocks=3, grid="MC_CfgsPair", cuts="MC_CutsNone", mod=4, workers=2),
        dict(name="hostile-b4", mode="bfs", heads="MC_HeadsOne", alpha="MC_AlphaHSmall", blocks=4, grid="MC_CfgsPair", cuts="MC_CutsNone", mod=16, workers=3, full=True),
        dict(name="big", mode="bfs", script="MC_ScriptBig", heads="MC_HeadsG", alpha="MC_AlphaG", blocks=5, grid="MC_CfgsReads", cuts="MC_CutsOff", mod=1, workers=2),
        dict(name="sim-b7", mode="sim", heads="MC_HeadsSim", alpha="MC_AlphaSim", blocks=7, grid="MC_CfgsAll", cuts="MC_CutsMore", mod=1, walks=40, workers=2, full=True),
    ],
    "thorough": [
        dict(name="grow-b5", mode="bfs", heads="MC_HeadsG", alpha="MC_AlphaG", blocks=5, grid="MC_CfgsPlain", cuts="MC_CutsFew", mod=32, workers=4, step=8),
        dict(name="writer-b4-all", mode="bfs", heads="MC_HeadsW", alpha="MC_AlphaW", blocks=4, grid="MC_CfgsAll", cuts="MC_CutsFew", mod=64, workers=6),
        dict(name="writer-b4-small", mode="bfs", heads="MC_HeadsW", alpha="MC_AlphaWSmall", blocks=4, grid="MC_CfgsAll", cuts="MC_CutsMore", mod=64, workers=4, full=True),
        dict(name="mixed-b6", mode="bfs", heads="MC_HeadsOne", alpha="MC_AlphaMix", blocks=6, grid="MC_CfgsMix", cuts="MC_CutsFew", mod=32, workers=4, full=True),
        dict(name="writer-b3-every-offset", mode="bfs", heads="MC_HeadsW", alpha="MC_AlphaW", blocks=3, grid="MC_CfgsPlain", cuts="MC_CutsAll", mod=32, workers=4),
        dict(name="writer2-b4", mode="bfs", heads="MC_HeadsW", alpha="MC_AlphaW2", blocks=4, grid="MC_CfgsQuick", cuts="MC_CutsFew", mod=64, workers=6, full=True),
        dict(name="sections-b4", mode="bfs", heads="MC_HeadsS", alpha="MC_AlphaS", blocks=4, grid="MC_CfgsQuick", cuts="MC_CutsFew", mod=128, workers=6),
        dict(name="sections-b3-all", mode="bfs", heads="MC_HeadsS", alpha="MC_AlphaS", blocks=3, grid="MC_CfgsAll", cuts="MC_CutsMore", mod=32, workers=4),
        dict(name="sections2-b4", mode="bfs", heads="MC_HeadsS", alpha="MC_AlphaS2", blocks=4, grid="MC_CfgsPair", cuts="MC_CutsFew", mod=128, workers=6, full=True),
        dict(name="hostile-b3-all", mode="bfs", heads="MC_HeadsH", alpha="MC_AlphaH1", blocks=3, grid="MC_CfgsAll", cuts="MC_CutsFew", mod=32, workers=4),
        dict(name="hostile1-b4", mode="bfs", heads="MC_HeadsOne", alpha="MC_AlphaH1", blocks=4, grid="MC_CfgsQuick", cuts="MC_CutsFew", mod=64, workers=6, full=True),
        dict(name="hostile2-b4", mode="bfs", heads="MC_HeadsOne", alpha="MC_AlphaH2", blocks=4, grid="MC_CfgsPair", cuts="MC_CutsFew", mod=128, workers=6, full=True),
        dict(name="big", mode="bfs", script="MC_ScriptBig", heads="MC_HeadsG", alpha="MC_AlphaG", blocks=5, grid="MC_CfgsPlain", cuts="MC_CutsFew", mod=1, workers=2),
        dict(name="big-snaplen", mode="bfs", script="MC_ScriptBigSnap", heads="MC_HeadsG", alpha="MC_AlphaG", blocks=5, grid="MC_CfgsReads", cuts="MC_CutsNone", mod=1, workers=2),
        dict(name="sim-b7", mode="sim", heads="MC_HeadsSim", alpha="MC_AlphaSim", blocks=7, grid="MC_CfgsAll", cuts="MC_CutsMore", mod=1, walks=1500, workers=3, full=True),
        dict(name="sim-b10", mode="sim", heads="MC_HeadsSim", alpha="MC_AlphaSim", blocks=10, grid="MC_CfgsAll", cuts="MC_CutsMore", mod=1, walks=800, workers=3, full=True),
    ],
}

# pre-fix shapes of the code (fix commits that touched ngread.go): each must be refuted by TLC, by the named invariant
DEFECTS = [
    dict(name="option-values-not-length-checked", fix="a6be975", subst={r"CheckOptLen = TRUE": "CheckOptLen = FALSE"}, heads="MC_HeadsOne", alpha="MC_AlphaHSmall",
         blocks=3, refuted_by="ImplSatisfiesProp", reason="panic",
         what="option values parsed without checking their length (index out of range) and if_tsresol accepted with a divisor that does not "
              "fit 64 bits (integer divide by zero)"),
    dict(name="zero-length-option-keeps-previous-value", fix="6e4acd8", subst={r"ZeroLenResets = TRUE": "ZeroLenResets = FALSE"}, heads="MC_HeadsW",
         alpha="MC_AlphaWSmall", blocks=3, refuted_by="ImplSatisfiesProp", reason="comment-option-altered",
         what="readOption leaves currentOption.value untouched for a zero-length option: an empty comment reads back as the previous option's bytes"),
    dict(name="packet-lengths-not-validated", fix="bac4e1f", subst={r"CheckPktLen = TRUE": "CheckPktLen = FALSE"}, heads="MC_HeadsOne", alpha="MC_AlphaHSmall",
         blocks=3, refuted_by="ImplSatisfiesProp", reason="capture-length-exceeds-length",
         what="capture length used unchecked: packets returned with capture length above the original length (and make() of a forged length)"),
]


def _subst(plan, seed, extra=None):
    s = {r"Heads <- \w+": "Heads <- %s" % plan["heads"], r"Alphabet <- \w+": "Alphabet <- %s" % plan["alpha"],
         r"MaxBlocks = \d+": "MaxBlocks = %d" % plan["blocks"], r"Cfgs <- \w+": "Cfgs <- %s" % plan["grid"],
         r"CutDeltas <- \w+": "CutDeltas <- %s" % plan["cuts"], r"ReadStep = \d+": "ReadStep = %d" % plan.get("step", 65536),
         r"Seed = \d+": "Seed = %d" % (seed % 1000), r"Script <- \w+": "Script <- %s" % plan.get("script", "MC_NoScript"),
         r"FullOnly = \w+": "FullOnly = %s" % ("TRUE" if plan.get("full") else "FALSE"),
         r"RandomStart = \w+": "RandomStart = %s" % ("TRUE" if plan["mode"] == "sim" else "FALSE"),
         r"ExportMod = \d+": "ExportMod = %d" % plan["mod"], r"ExportRem = \d+": "ExportRem = %d" % (seed % plan["mod"])}
    s.update(extra or {})
    return s


def _printed(r, tag):
    return [l[len(tag):] for l in r.printed if isinstance(l, str) and l.startswith(tag)]


_TAGS = None


def all_tags():
    """Decision names of the transcription: every hyphenated string literal of the spec that is not an error class."""
    global _TAGS
    if _TAGS is None:
        txt = open(os.path.join(vlib.SPECS, SPEC)).read()
        txt = txt[txt.index("(* results, tags, events *)"):txt.index("(* the machine:")]
        lits = set(re.findall(r'"([a-z0-9]+(?:-[a-z0-9]+)+)"', txt))
        errors = {"eoo-len", "short-opt", "dsb-len", "dsb-read", "nrb-name", "nrb-read", "nrb-discard", "no-iface", "no-iface-spb", "cap-len", "cap-block",
                  "slice-bounds-filter", "index-tsresol", "divide-by-zero",
                  "idb-tsoffset-stale", "open-gzip"}          # the last two: pre-fix shape only / outside the model
        _TAGS = sorted(t for t in lits - errors if not t.startswith(("panic-", "index-")))
    return _TAGS


def check_and_export(plan, seed, wd):
    """TLC: ImplSatisfiesProp + structural invariants; returns (TLCResult, behaviours, counterexamples)."""
    if plan["mode"] == "sim":
        r = vlib.tlc(MODULE, workdir=wd, timeout=3000, workers=plan["workers"], heap="6g", cfg_subst=_subst(plan, seed),
                     simulate="num=%d" % plan["walks"], depth=plan["blocks"] * 2 + 8, seed=seed)
        m = re.search(r"The number of states generated: (\d+)", r.out)
        r.generated = r.distinct = int(m.group(1)) if m else 0
        if r.error and not r.violated and "Finished in" not in r.out:
            raise vlib.Infra("TLC simulation failed on %s:\n%s" % (MODULE, r.error))
    else:
        r = vlib.tlc(MODULE, workdir=wd, timeout=3000, workers=min(vlib.NCPU, plan.get("workers", 6)), heap="10g", cfg_subst=_subst(plan, seed))
    beh = list(dict.fromkeys(_printed(r, "BEH ")))
    sig = list(dict.fromkeys(_printed(r, "SIG ")))
    beh += [l for l in sig if l not in set(beh)]
    beh = beh[:plan.get("cap", 10 ** 9)]
    dec = set()
    for l in beh:
        dec |= set(json.loads(l)["sig"])
    r.decisions = sorted(dec)
    r.nsig = len(sig)
    cex = [json.loads(l) for l in _printed(r, "CEX ")]
    return r, beh, cex


def defect_run(d, wd):
    """The pre-fix shape must be refuted by TLC; returns dict with the counterexample."""
    plan = dict(heads=d["heads"], alpha=d["alpha"], blocks=d["blocks"], grid="MC_CfgsPlain", cuts="MC_CutsNone", mod=1, mode="bfs")
    sub = _subst(plan, 0, d["subst"])
    sub[r"ExportRem = \d+"] = "ExportRem = 1"          # nothing exported (hash % 1 = 0)
    sub[r"ExportSig = TRUE"] = "ExportSig = FALSE"
    sub[r"INVARIANTS[^\n]*"] = "INVARIANTS ImplSatisfiesProp"
    r = vlib.tlc(MODULE, workdir=wd, timeout=900, workers=1, cfg_subst=sub)
    cex = [json.loads(l) for l in _printed(r, "CEX ")]
    cex = [c for c in cex if c.get("inv") == r.violated and any(v[0] == d["reason"] for v in c["verdicts"])] or cex
    c = cex[0] if cex else None
    short = None
    if c:
        short = {"cfg": c["cfg"], "cut": c["cut"], "blocks": [b["k"] for b in c["stream"]], "verdicts": c["verdicts"]}
    return {"name": d["name"], "what": d["what"], "repaired_by": d["fix"], "expected_refutation": d["refuted_by"], "expected_reason": d["reason"],
            "violated": r.violated, "states": r.distinct, "wall_s": round(r.wall, 1), "counterexample": short, "_cex": c}


def replay(binp, beh_lines, wd, tag, seed=1, max14=10 ** 9):
    """model -> implementation.  Returns (stats, drift examples, C14 trace path, C15 trace path)."""
    os.makedirs(wd, exist_ok=True)
    bp = os.path.join(wd, "beh-%s.ndjson" % tag)
    with open(bp, "w") as f:
        f.write("\n".join(beh_lines) + "\n")
    t14 = os.path.join(wd, "trace14-%s.ndjson" % tag)
    t15 = os.path.join(wd, "trace15-%s.ndjson" % tag)
    dp = os.path.join(wd, "drift-%s.ndjson" % tag)
    p = vlib.run([binp, "-behaviours", bp, "-trace14", t14, "-trace15", t15, "-drift", dp, "-seed", str(seed), "-max14", str(max14)],
                 timeout=3000, ok_codes=(0, 3))
    st = json.loads(p.stdout.strip().splitlines()[-1])
    if st.get("hang"):
        # the real reader did not return: the driver has written a hang event into the C15 trace (NgReader!JudgeR rejects it:
        # "never hangs" is a clause of C15) and stopped; what it had not yet recorded is missing
        log("[impl] ngread_impl: a reader call did not return within 60 s (after %s calls) - recorded as a hang event" % st.get("scenarios"))
        for k, v in (("scenarios", 0), ("compared_calls", 0), ("drift", 0), ("drift_kinds", {}), ("packets", 0), ("ends", {}), ("writer_streams", 0),
                     ("events14", 0)):
            st[k] = v
        st["events15"] = sum(1 for _ in open(t15)) if os.path.exists(t15) else 0
        for path in (t14, t15, dp):
            if not os.path.exists(path):
                open(path, "w").close()
    return st, vlib.read_ndjson(dp), t14, t15


def _validate(module, path, name, **kw):
    for attempt in range(3):          # other builders may be writing specs/ while vlib copies it
        try:
            return vlib.validate_trace(module, path, name, **kw)
        except OSError as ex:
            log("[%s] retrying trace validation after %s" % (name, ex))
            time.sleep(1 + attempt)
    return vlib.validate_trace(module, path, name, **kw)


def validate(t14, t15, tag):
    """implementation -> model: PcapFile!Judge / NgReader!JudgeR over what the real code did.
    Returns (v14, v15, [(property, badrec, events)])."""
    out = []
    n14 = sum(1 for _ in open(t14))
    with ThreadPoolExecutor(max_workers=2) as ex:
        f14 = ex.submit(_validate, "PcapFileTrace", t14, "x14-" + tag, heap="6g", timeout=3000) if n14 else None
        f15 = ex.submit(_validate, "NgReaderTrace", t15, "x15-" + tag, heap="6g", timeout=3000)
        v14 = f14.result() if f14 else {"bad": [], "nbad": 0, "states": 0, "lines": 0}
        v15 = f15.result()
    if v14["bad"]:
        ev = vlib.read_ndjson(t14)
        for b in v14["bad"]:
            lo = b["line"] - 1
            while lo > 0 and ev[lo]["op"] != "scn":
                lo -= 1
            out.append(("C14", b, [ev[lo], ev[b["line"] - 1]]))
    if v15["bad"]:
        ev = vlib.read_ndjson(t15)
        for b in v15["bad"]:
            lo = b["line"] - 1
            while lo > 0 and ev[lo]["op"] != "case":
                lo -= 1
            out.append(("C15", b, ev[lo:b["line"]]))
    return v14, v15, out


STRIDE = 1000000          # scenario / case numbers of plan i are shifted by (i + 1) * STRIDE in the combined traces


def validate_all(parts, wd):
    """One PcapFileTrace and one NgReaderTrace run over the traces of all plans.  parts = [(t14, t15)];
    returns (states, [per plan: [(property, badrec, events)]])."""
    c14, c15 = os.path.join(wd, "all14.ndjson"), os.path.join(wd, "all15.ndjson")
    with open(c14, "w") as o14, open(c15, "w") as o15:
        for i, (t14, t15) in enumerate(parts):
            for src, dst, key in ((t14, o14, '"sc":'), (t15, o15, '"cs":')):
                with open(src) as f:
                    for line in f:
                        e = json.loads(line)
                        k = key[1:-2]
                        e[k] += (i + 1) * STRIDE
                        dst.write(json.dumps(e) + "\n")
    v14, v15, bad = validate(c14, c15, "all")
    per = [[] for _ in parts]
    for prop, b, evs in bad:
        k = "sc" if prop == "C14" else "cs"
        i = b[k] // STRIDE - 1
        b[k] %= STRIDE
        per[i].append((prop, b, evs))
    return v14["states"] + v15["states"], per


def self_test(binp, beh_lines, wd):
    """Binding self-tests.  (a) drift comparison: predictions with one corrupted field must be reported as drift for
    exactly those runs.  (b) trace specs: a recorded good trace with one corrupted field must be rejected at exactly
    that scenario / case, the pristine one accepted."""
    picks = [l for l in beh_lines if '"op":"pkt"' in l and '"wf":true' in l][:30]
    if len(picks) < 6:
        raise vlib.Infra("self-test: not enough runs with packets over writer streams (%d)" % len(picks))
    corrupted, want = [], set()
    for i, l in enumerate(picks):
        b = json.loads(l)
        pk = next(e for c in b["pred"] for e in c if e["op"] == "pkt")
        end = next(e for c in b["pred"] for e in c if e["op"] == "end")
        meta = next(e for c in b["pred"] for e in c if e["op"] == "meta")
        if i % 5 == 0:
            pk["ns"] = (pk["ns"] + 1) % 1000000000          # timestamp one nanosecond off
            want.add(i + 1)
        elif i % 5 == 1:
            pk["dh"] = (pk["dh"] + 1) % 65521               # another data checksum
            want.add(i + 1)
        elif i % 5 == 2:
            end["kind"] = "ueof" if end["kind"] != "ueof" else "eof"
            want.add(i + 1)
        elif i % 5 == 3:
            meta["nif"] += 1                                 # one more interface in the table
            want.add(i + 1)
        corrupted.append(json.dumps(b))
    st, drift, t14, t15 = replay(binp, corrupted, wd, "selftest")
    got = set(d["sc"] for d in drift)
    if got != want or st["drift"] != len(want):
        raise vlib.Infra("self-test: drift comparison reported %s, expected %s" % (sorted(got), sorted(want)))
    v14, v15, bad = validate(t14, t15, "self0")
    if bad:
        raise vlib.Infra("self-test: pristine recorded traces rejected: %s" % [b[1] for b in bad][:2])
    out = {"drift_comparison_corrupted_predictions_detected": len(want)}
    # C14 trace: the second scenario reads one capture length one too large, the third ends a truncated read with another
    # error, the fourth shows every retained AncillaryData with the link type of the last packet
    ev = vlib.read_ndjson(t14)
    scs = sorted(set(e["sc"] for e in ev))
    if len(scs) < 3:
        raise vlib.Infra("self-test: not enough recorded writer streams")
    ev2 = json.loads(json.dumps(ev))
    rd = next(e for e in ev2 if e["sc"] == scs[1] and e["op"] == "read" and e["pk"])
    rd["pk"][0]["cap"] += 1
    cu = [e for e in ev2 if e["sc"] == scs[2] and e["op"] == "cuts" and e["end"] == "ueof"][-1]
    cu["end"] = "other"
    want14 = {scs[1]: "capture-length-altered", scs[2]: "not-eof-or-unexpected-eof"}
    tp = os.path.join(wd, "selftest14.ndjson")
    with open(tp, "w") as f:
        f.write("".join(json.dumps(e) + "\n" for e in ev2))
    v = _validate("PcapFileTrace", tp, "x14-self1", timeout=900)
    got14 = {b["sc"]: b["reason"] for b in v["bad"]}
    if got14 != want14:
        raise vlib.Infra("self-test: corrupted C14 trace not rejected exactly at %s: %s" % (want14, v["bad"]))
    out["pcapfile_trace_rejects"] = sorted(want14.values())
    # C15 trace: a returned packet whose data is one byte longer than its capture length; a run that ends without error
    ev = vlib.read_ndjson(t15)
    ev2 = json.loads(json.dumps(ev))
    modes = [e for e in ev2 if e["op"] == "mode" and any(g["calls"] for g in e["groups"])]
    a, b2 = modes[0], modes[len(modes) // 2]
    if a["cs"] == b2["cs"]:
        raise vlib.Infra("self-test: not enough recorded cases with packets")
    next(g for g in a["groups"] if g["calls"])["calls"][0][5] += 1
    for g in b2["groups"]:
        if any(s["k"] == "whole" for s in g["shapes"]):
            g["end"] = "none"
    want15 = {a["cs"]: "data-length-differs-from-capture-length", b2["cs"]: "no-error-at-end-of-stream"}
    tp = os.path.join(wd, "selftest15.ndjson")
    with open(tp, "w") as f:
        f.write("".join(json.dumps(e) + "\n" for e in ev2))
    v = _validate("NgReaderTrace", tp, "x15-self1", timeout=900)
    got15 = {b["cs"]: b["reason"] for b in v["bad"]}
    if got15 != want15:
        raise vlib.Infra("self-test: corrupted C15 trace not rejected exactly at %s: %s" % (want15, v["bad"]))
    out["ngreader_trace_rejects"] = sorted(want15.values())
    return out


def plan_pipeline(plan, seed, binp, wd, quick):
    """One plan, first half: TLC (check + export) -> replay on the real code -> comparison.  The traces are validated
    together with those of the other plans (validate_all)."""
    r, beh, cex = check_and_export(plan, seed, os.path.join(wd, "tlc"))
    rec = {"plan": plan, "tlc_states": r.distinct, "tlc_generated": r.generated, "depth": r.depth, "tlc_wall_s": round(r.wall, 1),
           "invariants": INVS, "violated": r.violated, "behaviours_exported": len(beh), "exported_for_a_new_code_decision": r.nsig,
           "code_decisions_exercised": r.decisions}
    extra = []
    if r.violated:
        # a design-level counterexample of the transcription is not a verdict about the code: it is replayed
        rec["model_counterexamples"] = [{"cfg": c["cfg"], "cut": c["cut"], "blocks": [b["k"] for b in c["stream"]], "verdicts": c["verdicts"], "inv": c["inv"]}
                                        for c in cex[:3]]
        extra = [json.dumps({k: c[k] for k in c if k != "pred"}) for c in cex[:20]]
    if not beh and not extra:
        raise vlib.Infra("%s exported no behaviours for plan %s" % (MODULE, plan["name"]))
    t1 = time.time()
    st, drift, t14, t15 = replay(binp, beh + extra, wd, "main", seed, max14=250 if quick else 2500)
    log("[impl] %s: %d states in %.1fs, violated=%s; %d runs replayed in %.1fs, drift %d, %d writer streams, %d packets"
        % (plan["name"], r.distinct, r.wall, r.violated, st["scenarios"], time.time() - t1, st["drift"], st["writer_streams"], st["packets"]))
    rec.update({"replayed": st["scenarios"], "compared_calls": st["compared_calls"], "drift": st["drift"], "drift_kinds": st["drift_kinds"],
                "packets_returned": st["packets"], "ends": st["ends"], "writer_streams_with_every_cut_offset": st["writer_streams"],
                "events_c14": st["events14"], "events_c15": st["events15"]})
    samples = []
    with open(t15) as f:
        samples = [json.loads(l) for l in itertools.islice(f, 2)]
    if st["events14"]:
        with open(t14) as f:
            samples += [json.loads(l) for l in itertools.islice(f, 2)]
    return {"rec": rec, "drift": drift, "samples": samples, "beh": beh, "traces": (t14, t15)}


def cex_pipeline(fdefects, binp, wd):
    """The counterexamples of the pre-fix shapes are replayed on the real code: today's code must not show them."""
    runs = [f.result() for f in fdefects]
    for d in runs:
        if d["violated"] != d["expected_refutation"] or not d["_cex"] or not any(v[0] == d["expected_reason"] for v in d["_cex"]["verdicts"]):
            raise vlib.Infra("defect-finding run %s: TLC did not refute the pre-fix shape by %s / %s (violated=%s, %s)"
                             % (d["name"], d["expected_refutation"], d["expected_reason"], d["violated"], d["counterexample"]))
    lines = [json.dumps({k: d["_cex"][k] for k in d["_cex"] if k != "pred"}) for d in runs]
    st, _, t14, t15 = replay(binp, lines, wd, "cex")
    for d in runs:
        d.pop("_cex")
    return runs, (t14, t15)


def run_impl(ctx, verdict_for, with_self_test=True):
    """Runs the whole Impl-layer pipeline.  verdict_for(reason, property) -> vlib.Verdict that owns a rejection.
    Returns the coverage dict for the evidence."""
    t0 = time.time()
    quick = ctx.tier == "quick"
    wd = vlib.scratch("x14impl-%s" % ctx.tier)
    binp = vlib.go_build(DRIVER)
    plans = PLANS[ctx.tier]
    cov = {"model": dict(module="%s / NgReaderImplEnc.tla / %s.tla" % (SPEC, MODULE), transcribes=SOURCE,
                         code_shape={"CheckOptLen": True, "ZeroLenResets": True, "CheckPktLen": True}),
           "plans": [], "defect_finding_runs": [], "impl_drift": {"behaviours_with_drift": 0, "kinds": {}, "examples": []},
           "states": 0, "transitions": 0, "traces_validated_against_impl": 0, "trace_events_validated": 0,
           "calls_compared_model_vs_code": 0, "rejected_real_scenarios": 0, "samples": []}

    def reject(prop, b, evs, **more):
        V = verdict_for(b["reason"], prop)
        if V is None:
            return
        payload = {"driver": "ngread_impl", "bad": b, "events": evs}
        payload.update(more)
        if prop == "C14":
            V.reject({"reason": b["reason"], "format": "ng", "call": b.get("mode", "-")}, payload)
        else:
            V.reject({"reader": "ng", "locator": b.get("loc", "-"), "reason": b["reason"], "site": b.get("site", "")}, payload)

    try:
        with ThreadPoolExecutor(max_workers=16) as ex:
            fd = [ex.submit(defect_run, d, os.path.join(wd, "defect-" + d["name"])) for i, d in enumerate(DEFECTS)
                  if not quick or i in (ctx.seed % 3, (ctx.seed + 1) % 3)]      # quick: two of the three per run, rotating with the seed
            fc = ex.submit(cex_pipeline, fd, binp, os.path.join(wd, "cex"))
            with ThreadPoolExecutor(max_workers=8 if quick else 4) as ex2:
                fp = [ex2.submit(plan_pipeline, p, ctx.seed, binp, os.path.join(wd, "plan-" + p["name"]), quick) for p in plans]
                # the binding self-test runs on the behaviours of the first plan, beside the other plans
                first = fp[0].result()
                fs = ex.submit(self_test, binp, first["beh"], os.path.join(wd, "selftest")) if with_self_test else None
                results = [f.result() for f in fp]
            runs, cextr = fc.result()
            t1 = time.time()
            vstates, per = validate_all([res["traces"] for res in results] + [cextr], wd)
            log("[impl] trace validation (PcapFileTrace + NgReaderTrace over %d + %d events of all plans): %.1fs, %d rejected"
                % (sum(r["rec"]["events_c14"] for r in results), sum(r["rec"]["events_c15"] for r in results), time.time() - t1, sum(len(x) for x in per)))
            cov["states"] += vstates
            for res, bad in zip(results, per):
                rec = res["rec"]
                rec["rejected"] = len(bad)
                cov["plans"].append(rec)
                cov["states"] += rec["tlc_states"]
                cov["transitions"] += rec["tlc_generated"]
                cov["traces_validated_against_impl"] += rec["replayed"] + rec["writer_streams_with_every_cut_offset"]
                cov["trace_events_validated"] += rec["events_c14"] + rec["events_c15"]
                cov["calls_compared_model_vs_code"] += rec["compared_calls"]
                cov["rejected_real_scenarios"] += rec["rejected"]
                cov["impl_drift"]["behaviours_with_drift"] += rec["drift"]
                for k, n in rec["drift_kinds"].items():
                    cov["impl_drift"]["kinds"][k] = cov["impl_drift"]["kinds"].get(k, 0) + n
                cov["impl_drift"]["examples"] += res["drift"][:max(0, 8 - len(cov["impl_drift"]["examples"]))]
                cov["samples"] = cov["samples"] or res["samples"]
                for prop, b, evs in bad:
                    reject(prop, b, evs, plan=rec["plan"])
            done = sorted(set(t for p in cov["plans"] for t in p["code_decisions_exercised"]))
            cov["code_decisions_exercised"] = done
            cov["code_decisions_total"] = len(all_tags())
            cov["code_decisions_not_exercised"] = [t for t in all_tags() if t not in done]
            for p in cov["plans"]:
                p["code_decisions_exercised"] = len(p["code_decisions_exercised"])
            # the counterexamples of the pre-fix shapes on today's code
            bad = per[-1]
            for prop, b, evs in bad:
                sc = b.get("cs", b.get("sc"))
                if prop == "C15" and 1 <= sc <= len(runs):
                    runs[sc - 1]["real_code"] = "REJECTED by NgReader!JudgeR: %s" % b["reason"]
                else:
                    runs[0]["real_code_c14"] = "REJECTED by PcapFile!Judge: %s" % b["reason"]
                reject(prop, b, evs, counterexample_of=[d["name"] for d in runs])
            for d in runs:
                d.setdefault("real_code", "accepted (today's code does not show the model's counterexample)")
            cov["defect_finding_runs"] = runs
            cov["states"] += sum(d["states"] for d in runs)
            cov["traces_validated_against_impl"] += len(runs)
            cov["rejected_real_scenarios"] += len(bad)
            deviates = cov["rejected_real_scenarios"] > 0 or cov["impl_drift"]["behaviours_with_drift"] > 0
            if fs is not None:
                try:
                    cov["binding_self_tests"] = fs.result()
                except vlib.Infra as e:
                    # the self-test presupposes a code base the model agrees with; with drift or rejections it is moot
                    if not deviates:
                        raise
                    cov["binding_self_tests"] = "skipped (the real code deviates from the model in this run): %s" % str(e)[:200]
    finally:
        shutil.rmtree(wd, ignore_errors=True)
    cov["impl_wall_s"] = round(time.time() - t0, 1)
    if cov["impl_drift"]["behaviours_with_drift"]:
        log("IMPL-DRIFT: %d replayed runs differ from the prediction of %s (first differing call: %s) - not a verdict"
            % (cov["impl_drift"]["behaviours_with_drift"], SPEC, cov["impl_drift"]["kinds"]))
        for d in cov["impl_drift"]["examples"][:2]:
            log("  e.g. cfg=%s %s call#%d\n    predicted %s\n    observed  %s" % (d["cfg"], d["ops"][:300], d["op_index"], d["predicted"], d["observed"]))
    return cov
