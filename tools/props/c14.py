"""C14 - Capture files round-trip; a truncated file yields a true prefix of packets.

PcapFile.tla defines the framing of classic pcap and pcapng files as functions (header / record / block lengths,
option TLVs with 32-bit padding, end-of-options) and the truncation law ReadPrefix(file, cut).  PcapFileGen.tla
enumerates the scenarios (<= 3 packets, capture lengths {0,1,2,3,4,5,17}, micro/nano writer, 1-2 interfaces before or
after the first packet, same or mixed link types, string options of every length of {0,1,3,4,5}, per-packet comment /
flags / hash / drop count / packet id / queue / verdict options) and checks an ideal block-by-block reader against the
law at every offset.  harness/cmd/pcapio writes every scenario with the real writer, observes size, block walk and the
offset after every writer call, reads it back with every read call (copying, zero-copy, with options), hands it to
libpcap, and re-reads EVERY prefix of the file; TLC validates each observation (PcapFileTrace.tla)."""
import json, os, random, shutil, time
from concurrent.futures import ThreadPoolExecutor
import vlib
from vlib import log

def validate(module, path, name, **kw):
    """vlib.validate_trace copies specs/ into a scratch directory; other builders may be writing files there at the same
    moment (a file vanishing between glob and copy raises OSError), so a failed copy is retried."""
    for attempt in range(3):
        try:
            return vlib.validate_trace(module, path, name, **kw)
        except OSError as ex:
            log("[%s] retrying trace validation after %s" % (name, ex))
            time.sleep(1 + attempt)
    return vlib.validate_trace(module, path, name, **kw)


PID = "C14"


def build():
    """pcapio with the libpcap clause (cgo, /repo/pcap) when it builds, without it otherwise."""
    try:
        return vlib.go_build("./cmd/pcapio", name="pcapio_lib", tags="verif,libpcap"), True
    except vlib.Infra as ex:
        log("[C14] libpcap (cgo) build not available, clause skipped: %s" % str(ex).splitlines()[-1][:200])
        return vlib.go_build("./cmd/pcapio"), False


def selftest(wd, good_events, good_mixed=None):
    """Binding of the trace spec: a recorded good scenario is accepted, and the same scenario with one corrupted
    field (one more packet at a cut, a shifted file size, an altered capture length, retained data or retained
    AncillaryData overwritten by the last read) is rejected."""
    def clone(evs, sc):
        out = []
        for e in evs:
            e = json.loads(json.dumps(e))
            e["sc"] = sc
            out.append(e)
        return out
    t = clone(good_events, 1)
    a = clone(good_events, 2)
    cuts = [e for e in a if e["op"] == "cuts" and e["hi"] - e["lo"] > 1 and e["end"] == "ueof"]
    cuts[-1]["end"] = "other"                      # an error that is neither EOF nor unexpected EOF
    b = clone(good_events, 3)
    [e for e in b if e["op"] == "file"][0]["size"] += 1
    c = clone(good_events, 4)
    rd = [e for e in c if e["op"] == "read"][0]
    rd["pk"][0]["cap"] += 1
    d = clone(good_events, 5)
    cu = [e for e in d if e["op"] == "cuts" and e["k"] == 0][-1]     # last run without the first packet ...
    nxt = [e for e in d if e["op"] == "read"][0]["pk"][0]["td"]
    cu["k"], cu["tds"] = 1, [nxt]                                     # ... claims to have returned it
    g = clone(good_events, 6)
    rd = [e for e in g if e["op"] == "read" and e["mode"] == "copy"][0]
    for pkt in rd["pk"]:
        pkt["dd"] = rd["pk"][-1]["dd"]              # every retained data slice shows the bytes of the last packet
    want = {2: "not-eof-or-unexpected-eof", 3: "file-size-differs-from-framing", 4: "capture-length-altered",
            5: "packet-not-wholly-in-prefix-returned", 6: "data-altered"}
    extra = []
    if good_mixed is not None:
        extra = clone(good_mixed, 7) + clone(good_mixed, 8)
        rd = [e for e in extra if e["sc"] == 8 and e["op"] == "read" and e["mode"] == "copy" and e["mix"]][0]
        for pkt in rd["pk"]:
            pkt["lt"] = rd["pk"][-1]["lt"]          # every retained AncillaryData shows the link type of the last packet
        want[8] = "link-type-altered"
    tp = os.path.join(wd, "selftest.ndjson")
    with open(tp, "w") as f:
        for e in t + a + b + c + d + g + extra:
            f.write(json.dumps(e) + "\n")
    v = validate("PcapFileTrace", tp, "c14self", timeout=600)
    got = {b_["sc"]: b_["reason"] for b_ in v["bad"]}
    if got != want:
        raise vlib.Infra("PcapFileTrace binding self-test failed: expected %s, got %s" % (want, got))
    return len(want)


def run(ctx):
    t0 = time.time()
    quick = ctx.tier == "quick"
    V = vlib.Verdict(PID)
    binp, lib = build()
    wd = vlib.scratch("c14-%s" % ctx.tier)
    subst = {}
    if quick:
        # quick: one rotation and one pcapng head, both chosen by the seed
        subst = {r"VSet = \{[^}]*\}": "VSet = {%d}" % (ctx.seed % 5),
                 # ... plus always one head with two interfaces of different link types (4 or 5)
                 r"HeadSet = \{[^}]*\}": "HeadSet = {%d, %d}" % (1 + ctx.seed % 5, 4 + (ctx.seed // 5) % 2),
                 # one packet with freely chosen comment; all capture-length sequences up to 3 packets with rotated comments
                 r"MaxPk = \d+": "MaxPk = 1"}
    g = vlib.tlc("PcapFileGen", workdir=os.path.join(wd, "gen"), timeout=3000, workers=8, cfg_subst=subst or None)
    if g.violated:
        raise vlib.Infra("PcapFileGen.tla: %s violated (PcapFile.tla rejects the ideal reader / accepts the eager one)" % g.violated)
    scen = [l[4:] for l in g.printed if isinstance(l, str) and l.startswith("BEH ")]
    if not scen:
        raise vlib.Infra("PcapFileGen.tla exported no scenario")
    log("[C14] generated %d scenarios (%d states) in %.1fs" % (len(scen), g.distinct, g.wall))
    rnd = random.Random(ctx.seed)
    if quick:
        keep = scen[:12] + rnd.sample(scen[12:], min(len(scen) - 12, 1000))
    else:
        keep = scen
    nrand = 6 if quick else 40
    parts = 3 if quick else 8
    per = (len(keep) + parts - 1) // parts
    total_sc = total_ev = tstates = nbad = 0
    samples, good, goodmix = [], None, None
    libpcap_used = False

    def one(pi):
        part = keep[pi * per:(pi + 1) * per]
        if not part:
            return None
        sp = os.path.join(wd, "scen%d.ndjson" % pi)
        with open(sp, "w") as f:
            f.write("\n".join(part) + "\n")
        pd = os.path.join(wd, "p%d" % pi)
        os.makedirs(pd, exist_ok=True)
        tp = os.path.join(pd, "trace.ndjson")
        args = [binp, "-mode", "rt", "-scenarios", sp, "-trace", tp, "-seed", str(ctx.seed + pi), "-workers", "4",
                "-rand", str(nrand if pi == 0 else 0)]
        p = vlib.run(args, timeout=3000, ok_codes=(0, 3))
        st = json.loads(p.stdout.strip().splitlines()[-1])
        v = validate("PcapFileTrace", tp, "c14p%d" % pi, heap="6g", timeout=3000)
        return st, v, tp

    with ThreadPoolExecutor(max_workers=parts) as ex:
        results = list(ex.map(one, range(parts)))
    for r in results:
        if r is None:
            continue
        st, v, tp = r
        total_sc += st["scenarios"]
        total_ev += st["events"]
        tstates += v["states"]
        nbad += v["nbad"]
        libpcap_used = libpcap_used or st.get("libpcap", False)
        ev = None
        if v["bad"] or good is None or goodmix is None or not samples:
            ev = vlib.read_ndjson(tp)
        for b in v["bad"]:
            lo = b["line"] - 1
            while lo > 0 and ev[lo]["op"] != "scn":
                lo -= 1
            evs = ev[lo:b["line"]]
            V.reject({"reason": b["reason"], "format": b["fmt"], "call": b["mode"]},
                     {"bad": b, "scenario": evs[0].get("scen"), "rejected_event": evs[-1], "events": evs[:8]})
        if ev is not None:
            if not samples:
                samples = [e for e in ev[:40] if e["op"] in ("scn", "file", "cuts")][:6]
            if good is None or goodmix is None:
                badsc = {b["sc"] for b in v["bad"]}
                cur = []
                for e in ev:
                    if e["op"] == "scn":
                        cur = []
                    cur.append(e)
                    if e["op"] != "done" or e["sc"] in badsc:
                        continue
                    sc0 = cur[0]["scen"]
                    if good is None and sc0["fmt"] == "pcap" and len(sc0["items"]) >= 2 and sc0["items"][0]["cap"] > 0 and \
                       not any(b["fmt"] == "pcap" for b in v["bad"]):
                        good = cur
                    if goodmix is None and sc0["fmt"] == "ng" and sc0["mixed"] and \
                       all(it.get("tsoff", 0) == 0 for it in sc0["items"] if it["t"] == "idb") and \
                       {b["reason"] for b in v["bad"] if b["fmt"] == "ng"} <= {"timestamp-shifted-by-interface-offset"}:
                        rdm = [x for x in cur if x["op"] == "read" and x["mode"] == "copy" and x.get("mix")]
                        if rdm and len({pk["lt"] for pk in rdm[0]["pk"]}) >= 2 and rdm[0]["pk"][0]["lt"] != rdm[0]["pk"][-1]["lt"]:
                            goodmix = cur
                    if good is not None and goodmix is not None:
                        break
        os.remove(tp)
    nself = 0
    if good is not None:
        nself = selftest(wd, good, goodmix)
        log("[C14] binding self-test: %d corrupted copies of a recorded scenario rejected, the original accepted" % nself)
    elif not V.violations:
        raise vlib.Infra("no accepted scenario available for the binding self-test")
    # thorough tier: the implementation-shaped model of the pcapng reader (NgReaderImpl.tla): model checked against the
    # property specs, runs replayed on the real NgReader with predicted-vs-observed comparison, real traces judged
    impl = {}
    if ctx.tier != "quick":
        from . import ngreaderimpl as ni
        icov = ni.run_impl(ctx, lambda reason, prop: V if prop == PID else None)
        impl["impl_model"] = {k: icov[k] for k in ("model", "plans", "defect_finding_runs", "states", "traces_validated_against_impl",
                                                   "trace_events_validated", "calls_compared_model_vs_code", "rejected_real_scenarios",
                                                   "impl_drift", "code_decisions_total") if k in icov}
    rc = V.finish()
    assumptions = ["a crash of the writing process is modelled as a prefix of the flushed byte stream; torn writes inside the OS are out of scope",
                   "timestamps: seconds < 2^31 (TLC integers are 32 bit); pcapng writer resolution is fixed to nanoseconds by the library",
                   "quick tier replays the scenarios of one rotation / one pcapng head chosen by the seed (sampled to ~1000); thorough replays all"]
    if not libpcap_used:
        assumptions.append("libpcap clause SKIPPED: /repo/pcap (cgo, libpcap headers) did not build in this environment")
    else:
        assumptions.append("libpcap clause: pcap.OpenOffline through /repo/pcap on every scenario whose interfaces agree in link type and snap length")
    cov = {"states": g.distinct + tstates, "transitions": total_ev, "generator_states": g.distinct, "scenarios_generated": len(scen),
           "traces_validated_against_impl": total_sc, "trace_events_validated": total_ev, "rejected_scenarios": nbad,
           "selftest_corruptions_rejected": nself, "libpcap": libpcap_used,
           "evaluations": total_sc, "distinct_nontrivial": total_sc,
           "rule": "every scenario of PcapFileGen.tla within the bound (distinct by construction) x every cut offset 0..size x copying and zero-copy calls, plus seeded random files beyond the bound (up to 8 packets of up to 4097 bytes, option strings up to 1500 bytes; jumbo pcapng scenarios carry option values of 65533..65535 octets)",
           "samples": samples, "exhaustive": not quick}
    cov.update(impl)
    vlib.write_evidence(PID, ctx.tier, ctx.seed, "model_checking", cov, time.time() - t0, len(V.violations), assumptions)
    shutil.rmtree(wd, ignore_errors=True)
    return rc
