"""X23DNS - growth beyond the twenty properties (DESIGN.md section 8): DNS name decompression as a pointer graph.

DnsName.tla      Prop layer = ideal decompression with an explicit visited set (RFC 1035 3.1 / 4.1.4 plus the code's
                 documented limits; every walk is must-error, must-name or may), the record around the name, Judge;
                 Impl layer = transcription of decodeName (layers/dns.go) as a machine with an explicit call stack.
DnsNameMC.tla    TLC runs the transcription, one step per transition, on EVERY message over a small octet alphabet up
                 to the bound and every start offset: structural invariants in every state (index inside the data, stack
                 bounded by the recursion limit, steps bounded), ImplSatisfiesProp at the end; three broken shapes of the
                 code must be refuted; every message is exported.
cmd/dnsname      materialises each exported message at offset 256 of a real DNS message (question, owner name, NAPTR
                 RDATA; every start offset), adds seeded random messages far beyond the bound, decodes them three ways
                 in a child process (fatal errors and hangs become observations) and records the answers.
DnsNameTrace     validates every answer against the Prop layer (the only source of verdicts) and against the Impl layer
                 run to completion on the same octets (impl_drift, reported, never a verdict).

Verdict ownership: a panic that escapes NewPacket or a read-only use with recovery on, a hang, or a process death in
that mode is a violation of C01; a panic / process death with SkipDecodeRecovery or in DecodeFromBytes of C19; a wrong
name, a name for an invalid encoding, an error for a valid name, a wrong continuation offset or a modified input buffer
is a violation of X23DNS itself.

X23_STRICT_LEN=1 judges with RFC 1035 2.3.4 as a must clause (a name of more than 255 octets must be refused) instead
of `may`: a measurement of the decoder against the RFC (it fails on the pinned tree: the code limits each run of labels,
not the name), not the registered check; it writes no evidence."""
import json, os, time, shutil
from concurrent.futures import ThreadPoolExecutor
import vlib
from vlib import log

PID = "X23DNS"
PROPOSED = os.path.join(os.path.dirname(os.path.abspath(__file__)), "x23dns.findings.jsonl")
A7 = "{0, 1, 2, 3, 64, 128, 193}"
A6P = "{0, 1, 2, 3, 4, 193}"
A8 = "{0, 1, 2, 3, 4, 64, 128, 193}"
A7P = "{0, 1, 2, 3, 4, 5, 193}"
A9 = "{0, 1, 2, 3, 4, 5, 64, 128, 193}"
A8P = "{0, 1, 2, 3, 4, 5, 6, 193}"
# X23_STRICT_LEN=1: judge with the RFC 1035 2.3.4 clause (names over 255 octets must be refused) instead of `may`
TRACE_MODULE = "DnsNameTraceStrict" if os.environ.get("X23_STRICT_LEN") == "1" else "DnsNameTrace"


def proposed_findings(V):
    have = {f.get("id") for f in V.open}
    if os.path.exists(PROPOSED):
        for line in open(PROPOSED):
            line = line.strip()
            if line.startswith("{"):
                d = json.loads(line)
                if d.get("property") == V.pid and d.get("id") not in have:
                    V.open.append(d)


def subst(n, alpha, ml, export, shape="head"):
    return {r"N = \d+": "N = %d" % n, r"Alphabet = \{[^}]*\}": "Alphabet = " + alpha, r"MaxLevel = \d+": "MaxLevel = %d" % ml,
            r"DoExport = \w+": "DoExport = %s" % ("TRUE" if export else "FALSE"), r'Shape = "\w+"': 'Shape = "%s"' % shape}


def model(name, n, alpha, ml, export, wd, timeout, workers, shape="head"):
    g = vlib.tlc("DnsNameMC", workdir=os.path.join(wd, "mc-" + name), timeout=timeout, workers=workers, heap="6g",
                 cfg_subst=subst(n, alpha, ml, export, shape))
    msgs = [l[4:] for l in g.printed if isinstance(l, str) and l.startswith("BEH ")]
    return {"name": name, "N": n, "alphabet": alpha, "max_level": ml, "shape": shape, "violated": g.violated,
            "tlc_states": g.distinct, "tlc_generated": g.generated, "depth": g.depth, "messages_exported": len(msgs),
            "wall_s": round(g.wall, 1)}, msgs


def split_trace(lines, parts):
    """Cut at layout events so that every part starts with the layout in force."""
    if parts <= 1 or len(lines) < 2000:
        return [lines]
    starts = [i for i, l in enumerate(lines) if '"op":"lay"' in l]
    out, target, begin = [], len(lines) / float(parts), 0
    for s in starts:
        if s - begin >= target and len(out) < parts - 1:
            out.append(lines[begin:s])
            begin = s
    out.append(lines[begin:])
    return [o for o in out if o]


def self_test(lay_line, good_line, wd):
    """Binding self-test.  (1) a recorded good observation with one field corrupted is rejected by the Prop layer with the
    expected reason (and noticed by the Impl layer); (2) the same good trace judged with a corrupted prediction (the Impl
    layer in shape `nextafter`) is reported as drift and yields no verdict."""
    lay, good = json.loads(lay_line), json.loads(good_line)

    def mut(f):
        e = json.loads(good_line)
        f(e)
        return e
    name = good["b"][1][0]
    v1 = mut(lambda e: e["b"].__setitem__(1, [name + [120]]))                  # one octet appended to the name
    v2 = mut(lambda e: e["c"].__setitem__(2, [good["c"][2][0] + 1, good["c"][2][1]]))   # the type read one octet off
    v3 = mut(lambda e: (e.__setitem__("a", ["err", [], []]), e["ec"].__setitem__(0, "offhigh")))
    v4 = mut(lambda e: e.__setitem__("b", ["panic", [], []]))
    v5 = mut(lambda e: e.__setitem__("a", ["panic", [], []]))
    v6 = mut(lambda e: e["h"].__setitem__(2, good["h"][2] ^ 1))
    v7 = mut(lambda e: e.__setitem__("c", ["hang", [], []]))
    v8 = mut(lambda e: e.__setitem__("a", ["fatal", [], []]))
    # a region in which the name is a pointer to itself, reported as a name
    s0 = lay["at"] - 256
    cyc = dict(good, reg=good["reg"][:s0] + [193, s0] + good["reg"][s0 + 2:])
    seq = [lay, good, v1, v2, v3, v4, v5, v6, v7, v8]
    want = [(3, "wrong-name", "b"), (4, "wrong-next-offset", "c"), (5, "error-on-valid-name", "a"), (6, "panic-no-recovery", "b"),
            (7, "panic-recovery-on", "a"), (8, "input-modified", "h"), (9, "hang", "c"), (10, "crash", "a")]
    if lay["at"] + 2 <= 256 + len(good["reg"]):
        seq.append(cyc)
        want.append((11, "name-for-invalid-encoding", "a"))
    d = vlib.scratch("x23dns-selftest")
    tp = os.path.join(d, "trace.ndjson")
    open(tp, "w").write("".join(json.dumps(x) + "\n" for x in seq))
    v = vlib.validate_trace("DnsNameTrace", tp, "selftest", timeout=600)
    got = sorted((b["line"], b["reason"], b["mode"]) for b in v["bad"])
    if got != want or v["nbad"] != len(want):
        raise vlib.Infra("self-test: corrupted observations not rejected exactly as %s: got %s" % (want, got))
    if v["ndrift"] < len(want) - 1:        # the digest is not an Impl-layer matter
        raise vlib.Infra("self-test: Impl layer noticed only %d of the corrupted lines" % v["ndrift"])
    open(tp, "w").write(json.dumps(lay) + "\n" + json.dumps(good) + "\n")
    v = vlib.validate_trace("DnsNameTraceMut", tp, "selftest-mut", timeout=600)
    if v["ndrift"] != 1 or v["nbad"] != 0:
        raise vlib.Infra("self-test: a corrupted prediction (Impl shape nextafter) was not reported as drift only: %s" % v)
    shutil.rmtree(d, ignore_errors=True)
    return len(seq) + 2


def pick_selftest(lines):
    """A recorded OWN case whose name ends with a followed pointer (so that `nextafter` mispredicts it) and decodes in all modes."""
    lay = None
    for l in lines:
        if '"op":"lay"' in l:
            lay = l if '"ctx":"OWN"' in l and '"kind":"exh"' in l else None
            continue
        if lay is None or '"ok"' not in l:
            continue
        e = json.loads(l)
        la = json.loads(lay)
        s = la["at"] - 256
        r = e["reg"]
        # label, then a pointer that ends the region (so that the clean record tail of the layout follows the name)
        if e["a"][0] == e["b"][0] == e["c"][0] == "ok" and len(r) >= s + 4 and r[s] in (1, 2) and s + r[s] + 3 == len(r) \
                and r[-2] == 193 and r[-1] < s + 1 + r[s] and len(e["b"][1][0]) >= 1:
            return lay, l
    return None, None


def run(ctx):
    t0 = time.time()
    quick = ctx.tier == "quick"
    V = vlib.Verdict(PID)
    proposed_findings(V)
    v01, v19 = vlib.Verdict("C01"), vlib.Verdict("C19")
    wd = vlib.scratch("x23dns-%s" % ctx.tier)
    T = 900 if quick else 3000
    # (name, N, alphabet, MaxLevel, export, workers)
    if quick:
        plans = [("exp3", 3, A7, 255, True, 3), ("exp4p", 4, A6P, 32, True, 3), ("mc4", 4, A8, 32, False, 4)]
    else:
        plans = [("exp4", 4, A8, 255, True, 4), ("exp5p", 5, A7P, 32, True, 4), ("mc5", 5, A9, 32, False, 6), ("mc6p", 6, A8P, 12, False, 8)]
    controls = [("nolevel", {"StackBounded", "Terminates", "StepsBounded"}), ("noptrlen", {"NoReadOutside", "IndexInRange"}),
                ("nextafter", {"ImplSatisfiesProp", "NextIsInside"})]
    with ThreadPoolExecutor(max_workers=4 if quick else 5) as ex:
        fb = ex.submit(vlib.go_build, "./cmd/dnsname")
        futs = [ex.submit(model, n, N, a, ml, e, wd, T, w) for (n, N, a, ml, e, w) in plans]
        cfuts = [ex.submit(model, "neg-" + sh, 3, A7, 12, False, wd, T, 2, sh) for sh, _ in controls]
        binp = fb.result()
        res = [f.result() for f in futs]
        cres = [f.result() for f in cfuts]
    models, msgs = [], []
    for m, ms in res:
        if m["violated"]:
            raise vlib.Infra("DnsNameMC/%s: %s violated - the transcription of decodeName does not satisfy DnsName.tla (model-level "
                             "counterexample in out/, no verdict)" % (m["name"], m["violated"]))
        log("[X23DNS] model %-6s N=%d |alphabet|=%d MaxLevel=%d: %8d states, %6d messages exported, %.1fs"
            % (m["name"], m["N"], m["alphabet"].count(",") + 1, m["max_level"], m["tlc_states"], m["messages_exported"], m["wall_s"]))
        models.append(m)
        msgs += ms
    refuted = []
    for (sh, allowed), (m, _) in zip(controls, cres):
        if m["violated"] not in allowed:
            raise vlib.Infra("negative control: the broken shape %r of decodeName was not refuted by TLC (violated=%s)" % (sh, m["violated"]))
        refuted.append({"shape": sh, "refuted_by": m["violated"], "tlc_states": m["tlc_states"]})
    log("[X23DNS] broken shapes refuted: " + ", ".join("%s by %s" % (r["shape"], r["refuted_by"]) for r in refuted))
    msgs = sorted(set(msgs))
    cp = os.path.join(wd, "cases.ndjson")
    open(cp, "w").write("\n".join(msgs) + "\n")
    tp = os.path.join(wd, "trace.ndjson")
    nrand = 160 if quick else 2500
    p = vlib.run([binp, "-cases", cp, "-trace", tp, "-seed", str(ctx.seed), "-slice", "4" if quick else "2", "-rand", str(nrand),
                  "-stall", "60"], timeout=2400, ok_codes=(0, 3))
    st = json.loads(p.stdout.strip().splitlines()[-1])
    log("[X23DNS] replayed %d cases (%d messages x layouts x start offsets, %d random), %d events, %d crashes, %d hangs%s"
        % (st["items"], len(msgs), nrand, st["events"], st["crashes"], st["hangs"], ", ABORTED" if st["aborted"] else ""))
    log("[X23DNS] models + build + replay done at %.1fs" % (time.time() - t0))
    lines = open(tp).read().splitlines()
    parts = split_trace(lines, 4 if quick else 8)
    lay_l, good_l = pick_selftest(lines)
    if st["crashes"] + st["hangs"] == 0 and not good_l:
        raise vlib.Infra("no pristine observation found for the binding self-test")

    def val(k):
        pp = os.path.join(wd, "part-%d.ndjson" % k)
        open(pp, "w").write("\n".join(parts[k]) + "\n")
        return vlib.validate_trace(TRACE_MODULE, pp, "x23dns-%d" % k, heap="6g", timeout=3000)
    with ThreadPoolExecutor(max_workers=len(parts) + 1) as ex:
        stf = ex.submit(self_test, lay_l, good_l, wd) if good_l else None
        vals = list(ex.map(val, range(len(parts))))
        selftests = stf.result() if stf else 0
    log("[X23DNS] trace validated (%d parts: %s s) at %.1fs" % (len(parts), [round(v["wall"]) for v in vals], time.time() - t0))
    tstates = nbad = ndrift = 0
    cnt, tags, drift = {}, set(), []
    for k, v in enumerate(vals):
        tstates += v["states"]
        nbad += v["nbad"]
        ndrift += v["ndrift"]
        tags |= set(v["tags"])
        for c, x in v["cnt"].items():
            cnt[c] = cnt.get(c, 0) + x
        part = parts[k]
        for d in v["drift"]:
            d["event"] = json.loads(part[d["line"] - 1])
            drift.append(d)
        for b in v["bad"]:
            ev = json.loads(part[b["line"] - 1])
            lay = None
            for j in range(b["line"] - 1, -1, -1):
                if '"op":"lay"' in part[j]:
                    lay = json.loads(part[j])
                    break
            data = (lay["pre"] + ev["reg"] + lay["suf"]) if lay else []
            idx = {"a": 0, "b": 1, "c": 2}.get(b["mode"], 0)
            ec = ev["ec"][idx]
            payload = {"bad": b, "event": ev, "layout": {k2: lay[k2] for k2 in ("ctx", "at", "dlen", "tm", "kind")} if lay else None,
                       "message_hex": bytes(data).hex(),
                       "rerun": "out/bin/dnsname -cases <cases> -seed %d -slice %s -rand %d -dump %d prints the message" % (ctx.seed, "4" if quick else "2", nrand, ev["sc"])}
            if b["reason"] in ("panic-recovery-on", "panic-no-recovery"):
                f = (ec.split("|") + ["", "", "", ""])[:4]
                sig = {"reason": b["reason"], "fn": f[0], "file": f[1], "text": f[2]}
                (v01 if b["reason"] == "panic-recovery-on" else v19).reject(dict(sig, kind="x23dns") if b["reason"] == "panic-recovery-on" else sig, payload)
            elif b["reason"] == "hang":
                v01.reject({"kind": "x23dns", "reason": "hang", "file": "layers/dns.go", "ctx": b["ctx"], "clause": b["why"]}, payload)
            elif b["reason"] == "crash":
                sig = {"reason": "crash", "file": "layers/dns.go", "text": ec, "clause": b["why"]}
                (v01.reject(dict(sig, kind="x23dns"), payload) if b["mode"] == "a" else v19.reject(sig, payload))
            else:
                V.reject({"reason": b["reason"], "ctx": b["ctx"], "clause": b["why"] or b["expect"], "mode": b["mode"]}, payload)
    if st["aborted"]:
        log("[X23DNS] the driver gave up after %d crashes/hangs: %s" % (st["crashes"] + st["hangs"], st["died_with"][:3]))
    missing = sorted(set(vals[0]["missing"]) - tags) if vals else []
    all_tags = sorted(tags)
    for d in drift[:10]:
        log("IMPL-DRIFT: ctx=%s mode=%s predicted %s/%s observed %s/%s (case %s)" % (d["ctx"], d["mode"], d["want"], d["wantec"], d["got"], d["gotec"], d["sc"]))
    rc = max(V.finish(), v01.finish(), v19.finish())
    log("[X23DNS] judged %d cases: %d must-error, %d must-name, %d may (%d of them accepted by the code); impl drift %d; model decisions "
        "covered by the replay %d/%d%s" % (cnt.get("cases", 0), cnt.get("must_err", 0), cnt.get("must_name", 0), cnt.get("may", 0),
                                          cnt.get("may_accepted", 0), ndrift, len(all_tags), len(all_tags) + len(missing),
                                          (" (never met: %s)" % missing) if missing else ""))
    samples = [json.loads(l) for l in lines if '"op":"case"' in l][:2]
    for l in lines:
        if '"op":"case"' in l and '"ok",[[' in l and '"reg":[]' in l:       # a random message that decoded
            samples.append(json.loads(l))
            break
    nv = len(V.violations) + len(v01.violations) + len(v19.violations)
    cov = {"states": sum(m["tlc_states"] for m in models) + tstates, "transitions": sum(m["tlc_generated"] for m in models) + len(lines),
           "models": models, "broken_shapes_refuted": refuted,
           "messages_exported": len(msgs), "traces_validated_against_impl": cnt.get("cases", 0), "trace_events_validated": len(lines),
           "random_messages": nrand, "judgements": cnt, "rejected_real_cases": nbad,
           "events_compared_model_vs_code": cnt.get("cases", 0) * 3, "impl_drift": ndrift, "impl_drift_examples": drift[:5],
           "model_decisions_covered_by_replay": all_tags, "model_decisions_never_met": missing,
           "driver": {k: st[k] for k in ("items", "events", "crashes", "hangs", "aborted", "died_with")},
           "binding_selftest_lines": selftests, "samples": samples, "exhaustive": True,
           "rule": "every message over the octet alphabet (root, label lengths and pointer targets 0..N, pointer head 0xC1, reserved heads 0x40 / "
                   "0x80) up to the bound, from every start offset, through the Impl layer step by step (TLC) and on the real decoder at offset "
                   "256 of a DNS message in NAPTR RDATA (all), as owner name and as question (a seed-selected slice of the largest bound); "
                   "seeded random messages beyond the bound (pointer chains of 250..300 hops, names at the 63/255 octet limits, cycles of up to "
                   "300 pointers, pointers at the end of the data, soup; question, owner, NS, CNAME, PTR, MX, SRV, SOA, NAPTR)"}
    if TRACE_MODULE != "DnsNameTrace":
        log("[X23DNS] X23_STRICT_LEN=1: measurement run against the RFC 1035 2.3.4 clause, no evidence written")
        shutil.rmtree(wd, ignore_errors=True)
        return rc
    vlib.write_evidence(PID, ctx.tier, ctx.seed, "model_checking", cov, time.time() - t0, nv,
                        ["DnsName.tla's Impl layer is a hand transcription of decodeName; its agreement with the code is measured (impl_drift), verdicts come only from real traces",
                         "the label bookkeeping of decodeName (dnsNameLabels, for names with literal dots) is not transcribed; its panics would still be observed",
                         "names of more than 255 octets assembled through pointers and chains of more than 254 pointers are `may`: RFC 1035 and the code disagree there",
                         "records behind a question / owner name under test, RDATA of parsed types and hostile trailers are not modelled: an error is accepted there (tm / may)"])
    shutil.rmtree(wd, ignore_errors=True)
    return rc

