"""C13 - IP defragmentation returns the original datagram exactly once, or nothing.

Defrag.tla is the property in functional form (benign fragment sets have a fully determined result; anything else
may only yield nothing, an error, or a datagram every byte of which some fragment placed at that offset).
DefragGen.tla enumerates every arrival sequence within the bound (all intervals x MF flag, i.e. every partition in
every order, duplicates, overlaps, conflicts, a second interleaved key, DiscardOlderThan at any point) and checks an
ideal defragmenter against Judge; every sequence is replayed on the real ip4defrag (IHL 5 and 6, several unit sizes)
and TLC validates each result including the provenance of every output byte; random benign datagrams up to 65515
bytes, hostile sets and IPv6 permutations extend the space."""
import json, os, time, shutil
import vlib
from vlib import log

PID = "C13"


def run(ctx):
    t0 = time.time()
    quick = ctx.tier == "quick"
    V = vlib.Verdict(PID)
    binp = vlib.go_build("./cmd/defrag")
    wd = vlib.scratch("c13-%s" % ctx.tier)
    plans = [(3, 4)] if quick else [(3, 5), (4, 4)]
    gens = []
    total_sc = total_ev = tstates = nbad = 0
    samples = []
    first = True
    for (U, ops) in plans:
        g = vlib.tlc("DefragGen", workdir=os.path.join(wd, "gen"), timeout=3000, workers=8,
                     cfg_subst={r"U = \d+": "U = %d" % U, r"MaxOps = \d+": "MaxOps = %d" % ops})
        if g.violated:
            raise vlib.Infra("DefragGen.tla: %s violated (Defrag.tla rejects the ideal defragmenter)" % g.violated)
        scen = [l[4:] for l in g.printed if isinstance(l, str) and l.startswith("BEH ")]
        gens.append({"U": U, "ops": ops, "behaviours": len(scen), "tlc_states": g.distinct})
        log("[C13] generated %d behaviours (U=%d, ops=%d) in %.1fs" % (len(scen), U, ops, g.wall))
        chunk = 120000
        for ci in range(0, len(scen), chunk):
            part = scen[ci:ci + chunk]
            sp = os.path.join(wd, "scen.ndjson")
            open(sp, "w").write("\n".join(part) + "\n")
            tp = os.path.join(wd, "trace.ndjson")
            args = [binp, "-scenarios", sp, "-trace", tp, "-seed", str(ctx.seed)]
            if first:
                args += ["-rand", "400" if quick else "20000", "-big", "3" if quick else "60"]
                first = False
            p = vlib.run(args, timeout=3000)
            st = json.loads(p.stdout.strip().splitlines()[-1])
            v = vlib.validate_trace("DefragTrace", tp, "defrag", heap="8g", timeout=3000)
            total_sc += st["scenarios"]
            total_ev += st["events"]
            tstates += v["states"]
            nbad += v["nbad"]
            if v["bad"]:
                ev = vlib.read_ndjson(tp)
                for b in v["bad"]:
                    evs = [e for e in ev[max(0, b["line"] - 30):b["line"]] if e.get("sc") == b["sc"]]
                    for e in evs:
                        if len(json.dumps(e.get("runs", []))) > 600:
                            e["runs"] = e["runs"][:8] + ["..."]
                    V.reject({"reason": b["reason"], "ipversion": b["v"]}, {"bad": b, "events": evs})
            if not samples:
                with open(tp) as f:
                    samples = [json.loads(next(f)) for _ in range(5)]
            os.remove(tp)
    # implementation-shaped model (DefragImpl.tla, a transcription of ip4defrag/defrag.go): its escalated scripted
    # scenarios on every run, the whole pipeline (model checked against Defrag!Judge, behaviours replayed with
    # predicted-vs-observed comparison, real trace judged) in the thorough tier
    from . import defragimpl as di
    impl = {"escalated_scenarios": di.run_escalations(V)}
    if not quick:
        icov = di.run_impl(ctx, lambda reason: V)
        impl["impl_model"] = {k: icov[k] for k in ("model", "plans", "defect_finding_runs", "states", "traces_validated_against_impl",
                                                   "trace_events_validated", "events_compared_model_vs_code", "rejected_real_scenarios",
                                                   "impl_drift") if k in icov}
        tstates += icov["states"]
        total_sc += icov["traces_validated_against_impl"]
        total_ev += icov["trace_events_validated"]
    rc = V.finish()
    cov = {"states": sum(g["tlc_states"] for g in gens) + tstates, "transitions": total_ev,
           "generator_models": gens, "traces_validated_against_impl": total_sc, "trace_events_validated": total_ev,
           "rejected_scenarios": nbad, "evaluations": total_sc, "distinct_nontrivial": total_sc,
           "rule": "every arrival sequence of DefragGen.tla within the bound (distinct by construction), replayed with IHL 5/6 and unit sizes 8/16/24 bytes, plus seeded random benign datagrams (up to 65515 bytes), hostile sets (undersized, beyond-max offsets, overruns, discards) and IPv6 permutations",
           "samples": samples, "exhaustive": True}
    cov.update(impl)
    vlib.write_evidence(PID, ctx.tier, ctx.seed, "model_checking", cov, time.time() - t0, len(V.violations),
                        ["provenance of output bytes is decoded from fragment content (each 8-byte group names its fragment and offset)",
                         "IPv6: benign permutations only, scenario ends at the completed datagram"])
    shutil.rmtree(wd, ignore_errors=True)
    return rc
