"""Shared machinery for the assembler checks (C09, C10, C11): ReasmGen.tla scenario generation (TLC, with the
ideal assembler judged by Reasm.tla inside the model), replay on the real assemblers, TLC trace validation."""
import json, os, shutil, time
from concurrent.futures import ThreadPoolExecutor
import vlib
from vlib import log

DELIVERY = {"not-contiguous-or-altered", "saved-not-contiguous-or-altered", "skip-unknown-on-started-stream",
            "skip-known-on-unstarted-stream", "duplicate-or-reordered", "wrong-skip", "gap-released-without-flush-or-limit",
            "arrived-bytes-skipped", "invented-bytes", "wrong-saved-bytes", "kept-bytes-not-presented", "end-without-fin",
            "arrived-bytes-never-delivered", "panic", "hang", "unknown-event"}
LIFECYCLE = {"data-after-complete", "second-stream-for-live-connection", "completed-twice", "complete-without-new",
             "stream-not-completed-by-flushall", "pages-in-use-after-flushall", "connections-left-after-flushall",
             "page-limit-exceeded", "age-flush-left-older-data", "age-flush-released-newer-data", "negative-page-count",
             "panic", "hang"}

PLANS = {
    "quick": [dict(L=3, dirs="{0}", ops=4, seglen=3)],
    # (the five-operation plan is replayed under one seeded configuration per scenario, the others under two)
    "thorough": [dict(L=3, dirs="{0}", ops=5, seglen=3, variants=1), dict(L=4, dirs="{0}", ops=4, seglen=4), dict(L=3, dirs="{0,1}", ops=4, seglen=3)],
}


def generate(plan, wd):
    r = vlib.tlc("ReasmGen", workdir=wd, timeout=3000, workers=8,
                 cfg_subst={r"L = \d+": "L = %d" % plan["L"], r"Dirs = \{[^}]*\}": "Dirs = %s" % plan["dirs"],
                            r"MaxOps = \d+": "MaxOps = %d" % plan["ops"], r"MaxSegLen = \d+": "MaxSegLen = %d" % plan["seglen"]})
    if r.violated:
        raise vlib.Infra("ReasmGen.tla: %s violated (the property-level spec rejects the ideal assembler)" % r.violated)
    scen = [l[4:] for l in r.printed if isinstance(l, str) and l.startswith("BEH ")]
    return scen, r


def run_asm(ctx, drivers, wd, nrand, variants=None):
    """drivers: list of ("reasm"|"tcpasm").  Returns (stats, bad list [(driver, badrecord, scenario_ops, events)])."""
    bins = {d: vlib.go_build("./cmd/" + d) for d in drivers}
    stats = {"gen": [], "scenarios": 0, "events": 0, "tstates": 0, "nbad": 0, "samples": []}
    bad_all = []
    jobs = []
    first = True
    for plan in PLANS[ctx.tier]:
        scen, r = generate(plan, os.path.join(wd, "gen"))
        stats["gen"].append({"plan": plan, "behaviours": len(scen), "tlc_states": r.distinct, "tlc_generated": r.generated})
        log("[asm] generated %d behaviours for %s in %.1fs" % (len(scen), plan, r.wall))
        chunk = 60000
        for ci in range(0, len(scen), chunk):
            part = scen[ci:ci + chunk]
            sp = os.path.join(wd, "scen-%d-%d.ndjson" % (len(jobs), ci))
            open(sp, "w").write("\n".join(part) + "\n")
            for d in drivers:
                tp = os.path.join(wd, "trace-%s-%d.ndjson" % (d, len(jobs)))
                nv = min((variants or {}).get(d, 2), plan.get("variants", 2))
                args = [bins[d], "-scenarios", sp, "-units", str(plan["L"]), "-trace", tp, "-seed", str(ctx.seed), "-variants", str(nv)]
                if first:
                    args += ["-rand", str(nrand)]
                jobs.append((d, part, tp, args))
            first = False

    def work(job):
        d, part, tp, args = job
        p = vlib.run(args, timeout=3000, ok_codes=(0, 3))   # 3 = the driver's watchdog recorded a hang event
        st = json.loads(p.stdout.strip().splitlines()[-1])
        v = vlib.validate_trace("ReasmTrace", tp, os.path.basename(tp), heap="6g", timeout=3000)
        out = []
        if v["bad"]:
            ev = vlib.read_ndjson(tp)
            for b in v["bad"]:
                sc = b["sc"]
                evs = [e for e in ev[max(0, b["line"] - 60):b["line"]] if e.get("sc") == sc]
                out.append((d, b, evs))
        sample = None
        if job is jobs[0]:
            with open(tp) as f:
                sample = [json.loads(next(f)) for _ in range(6)]
        os.remove(tp)
        return st, v, out, sample

    with ThreadPoolExecutor(max_workers=4 if ctx.tier == "quick" else 6) as ex:
        for st, v, out, sample in ex.map(work, jobs):
            stats["scenarios"] += st["scenarios"]
            stats["events"] += st["events"]
            stats["tstates"] += v["states"]
            stats["nbad"] += v["nbad"]
            bad_all.extend(out)
            if sample:
                stats["samples"] = sample
    return stats, bad_all


def judge(V, bad_all, reasons, drivers):
    for d, b, evs in bad_all:
        if b["reason"] in reasons:
            V.reject({"assembler": b["asm"], "reason": b["reason"], "op": b["op"]},
                     {"driver": d, "bad": b, "events": evs})


def evidence(pid, ctx, V, stats, t0, drivers, rule_extra="", extra=None):
    gen_states = sum(g["tlc_states"] for g in stats["gen"])
    cov = {"states": gen_states + stats["tstates"], "transitions": sum(g["tlc_generated"] for g in stats["gen"]) + stats["events"],
           "generator_models": stats["gen"], "traces_validated_against_impl": stats["scenarios"],
           "trace_events_validated": stats["events"], "rejected_scenarios_all_reasons": stats["nbad"],
           "evaluations": stats["scenarios"], "distinct_nontrivial": stats["scenarios"],
           "rule": "every behaviour of ReasmGen.tla within the bounds (segments = all intervals of the stream, SYN, FIN, FlushAll, age flushes) is replayed under 1-2 seeded configurations (page limit, KeepFrom policy, forced start, ISN incl. wrap positions, bytes per unit up to multi-page) plus random multi-connection scenarios; each (behaviour, configuration) is distinct. " + rule_extra,
           "assemblers": drivers, "samples": stats["samples"], "exhaustive": True}
    cov.update(extra or {})
    vlib.write_evidence(pid, ctx.tier, ctx.seed, "model_checking", cov, time.time() - t0, len(V.violations),
                        ["stream positions are inferred from delivered content (content encodes offset)",
                         "in-flight distance < 2^30 (documented quarter-space heuristic)",
                         "conflicting retransmissions (different bytes for one offset) are out of scope"])
