"""C15 - Capture-file readers are safe on arbitrary and hostile input.

The layout map of PcapFile.tla (every field of every header, block, option and record of classic pcap, pcapng and snoop
files) lets TLC enumerate (base file, field, value class) corruptions in NgReaderGen.tla: 0, 1, 3, true-1, true+1,
true-4, true+4, not-a-multiple-of-4, 0x7fffffff, 0xfffffff0, 0xffffffff for lengths and counts, every option code, the
timestamp resolutions around the overflow of the divisor, other block types and magics; plus the chunkings of the
stream.  harness/cmd/pcapio -mode hostile applies each corruption (and seeded random ones on the same layout map) to the
really written file and reads it to the end in child processes under an address-space cap, through the stream shapes
whole / one byte per Read / chunked / injected I/O error / gzip-wrapped, every reader call under recover and a watchdog,
measuring the bytes allocated per call.  NgReader.tla accepts iff nothing panics, hangs or aborts; every packet has
datalen = caplen <= len; allocation <= c0 + c1 * (bytes present + declared snaplen); the result is the same for all
chunkings; an injected error surfaces as an error."""
import json, os, random, shutil, time
from concurrent.futures import ThreadPoolExecutor
import vlib
from vlib import log

def validate(module, path, name, **kw):
    """vlib.validate_trace copies specs/ into a scratch directory; other builders may be writing files there at the same
    moment (a file vanishing between glob and copy raises OSError), so a failed copy is retried."""
    for attempt in range(3):
        try:
            return vlib.validate_trace(module, path, name, **kw)
        except OSError as ex:
            log("[%s] retrying trace validation after %s" % (name, ex))
            time.sleep(1 + attempt)
    return vlib.validate_trace(module, path, name, **kw)


PID = "C15"


def selftest(wd, good):
    """Binding of NgReaderTrace: a recorded good case is accepted; copies with one corrupted field are rejected."""
    def clone(cs):
        evs = json.loads(json.dumps(good))
        for e in evs:
            e["cs"] = cs
        return evs

    def whole(evs):
        for e in evs:
            if e["op"] == "mode":
                for g in e["groups"]:
                    if any(s["k"] == "whole" for s in g["shapes"]) and g["calls"]:
                        return e, g
        raise vlib.Infra("self-test: no group with packets in the recorded case")
    t = clone(1)
    a = clone(2)
    whole(a)[1]["calls"][0][5] += 1                       # data length != capture length
    b = clone(3)
    whole(b)[1]["makb"] = 3000000                          # 3 GB allocated by one call
    c = clone(4)
    e, g = whole(c)
    g["shapes"] = [s for s in g["shapes"] if s["k"] != "one"]
    g2 = json.loads(json.dumps(g))
    g2["shapes"] = [{"k": "one", "n": 1}]
    g2["calls"] = g2["calls"][:-1]
    e["groups"].append(g2)                                 # one-byte reads return one packet less
    d = clone(5)
    e, g = whole(d)
    g3 = json.loads(json.dumps(g))
    g3["shapes"], g3["fired"], g3["end"], g3["calls"] = [{"k": "inj", "n": 1}], True, "eof", []
    e["groups"].append(g3)                                 # an injected error ends as a clean EOF
    f = clone(6)
    whole(f)[1]["end"] = "panic"
    h = clone(7)
    cl = whole(h)[1]["calls"][0]
    cl[0], cl[4] = cl[2] + 1, cl[2] + 1                    # capture length (and data length) > length
    tp = os.path.join(wd, "selftest.ndjson")
    with open(tp, "w") as fh:
        for ev in t + a + b + c + d + f + h:
            fh.write(json.dumps(ev) + "\n")
    v = validate("NgReaderTrace", tp, "c15self", timeout=600)
    got = {x["cs"]: x["reason"] for x in v["bad"]}
    want = {2: "data-length-differs-from-capture-length", 3: "allocation-out-of-proportion", 4: "result-depends-on-chunking",
            5: "injected-error-not-surfaced", 6: "panic", 7: "capture-length-exceeds-length"}
    if got != want:
        raise vlib.Infra("NgReaderTrace binding self-test failed: expected %s, got %s" % (want, got))
    return len(want)


def obs_of(events):
    """observation of the plain whole stream per reader configuration (for the 'corruption was noticed' count)"""
    out = {}
    for e in events:
        if e["op"] == "mode":
            for g in e["groups"]:
                if any(s["k"] == "whole" for s in g["shapes"]):
                    out[e["rd"]] = (tuple(c[6] for c in g["calls"]), g["end"])
    return out


def run(ctx):
    t0 = time.time()
    quick = ctx.tier == "quick"
    V = vlib.Verdict(PID)
    binp = vlib.go_build("./cmd/pcapio")
    wd = vlib.scratch("c15-%s" % ctx.tier)
    g = vlib.tlc("NgReaderGen", workdir=os.path.join(wd, "gen"), timeout=3000, workers=4)
    if g.violated:
        raise vlib.Infra("NgReaderGen.tla: %s violated (NgReader.tla rejects the ideal reader)" % g.violated)
    lines = [l for l in g.printed if isinstance(l, str)]
    bases = [l for l in lines if l.startswith("BASE ")]
    cases = [l for l in lines if l.startswith("CASE ")]
    chks = sorted(l for l in lines if l.startswith("CHK "))
    if not bases or not cases or not chks:
        raise vlib.Infra("NgReaderGen.tla exported no cases")
    log("[C15] TLC enumerated %d corruptions of %d base files and %d chunkings in %.1fs" % (len(cases), len(bases), len(chks), g.wall))
    rnd = random.Random(ctx.seed)
    cases.sort()
    if quick:
        none = [c for c in cases if '"loc":"none"' in c]
        rest = [c for c in cases if '"loc":"none"' not in c]
        keep = none + rnd.sample(rest, min(len(rest), 1600))
        nrand, nchk, ninj, workers = 500, 3, 5, 6
    else:
        keep = cases
        nrand, nchk, ninj, workers = 12000, 8, 16, 8
    plan = os.path.join(wd, "plan.txt")
    with open(plan, "w") as f:
        f.write("\n".join(bases + keep + chks) + "\n")
    tp = os.path.join(wd, "trace.ndjson")
    p = vlib.run([binp, "-mode", "hostile", "-scenarios", plan, "-trace", tp, "-rand", str(nrand), "-seed", str(ctx.seed),
                  "-workers", str(workers), "-chunkings", str(nchk), "-inject", str(ninj)], timeout=3000)
    st = json.loads(p.stdout.strip().splitlines()[-1])
    log("[C15] driver: %d cases (%d from TLC, %d cooperating length fields, %d random), %d events, %d process aborts attributed, %d children replaced after a large allocation, %d restarts in %.1fs"
        % (st["cases"], st["tlc_cases"], st.get("combo_cases", 0), st["cases"] - st["tlc_cases"] - st.get("combo_cases", 0), st["events"], st["crashes"], st["recycles"], st.get("restarts", 0), time.time() - t0 - g.wall))
    ev = vlib.read_ndjson(tp)
    # split at case boundaries and validate the parts in parallel
    starts = [i for i, e in enumerate(ev) if e["op"] == "case"]
    parts = 3 if quick else 8
    per = (len(starts) + parts - 1) // parts
    bounds = [starts[i] for i in range(0, len(starts), per)] + [len(ev)]

    def one(pi):
        lo, hi = bounds[pi], bounds[pi + 1]
        pd = os.path.join(wd, "v%d" % pi)
        os.makedirs(pd, exist_ok=True)
        pp = os.path.join(pd, "trace.ndjson")
        with open(pp, "w") as f:
            for e in ev[lo:hi]:
                f.write(json.dumps(e) + "\n")
        v = validate("NgReaderTrace", pp, "c15p%d" % pi, heap="6g", timeout=3000)
        return lo, v

    with ThreadPoolExecutor(max_workers=parts) as ex:
        results = list(ex.map(one, range(len(bounds) - 1)))
    tstates = nbad = 0
    by_case = {}
    for i in starts:
        by_case.setdefault(ev[i]["cs"], i)
    base_scen = {json.loads(b[5:])["id"]: json.loads(b[5:])["scen"] for b in bases}
    case_line = {}
    for c in keep:
        d = json.loads(c[5:])
        case_line[(d["base"], d["loc"], d["cls"], d["off"])] = d
    for lo, v in results:
        tstates += v["states"]
        nbad += v["nbad"]
        for b in v["bad"]:
            i = lo + b["line"] - 1
            j = i
            while ev[j]["op"] != "case":
                j -= 1
            ce = ev[j]
            replay = {"bad": b, "case": {k: ce[k] for k in ("cs", "fmt", "base", "loc", "cls", "src", "size")},
                      "base_scenario": base_scen.get(ce["base"]), "rejected_event": ev[i]}
            if ce.get("hex"):
                replay["corrupted_file_hex"] = ce["hex"]
            V.reject({"reader": b["fmt"], "locator": b["loc"], "reason": b["reason"], "site": b["site"]}, replay)
    # measured coverage: cases whose corruption the reader noticed (result differs from the uncorrupted base file)
    groups = []
    for k, i in enumerate(starts):
        groups.append(ev[i:(starts[k + 1] if k + 1 < len(starts) else len(ev))])
    base_obs = {}
    for gch in groups:
        if gch[0]["loc"] == "none":
            base_obs[gch[0]["base"]] = obs_of(gch)
    noticed = set()
    runs = 0
    good = None
    for gch in groups:
        c = gch[0]
        o = obs_of(gch)
        for e in gch[1:]:
            if e["op"] == "mode":
                runs += sum(s["n"] for gg in e["groups"] for s in gg["shapes"])
        if c["loc"] != "none" and o and o != base_obs.get(c["base"]):
            noticed.add((c["fmt"], c["loc"], c["cls"], c["cs"] if c["src"] == "rand" else 0))
        if good is None and c["loc"] == "none" and c["fmt"] == "pcap" and all(e["op"] in ("case", "mode") for e in gch):
            good = gch
    nself = 0
    if good is not None and not any(b["fmt"] == "pcap" for _, v in results for b in v["bad"]):
        nself = selftest(wd, good)
        log("[C15] binding self-test: %d corrupted copies of a recorded case rejected, the original accepted" % nself)
    elif not V.violations and not V.known:
        raise vlib.Infra("no accepted case available for the binding self-test")
    # thorough tier: the implementation-shaped model of the pcapng reader (NgReaderImpl.tla): model checked against the
    # property specs, runs replayed on the real NgReader with predicted-vs-observed comparison, real traces judged
    impl = {}
    if ctx.tier != "quick":
        from . import ngreaderimpl as ni
        icov = ni.run_impl(ctx, lambda reason, prop: V if prop == PID else None)
        impl["impl_model"] = {k: icov[k] for k in ("model", "plans", "defect_finding_runs", "states", "traces_validated_against_impl",
                                                   "trace_events_validated", "calls_compared_model_vs_code", "rejected_real_scenarios",
                                                   "impl_drift", "code_decisions_total") if k in icov}
    rc = V.finish()
    samples = [{k: e[k] for k in e if k != "hex"} for e in ev[:3]]
    cov = {"evaluations": runs, "cases": len(starts), "tlc_cases": st["tlc_cases"], "cooperating_length_field_cases": st.get("combo_cases", 0),
           "random_cases": st["cases"] - st["tlc_cases"] - st.get("combo_cases", 0),
           "distinct_nontrivial": len(noticed), "rejected_cases": nbad, "process_aborts_attributed": st["crashes"],
           "generator_states": g.distinct, "trace_states": tstates, "chunkings_enumerated": len(chks),
           "selftest_corruptions_rejected": nself,
           "rule": "evaluations = streams read to the end (case x reader configuration x stream shape); distinct_nontrivial = distinct (reader, field locator, value class) corruptions - random ones counted individually - whose result differs from that of the uncorrupted base file, i.e. that reached the reader's parsing of the field",
           "samples": samples}
    cov.update(impl)
    vlib.write_evidence(PID, ctx.tier, ctx.seed, "exploration", cov, time.time() - t0, len(V.violations),
                        ["allocation bound: c0 = 1 MiB, c1 = 8 (NgReader.tla); bytes present = plain + gzip-wrapped stream length; declared snap length as parsed by the reader",
                         "per-call allocation is the delta of the cumulative heap-allocation counter (runtime/metrics /gc/heap/allocs:bytes = MemStats.TotalAlloc, read without stopping the world); the plain and gzip whole-stream runs are additionally bounded by the MemStats.TotalAlloc delta of the run",
                         "children run under RLIMIT_AS = 3 GiB (their own virtual size is ~1.55 GiB): a single allocation above ~1.4 GiB is refused inside mallocgc without touching memory and judged by the requested size printed by the runtime (on the repaired tree these are exactly the zero-copy buffers make([]byte, snaplen) for a declared snap length of 1.5-4 GiB); smaller ones succeed and are measured by the allocation counters; a child is replaced after any allocation > 32 MiB; an abort is attributed to the case in progress through a marker; a child that dies outside any case, is killed by a signal or cannot get threads/memory for the runtime itself is restarted (bounded)",
                         "gzip-wrapped streams: safety envelope and chunking determinism only (no equality with the plain stream is demanded)",
                         "quick tier samples 1600 of the TLC-enumerated corruptions (plus every uncorrupted base) by the seed; thorough runs all"])
    shutil.rmtree(wd, ignore_errors=True)
    return rc
