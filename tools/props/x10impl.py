"""X10IMPL - the implementation-shaped model of gopacket/tcpassembly (TcpasmImpl.tla) and its binding to the code.

Design level: TLC checks that the transcription of tcpassembly/assembly.go satisfies Reasm.tla (ImplSatisfiesProp) for
every scenario and configuration within the bound and refutes the defect shapes (WRAP = M-1, stale Skip).
Binding: behaviours of the model are replayed on the real Assembler; predicted and observed deliveries / hook scalars
are compared (impl_drift, exit code unaffected); the real trace is validated by TLC against Reasm.tla.  Exit 1 only
if the REAL behaviour is rejected by Reasm!Judge (VIOLATION property=C10, or C11 for lifecycle clauses)."""
import time
import vlib
from . import reasmimpl as ri
from . import tcpasmimpl as ti

PID = "X10IMPL"


def run(ctx):
    t0 = time.time()
    v10, v11 = vlib.Verdict("C10"), vlib.Verdict("C11")
    cov = ti.run_impl(ctx, ri.verdict_router(v10, v11))
    rc = max(v10.finish(), v11.finish())
    bad = [(p["plan"]["name"], p["violated"]) for p in cov["plans"] if p["violated"]]
    if bad:
        vlib.log("MODEL-COUNTEREXAMPLE: TcpasmImplMC violated %s - replayed on the real code, verdict as above" % bad)
    cov["exhaustive"] = True
    cov["rule"] = ("every behaviour of TcpasmImpl.tla (transcription of tcpassembly/assembly.go; ops = all stream intervals, SYN, FIN, RST "
                   "anywhere, FlushAll, age flushes) within the plan bounds for every configuration (page limit, ISN at every wrap position) "
                   "is judged by Reasm!Judge inside TLC; a hash-selected slice (seed) and the behaviours of TLC's simulation mode are "
                   "replayed on the real Assembler with predicted-vs-observed comparison")
    nv = len(v10.violations) + len(v11.violations)
    vlib.write_evidence(PID, ctx.tier, ctx.seed, "model_checking", cov, time.time() - t0, nv,
                        ["TcpasmImpl.tla is a hand transcription; its agreement with the code is measured (impl_drift), verdicts come only from real traces",
                         "one model unit = 950 bytes so that a model page (P = 2) is one real page of 1900 bytes",
                         "sequence space M = 32: in-flight distance stays below a quarter of the space",
                         "one unidirectional connection; SYN carries no payload"])
    return rc
