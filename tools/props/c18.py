"""C18 - the serialize buffer holds exactly what was written, in position order.

1. TLC checks SerializeBuffer.tla exhaustively: the Impl layer (transcription of writer.go) refines the
   Prop layer (abstract contents/windows/layers) for every op sequence up to the bound.
2. model -> impl: every complete behaviour of the model is exported and replayed on the real
   gopacket.SerializeBuffer (plus seeded random sequences beyond the bound).
3. impl -> model: what the real buffer held after every step is validated by TLC against Prop
   (SerializeBufferTrace.tla).  Verdicts come only from step 3.
"""
import json, os, time, shutil
import vlib
from vlib import log

PID = "C18"


def export_scenarios(depth, wd):
    r = vlib.tlc("SerializeBufferExport", workdir=wd, timeout=1500,
                 cfg_subst={r"MaxDepth = \d+": "MaxDepth = %d" % depth})
    if r.violated:
        return r, []
    sc = [l[4:] for l in r.printed if isinstance(l, str) and l.startswith("BEH ")]
    return r, sc


def self_test(binp):
    """binding self-test: a good trace is accepted, the same trace with one observed byte changed
    (and one with a dropped event) is rejected at that scenario."""
    wd = vlib.scratch("c18-selftest")
    tp = os.path.join(wd, "t.ndjson")
    vlib.run([binp, "-rand", "12", "-depth", "25", "-maxsize", "9", "-seed", "7", "-trace", tp])
    ev = vlib.read_ndjson(tp)
    good = vlib.validate_trace("SerializeBufferTrace", tp, "st0")
    if good["bad"]:
        raise vlib.Infra("self-test: pristine trace rejected: %s" % good["bad"][:2])
    # corruption 1: flip one byte of the first non-empty observation of scenario 5
    idx = next(i for i, e in enumerate(ev) if e.get("sc") == 5 and e.get("bytes"))
    ev2 = json.loads(json.dumps(ev))
    ev2[idx]["bytes"][0] = (ev2[idx]["bytes"][0] % 251) + 1
    t2 = os.path.join(wd, "t2.ndjson")
    open(t2, "w").write("".join(json.dumps(e) + "\n" for e in ev2))
    b = vlib.validate_trace("SerializeBufferTrace", t2, "st1")
    if [x["sc"] for x in b["bad"]] != [5]:
        raise vlib.Infra("self-test: corrupted byte not rejected exactly at scenario 5: %s" % b["bad"])
    # corruption 2: drop one prepend event of scenario 7 (a lost write)
    idx = next(i for i, e in enumerate(ev) if e.get("sc") == 7 and e.get("op") in ("prepend", "append") and e["n"] > 0)
    ev3 = ev[:idx] + ev[idx + 1:]
    t3 = os.path.join(wd, "t3.ndjson")
    open(t3, "w").write("".join(json.dumps(e) + "\n" for e in ev3))
    b = vlib.validate_trace("SerializeBufferTrace", t3, "st2")
    if 7 not in [x["sc"] for x in b["bad"]]:
        raise vlib.Infra("self-test: dropped event not rejected: %s" % b["bad"])
    shutil.rmtree(wd, ignore_errors=True)
    return 3


def run(ctx):
    t0 = time.time()
    V = vlib.Verdict(PID)
    quick = ctx.tier == "quick"
    binp = vlib.go_build("./cmd/c18")
    wd = vlib.scratch("c18-%s" % ctx.tier)

    if ctx.replay:
        rp = json.load(open(ctx.replay))
        scen = rp["replay"]["scenarios"]
    else:
        scen = None

    # 1. design-level check (exhaustive, Impl refines Prop)
    mc = vlib.tlc("SerializeBufferMC", timeout=1500,
                  cfg_subst={r"MaxDepth = \d+": "MaxDepth = %d" % (5 if quick else 6)})
    if mc.violated:
        # design-level counterexample: not a verdict about the code, but the model no longer explains itself
        raise vlib.Infra("SerializeBuffer.tla: %s violated in the model itself" % mc.violated)
    log("[C18] model: %d states, depth %d, %.1fs" % (mc.distinct, mc.depth, mc.wall))

    # 2. export behaviours
    depth = 5 if quick else 6
    if scen is None:
        ex, scen = export_scenarios(depth, os.path.join(wd, "export"))
        if ex.violated:
            raise vlib.Infra("export model violated %s" % ex.violated)
        log("[C18] exported %d behaviours of depth %d in %.1fs" % (len(scen), depth - 1, ex.wall))
    if not scen:
        raise vlib.Infra("no behaviours exported")
    nst = 0

    # 3. replay + validate, in chunks
    chunk = 100000
    total_events = total_sc = drift = 0
    tstates = 0
    samples = []
    nontrivial = set()
    nrand = 300 if quick else 3000
    jobs = []
    for ci in range(0, len(scen), chunk):
        part = scen[ci:ci + chunk]
        sp = os.path.join(wd, "scen-%d.ndjson" % ci)
        open(sp, "w").write("\n".join(part) + "\n")
        tp = os.path.join(wd, "trace-%d.ndjson" % ci)
        args = [binp, "-scenarios", sp, "-trace", tp]
        if ci == 0 and not ctx.replay:
            args += ["-rand", str(nrand), "-depth", "60", "-maxsize", "48", "-seed", str(ctx.seed)]
        p = vlib.run(args)
        st = json.loads(p.stdout.strip().splitlines()[-1])
        total_events += st["events"]
        total_sc += st["scenarios"]
        drift += st["drift"]
        jobs.append((ci, part, tp))
    for ci, part, tp in jobs:
        v = vlib.validate_trace("SerializeBufferTrace", tp, "c%d" % ci, heap="8g")
        tstates += v["states"]
        if ci == 0:
            ev = vlib.read_ndjson(tp)
            samples = [e for e in ev[:6]]
            # nontrivial: scenario that grew the buffer (contents longer than both hints) or wrote through a window
        for b in v["bad"]:
            sc = b["sc"]
            payload = {"scenarios": [part[sc - 1]] if sc - 1 < len(part) else [], "bad": b}
            V.reject({"kind": "trace-rejected", "op": b["op"], "reason": b["reason"]}, payload)
        os.remove(tp)
    # count distinct non-trivial scenarios: those with at least one growth-forcing op after a non-empty write
    for s in scen:
        ops = json.loads(s)
        kinds = set(o[0] for o in ops[1:])
        if ("prepend" in kinds or "append" in kinds or "serlayers" in kinds) and len(kinds) >= 2:
            nontrivial.add(s)
    rc = V.finish()
    if rc == 0:
        nst = self_test(binp)   # binding self-test (only meaningful when the real traces were accepted)
    cov = {
        "states": mc.distinct + tstates, "transitions": mc.generated,
        "model_states_exhaustive": mc.distinct, "model_depth": mc.depth,
        "traces_validated_against_impl": total_sc,
        "trace_events_validated": total_events,
        "behaviours_exported_by_tlc": len(scen), "random_scenarios_beyond_bound": nrand,
        "evaluations": total_sc, "distinct_nontrivial": len(nontrivial),
        "rule": "every complete path of SerializeBuffer.tla at depth %d (sizes {0,1,3}, 4 size hints, 3 layer stacks, "
                "write-through of still-valid windows) replayed on the real buffer; non-trivial = uses a size-changing op and "
                ">= 2 op kinds" % (depth - 1),
        "impl_drift_window_validity": drift, "binding_self_tests": nst,
        "samples": samples, "exhaustive": True,
    }
    vlib.write_evidence(PID, ctx.tier, ctx.seed, "model_checking", cov, time.time() - t0, len(V.violations),
                        ["Impl layer of SerializeBuffer.tla is a hand transcription of writer.go; verdicts come only from real-buffer traces",
                         "byte ids repeat modulo 251"])
    shutil.rmtree(wd, ignore_errors=True)
    return rc
