"""C19 - decoders return errors, not panics, with panic recovery switched off.

Same corpus as C01 pushed through the three non-recovering paths (DecodeFromBytes on every DecodingLayer type,
NewPacket with SkipDecodeRecovery, DecodingLayerParser with IgnorePanic).  The specification side is the outcome
alphabet of Packet.tla / Parser.tla: a decode step ends in ok or error; TLC validates every recorded outcome
(PacketRealTrace.tla, reason panic-no-recovery).  Known panicking decoder functions of the pinned tree are listed
in known_findings.jsonl (function granularity); any other function is a violation."""
import os, time, shutil
import vlib
from vlib import log
from . import pktcommon as pc

PID = "C19"


def run(ctx):
    t0 = time.time()
    quick = ctx.tier == "quick"
    V = vlib.Verdict(PID)
    binp = vlib.go_build("./cmd/pkt")
    wd = vlib.scratch("c19-%s" % ctx.tier)
    rst, rbad = pc.real_run(ctx, binp, wd, "raw", 160000 if quick else 3000000, nproc=8 if quick else 14, enum_stride=2 if quick else 1)
    for b in rbad:
        if b["reason"] in ("panic-no-recovery", "hang", "crash"):
            d = pc.sig_dict(b)
            V.reject({"reason": b["reason"], "file": d.get("file", ""), "fn": d.get("fn", ""), "text": d.get("text", "")}, {"event": b["event"]})
    rc = V.finish()
    cov = {"traces_validated_against_impl": rst["cases"], "states": rst["tstates"], "transitions": rst["tstates"],
           "evaluations": rst["events"], "distinct_nontrivial": rst["distinct_nontrivial"],
           "rule": "each case = (fixture or mutation, first type) run through SkipDecodeRecovery, DecodeFromBytes on 3-4 DecodingLayer types, and a DecodingLayerParser with IgnorePanic; non-trivial = non-empty input whose call returned (ok or error)",
           "outcomes": rst["kinds"], "known_panicking_functions_seen": len(V.known), "samples": rst["samples"], "exhaustive": False}
    vlib.write_evidence(PID, ctx.tier, ctx.seed, "exploration", cov, time.time() - t0, len(V.violations),
                        ["memory safety of ~110 pure functions is explored by sampling; the TLA+ side contributes only the outcome alphabet",
                         "decoder functions listed in known_findings.jsonl are masked at function granularity"])
    shutil.rmtree(wd, ignore_errors=True)
    return rc
