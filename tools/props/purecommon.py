"""Shared machinery of the purity / ownership checks (C02, C04): PureGen.tla export, driver phases of
harness/cmd/pure (and harness/cmd/pool), chunked trace validation by TLC, rejection signatures and the binding
self-test of a trace module."""
import json, os, shutil, subprocess, threading, time
from concurrent.futures import ThreadPoolExecutor
import vlib
from vlib import log


def gen(wd, k, maxprog, workers=8):
    """TLC: PureGen.tla (ideal implementation accepted by Judge, NotVacuous, export).  Returns (by_kind, result)."""
    r = vlib.tlc("PureGen", workdir=os.path.join(wd, "gen"), timeout=1500, workers=workers,
                 cfg_subst={r"K = \d+": "K = %d" % k, r"MaxProg = \d+": "MaxProg = %d" % maxprog})
    if r.violated:
        raise vlib.Infra("PureGen.tla: %s violated (Pure.tla rejects the ideal implementation or is vacuous)" % r.violated)
    kinds = {"hist": [], "share": [], "own": []}
    for l in r.printed:
        if isinstance(l, str) and l.startswith("BEH "):
            d = json.loads(l[4:])
            kinds[d["kind"]].append(d)
    for k_ in kinds:
        kinds[k_].sort(key=lambda d: json.dumps(d, sort_keys=True))
    # share: thread programs are run by alternating goroutines, so (p, q) and (q, p) are the same scenario
    seen, uniq = set(), []
    for d in kinds["share"]:
        key = tuple(sorted(json.dumps(p) for p in d["progs"]))
        if key not in seen:
            seen.add(key)
            uniq.append(d)
    kinds["share"] = uniq
    if not kinds["hist"] or not kinds["share"] or not kinds["own"]:
        raise vlib.Infra("PureGen.tla exported no behaviours: %s" % {k_: len(v) for k_, v in kinds.items()})
    return kinds, r


def write_scen(path, scen):
    with open(path, "w") as f:
        for d in scen:
            f.write(json.dumps(d) + "\n")


def run_driver(args, timeout=3000, need_race=False):
    """Run a driver; its last stdout line is a JSON statistics object.  Exit 3 = hang (the event is in the trace)."""
    p = subprocess.run(args, env=vlib.goenv(), stdout=subprocess.PIPE, stderr=subprocess.PIPE, text=True, timeout=timeout)
    if p.returncode not in (0, 3):
        raise vlib.Infra("driver %s exited %d:\n%s\n%s" % (args[:3], p.returncode, p.stdout[-1500:], p.stderr[-2500:]))
    try:
        st = json.loads(p.stdout.strip().splitlines()[-1])
    except (ValueError, IndexError):
        raise vlib.Infra("driver %s printed no statistics:\n%s\n%s" % (args[:3], p.stdout[-1500:], p.stderr[-1500:]))
    if need_race and not st.get("race_enabled"):
        raise vlib.Infra("driver %s was not built with -race" % args[0])
    return st


def split_trace(path, starts, maxlines):
    """Split an ndjson trace at events whose op is in `starts` (state resets) into chunks of about maxlines."""
    chunks, cur, n = [], None, 0
    base = path[:-len(".ndjson")] if path.endswith(".ndjson") else path
    first_line = 1
    lineno = 0
    with open(path) as f:
        for line in f:
            lineno += 1
            if cur is None or (n >= maxlines and any(('"op":"%s"' % s) in line for s in starts)):
                if cur is not None:
                    cur.close()
                cp = "%s.chunk%d.ndjson" % (base, len(chunks))
                chunks.append((cp, lineno))
                cur, n = open(cp, "w"), 0
            cur.write(line)
            n += 1
    if cur is not None:
        cur.close()
    return chunks


def validate(module, path, starts, name, maxlines=60000, par=4, heap="6g"):
    """Validate a (possibly large) trace in chunks; returns dict(lines, states, nbad, bad=[.. with abs line ..], wall)."""
    t0 = time.time()
    chunks = split_trace(path, starts, maxlines)

    def one(c):
        cp, first = c
        v = vlib.validate_trace(module, cp, "%s-%s" % (name, os.path.basename(cp)), heap=heap, timeout=3000)
        for b in v["bad"]:
            b["line"] += first - 1
        os.remove(cp)
        return v
    with ThreadPoolExecutor(max_workers=par) as ex:
        vs = list(ex.map(one, chunks))
    out = {"lines": sum(v["lines"] for v in vs), "states": sum(v["states"] for v in vs),
           "nbad": sum(v["nbad"] for v in vs), "bad": [b for v in vs for b in v["bad"]], "wall": time.time() - t0}
    return out


def context(path, bads, starts, marker):
    """For each rejected event: the event itself, the last state-reset event and the scenario marker before it, and
    up to 12 preceding events of the same scenario."""
    if not bads:
        return
    want = {b["line"]: b for b in bads}
    last_start, last_marker, recent = None, None, []
    with open(path) as f:
        for i, line in enumerate(f, 1):
            quick = line[:400]
            is_start = any(('"op":"%s"' % s) in quick for s in starts)
            is_marker = ('"op":"%s"' % marker) in quick
            if is_start:
                last_start = line
            if is_marker or is_start:
                if is_marker:
                    last_marker = line
                recent = []
            recent.append(line)
            if len(recent) > 13:
                recent.pop(0)
            if i in want:
                b = want[i]
                b["event"] = json.loads(line)
                b["start"] = json.loads(last_start) if last_start else None
                b["marker"] = json.loads(last_marker) if last_marker else None
                b["before"] = [json.loads(x) for x in recent[:-1]]
    # race / crash events are appended after the run: their scenario marker is found by number
    need = {b["event"]["sc"]: b for b in bads if b.get("event", {}).get("op") in ("race", "crash", "hang")}
    if need:
        with open(path) as f:
            for line in f:
                if ('"op":"%s"' % marker) in line[:400] and '"kind":"race-report"' not in line:
                    e = json.loads(line)
                    if e.get("sc") in need:
                        need[e["sc"]]["marker"] = e


def pure_sig(b):
    """Signature of a rejection of PureTrace (for known-findings matching and de-duplication)."""
    e = b.get("event", {})
    r = b["reason"]
    if r == "race":
        return {"reason": "race", "writer": e.get("writer", b.get("sig", ""))}      # the other access is in the replay file
    if r == "panic":
        parts = (e.get("sig") or "").split("|")
        return {"reason": "panic", "acc": e.get("acc", ""), "fn": parts[0] if parts else "", "file": parts[1] if len(parts) > 1 else "",
                "text": "|".join(parts[2:])}
    if r in ("hang", "crash"):
        return {"reason": r, "what": (e.get("sig") or "")[:200]}
    if e.get("op") == "call":
        return {"reason": r, "first": e.get("first", ""), "own": e.get("own", ""), "lazy": e.get("lazy"), "phase": e.get("phase", "")}
    if e.get("op") == "read":
        first = (b.get("marker") or {}).get("first", "")
        return {"reason": r, "acc": e.get("acc", ""), "first": first}
    return {"reason": r, "op": b.get("op", "")}


def item_name(b):
    e, s = b.get("event", {}), b.get("start") or {}
    items = s.get("items") or []
    i = e.get("in")
    if isinstance(i, int) and 1 <= i <= len(items):
        return items[i - 1]
    return (b.get("marker") or {}).get("name", "")


def reject_all(V, bads, sigf=pure_sig):
    """Feed rejections to the Verdict; a race whose two stacks lie outside gopacket is a harness problem."""
    for b in bads:
        e = b.get("event", {})
        if b["reason"] == "race" and not e.get("inlib", True):
            raise vlib.Infra("data race inside the harness itself: %s / %s" % (e.get("a"), e.get("b")))
        if b["reason"] in ("unknown-event", "unknown-packet", "unknown-ownership", "events-not-in-sequence-order", "packet-id-reused"):
            raise vlib.Infra("malformed trace (%s) at line %d: %s" % (b["reason"], b["line"], json.dumps(e)[:400]))
        V.reject(sigf(b), {"bad": {k: b[k] for k in ("reason", "line", "sc", "op")}, "input": item_name(b), "event": e,
                           "scenario": b.get("marker"), "epoch": b.get("start"), "events_before": b.get("before")})


def selftest(module, good_path, corrupt, expect, name, starts):
    """Binding self-test: `corrupt(events)` returns a corrupted copy of a recorded good trace prefix; the trace module
    must reject it with (at least) the reasons in `expect` - one more rejected scenario per corruption than in the
    uncorrupted prefix (which is all accepted unless the tree under test has a genuine defect there)."""
    ev = []
    with open(good_path) as f:
        for line in f:
            ev.append(json.loads(line))
            if len(ev) >= 4000:
                break
    # cut at the last state reset so that the prefix is made of complete epochs
    cut = len(ev)
    for i in range(len(ev) - 1, 0, -1):
        if ev[i].get("op") in starts:
            cut = i
            break
    ev = ev[:cut] if cut > 50 else ev
    wd = vlib.scratch("selftest-%s" % name)
    gp = os.path.join(wd, "good.ndjson")
    with open(gp, "w") as f:
        for e in ev:
            f.write(json.dumps(e) + "\n")
    bad_ev = corrupt([dict(e) for e in ev])
    bp = os.path.join(wd, "bad.ndjson")
    with open(bp, "w") as f:
        for e in bad_ev:
            f.write(json.dumps(e) + "\n")
    with ThreadPoolExecutor(max_workers=2) as ex:
        fg = ex.submit(vlib.validate_trace, module, gp, name + "-good")
        fb = ex.submit(vlib.validate_trace, module, bp, name + "-bad")
        vg, vb = fg.result(), fb.result()
    got = set(b["reason"] for b in vb["bad"])
    shutil.rmtree(wd, ignore_errors=True)
    missing = set(expect) - got
    if missing:
        return False, "corruptions not rejected: %s (got %s)" % (sorted(missing), sorted(got)), got, vg["nbad"]
    if vb["nbad"] < vg["nbad"] + len(expect):
        return False, "corrupted trace has %d rejections, uncorrupted %d, %d corruptions" % (vb["nbad"], vg["nbad"], len(expect)), got, vg["nbad"]
    return True, "", got, vg["nbad"]
