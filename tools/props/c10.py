"""C10 - tcpassembly: TCP bytes delivered in order, exactly once, gaps announced.

ReasmGen.tla (TLC) enumerates every scenario within the bounds and checks that Reasm.tla accepts an ideal
assembler; every scenario is replayed on the real tcpassembly Assembler and TLC validates the recorded deliveries
(stream offsets, skips, kept bytes, end flags) against Reasm.tla."""
import time, shutil
import vlib
from . import asmcommon as ac

PID = "C10"


def run(ctx):
    t0 = time.time()
    V = vlib.Verdict(PID)
    wd = vlib.scratch("c10-%s" % ctx.tier)
    stats, bad = ac.run_asm(ctx, ["tcpasm"], wd, 300 if ctx.tier == "quick" else 5000,
                            variants={"tcpasm": 1} if ctx.tier == "quick" else None)
    ac.judge(V, bad, ac.DELIVERY, ["tcpasm"])
    rc = V.finish()
    ac.evidence(PID, ctx, V, stats, t0, ["tcpassembly"])
    shutil.rmtree(wd, ignore_errors=True)
    return rc
