"""C10 - tcpassembly: TCP bytes delivered in order, exactly once, gaps announced.

ReasmGen.tla (TLC) enumerates every scenario within the bounds and checks that Reasm.tla accepts an ideal
assembler; every scenario is replayed on the real tcpassembly Assembler and TLC validates the recorded deliveries
(stream offsets, skips, kept bytes, end flags) against Reasm.tla.  Thorough tier: additionally every behaviour of the
implementation-shaped model (TcpasmImpl.tla, a transcription of the assembler's source) within its plans is judged
by Reasm!Judge inside TLC, a slice is replayed on the real Assembler (predicted-vs-observed drift is reported) and the
real trace validated; delivery reasons found there are violations of this property."""
import time, shutil
import vlib
from . import asmcommon as ac
from . import tcpasmimpl as ti

PID = "C10"


def run(ctx):
    t0 = time.time()
    V = vlib.Verdict(PID)
    wd = vlib.scratch("c10-%s" % ctx.tier)
    stats, bad = ac.run_asm(ctx, ["tcpasm"], wd, 300 if ctx.tier == "quick" else 5000,
                            variants={"tcpasm": 1} if ctx.tier == "quick" else None)
    ac.judge(V, bad, ac.DELIVERY, ["tcpasm"])
    extra = {}
    if ctx.tier != "quick":
        cov = ti.run_impl(ctx, lambda reason: V if reason in ac.DELIVERY else None)
        extra["impl_model"] = {k: cov[k] for k in ("model", "plans", "defect_finding_runs", "states", "traces_validated_against_impl",
                                                   "trace_events_validated", "events_compared_model_vs_code", "rejected_real_scenarios",
                                                   "impl_drift") if k in cov}
        stats["tstates"] += cov["states"]
        stats["scenarios"] += cov["traces_validated_against_impl"]
        stats["events"] += cov["trace_events_validated"]
    rc = V.finish()
    ac.evidence(PID, ctx, V, stats, t0, ["tcpassembly"], extra=extra)
    shutil.rmtree(wd, ignore_errors=True)
    return rc
