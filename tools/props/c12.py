"""C12 - assemblers sharing one stream pool are safe under every interleaving.

PoolConc.tla models each assembler goroutine as a pc-machine whose atomic steps are the code segments between the
verifYield hooks (the points where the real code is about to take a lock it does not hold), for both packages
(Bidir = reassembly, ~Bidir = tcpassembly) plus a concurrent FlushAll.  TLC (a) checks the design with connection
re-validation (KeyCheck) against NoPanic / NoMisdelivery / CompletedAtMostOnce / SingleEntry / deadlock freedom, and
(b) with the code's actual shape (KeyCheck = FALSE) exports one schedule per distinct terminal state of five
workloads.  Every schedule is replayed on the real assemblers with a cooperative scheduler driven through the
hooks; callbacks are recorded in stream offsets and TLC validates them against Reasm.tla (delivery + lifecycle
clauses, no panic, no packet handed to another connection's stream, no overlapping callbacks, no stall).  Phase 2
runs the same workloads free-running in a -race build; race reports become events the specification rejects."""
import json, os, re, time, shutil, subprocess
import vlib
from vlib import log
from . import asmcommon as ac

PID = "C12"
WORKLOADS_Q = ["W1", "W2", "W3", "W6", "W7"]
WORKLOADS_T = ["W1", "W2", "W3", "W4", "W5", "W6", "W7"]


def parse_races(stderr):
    """one entry per race report: innermost gopacket frame of each of the two conflicting accesses"""
    out = []
    fre = re.compile(r"^\s+(github\.com/gopacket/gopacket\S+)\(\)\s*$", re.M)
    for blk in stderr.split("WARNING: DATA RACE")[1:]:
        blk = blk.split("==================")[0]
        parts = re.split(r"^Previous [a-z ]+ at .*$", blk, maxsplit=1, flags=re.M)
        def inner(txt):
            fr = [f.replace("github.com/gopacket/gopacket/", "") for f in fre.findall(txt) if "verif/harness" not in f]
            return fr[0] if fr else "?"
        a = inner(parts[0])
        b = inner(parts[1].split("Goroutine ")[0]) if len(parts) > 1 else "?"
        out.append({"first": min(a, b), "second": max(a, b), "access": ""})
    return out


def run(ctx):
    t0 = time.time()
    quick = ctx.tier == "quick"
    V = vlib.Verdict(PID)
    wd = vlib.scratch("c12-%s" % ctx.tier)
    wls = WORKLOADS_Q if quick else WORKLOADS_T
    stats = {"mc": [], "export": [], "scenarios": 0, "events": 0, "tstates": 0, "stress_runs": 0, "races": 0}
    samples = []
    for drv, bidir in (("conc_reasm", "TRUE"), ("conc_tcpasm", "FALSE")):
        binp = vlib.go_build("./cmd/" + drv)
        scen = []
        for w in wls:
            sub = {r"Progs <- \w+": "Progs <- MC_%s" % w, r"Bidir = \w+": "Bidir = %s" % bidir}
            mc = vlib.tlc("PoolConcMC", cfg="PoolConcMC", timeout=1500, workers=8, cfg_subst=sub)
            if mc.violated:
                raise vlib.Infra("PoolConc.tla (design with key re-validation) violates %s for %s/%s" % (mc.violated, w, drv))
            stats["mc"].append({"workload": w, "bidir": bidir, "states": mc.distinct, "generated": mc.generated})
            ex = vlib.tlc("PoolConcMC", cfg="PoolConcExport", timeout=1500, workers=8, cfg_subst=sub,
                          workdir=os.path.join(wd, "exp-%s-%s" % (drv, w)))
            part = [l[4:] for l in ex.printed if isinstance(l, str) and l.startswith("BEH ")]
            predicted_bad = sum(1 for p in part if '"mis":true' in p or '"panic":true' in p)
            stats["export"].append({"workload": w, "bidir": bidir, "schedules": len(part), "model_predicts_violation": predicted_bad})
            scen.extend(part)
        log("[C12] %s: %d schedules exported" % (drv, len(scen)))
        predicted = [('"mis":true' in x or '"panic":true' in x) for x in scen]
        sp = os.path.join(wd, "scen-%s.ndjson" % drv)
        open(sp, "w").write("\n".join(scen) + "\n")
        tp = os.path.join(wd, "trace-%s.ndjson" % drv)
        p = vlib.run([binp, "-scenarios", sp, "-trace", tp], timeout=3000)
        st = json.loads(p.stdout.strip().splitlines()[-1])
        # phase 2: free-running under -race
        rbin = vlib.go_build("./cmd/" + drv, race=True)
        tp2 = os.path.join(wd, "trace-%s-race.ndjson" % drv)
        env = vlib.goenv()
        env["GORACE"] = "halt_on_error=0"
        pr = subprocess.run([rbin, "-scenarios", sp, "-trace", tp2, "-stress", "30" if quick else "400"], env=env,
                            stdout=subprocess.PIPE, stderr=subprocess.PIPE, text=True, timeout=3000)
        races = parse_races(pr.stderr)
        if pr.returncode not in (0, 66):
            raise vlib.Infra("race-build driver exited %d: %s" % (pr.returncode, pr.stderr[-1500:]))
        st2 = json.loads(pr.stdout.strip().splitlines()[-1])
        seen = set()
        with open(tp2, "a") as f:
            for r in races:
                k = (r["first"], r["second"])
                if k in seen:
                    continue
                seen.add(k)
                f.write(json.dumps({"op": "race", "sc": 0, "first": r["first"], "second": r["second"], "access": r["access"]}) + "\n")
        stats["races"] += len(races)
        stats["stress_runs"] += st2["scenarios"]
        for tpx, what in ((tp, "controlled"), (tp2, "stress")):
            v = vlib.validate_trace("ReasmTrace", tpx, "c12-" + what + drv, heap="6g", timeout=3000)
            stats["tstates"] += v["states"]
            if v["bad"]:
                ev = vlib.read_ndjson(tpx)
                for b in v["bad"]:
                    evs = [e for e in ev[max(0, b["line"] - 40):b["line"]] if e.get("sc") == b["sc"]]
                    # the rest of the scenario (the validator skips it after the first rejection): does the driver observe
                    # there, directly, that a recycled connection object was in use?
                    rest = []
                    for e in ev[b["line"]:b["line"] + 400]:
                        if e.get("sc") != b["sc"]:
                            break
                        rest.append(e)
                    later = sorted(set(e["op"] for e in rest if e.get("op") in ("misdelivery", "misdirection", "orphancomplete")))
                    sig = {"assembler": b["asm"], "reason": b["reason"], "op": b["op"], "phase": what}
                    replay_extra = {}
                    if later and b["reason"] not in ("data-race", "panic", "deadlock-or-stall", "concurrent-callbacks-on-one-stream"):
                        sig["recycled_object_observed_later_in_scenario"] = True
                        replay_extra["later_evidence"] = later
                    if what == "controlled":
                        # PoolConc.tla's prediction for this schedule (informative: the order in which a real FlushAll visits
                        # its snapshot is Go's map order, which the schedule does not fix, so the replay may resolve the
                        # model's choice differently; findings are identified by what the driver observes at Stream.Accept)
                        replay_extra["model_predicts_stale_connection_use"] = bool(predicted[b["sc"] - 1])
                        replay_extra["schedule"] = json.loads(scen[b["sc"] - 1])
                    if b["reason"] == "data-race":
                        e = ev[b["line"] - 1]
                        sig["pair"] = "%s | %s" % (e.get("first"), e.get("second"))
                    if b["reason"] == "panic":
                        sig["msg"] = (ev[b["line"] - 1].get("msg") or "")[:40]
                    V.reject(sig, dict({"phase": what, "driver": drv, "bad": b, "events": evs}, **replay_extra))
            if not samples:
                with open(tpx) as f:
                    samples = [json.loads(next(f)) for _ in range(6)]
        stats["scenarios"] += st["scenarios"]
        stats["events"] += st["events"] + st2["events"]
    rc = V.finish()
    cov = {"states": sum(m["states"] for m in stats["mc"]) + stats["tstates"], "transitions": sum(m["generated"] for m in stats["mc"]),
           "model_checks": stats["mc"], "exports": stats["export"],
           "traces_validated_against_impl": stats["scenarios"] + stats["stress_runs"],
           "controlled_schedules_replayed": stats["scenarios"], "free_running_race_runs": stats["stress_runs"],
           "race_reports": stats["races"], "trace_events_validated": stats["events"],
           "evaluations": stats["scenarios"] + stats["stress_runs"], "distinct_nontrivial": stats["scenarios"],
           "rule": "one schedule per distinct terminal state of PoolConc.tla (code shape, KeyCheck=FALSE) for each workload and package; each replayed with the cooperative scheduler through the verifYield hooks; plus free-running repetitions under the race detector",
           "samples": samples, "exhaustive": True}
    vlib.write_evidence(PID, ctx.tier, ctx.seed, "model_checking", cov, time.time() - t0, len(V.violations),
                        ["schedules are exhaustive at yield granularity only (3 yield points per Assemble, 1 per flushed connection)",
                         "data races are found by the uncontrolled -race phase only (the scheduler's own synchronisation hides them)",
                         "each direction's packets are fed by one assembler (the property's own assumption)"])
    shutil.rmtree(wd, ignore_errors=True)
    return rc
