"""C07 - serialization never panics; output depends only on layer, payload, options.

1. TLC enumerates the HISTORY quantifier from SerHistory.tla (which EXTENDS SerializeBuffer.tla and drives its
   transcription of writer.go): fresh, NewSerializeBufferExpectedSize(p, a) for p, a in {0,1,64,4096}, and all
   of these followed by up to MaxFill operations that write 0xAA / 0xFF (PrependBytes / AppendBytes of 1, 64,
   4096 bytes, SerializeLayers of three other stacks - the same stack several times = "reused k times") and a
   Clear.  The other stacks carry real layer types, including stand-alone IPv6 hop-by-hop / destination / fragment
   headers, and the model tracks the recorded layer list (Layers()) a history leaves behind (empty after Clear).
   For every history the model predicts how many stale bytes the next user of the buffer will be handed.
2. The Go driver (harness/cmd/codec -mode c07) replays every history on the real buffer and records what it
   really exposes (event hist), then takes serializable layers obtained by decoding fixtures and mutations
   (chosen uniformly over ~76 layer types), and for each of the 4 FixLengths/ComputeChecksums combinations
   serializes the layer - decoded afresh for every call - over its payload into the fresh buffer and into
   dirty histories, twice in a row each, under recover.  Beyond the model's bound: buffers that earlier held REAL
   stacks (built Ethernet/IPv6/stand-alone extension header/..., decoded corpus packets through SerializePacket);
   IPv6 layers that carry their own hop-by-hop header (decoded and built, incl. jumbograms) always meet those.
3. TLC validates the trace against SerPure.tla: memo keyed (case, input digest, options); the first outcome is
   the reference; a later differing outcome, a panic or a hang is rejected.  Verdicts come only from step 3.
"""
import json, os, time, shutil, subprocess
from concurrent.futures import ThreadPoolExecutor
import vlib
from vlib import log

PID = "C07"


def export_histories(depth, wd):
    r = vlib.tlc("SerHistory", workdir=os.path.join(wd, "hist"), timeout=1500,
                 cfg_subst={r"MaxFill = \d+": "MaxFill = %d" % depth})
    if r.violated:
        raise vlib.Infra("SerHistory.tla: %s violated in the model itself" % r.violated)
    hs = [l[4:] for l in r.printed if isinstance(l, str) and l.startswith("BEH ")]
    if not hs:
        raise vlib.Infra("SerHistory.tla exported no histories")
    return r, hs


def sig_of(b, ev, case):
    d = ev.get("diag") or {}
    sig = {"type": case.get("type", b.get("type", "")), "reason": b["reason"], "kind": d.get("kind", ""),
           "site": ev.get("site", "")}
    if d:
        sig["lo"], sig["hi"], sig["loFromEnd"] = d.get("lo"), d.get("hi"), d.get("loFromEnd")
    return sig


def collect(tp, v):
    """attach to every bad entry the rejected event and its case event"""
    need = {b["line"]: b for b in v["bad"]}
    out = []
    case = {}
    with open(tp) as f:
        for i, line in enumerate(f, 1):
            if '"op":"case"' in line:
                case = json.loads(line)
            if i in need:
                out.append((need[i], json.loads(line), case))
    return out


def self_test(tp, wd):
    """binding: a recorded trace slice is accepted apart from its own rejections; the same slice with ONE digest
    changed / one outcome turned into a panic is rejected at exactly that line"""
    lines = []
    with open(tp) as f:
        for line in f:
            if '"op":"hist"' in line:
                continue
            lines.append(line)
            if len(lines) >= 4000:
                break
    # cut at a case boundary
    while lines and '"op":"case"' not in lines[-1]:
        lines.pop()
    lines = lines[:-1]
    if len(lines) < 50:
        raise vlib.Infra("self-test: trace too short")
    p0 = os.path.join(wd, "st0.ndjson")
    open(p0, "w").write("".join(lines))
    base = vlib.validate_trace("SerPureTrace", p0, "c07st0")
    badlines = set(b["line"] for b in base["bad"])
    badsc = set(b["sc"] for b in base["bad"])
    # an accepted second call (rep 2, ok) of a case without rejections
    idx = None
    for i, line in enumerate(lines):
        if '"op":"ser"' in line:
            e = json.loads(line)
            if e["rep"] == 2 and e["res"] == "ok" and e["sc"] not in badsc and e["h"] != 0:
                idx = i
                break
    if idx is None:
        raise vlib.Infra("self-test: no accepted repeat call found")
    n = 0
    for mut, want in (("digest", ("bytes-differ-on-repeat", "bytes-depend-on-buffer-history")), ("panic", ("panic",))):
        e = json.loads(lines[idx])
        if mut == "digest":
            e["d"] = "0" * 15 + ("1" if e["d"][-1] != "1" else "2")
        else:
            e["res"], e["d"], e["site"] = "panic", "", "selftest"
        l2 = list(lines)
        l2[idx] = json.dumps(e) + "\n"
        p1 = os.path.join(wd, "st-%s.ndjson" % mut)
        open(p1, "w").write("".join(l2))
        v = vlib.validate_trace("SerPureTrace", p1, "c07st-" + mut)
        new = [b for b in v["bad"] if b["line"] not in badlines]
        if v["nbad"] != base["nbad"] + 1 or len(new) != 1 or new[0]["line"] != idx + 1 or new[0]["reason"] not in want:
            raise vlib.Infra("self-test: corrupted %s at line %d not rejected exactly there: %s" % (mut, idx + 1, new))
        n += 1
    return n + 1


def run(ctx):
    t0 = time.time()
    quick = ctx.tier == "quick"
    V = vlib.Verdict(PID)
    binp = vlib.go_build("./cmd/codec")
    wd = vlib.scratch("c07-%s" % ctx.tier)

    # 1. histories from the model
    depth = 2 if quick else 3
    hr, hs = export_histories(depth, wd)
    hp = os.path.join(wd, "hist.ndjson")
    open(hp, "w").write("\n".join(hs) + "\n")
    log("[C07] SerHistory.tla: %d histories (fill depth <= %d), %d states, %.1fs" % (len(hs), depth, hr.distinct, hr.wall))

    # 2. drive the real serializers
    nproc = 8 if quick else 14
    per = 300 if quick else 3000
    khist = 3 if quick else 5
    procs = []
    extra = []
    if ctx.replay:
        case = (json.load(open(ctx.replay)).get("replay") or {}).get("case") or {}
        if not case.get("hex"):
            raise vlib.Infra("replay file carries no input bytes (inputs longer than 1600 bytes are not kept)")
        extra = ["-inhex", case["hex"], "-first", case.get("first", "Ethernet")]
        nproc, per, khist = 2, 1, 40
    for k in range(nproc):
        tp = os.path.join(wd, "t-%d.ndjson" % k)
        cmd = [binp, "-mode", "c07", "-n", str(per), "-seed", str(ctx.seed * 1000 + k), "-hist", hp,
               "-khist", str(khist), "-trace", tp] + (["-probe"] if k == 0 else []) + extra
        procs.append((k, tp, subprocess.Popen(cmd, env=vlib.goenv(), stdout=subprocess.PIPE, stderr=subprocess.PIPE, text=True)))
    stats = {"cases": 0, "calls": 0, "events": 0, "focus_cases": 0}
    for k, tp, p in procs:
        out, err = p.communicate(timeout=3000)
        if p.returncode not in (0, 3):
            fatal = [l for l in err.splitlines() if l.startswith("fatal error") or l.startswith("panic:")][:1]
            raise vlib.Infra("codec driver exited %d: %s" % (p.returncode, fatal or err[-600:]))
        st = json.loads(out.strip().splitlines()[-1])
        for key in stats:
            stats[key] += st.get(key, 0)
        stats["types_indexed"] = st.get("types_indexed", stats.get("types_indexed", 0))
        stats["real_histories"] = st.get("real_histories", 0)
    log("[C07] %d layer values, %d SerializeTo calls recorded in %.1fs" % (stats["cases"], stats["calls"], time.time() - t0))

    # 3. TLC judges every call
    def val(job):
        k, tp, _ = job
        return tp, vlib.validate_trace("SerPureTrace", tp, "c07-%d" % k, heap="5g", timeout=3000)
    with ThreadPoolExecutor(max_workers=4 if quick else 6) as ex:
        results = list(ex.map(val, procs))
    tstates = lines = nbad = 0
    hist = {"n": 0, "agree": 0, "dirty": 0}
    types, hused, samples = {}, set(), []
    outcomes = {"ok": 0, "err": 0, "panic": 0}
    for tp, v in results:
        tstates += v["states"]
        lines += v["lines"]
        nbad += v["nbad"]
        for key in hist:
            hist[key] += v["hist"][key]
        for b, ev, case in collect(tp, v):
            if b["reason"] == "hang":
                V.reject({"type": "", "reason": "hang", "kind": "", "site": ev.get("in", "")[:200]}, {"event": ev})
                continue
            V.reject(sig_of(b, ev, case), {"case": case, "event": ev, "bad": b,
                                           "how": "decode `in` as `first`, take layer j, serialize with options o "
                                                  "(bit0 FixLengths, bit1 ComputeChecksums) into a fresh buffer and into `hist`"})
        with open(tp) as f:
            for line in f:
                if '"op":"case"' in line:
                    e = json.loads(line)
                    types[e["type"]] = types.get(e["type"], 0) + 1
                    if len(samples) < 2:
                        samples.append(e)
                elif '"op":"ser"' in line:
                    e = json.loads(line)
                    hused.add(e["h"])
                    outcomes[e["res"]] = outcomes.get(e["res"], 0) + 1
                    if len(samples) in (2, 3):
                        samples.append(e)
                elif len(samples) == 4:
                    samples.append(json.loads(line))
    if hist["n"] != len(hs):
        raise vlib.Infra("history probes: %d of %d" % (hist["n"], len(hs)))
    if hist["dirty"] == 0:
        raise vlib.Infra("no history left stale bytes in the real buffer: the check would be vacuous")
    log("[C07] TLC judged %d events (%d rejected before known findings); histories as modelled: %d/%d, really dirty: %d"
        % (lines, nbad, hist["agree"], hist["n"], hist["dirty"]))
    rc = V.finish()
    nst = self_test(procs[1][1], wd) if rc == 0 and not ctx.replay else 0   # only meaningful when the real traces were accepted
    cov = {"evaluations": stats["calls"], "distinct_nontrivial": stats["cases"],
           "rule": "evaluation = one SerializeTo call judged by TLC; non-trivial = a distinct layer value (input, first type, layer "
                   "index) written under 4 option sets into the fresh buffer and %d dirty histories, twice each" % khist,
           "layer_types": len(types), "layer_values_per_type": types, "layer_types_indexed": stats.get("types_indexed", 0),
           "histories_enumerated_by_tlc": len(hs), "real_stack_histories_beyond_the_model": stats.get("real_histories", 0),
           "ipv6_with_own_hop_by_hop_subjects_into_buffers_that_recorded_a_hop_by_hop_layer": stats["focus_cases"], "history_model_states": hr.distinct, "history_fill_depth": depth,
           "histories_used": len(hused), "histories_as_modelled_on_real_buffer": hist["agree"],
           "histories_really_dirty": hist["dirty"], "outcomes": outcomes,
           "states": hr.distinct + tstates, "transitions": lines, "traces_validated_against_impl": len(results),
           "trace_events_validated": lines, "rejected_events": nbad, "known_findings_seen": len(V.known),
           "binding_self_tests": nst, "samples": samples, "exhaustive": False}
    vlib.write_evidence(PID, ctx.tier, ctx.seed, "exploration", cov, time.time() - t0, len(V.violations),
                        ["histories are exhaustive within SerHistory.tla's bound; layer values are sampled (seeded) from fixtures and mutations",
                         "the specification does not know the codecs: it states the function law and knows the buffer",
                         "bytes are compared through 64-bit digests computed in Go (equality only); the diff position in a signature is diagnostic",
                         "layers that need a pseudo header get the nearest decoded IPv4/IPv6 layer or a fixed IPv4 header"])
    shutil.rmtree(wd, ignore_errors=True)
    return rc
