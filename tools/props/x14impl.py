"""X14IMPL - the implementation-shaped model of the pcapng reader (NgReaderImpl.tla) and its binding to the code.

Design level: TLC checks that the transcription of pcapgo/ngread.go (+ ngread_dsb.go, ngread_nrb.go) satisfies
PcapFile.tla (C14: full read, interface table and truncated reads of every stream the NgWriter produces) and the
envelope of NgReader.tla (C15) for every block sequence, reader configuration and truncation class within the bound, the
structural invariants read off the code, and that it refutes each pre-fix shape of the code (option values not length
checked, zero-length option keeps the previous value, packet lengths not validated).
Binding: a seed-selected slice of the model's runs, every run that takes a code decision no exported run has taken, and
the walks of TLC's simulation mode are materialised as real pcapng bytes (raw construction and the real NgWriter) and read
by the real NgReader through ReadPacketData / ZeroCopyReadPacketData and the ...WithOptions variants; predicted and
observed events are compared (impl_drift in the evidence, exit code unaffected) and the real behaviour is validated by
TLC with the existing trace specs.  Exit 1 only if the REAL behaviour is rejected by PcapFile!Judge (a violation of C14)
or by NgReader!JudgeR (a violation of C15), printed as such."""
import time
import vlib
from . import ngreaderimpl as ni

PID = "X14IMPL"


def run(ctx):
    t0 = time.time()
    v14, v15 = vlib.Verdict("C14"), vlib.Verdict("C15")
    cov = ni.run_impl(ctx, lambda reason, prop: v14 if prop == "C14" else v15)
    rc = max(v14.finish(), v15.finish())
    bad = [(p["plan"]["name"], p["violated"]) for p in cov["plans"] if p["violated"]]
    if bad:
        vlib.log("MODEL-COUNTEREXAMPLE: NgReaderImplMC violated %s - replayed on the real code, verdict as above" % bad)
    if cov["code_decisions_not_exercised"]:
        vlib.log("[X14IMPL] %d of %d code decisions of the transcription exercised by replayed runs; not exercised: %s"
                 % (len(cov["code_decisions_exercised"]), cov["code_decisions_total"], ", ".join(cov["code_decisions_not_exercised"])))
    cov["exhaustive"] = True
    cov["rule"] = ("every run of NgReaderImpl.tla (transcription of pcapgo/ngread.go; input = every sequence of blocks of the plan's alphabet up to "
                   "the plan's length, started on every prefix, x every reader configuration of the grid x every truncation of the plan's class) "
                   "is judged by PcapFile!Judge (writer streams) and NgReader!JudgeR (all) inside TLC; a hash-selected slice (seed), every run with "
                   "a code decision not yet exported and the walks of TLC's simulation mode are replayed on the real NgReader with "
                   "predicted-vs-observed comparison and validated by PcapFileTrace / NgReaderTrace")
    nv = len(v14.violations) + len(v15.violations)
    vlib.write_evidence(PID, ctx.tier, ctx.seed, "model_checking", cov, time.time() - t0, nv,
                        ["NgReaderImpl.tla is a hand transcription; its agreement with the code is measured (impl_drift), verdicts come only from real traces",
                         "32-bit quantities above 2^30 are kept as an order-preserving approximation (the code only compares them or skips that many bytes); "
                         "64-bit timestamps are exact; binary resolutions above 2^-31 and gzip input are outside the model (invariant ModelCoversInput)",
                         "the alphabets avoid snap lengths above 256 KiB (the zero-copy buffer make([]byte, snaplen) of a forged snap length is judged by C15 in child processes)",
                         "PcapFile!Judge is applied to streams the NgWriter produces without if_tsoffset (known finding C14-ngwriter-tsoffset); simple and obsolete "
                         "packet blocks, other sections, byte orders and resolutions are covered by the invariant PacketsMatchSource and the C15 envelope",
                         "libpcap clause of C14 not exercised here (lib event: skip)"])
    return rc
