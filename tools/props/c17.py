"""C17 - Flows and endpoints are faithful, hashable, direction-symmetric values.

Flow.tla states the property over plain values (endpoint = <<typ, bytes>>, flow = <<typ, src, dst>>): Eq, Less
(type first, then lexicographic bytes), Reverse, Split/Join and the hash laws as a relation (HashClass = {f, Reverse f}).
FlowGen.tla enumerates a small exhaustive universe (types {1,2}, alphabet {0,1,255}, every length 0..MaxShort plus
lengths 15/16 and the rejected length 17), checks the algebraic laws over all triples/pairs, checks that an ideal
implementation (the zero-padded fixed-array representation of flows.go transcribed) is accepted by Judge, and exports
every pair.  The Go driver builds exactly those values with the real NewEndpoint/NewFlow/FlowFromEndpoints (from slices
of dirty arrays, by several routes), records ==, map-key collision, LessThan, Reverse, Endpoints, FastHash equality,
adds seeded random values beyond the bound, and for decoded real packets records every LinkFlow/NetworkFlow/
TransportFlow next to the layer's own address fields plus the flow of the packet with the addresses swapped; the
packets include synthetic ones and corpus packets rewritten so that the address fields run over special values
(::, ::1, IPv4-mapped/-compatible/64:ff9b IPv6 addresses in source, destination or both, multicast, link-local,
leading/trailing zero bytes, 0.0.0.0, broadcast, loopback, zero/broadcast MACs, ports 0 and 65535), and the flows of
different conversations are compared pairwise as map keys.  TLC
(FlowTrace.tla) judges every recorded line; a binding self-test corrupts single fields of good lines and demands
that each corruption is rejected for the expected reason."""
import copy, json, os, time, shutil
import vlib
from vlib import log

PID = "C17"
CHUNK = 60000


def corruptions():
    """(name, predicate choosing a good line, mutation, reason the trace spec must give)"""
    def setk(k, v):
        def f(e):
            e[k] = v
        return f

    def flip(k):
        def f(e):
            e[k] = not e[k]
        return f

    def sub(k, k2, fn):
        def f(e):
            e[k][k2] = fn(e[k][k2])
        return f

    return [
        ("ep-extra-byte", lambda e: e["op"] == "ep" and e["res"] == "ok" and len(e["b"]) < 16, sub("got", "b", lambda b: b + [0]), "endpoint-not-faithful"),
        ("ep-oversize-ok", lambda e: e["op"] == "ep" and e["res"] == "panic", setk("res", "ok"), "oversize-endpoint-accepted"),
        ("fl-oversize-ok", lambda e: e["op"] == "fl" and e["res"] == "panic", setk("res", "ok"), "oversize-flow-accepted"),
        ("fl-type", lambda e: e["op"] == "fl" and e["res"] == "ok", sub("got", "t", lambda t: t + 1), "flow-not-faithful"),
        ("epair-eq", lambda e: e["op"] == "epair" and not e["eq"] and e["a"]["t"] == e["b"]["t"] and e["a"]["b"] + [0] == e["b"]["b"], flip("eq"), "endpoint-equality-wrong"),
        ("epair-map", lambda e: e["op"] == "epair" and e["eq"], setk("mapn", 2), "endpoint-map-key-wrong"),
        ("epair-lt", lambda e: e["op"] == "epair" and e["ltab"], flip("ltab"), "endpoint-order-wrong"),
        ("epair-lt-both", lambda e: e["op"] == "epair" and e["eq"], flip("ltba"), "endpoint-order-wrong"),
        ("epair-hash", lambda e: e["op"] == "epair" and e["eq"], flip("heq"), "equal-endpoints-hash-differently"),
        ("join-mismatch", lambda e: e["op"] == "join" and e["res"] == "err", setk("res", "ok"), "mismatched-endpoint-types-joined"),
        ("join-hrev", lambda e: e["op"] == "join" and e["res"] == "ok", flip("hrev"), "flow-and-reverse-hash-differently"),
        ("join-rev", lambda e: e["op"] == "join" and e["res"] == "ok" and e["f"]["s"] != e["f"]["d"], lambda e: e.__setitem__("rev", e["f"]), "reverse-wrong"),
        ("join-revrev", lambda e: e["op"] == "join" and e["res"] == "ok", flip("revreveq"), "reverse-not-involution"),
        ("join-split", lambda e: e["op"] == "join" and e["res"] == "ok", flip("spliteq"), "split-does-not-return-endpoints"),
        ("fpair-eq", lambda e: e["op"] == "fpair" and e["eq"], flip("eq"), "flow-equality-wrong"),
        ("fpair-map", lambda e: e["op"] == "fpair" and not e["eq"], setk("mapn", 1), "flow-map-key-wrong"),
        ("fpair-hash-rev", lambda e: e["op"] == "fpair" and not e["eq"] and e["heq"], flip("heq"), "same-hash-class-hash-differently"),
        ("layer-addr", lambda e: e["op"] == "layer" and e["res"] == "ok" and len(e["src"]) in (2, 4, 6), sub("f", "s", lambda b: [b[0] ^ 1] + b[1:]), "layer-flow-not-the-layer-addresses"),
        ("layer-unswapped", lambda e: e["op"] == "layer" and e["res"] == "ok" and e["src"] != e["dst"] and len(e["src"]) == len(e["dst"]),
         lambda e: e.__setitem__("f", {"t": e["f"]["t"], "s": e["f"]["d"], "d": e["f"]["s"]}), "layer-flow-not-the-layer-addresses"),
        ("layer-type", lambda e: e["op"] == "layer" and e["res"] == "ok" and e["lt"] == "TCP", sub("f", "t", lambda t: 5), "layer-flow-wrong-endpoint-type"),
        ("swap-same", lambda e: e["op"] == "swap" and e["res"] == "ok" and e["f"]["s"] != e["f"]["d"], lambda e: e.__setitem__("g", e["f"]), "opposite-direction-not-reversed-flow"),
        ("swap-hash", lambda e: e["op"] == "swap" and e["res"] == "ok", flip("heq"), "directions-hash-differently"),
    ]


SELF = 900000      # scenario numbers of the corrupted lines of the binding self-test


def selftest_lines(events):
    """Binding: good recorded lines stay accepted, each single-field corruption must be rejected with its reason.
    Returns the lines to append to the trace and {sc: expected reason}."""
    lines, want = [], {}
    for name, pred, mut, reason in corruptions():
        src = next((e for e in events if pred(e)), None)
        if src is None:
            raise vlib.Infra("binding self-test: no recorded line suits corruption %s" % name)
        bad = copy.deepcopy(src)
        mut(bad)
        bad["sc"] = SELF + len(want)
        if name != "layer-type":               # a distinct tag per line (FlowTrace keeps one example per op/reason/lt;
            bad["lt"] = "self-%s" % name       # the judge reads lt only for the endpoint type of known layers)
        lines.append(src)                      # the good line itself must (again) be accepted
        lines.append(bad)
        want[bad["sc"]] = reason
    return lines, want


def run(ctx):
    t0 = time.time()
    quick = ctx.tier == "quick"
    V = vlib.Verdict(PID)
    binp = vlib.go_build("./cmd/flow")
    wd = vlib.scratch("c17-%s" % ctx.tier)
    max_short, level = (2, 1) if quick else (3, 2)
    g = vlib.tlc("FlowGen", workdir=os.path.join(wd, "gen"), timeout=3000, workers=8, heap="8g",
                 cfg_subst={r"MaxShort = \d+": "MaxShort = %d" % max_short, r"FlowLevel = \d+": "FlowLevel = %d" % level})
    if g.violated:
        raise vlib.Infra("FlowGen.tla: %s violated (the laws fail in the model, or Flow.tla rejects the ideal implementation)" % g.violated)
    scen = [l for l in g.printed if isinstance(l, str) and l.split(" ", 1)[0] in ("EPAIR", "FPAIR", "BADEP", "BADFL")]
    kinds = {}
    for l in scen:
        k = l.split(" ", 1)[0]
        kinds[k] = kinds.get(k, 0) + 1
    if not kinds.get("EPAIR") or not kinds.get("FPAIR") or not kinds.get("BADEP") or not kinds.get("BADFL"):
        raise vlib.Infra("FlowGen.tla exported no scenarios: %s" % kinds)
    scen.sort()
    log("[C17] FlowGen: %d states (%d generated), laws + ideal implementation hold, exported %s in %.1fs"
        % (g.distinct, g.generated, kinds, g.wall))
    sp = os.path.join(wd, "scen.txt")
    open(sp, "w").write("\n".join(scen) + "\n")
    tp = os.path.join(wd, "trace.ndjson")
    p = vlib.run([binp, "-scenarios", sp, "-trace", tp, "-seed", str(ctx.seed), "-rand", "1500" if quick else "20000",
                  "-corpus", "-mut", "2" if quick else "30", "-addr", "2" if quick else "12"], timeout=3000, ok_codes=(0, 3))
    st = json.loads(p.stdout.strip().splitlines()[-1])
    log("[C17] driver: %d events, %d scenarios, %d packets, layer types %s" % (st["events"], st["scenarios"], st.get("packets", 0),
                                                                               json.dumps(st.get("layer_types", {}), sort_keys=True)))
    need = {"Ethernet", "IPv4", "IPv6", "TCP", "UDP", "SCTP", "FDDI", "UDPLite", "RUDP", "Linux SLL", "PPP"}
    missing = need - set(st.get("layer_types", {}))
    if missing and not st.get("hang"):
        raise vlib.Infra("no flow observed for layer types %s (corpus or decoders broken)" % sorted(missing))
    events = vlib.read_ndjson(tp)
    self_lines, want = selftest_lines(events)
    allv = events + self_lines                 # the self-test rides at the end of the last chunk
    tstates = nbad = 0
    got = {}
    for ci in range(0, len(allv), CHUNK):
        part = allv[ci:ci + CHUNK]
        cp = os.path.join(wd, "chunk.ndjson")
        with open(cp, "w") as f:
            for e in part:
                f.write(json.dumps(e) + "\n")
        v = vlib.validate_trace("FlowTrace", cp, "c17", heap="8g", timeout=3000)
        tstates += v["states"]
        nbad += v["nbad"]
        for b in v["bad"]:
            if b["sc"] >= SELF:
                got[b["sc"]] = b["reason"]
                nbad -= 1
                continue
            ev = part[b["line"] - 1]
            V.reject({"reason": b["reason"], "op": b["op"], "layer": b["lt"]},
                     {"bad": b, "event": ev, "rerun": "harness/cmd/flow -scenarios <FlowGen export> -seed %d -rand .. -corpus -mut .." % ctx.seed})
    log("[C17] trace validation: %d lines, %d rejected" % (len(events), nbad))
    if nbad == 0:
        if got != want:
            raise vlib.Infra("binding self-test failed: expected rejections %s, trace spec gave %s" % (want, got))
        self = {"corruptions": len(want), "rejected": len(got), "reasons": sorted(set(want.values()))}
        log("[C17] binding self-test: %d single-field corruptions of good lines, all rejected for the expected reason (%d reasons)"
            % (len(want), len(self["reasons"])))
    else:
        self = {"skipped": "trace has rejections"}
    rc = V.finish()
    samples, seen = [], set()
    for e in events:
        if e["op"] not in seen:
            seen.add(e["op"])
            samples.append(e)
    cov = {"states": g.distinct + tstates, "transitions": g.generated + len(events),
           "generator_model": {"MaxShort": max_short, "FlowLevel": level, "tlc_states": g.distinct, "exported": kinds},
           "traces_validated_against_impl": st["scenarios"], "trace_events_validated": len(events),
           "events_by_kind": st.get("stats", {}), "layer_types_observed": st.get("layer_types", {}),
           "packets_decoded": st.get("packets", 0), "random_pairs_beyond_bound": st.get("random", 0),
           "rejected_lines": nbad, "binding_selftest": self, "exhaustive": True,
           "evaluations": st["scenarios"], "distinct_nontrivial": st["scenarios"],
           "rule": "every endpoint pair / flow pair / oversize construction of FlowGen.tla (distinct by construction), seeded random pairs of related values (prefixes, zero extensions, one-bit changes, re-split concatenations), one observation per distinct (layer type, flow, address fields) of the decoded corpus, synthetic, mutated and address-rewritten packets (special address values), and every pair of the conversations of the special-address packets",
           "samples": samples}
    vlib.write_evidence(PID, ctx.tier, ctx.seed, "model_checking", cov, time.time() - t0, len(V.violations),
                        ["64-bit FNV is not computed in TLC: the driver reports only whether two hashes are equal and the spec judges the relation (equal values and mutually reversed flows must hash alike; collisions of unrelated values are not judged)",
                         "a layer's source/destination are its SrcMAC/DstMAC, SrcIP/DstIP, SrcPort/DstPort (big-endian in the declared width) or Addr fields read by reflection; IPv4 addresses are compared in 4-byte form",
                         "an address longer than 16 bytes cannot be carried by a flow: only its first 16 bytes are demanded",
                         "the opposite direction of a conversation is the same packet with the two address fields swapped in place (skipped when the swapped packet no longer decodes to the same layer)"])
    shutil.rmtree(wd, ignore_errors=True)
    return rc
