"""X09IMPL - the implementation-shaped model of gopacket/reassembly (ReasmImpl.tla) and its binding to the code.

Design level: TLC checks that the transcription of tcpassembly.go satisfies Reasm.tla (ImplSatisfiesProp) for every
scenario and configuration within the bound, and that it refutes each pre-fix shape of the code (WRAP = M-1, ...).
Binding: a seed-selected slice of the model's behaviours is replayed on the real Assembler; predicted and observed
deliveries / hook scalars are compared (impl_drift in the evidence, exit code unaffected) and the real trace is
validated by TLC against Reasm.tla.  Exit 1 only if the REAL behaviour is rejected by Reasm!Judge: that is a
violation of C09 (delivery clauses) or C11 (lifecycle clauses) and is printed as such."""
import time
import vlib
from . import reasmimpl as ri

PID = "X09IMPL"


def run(ctx):
    t0 = time.time()
    v09, v11 = vlib.Verdict("C09"), vlib.Verdict("C11")
    cov = ri.run_impl(ctx, ri.verdict_router(v09, v11))
    rc = max(v09.finish(), v11.finish())
    model_violated = [p["plan"]["name"] for p in cov["plans"] if p["violated"]]
    if model_violated:
        vlib.log("MODEL-COUNTEREXAMPLE: ReasmImplMC violated %s in plan(s) %s - replayed on the real code, verdict as above"
                 % ([p["violated"] for p in cov["plans"] if p["violated"]], model_violated))
    cov["exhaustive"] = True
    cov["rule"] = ("every behaviour of ReasmImpl.tla (transcription of reassembly/tcpassembly.go; ops = all stream intervals, SYN, FIN, "
                   "RST anywhere, FlushAll, age flushes) within the plan bounds for every configuration of the grid (page limit, KeepFrom "
                   "policy, forced start, ISN at every wrap position, ReassemblyComplete answer) is judged by Reasm!Judge inside TLC; a "
                   "hash-selected slice (seed) is replayed on the real Assembler with predicted-vs-observed comparison")
    nv = len(v09.violations) + len(v11.violations)
    vlib.write_evidence(PID, ctx.tier, ctx.seed, "model_checking", cov, time.time() - t0, nv,
                        ["ReasmImpl.tla is a hand transcription; its agreement with the code is measured (impl_drift), verdicts come only from real traces",
                         "one model unit = 950 bytes so that a model page (P = 2) is one real page of 1900 bytes",
                         "sequence space M = 32: in-flight distance stays below a quarter of the space (the documented heuristic)",
                         "statistics counters, ackSeq and locking are not transcribed"])
    return rc
