"""Shared machinery for the packet-builder checks (C01, C03, C19): Packet.tla design check, export of
(script, accessor program) behaviours, replay on the real lazy/eager packets, real-decoder corpus runs and
TLC trace validation."""
import json, os, shutil, subprocess, time
import vlib
from vlib import log


def design_check(quick):
    r = vlib.tlc("PacketMC", cfg="PacketMC", timeout=1800, workers=12,
                 cfg_subst={r"MaxScript = \d+": "MaxScript = %d" % (3 if quick else 4)})
    if r.violated:
        raise vlib.Infra("Packet.tla: invariant %s violated in the model itself" % r.violated)
    return r


def export(max_script, max_prog, wd):
    r = vlib.tlc("PacketMC", cfg="PacketExport", workdir=wd, timeout=1800, workers=8,
                 cfg_subst={r"MaxScript = \d+": "MaxScript = %d" % max_script, r"MaxProg = \d+": "MaxProg = %d" % max_prog})
    if r.violated:
        raise vlib.Infra("Packet export model violated %s" % r.violated)
    return [l[4:] for l in r.printed if isinstance(l, str) and l.startswith("BEH ")], r


def scripted(ctx, binp, wd, reasons):
    """model -> impl -> model for scripted decoders. Returns (stats, bad_list_with_events)."""
    quick = ctx.tier == "quick"
    plans = [(3, 1), (2, 2)] if quick else [(4, 1), (3, 2), (2, 3)]
    stats = {"scenarios": 0, "exported": [], "tstates": 0}
    bad_all = []
    samples = []
    for (ms, mp) in plans:
        scen, r = export(ms, mp, os.path.join(wd, "exp-%d-%d" % (ms, mp)))
        stats["exported"].append({"max_script": ms, "prog_len": mp, "behaviours": len(scen), "tlc_states": r.distinct})
        chunk = 150000
        for ci in range(0, len(scen), chunk):
            part = scen[ci:ci + chunk]
            sp = os.path.join(wd, "scen.ndjson")
            open(sp, "w").write("\n".join(part) + "\n")
            tp = os.path.join(wd, "trace.ndjson")
            vlib.run([binp, "-mode", "script", "-scenarios", sp, "-trace", tp])
            v = vlib.validate_trace("PacketTrace", tp, "scr", heap="8g")
            stats["scenarios"] += len(part)
            stats["tstates"] += v["states"]
            if v["bad"]:
                ev = vlib.read_ndjson(tp)
                for b in v["bad"]:
                    b["event"] = ev[b["line"] - 1]
                    bad_all.append(b)
            if not samples:
                samples = vlib.read_ndjson(tp)[1000:1002]
            os.remove(tp)
    stats["samples"] = samples
    return stats, bad_all


def real_run(ctx, binp, wd, what, n, nproc=8, maxlen=9000, enum_stride=0):
    """Run the real-decoder driver in nproc processes, concatenate the traces, validate with TLC.
    Returns (stats, bad list with events)."""
    per = max(1, n // nproc)
    procs = []
    for k in range(nproc):
        tp = os.path.join(wd, "real-%d.ndjson" % k)
        cmd = [binp, "-mode", "real", "-n", str(per), "-seed", str(ctx.seed * 1000 + k), "-what", what,
               "-maxlen", str(maxlen), "-trace", tp]
        if enum_stride:
            # the enumerated trailing-length cases (layout inferred from the pristine fixtures), dealt to the processes
            cmd += ["-enum", "%d/%d/%d" % (k, nproc, enum_stride)]
        procs.append((k, tp, subprocess.Popen(cmd, env=vlib.goenv(), stdout=subprocess.PIPE, stderr=subprocess.PIPE, text=True)))
    total_ev = 0
    crashes = []
    for k, tp, p in procs:
        out, err = p.communicate(timeout=3600)
        if p.returncode == 3:
            continue                      # hang event is in the trace
        if p.returncode != 0:
            # process died (fatal error / OOM): attribute to the case in progress
            cur = ""
            try:
                cur = open(tp + ".cur").read()
            except OSError:
                pass
            fatal = [l for l in err.splitlines() if l.startswith("fatal error") or l.startswith("panic:") or "out of memory" in l][:1]
            crashes.append({"op": "crash", "sc": 0, "in": cur, "sig": "crash|" + (fatal[0] if fatal else "exit %d" % p.returncode)})
    # validate each process's trace with its own TLC run (4 at a time)
    from concurrent.futures import ThreadPoolExecutor
    files = []
    for k, tp, p in procs:
        if os.path.exists(tp + ".cur"):
            os.remove(tp + ".cur")
        if os.path.exists(tp):
            files.append(tp)
    # a driver that died (fatal error: stack overflow, out of memory) may leave a torn last line behind
    for tp in files:
        with open(tp, "rb+") as f:
            f.seek(0, os.SEEK_END)
            size = f.tell()
            if size == 0:
                continue
            back = min(size, 1 << 20)
            f.seek(size - back)
            tail = f.read(back)
            if tail.endswith(b"\n"):
                last = tail[:-1].rsplit(b"\n", 1)[-1]
                try:
                    json.loads(last)
                    continue
                except ValueError:
                    cut = size - len(last) - 1
            else:
                cut = size - len(tail.rsplit(b"\n", 1)[-1])
            f.truncate(cut)
    if crashes:
        with open(files[0], "a") as out:
            for c in crashes:
                out.write(json.dumps(c) + "\n")

    def val(tp):
        return tp, vlib.validate_trace("PacketRealTrace", tp, "real-" + os.path.basename(tp), heap="6g", timeout=3000)
    with ThreadPoolExecutor(max_workers=4) as ex:
        results = list(ex.map(val, files))
    bad = []
    kinds = {}
    firsts = set()
    nontrivial = set()
    samples = []
    lines = tstates = 0
    seen_sig = set()
    for tp, v in results:
        lines += v["lines"]
        tstates += v["states"]
        need = {}
        for b in v["bad"]:
            key = (b["reason"], b["sig"])
            if key in seen_sig:
                continue
            seen_sig.add(key)
            need[b["line"]] = b
        with open(tp) as f:
            for i, line in enumerate(f):
                e = json.loads(line)
                kinds[e["op"]] = kinds.get(e["op"], 0) + 1
                if "first" in e:
                    firsts.add(e["first"])
                if e["op"] == "dec" and e.get("nl", 0) >= 2:
                    nontrivial.add(hash((e["in"], e["first"], e["opts"])))
                elif e["op"] == "lz" and len(e.get("prog", [])) >= 1:
                    nontrivial.add(hash((e["in"], e["first"], tuple(e["prog"]))))
                elif e["op"] == "raw" and e.get("outcome") in ("ok", "err") and e.get("len", 0) > 0:
                    nontrivial.add(hash((e["in"], e["path"], e["type"])))
                if len(samples) < 3 and i in (10, 11, 12):
                    samples.append(e)
                if (i + 1) in need:
                    b = need[i + 1]
                    b["event"] = e
                    bad.append(b)
        os.remove(tp)
    v = {"lines": lines, "states": tstates}
    stats = {"events": v["lines"], "tstates": v["states"], "kinds": kinds, "first_layer_types": len(firsts),
             "distinct_nontrivial": len(nontrivial), "samples": samples, "cases": per * nproc}
    return stats, bad


def sig_dict(b):
    """split an event signature 'where|fn|file|text' into a dict for known-finding matching"""
    parts = (b.get("sig") or "").split("|")
    d = {"reason": b["reason"], "op": b["op"]}
    if len(parts) >= 1:
        d["where"] = parts[0]
    if len(parts) >= 2:
        d["fn"] = parts[1]
    if len(parts) >= 3:
        d["file"] = parts[2]
    if len(parts) >= 4:
        d["text"] = "|".join(parts[3:])
    return d
