"""C05 - preallocated-layer decoding equals packet decoding and keeps no stale state.

(1) Parser.tla transcribes the loop of LayersDecoder/DecodeLayers over decoder scripts (Packet.tla style) and a
    container set S; TLC checks ParserResult(script, S) conforms to LeadingRun(EagerResult(script), S) for every
    script and every S within the bound and exports the (script, S) pairs.  The driver replays them with scripted
    DecodingLayers through DecodingLayerMap / Sparse / Array / a custom container (x IgnoreUnsupported x five
    constructions: container filled by Put and installed - cold, after a truncated packet, with a non-empty `decoded`
    slice -, empty container installed and AddDecodingLayer in the order of a construction plan, layers added after
    a decode; ParserBuild.tla enumerates the plans) and through gopacket.NewPacket with the equivalent Decoders;
    ParserTrace.tla judges parser-vs-packet (verdict) and parser-vs-model (drift, no verdict).
(2) Real layers: fixtures and structural mutations, entered at every layer of the common stack, decoded by
    NewPacket(DecodeStreamsAsDatagrams) and by parsers over seeded subsets of {Ethernet, Dot1Q, IPv4, IPv6, TCP, UDP,
    DNS, Payload} x 4 containers x IgnoreUnsupported; ParserRealTrace.tla applies the same LeadingRun to the real
    packet (types, stop reason, per-layer digests of exported fields / contents / payload, error text, Truncated).
(3) Stale state: TLC (ParserSeqGen.tla) enumerates ordered pairs / triples of pool indices; every sequence is
    decoded into one parser's reused layer objects, every pool input into fresh ones; ParserSeqTrace.tla (a memo)
    demands equal results for the last packet of every sequence and names the fields that differ."""
import json, os, random, shutil, subprocess, time
from concurrent.futures import ThreadPoolExecutor
import vlib
from vlib import log

PID = "C05"


def _tlc_beh(module, wd, subst, workers=8, timeout=3000):
    r = vlib.tlc(module, workdir=wd, timeout=timeout, workers=workers, cfg_subst=subst, heap="4g")
    if r.violated:
        raise vlib.Infra("%s: invariant %s violated in the model itself" % (module, r.violated))
    return [l[4:] for l in r.printed if isinstance(l, str) and l.startswith("BEH ")], r


def _drive(binp, args, timeout=3000):
    p = subprocess.run([binp] + args, env=vlib.goenv(), stdout=subprocess.PIPE, stderr=subprocess.PIPE, text=True, timeout=timeout)
    if p.returncode not in (0, 3):           # 3 = watchdog: the hang event is in the trace
        raise vlib.Infra("driver %s exited %d:\n%s" % (args[:2], p.returncode, (p.stderr or p.stdout)[-3000:]))
    try:
        return json.loads(p.stdout.strip().splitlines()[-1])
    except (ValueError, IndexError):
        raise vlib.Infra("driver %s printed no summary:\n%s" % (args[:2], p.stdout[-2000:]))


def _validate(module, tp, name, heap):
    """vlib.validate_trace; one retry if the scratch directory vanished under TLC (out/ is shared with other runs)"""
    try:
        return vlib.validate_trace(module, tp, name, heap=heap, timeout=3000)
    except OSError:
        return vlib.validate_trace(module, tp, name + "-retry", heap=heap, timeout=3000)


def _validate_many(module, files, par, heap):
    def val(tp):
        return tp, _validate(module, tp, os.path.basename(tp).replace(".", "-"), heap)
    with ThreadPoolExecutor(max_workers=par) as ex:
        return list(ex.map(val, files))


def _attach_events(results):
    """-> list of bad records with their trace event attached, summed counters, lines, tlc states"""
    bad, cnt, lines, states = [], {}, 0, 0
    for tp, v in results:
        lines += v["lines"]
        states += v["states"]
        for k, n in v.get("cnt", {}).items():
            cnt[k] = cnt.get(k, 0) + n
        need = {b["line"]: b for b in v["bad"]}
        if need:
            with open(tp) as f:
                for i, line in enumerate(f):
                    if (i + 1) in need:
                        need[i + 1]["event"] = json.loads(line)
                        need[i + 1]["file"] = tp
            bad.extend(v["bad"])
    return bad, cnt, lines, states


# ---------------------------------------------------------------------------------------------------------------
def part_scripted(ctx, binp, wd):
    t0 = time.time()
    quick = ctx.tier == "quick"
    ms = 3 if quick else 4
    subst = {r"MaxScript = \d+": "MaxScript = %d" % ms}
    if quick:
        subst[r"Steps <- MC_Steps"] = "Steps <- MC_StepsQuick"
    # construction plans (ParserBuild.tla): every order of AddDecodingLayer calls over every subset of the 4 types,
    # with a decode after every possible prefix; each (script, S) pair is replayed under one plan for S, in rotation
    plans, pg = _tlc_beh("ParserBuildGen", os.path.join(wd, "plans-gen"), None, workers=2)
    plans.sort()
    pp = os.path.join(wd, "plans.ndjson")
    open(pp, "w").write("\n".join(plans) + "\n")
    scen, mc = _tlc_beh("ParserMC", os.path.join(wd, "mc"), subst, workers=4 if quick else 8)
    log("[C05] Parser.tla exhaustive (scripts <= %d over %d step codes, 16 container sets): %d distinct states, %d (script, S) pairs in %.1fs"
        % (ms, 9 if quick else 13, mc.distinct, len(scen), mc.wall))
    exported = len(scen)
    scen.sort()
    if not quick:  # replay: every pair with a script of <= 3 bytes, a seeded sample of the 4-byte ones
        short, long_ = [], []
        for s in scen:
            (short if len(json.loads(s)["script"]) <= 3 else long_).append(s)
        rnd = random.Random(ctx.seed)
        rnd.shuffle(long_)
        scen = short + long_[:100000]
    random.Random(ctx.seed + 1).shuffle(scen)
    nchunk = 2 if quick else 10
    per = (len(scen) + nchunk - 1) // nchunk
    files, total = [], 0
    for k in range(nchunk):
        part = scen[k * per:(k + 1) * per]
        if not part:
            continue
        sp = os.path.join(wd, "scr-%d.scen" % k)
        open(sp, "w").write("\n".join(part) + "\n")
        tp = os.path.join(wd, "scr-%d.ndjson" % k)
        st = _drive(binp, ["-mode", "script", "-scenarios", sp, "-plans", pp, "-trace", tp])
        total += st["scenarios"]
        files.append(tp)
    res = _validate_many("ParserTrace", files, 2 if quick else 5, "6g")
    bad, cnt, lines, states = _attach_events(res)
    with open(files[0]) as f:
        samples = [json.loads(next(f)) for _ in range(2)]
    log("[C05] part 1 done in %.1fs (TLC %.1fs)" % (time.time() - t0, mc.wall))
    return {"mc": mc, "plans": len(plans), "plans_gen": pg, "plans_file": pp, "pairs_exported": exported, "replayed": total, "bad": bad, "cnt": cnt,
            "lines": lines, "tstates": states, "samples": samples, "files": files, "max_script": ms}


def part_real(ctx, binp, wd):
    t0 = time.time()
    quick = ctx.tier == "quick"
    nproc = 3 if quick else 12
    per = 800 if quick else 8000
    procs = []
    for k in range(nproc):
        tp = os.path.join(wd, "real-%d.ndjson" % k)
        args = ["-mode", "real", "-n", str(per), "-seed", str(ctx.seed * 1000 + k), "-subsets", "32" if quick else "96", "-trace", tp]
        procs.append((tp, args))
    with ThreadPoolExecutor(max_workers=nproc) as ex:
        sts = list(ex.map(lambda pa: _drive(binp, pa[1]), procs))
    files = [tp for tp, _ in procs]
    res = _validate_many("ParserRealTrace", files, 3 if quick else 6, "6g")
    bad, cnt, lines, states = _attach_events(res)
    for b in bad:
        b["cmd"] = next(a for tp, a in procs if tp == b["file"])
    # measured coverage of the sample
    firsts, errs, deep, subsets, nontrivial = {}, {}, 0, set(), set()
    samples = []
    for tp in files:
        with open(tp) as f:
            for i, line in enumerate(f):
                e = json.loads(line)
                if e.get("op") != "rl":
                    continue
                firsts[e["first"]] = firsts.get(e["first"], 0) + 1
                subsets.add(tuple(e["s"]))
                k = max(len(r["types"]) for r in e["res"])
                for r in e["res"]:
                    errs[r["err"]] = errs.get(r["err"], 0) + len(r["who"])
                if k >= 2:
                    deep += 1
                    nontrivial.add((e["in"], tuple(e["s"])))
                if len(samples) < 1 and k >= 3:
                    samples.append(e)
    log("[C05] part 2 done in %.1fs" % (time.time() - t0))
    return {"cases": sum(s["scenarios"] for s in sts), "events": lines, "bad": bad, "cnt": cnt, "tstates": states,
            "first_layer": firsts, "parser_outcomes": errs, "events_with_2plus_decoded": deep, "subsets_used": len(subsets),
            "distinct_nontrivial": len(nontrivial), "samples": samples, "files": files}


def part_stale(ctx, binp, wd):
    t0 = time.time()
    quick = ctx.tier == "quick"
    N, M, rounds = (14, 6, 2) if quick else (30, 12, 8)
    seqs, g = _tlc_beh("ParserSeqGen", os.path.join(wd, "seqgen"), {r"N = \d+": "N = %d" % N, r"M = \d+": "M = %d" % M}, workers=4)
    sp = os.path.join(wd, "seqs.scen")
    open(sp, "w").write("\n".join(seqs) + "\n")
    procs = []
    for k in range(rounds):
        tp = os.path.join(wd, "stale-%d.ndjson" % k)
        procs.append((tp, ["-mode", "stale", "-scenarios", sp, "-seed", str(ctx.seed), "-round0", str(k), "-rounds", "1",
                           "-poolsize", str(N), "-trace", tp]))
    with ThreadPoolExecutor(max_workers=min(rounds, 8)) as ex:
        sts = list(ex.map(lambda pa: _drive(binp, pa[1]), procs))
    files = [tp for tp, _ in procs]
    res = _validate_many("ParserSeqTrace", files, 2 if quick else 6, "6g")
    bad, cnt, lines, states = _attach_events(res)
    # replay data: rerun the rejected sequences with the input bytes attached
    for b in bad:
        e = b.get("event", {})
        if e.get("op") == "reuse":
            one = os.path.join(wd, "one.scen")
            open(one, "w").write(json.dumps({"seq": e["seq"]}) + "\n")
            tp = os.path.join(wd, "one.ndjson")
            rnd = int(e["pool"].split("/")[1])
            _drive(binp, ["-mode", "stale", "-scenarios", one, "-seed", str(ctx.seed), "-round0", str(rnd), "-rounds", "1",
                          "-poolsize", str(N), "-hex", "-trace", tp])
            for x in vlib.read_ndjson(tp):
                if x.get("op") == "reuse" and x.get("pool") == e["pool"]:
                    b["hex"] = x.get("hex")
                    b["first"] = e["pool"].split("/")[0]
    with open(files[0]) as f:
        lines0 = f.readlines()
    samples = [json.loads(l) for l in lines0 if '"op":"reuse"' in l][:1]
    for s in samples:
        s["val"].pop("df", None)
    log("[C05] part 3 done in %.1fs" % (time.time() - t0))
    return {"gen": g, "N": N, "M": M, "rounds": rounds, "sequences": len(seqs), "replayed": sum(s["scenarios"] for s in sts),
            "events": lines, "bad": bad, "cnt": cnt, "tstates": states, "samples": samples, "files": files}


# ---------------------------------------------------------------------------------------------------------------
# binding self-tests: a recorded good trace with one corrupted field must be rejected (and the same prefix
# uncorrupted must not be), and a harness-side mutant must be caught.

def _corrupt_all(lines, corruptions, each=3):
    """apply every (pick, mutate, reasons) to up to `each` different lines; returns (new lines, [line numbers])"""
    out, used = list(lines), []
    for pick, mutate, _ in corruptions:
        n = 0
        for i, l in enumerate(out):
            if (i + 1) in used:
                continue
            e = json.loads(l)
            if pick(e):
                mutate(e)
                out[i] = json.dumps(e) + "\n"
                used.append(i + 1)
                n += 1
                if n == each:
                    break
        if n == 0:
            return None, used
    return out, used


def selftest(ctx, binp, wd, files, main_cnt):
    quick = ctx.tier == "quick"

    def stride(path, n):
        with open(path) as f:
            ls = f.readlines()
        k = max(1, len(ls) // n)
        return ls[::k][:n]

    jobs = []      # (name, module, clean lines, corruptions, baseline known to be zero)
    jobs.append(("scripted", "ParserTrace", stride(files["scr"], 300), [
        (lambda e: e["op"] == "scr" and any(len(r["types"]) >= 1 and 0 in r["who"] for r in e["res"]),
         lambda e: [r["types"].pop() for r in e["res"] if 0 in r["who"]], ["parser-ne-packet"]),
        (lambda e: e["op"] == "scr" and e["pkt"]["trunc"] and any(r["trunc"] for r in e["res"]),
         lambda e: [r.__setitem__("trunc", False) for r in e["res"]], ["parser-ne-packet"])], main_cnt["scr"]))
    jobs.append(("real", "ParserRealTrace", stride(files["real"], 300), [
        (lambda e: e["op"] == "rl" and any(len(r["types"]) >= 2 for r in e["res"]),
         lambda e: e["pkt"]["ls"][1].__setitem__("d", "0" * 16), ["fields-differ"]),
        (lambda e: e["op"] == "rl" and any(r["err"] == "unsup" for r in e["res"]),
         lambda e: [r.__setitem__("err", "none") for r in e["res"] if r["err"] == "unsup"], ["parser-bookkeeping", "not-leading-run"]),
        (lambda e: e["op"] == "rl" and e["pkt"]["trunc"] and all(r["trunc"] for r in e["res"]),
         lambda e: e["pkt"].__setitem__("trunc", False), ["truncated-differs"])], main_cnt["real"]))
    # stale: the fresh events of the first pool, one of them repeated as a reuse event (accepted by construction)
    # and repeated once more with one digest changed (must be the only rejection)
    fresh = []
    with open(files["stale"]) as f:
        for l in f:
            e = json.loads(l)
            if e["op"] != "fresh":
                break
            fresh.append(e)
    twin = next(e for e in fresh if len(e["val"]["ds"]) >= 1)
    good = dict(twin, op="reuse", seq=[1, 1], pool="selftest")
    badv = json.loads(json.dumps(good))
    badv["val"]["ds"][0] = "x" + badv["val"]["ds"][0]
    sl = [json.dumps(e) + "\n" for e in fresh + [good, badv]]
    sp = os.path.join(wd, "st-stale.ndjson")
    open(sp, "w").writelines(sl)

    def runjob(j):
        name, module, lines, cors, cnt = j
        cor, used = _corrupt_all(lines, cors)
        if cor is None:
            raise vlib.Infra("self-test %s: no suitable event in the recorded trace" % name)
        reasons = sorted({r for c in cors for r in c[2]})
        base = 0
        if any(cnt.get(r, 0) for r in reasons):        # the tree under test has genuine rejections of that kind: measure the baseline
            a = os.path.join(wd, "st-%s-clean.ndjson" % name)
            open(a, "w").writelines(lines)
            va = _validate(module, a, "st-a-" + name, "2g")
            base = sum(va["cnt"].get(r, 0) for r in reasons)
        b = os.path.join(wd, "st-%s-bad.ndjson" % name)
        open(b, "w").writelines(cor)
        vb = _validate(module, b, "st-b-" + name, "2g")
        got = sum(vb["cnt"].get(r, 0) for r in reasons) - base
        return name, got >= len(cors), "%d kinds of corruption on %d events (lines %s) -> %d more rejections (%s)" % (len(cors), len(used), used, got, "/".join(reasons))

    def runstale(_):
        v = _validate("ParserSeqTrace", sp, "st-stale", "2g")
        ok = v["cnt"].get("stale-state", 0) == 1 and [b["line"] for b in v["bad"]] == [len(sl)]
        return "stale", ok, "reuse twin of a fresh event accepted, twin with one changed digest rejected at line %d: %s" % (len(sl), v["cnt"])

    def runmut(m):
        msp = os.path.join(wd, "mut.scen")
        if not os.path.exists(msp):
            open(msp, "w").writelines(stride(files["scen"], 600))
        tp = os.path.join(wd, "st-mut%d.ndjson" % m[0])
        _drive(binp, ["-mode", "script", "-scenarios", msp, "-plans", files["plans"], "-mutant", str(m[0]), "-trace", tp])
        v = _validate("ParserTrace", tp, "st-mut%d" % m[0], "2g")
        got = sum(v["cnt"].get(r, 0) for r in m[1])
        return "mutant%d" % m[0], got >= 1, "harness-side mutant (%s): %d rejections" % (m[2], got)

    muts = [] if quick else [(1, ["wrong-decoder-called", "parser-ne-packet"], "custom container's lookup ignores the type"),
                             (2, ["parser-ne-packet"], "scripted layers on the parser side forget SetTruncated")]
    if muts:
        open(os.path.join(wd, "mut.scen"), "w").writelines(stride(files["scen"], 600))
    with ThreadPoolExecutor(max_workers=4) as ex:
        f1 = [ex.submit(runjob, j) for j in jobs]
        f2 = [ex.submit(runstale, 0)]
        f3 = [ex.submit(runmut, m) for m in muts]
        out = [f.result() for f in f1 + f2 + f3]
    return [{"test": n, "ok": ok, "detail": d} for n, ok, d in out]


# ---------------------------------------------------------------------------------------------------------------
def _trim(e, limit=1500):
    s = json.dumps(e)
    return e if len(s) <= limit else {"truncated_event": s[:limit]}


def run(ctx):
    t0 = time.time()
    quick = ctx.tier == "quick"
    V = vlib.Verdict(PID)
    # ~12 JVMs run here, most of them for seconds: keep each one's GC from spawning a thread per core, and in the
    # quick tier skip the optimising JIT (all runs are short)
    os.environ.setdefault("_JAVA_OPTIONS", "-XX:ParallelGCThreads=2" + (" -XX:TieredStopAtLevel=1" if quick else ""))
    binp = vlib.go_build("./cmd/parser")
    wd = vlib.scratch("c05-%s" % ctx.tier)
    with ThreadPoolExecutor(max_workers=3) as ex:
        fs = ex.submit(part_scripted, ctx, binp, wd)
        fr = ex.submit(part_real, ctx, binp, wd)
        ft = ex.submit(part_stale, ctx, binp, wd)
        S, R, T = fs.result(), fr.result(), ft.result()
    log("[C05] scripted: %d pairs replayed x 48 parser runs each (4 containers x 5 constructions x IgnoreUnsupported + 8 mid-construction), rejected %s" % (S["replayed"], {k: v for k, v in S["cnt"].items() if v}))
    log("[C05] real layers: %d inputs, %d events, rejected %s" % (R["cases"], R["events"], {k: v for k, v in R["cnt"].items() if v}))
    log("[C05] stale state: %d sequences x 7 entry layers x %d pool draws, rejected %s" % (T["sequences"], T["rounds"], {k: v for k, v in T["cnt"].items() if v}))

    drift = S["cnt"].get("model-drift", 0)
    for b in S["bad"]:
        e = b.get("event", {})
        if b["reason"] == "model-drift":
            continue
        if b["reason"] == "incomplete-event":
            raise vlib.Infra("scripted trace event without all 24 parser runs: %s" % json.dumps(e)[:400])
        V.reject({"part": "scripted", "reason": b["reason"]}, {"event": e, "replay_with": "cmd/parser -mode script on one line {script, s}"})
    for b in R["bad"]:
        e = b.get("event", {})
        if b["reason"] == "incomplete-event":
            raise vlib.Infra("real trace event without all 8 parser runs: %s" % json.dumps(e)[:400])
        V.reject({"part": "real", "reason": b["reason"], "where": b.get("where", ""), "after": b.get("after", "")},
                 {"event": _trim(e, 6000), "rerun": [os.path.basename(binp)] + b.get("cmd", []) + ["-only", str(e.get("sc")), "-hex"]})
    for b in T["bad"]:
        e = b.get("event", {})
        if b["reason"] == "no-fresh-reference":
            raise vlib.Infra("stale trace: reuse event without fresh reference: %s" % json.dumps(e)[:300])
        fields = b.get("fields") or [""]
        for f in sorted(fields):
            e2 = dict(e)
            if "val" in e2:
                e2["val"] = {k: v for k, v in e2["val"].items() if k != "df"}
            V.reject({"part": "stale", "reason": b["reason"], "field": f},
                     {"event": _trim(e2, 4000), "inputs_hex": b.get("hex"), "first": b.get("first"),
                      "explain": "cmd/parser -mode explain -first <first> <hex>..."})

    t1 = time.time()
    st = selftest(ctx, binp, wd, {"scr": S["files"][0], "real": R["files"][0], "stale": T["files"][0], "scen": os.path.join(wd, "scr-0.scen"),
                                   "plans": S["plans_file"]},
                  {"scr": S["cnt"], "real": R["cnt"]})
    log("[C05] self-tests took %.1fs" % (time.time() - t1))
    rc = V.finish()
    failed = [x for x in st if not x["ok"]]
    if failed and rc == 0:
        raise vlib.Infra("binding self-test failed (a corrupted trace / a mutant double was accepted): %s" % failed)
    if failed:     # corrupting events that the tree under test already breaks proves nothing either way
        log("[C05] binding self-tests inconclusive on this tree: %s" % ", ".join(x["test"] for x in failed))
    else:
        log("[C05] binding self-tests passed: %s" % ", ".join(x["test"] for x in st))
    mc, g = S["mc"], T["gen"]
    cov = {"states": mc.distinct + g.distinct + S["plans_gen"].distinct + S["tstates"] + R["tstates"] + T["tstates"],
           "transitions": mc.generated + g.generated,
           "model_states_exhaustive": mc.distinct, "max_script": S["max_script"], "container_sets": 16,
           "traces_validated_against_impl": S["replayed"] + R["events"] + T["replayed"],
           "scripted_pairs_exported": S["pairs_exported"], "scripted_pairs_replayed": S["replayed"], "parser_runs_per_pair": 48,
           "construction_plans": S["plans"], "real_parser_runs_per_event": 20,
           "real_inputs": R["cases"], "real_events": R["events"], "real_first_layer": R["first_layer"],
           "real_parser_outcomes": R["parser_outcomes"], "real_events_with_2plus_decoded_layers": R["events_with_2plus_decoded"],
           "real_subsets_used": R["subsets_used"],
           "stale_pool": {"pairs_over": T["N"], "triples_over": T["M"], "draws": T["rounds"], "entry_layers": 7},
           "stale_sequences_replayed": T["replayed"],
           "rejected": {"scripted": {k: v for k, v in S["cnt"].items() if v}, "real": {k: v for k, v in R["cnt"].items() if v},
                        "stale": {k: v for k, v in T["cnt"].items() if v}},
           "model_drift_events": drift, "self_tests": st,
           "evaluations": S["replayed"] + R["events"] + T["replayed"],
           "distinct_nontrivial": S["replayed"] + R["distinct_nontrivial"] + T["replayed"],
           "rule": "scripted: every exported (script, S) pair is distinct; real: distinct (input, subset) whose parser decoded >= 2 layers; stale: every (entry layer, pool draw, index sequence) is distinct",
           "samples": [_trim(x) for x in S["samples"][:1] + R["samples"][:1] + T["samples"][:1]],
           "exhaustive": False}
    vlib.write_evidence(PID, ctx.tier, ctx.seed, "model_checking", cov, time.time() - t0, len(V.violations),
                        ["scripted DecodingLayers follow the documented contract (state fully set by a successful DecodeFromBytes); the equivalent Decoders wrap the same DecodeFromBytes like layers/base.go decodingLayerDecoder",
                         "an IPv6HopByHop layer that is the very object in the preceding IPv6 layer's HopByHop field is part of that IPv6 layer (decodeIPv6 lists it twice by design)",
                         "the type of a failing decoder is not observable on a packet: a trailing DecodeFailure is attributed to the type the parser was told comes next, or to the layer listed just before it (decodeIPv4/IPv6/TCP/UDP add their layer before returning the error)",
                         "a next layer type of LayerTypeZero ends the run without an error (DecodeLayers cannot distinguish it from success)",
                         "field equality is equality of a reflection digest over exported fields (nil and empty slices equal); real-layer inputs are sampled (fixtures, mutations, option splices), not exhaustive"])
    shutil.rmtree(wd, ignore_errors=True)
    return rc
