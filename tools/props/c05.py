"""C05 - preallocated-layer decoding equals packet decoding and keeps no stale state.

(1) Parser.tla transcribes the loop of LayersDecoder/DecodeLayers over decoder scripts (Packet.tla style) and a
    container set S; TLC checks ParserResult(script, S) conforms to LeadingRun(EagerResult(script), S) for every
    script and every S within the bound and exports the (script, S) pairs.  The driver replays them with scripted
    DecodingLayers through DecodingLayerMap / Sparse / Array / a custom container (x IgnoreUnsupported x five
    constructions: container filled by Put and installed - cold, after a truncated packet, with a non-empty `decoded`
    slice -, empty container installed and AddDecodingLayer in the order of a construction plan, layers added after
    a decode; ParserBuild.tla enumerates the plans) and through gopacket.NewPacket with the equivalent Decoders;
    ParserTrace.tla judges parser-vs-packet (verdict) and parser-vs-model (drift, no verdict).
(2) Real layers: fixtures and structural mutations, entered at every layer of the common stack, decoded by
    NewPacket(DecodeStreamsAsDatagrams) and by parsers over seeded subsets of {Ethernet, Dot1Q, IPv4, IPv6, TCP, UDP,
    DNS, Payload} x 4 containers x IgnoreUnsupported; ParserRealTrace.tla applies the same LeadingRun to the real
    packet (types, stop reason, per-layer digests of exported fields / contents / payload, error text, Truncated).
(3) Stale state: TLC (ParserSeqGen.tla) enumerates ordered pairs / triples of pool indices; every sequence is
    decoded into one parser's reused layer objects, every pool input into fresh ones; ParserSeqTrace.tla (a memo)
    demands equal results for the last packet of every sequence and names the fields that differ."""
import json, os, random, shutil, subprocess, time
from concurrent.futures import ThreadPoolExecutor
import vlib
from vlib import log

PID = "C05"


def _tlc_beh(module, wd, subst, workers=8, timeout=3000):
    r = vlib.tlc(module, workdir=wd, timeout=timeout, workers=workers, cfg_subst=subst, heap="4g")
    if r.violated:
        raise vlib.Infra("%s: invariant %s violated in the model itself" % (module, r.violated))
    return [l[4:] for l in r.printed if isinstance(l, str) and l.startswith("BEH ")], r


def _drive(binp, args, timeout=3000):
    p = subprocess.run([binp] + args, env=vlib.goenv(), stdout=subprocess.PIPE, stderr=subprocess.PIPE, text=True, timeout=timeout)
    if p.returncode not in (0, 3):           # 3 = watchdog: the hang event is in the trace
        raise vlib.Infra("driver %s exited %d:\n%s" % (args[:2], p.returncode, (p.stderr or p.stdout)[-3000:]))
    try:
        return json.loads(p.stdout.strip().splitlines()[-1])
    except (ValueError, IndexError):
        raise vlib.Infra("driver %s printed no summary:\n%s" % (args[:2], p.stdout[-2000:]))


def _validate(module, tp, name, heap):
    """vlib.validate_trace; one retry if the scratch directory vanished under TLC (out/ is shared with other runs)"""
    try:
        return vlib.validate_trace(module, tp, name, heap=heap, timeout=3000)
    except OSError:
        return vlib.validate_trace(module, tp, name + "-retry", heap=heap, timeout=3000)


def _validate_many(module, files, par, heap):
    def val(tp):
        return tp, _validate(module, tp, os.path.basename(tp).replace(".", "-"), heap)
    with ThreadPoolExecutor(max_workers=par) as ex:
        return list(ex.map(val, files))


def _attach_events(results):
    """-> list of bad records with their trace event attached, summed counters, lines, tlc states"""
    bad, cnt, lines, states = [], {}, 0, 0
    for tp, v in results:
        lines += v["lines"]
        states += v["states"]
        for k, n in v.get("cnt", {}).items():
            cnt[k] = cnt.get(k, 0) + n
        need = {b["line"]: b for b in v["bad"]}
        if need:
            with open(tp) as f:
                for i, line in enumerate(f):
                    if (i + 1) in need:
                        need[i + 1]["event"] = json.loads(line)
                        need[i + 1]["file"] = tp
            bad.extend(v["bad"])
    return bad, cnt, lines, states


# ---------------------------------------------------------------------------------------------------------------
def part_scripted(ctx, binp, wd):
    t0 = time.time()
    quick = ctx.tier == "quick"
    ms = 3 if quick else 4
    subst = {r"MaxScript = \d+": "MaxScript = %d" % ms}
    if quick:
        subst[r"Steps <- MC_Steps"] = "Steps <- MC_StepsQuick"
    # construction plans (ParserBuild.tla): every order of AddDecodingLayer calls over every subset of the 4 types,
    # with a decode after every possible prefix; each (script, S) pair is replayed under one plan for S, in rotation
    plans, pg = _tlc_beh("ParserBuildGen", os.path.join(wd, "plans-gen"), None, workers=2)
    plans.sort()
    pp = os.path.join(wd, "plans.ndjson")
    open(pp, "w").write("\n".join(plans) + "\n")
    scen, mc = _tlc_beh("ParserMC", os.path.join(wd, "mc"), subst, workers=4 if quick else 8)
    log("[C05] Parser.tla exhaustive (scripts <= %d over %d step codes, 16 container sets): %d distinct states, %d (script, S) pairs in %.1fs"
        % (ms, 9 if quick else 13, mc.distinct, len(scen), mc.wall))
    exported = len(scen)
    scen.sort()
    # replay: every pair with a short script (quick <= 2, thorough <= 3 bytes), a seeded sample of the longest ones
    short, long_ = [], []
    for s in scen:
        (short if len(json.loads(s)["script"]) < ms else long_).append(s)
    rnd = random.Random(ctx.seed)
    rnd.shuffle(long_)
    scen = short + long_[:6000 if quick else 80000]
    random.Random(ctx.seed + 1).shuffle(scen)
    nchunk = 3 if quick else 10
    per = (len(scen) + nchunk - 1) // nchunk
    files, total = [], 0
    for k in range(nchunk):
        part = scen[k * per:(k + 1) * per]
        if not part:
            continue
        sp = os.path.join(wd, "scr-%d.scen" % k)
        open(sp, "w").write("\n".join(part) + "\n")
        tp = os.path.join(wd, "scr-%d.ndjson" % k)
        st = _drive(binp, ["-mode", "script", "-scenarios", sp, "-plans", pp, "-trace", tp])
        total += st["scenarios"]
        files.append(tp)
    with open(files[0]) as f:
        samples = [json.loads(next(f)) for _ in range(2)]
    kinds = add_selftest(files[0], SCR_CORRUPTIONS)
    res = _validate_many("ParserTrace", files, 3 if quick else 5, "6g")
    bad, cnt, lines, states = _attach_events(res)
    lines -= 2 * len(kinds)
    st = eval_selftest("scripted", kinds, res[0][1]["self"])
    if not quick:
        st += mutant_tests(ctx, binp, wd, os.path.join(wd, "scr-0.scen"), pp)
    log("[C05] part 1 done in %.1fs (TLC %.1fs)" % (time.time() - t0, mc.wall))
    return {"selftests": st, "mc": mc, "plans": len(plans), "plans_gen": pg, "plans_file": pp, "pairs_exported": exported, "replayed": total, "bad": bad, "cnt": cnt,
            "lines": lines, "tstates": states, "samples": samples, "files": files, "max_script": ms}


def part_real(ctx, binp, wd):
    t0 = time.time()
    quick = ctx.tier == "quick"
    nproc = 3 if quick else 12
    per = 600 if quick else 6000
    procs = []
    for k in range(nproc):
        tp = os.path.join(wd, "real-%d.ndjson" % k)
        args = ["-mode", "real", "-n", str(per), "-seed", str(ctx.seed * 1000 + k), "-subsets", "32" if quick else "96", "-trace", tp]
        procs.append((tp, args))
    with ThreadPoolExecutor(max_workers=nproc) as ex:
        sts = list(ex.map(lambda pa: _drive(binp, pa[1]), procs))
    files = [tp for tp, _ in procs]
    kinds = add_selftest(files[0], REAL_CORRUPTIONS)
    res = _validate_many("ParserRealTrace", files, 3 if quick else 6, "6g")
    bad, cnt, lines, states = _attach_events(res)
    lines -= 2 * len(kinds)
    for b in bad:
        b["cmd"] = next(a for tp, a in procs if tp == b["file"])
    # measured coverage of the sample
    firsts, errs, deep, subsets, nontrivial = {}, {}, 0, set(), set()
    samples = []
    for tp in files:
        with open(tp) as f:
            for i, line in enumerate(f):
                e = json.loads(line)
                if e.get("op") != "rl" or e.get("sc", 0) < 0:
                    continue
                firsts[e["first"]] = firsts.get(e["first"], 0) + 1
                subsets.add(tuple(e["s"]))
                k = max(len(r["types"]) for r in e["res"])
                for r in e["res"]:
                    errs[r["err"]] = errs.get(r["err"], 0) + len(r["who"])
                if k >= 2:
                    deep += 1
                    nontrivial.add((e["in"], tuple(e["s"])))
                if len(samples) < 1 and k >= 3:
                    samples.append(e)
    st = eval_selftest("real", kinds, res[0][1]["self"])
    log("[C05] part 2 done in %.1fs" % (time.time() - t0))
    return {"selftests": st, "cases": sum(s["scenarios"] for s in sts), "events": lines, "bad": bad, "cnt": cnt, "tstates": states,
            "first_layer": firsts, "parser_outcomes": errs, "events_with_2plus_decoded": deep, "subsets_used": len(subsets),
            "distinct_nontrivial": len(nontrivial), "samples": samples, "files": files}


def part_stale(ctx, binp, wd):
    t0 = time.time()
    quick = ctx.tier == "quick"
    N, M, rounds = (14, 6, 2) if quick else (30, 12, 8)
    seqs, g = _tlc_beh("ParserSeqGen", os.path.join(wd, "seqgen"), {r"N = \d+": "N = %d" % N, r"M = \d+": "M = %d" % M}, workers=4)
    sp = os.path.join(wd, "seqs.scen")
    open(sp, "w").write("\n".join(seqs) + "\n")
    procs = []
    for k in range(rounds):
        tp = os.path.join(wd, "stale-%d.ndjson" % k)
        procs.append((tp, ["-mode", "stale", "-scenarios", sp, "-seed", str(ctx.seed), "-round0", str(k), "-rounds", "1",
                           "-poolsize", str(N), "-trace", tp]))
    with ThreadPoolExecutor(max_workers=min(rounds, 8)) as ex:
        sts = list(ex.map(lambda pa: _drive(binp, pa[1]), procs))
    files = [tp for tp, _ in procs]
    kinds = add_selftest_stale(files[0])
    res = _validate_many("ParserSeqTrace", files, 2 if quick else 6, "6g")
    bad, cnt, lines, states = _attach_events(res)
    lines -= 2 * len(kinds)
    # replay data: rerun the rejected sequences with the input bytes attached
    for b in bad:
        e = b.get("event", {})
        if e.get("op") == "reuse":
            one = os.path.join(wd, "one.scen")
            open(one, "w").write(json.dumps({"seq": e["seq"]}) + "\n")
            tp = os.path.join(wd, "one.ndjson")
            rnd = int(e["pool"].split("/")[1])
            _drive(binp, ["-mode", "stale", "-scenarios", one, "-seed", str(ctx.seed), "-round0", str(rnd), "-rounds", "1",
                          "-poolsize", str(N), "-hex", "-trace", tp])
            for x in vlib.read_ndjson(tp):
                if x.get("op") == "reuse" and x.get("pool") == e["pool"]:
                    b["hex"] = x.get("hex")
                    b["first"] = e["pool"].split("/")[0]
    with open(files[0]) as f:
        lines0 = f.readlines()
    samples = [json.loads(l) for l in lines0 if '"op":"reuse"' in l][:1]
    for s in samples:
        s["val"].pop("df", None)
    st = eval_selftest("stale", kinds, res[0][1]["self"])
    log("[C05] part 3 done in %.1fs" % (time.time() - t0))
    return {"selftests": st, "gen": g, "N": N, "M": M, "rounds": rounds, "sequences": len(seqs), "replayed": sum(s["scenarios"] for s in sts),
            "events": lines, "bad": bad, "cnt": cnt, "tstates": states, "samples": samples, "files": files}


# ---------------------------------------------------------------------------------------------------------------
# binding self-tests: a recorded good trace with one corrupted field must be rejected (and the same prefix
# uncorrupted must not be), and a harness-side mutant must be caught.

def _stride(path, n):
    with open(path) as f:
        ls = f.readlines()
    k = max(1, len(ls) // n)
    return ls[::k][:n]


SCR_CORRUPTIONS = [
    ("decoded type dropped", lambda e: e["op"] == "scr" and any(len(r["types"]) >= 1 and 0 in r["who"] for r in e["res"]),
     lambda e: [r["types"].pop() for r in e["res"] if 0 in r["who"]]),
    ("Truncated cleared", lambda e: e["op"] == "scr" and e["pkt"]["trunc"] and any(r["trunc"] for r in e["res"]),
     lambda e: [r.__setitem__("trunc", False) for r in e["res"]])]
REAL_CORRUPTIONS = [
    ("field digest changed", lambda e: e["op"] == "rl" and any(len(r["types"]) >= 2 for r in e["res"])
     and len(e["pkt"]["ls"]) >= 2 and e["pkt"]["ls"][0]["emb"] == 0 and e["pkt"]["ls"][1]["emb"] == 0,
     lambda e: e["pkt"]["ls"][1].__setitem__("d", "0" * 16)),
    ("unsupported-layer error dropped", lambda e: e["op"] == "rl" and any(r["err"] == "unsup" for r in e["res"]),
     lambda e: [r.__setitem__("err", "none") for r in e["res"] if r["err"] == "unsup"]),
    ("packet Truncated cleared", lambda e: e["op"] == "rl" and e["pkt"]["trunc"] and all(r["trunc"] for r in e["res"]),
     lambda e: e["pkt"].__setitem__("trunc", False))]


def add_selftest(path, corruptions, each=3):
    """Binding self-test, folded into the validation run of a recorded trace: for every kind of corruption up to `each`
    recorded events are appended twice, unchanged (sc = -2) and with one field corrupted (sc = -1).  The trace modules
    report events with sc < 0 apart (`self`) and never count them.  Returns the kinds, in the order appended."""
    lines = _stride(path, 400)
    out, kinds = [], []
    for name, pick, mutate in corruptions:
        n = 0
        for l in lines:
            e = json.loads(l)
            if e.get("sc", 0) > 0 and pick(e):
                e["sc"] = -2
                out.append(json.dumps(e) + "\n")
                mutate(e)
                e["sc"] = -1
                out.append(json.dumps(e) + "\n")
                kinds.append(name)
                n += 1
                if n == each:
                    break
        if n == 0:
            raise vlib.Infra("self-test: no recorded event suitable for '%s'" % name)
    with open(path, "a") as f:
        f.writelines(out)
    return kinds


def add_selftest_stale(path):
    """a fresh event repeated as a reuse event (accepted by construction, sc = -2) and once more with one digest changed"""
    twin = None
    with open(path) as f:
        for l in f:
            e = json.loads(l)
            if e["op"] != "fresh":
                break
            if len(e["val"]["ds"]) >= 1:
                twin = e
    if twin is None:
        raise vlib.Infra("self-test: no fresh event with a decoded layer")
    good = dict(twin, op="reuse", seq=[1, 1], pool="selftest", sc=-2)
    badv = json.loads(json.dumps(good))
    badv["sc"] = -1
    badv["val"]["ds"][0] = "x" + badv["val"]["ds"][0]
    with open(path, "a") as f:
        f.write(json.dumps(good) + "\n" + json.dumps(badv) + "\n")
    return ["digest of a reused decode changed"]


def eval_selftest(name, kinds, selfrep):
    """selfrep: the `self` list of the verdict (pairs: unchanged twin, corrupted twin).  A kind passes if some twin pair
    is conclusive (the unchanged twin accepted) and every conclusive pair has its corrupted twin rejected."""
    selfrep = sorted(selfrep, key=lambda x: x["line"])
    if len(selfrep) != 2 * len(kinds):
        raise vlib.Infra("self-test %s: %d self events reported, %d appended" % (name, len(selfrep), 2 * len(kinds)))
    res = {}
    for i, k in enumerate(kinds):
        clean, cor = selfrep[2 * i], selfrep[2 * i + 1]
        st = res.setdefault(k, {"conclusive": 0, "rejected": 0, "reasons": set()})
        if clean["reason"] == "ok":
            st["conclusive"] += 1
            if cor["reason"] != "ok":
                st["rejected"] += 1
                st["reasons"].add(cor["reason"])
    out = []
    for k, st in res.items():
        ok = st["conclusive"] >= 1 and st["rejected"] == st["conclusive"]
        out.append({"test": "%s: %s" % (name, k), "ok": ok,
                    "detail": "%d recorded events re-validated unchanged and corrupted: %d corrupted rejected (%s)"
                              % (st["conclusive"], st["rejected"], "/".join(sorted(st["reasons"])))})
    return out


def mutant_tests(ctx, binp, wd, scen_file, plans_file):
    """harness-side mutants of the doubles (thorough tier): each must be rejected"""
    msp = os.path.join(wd, "mut.scen")
    open(msp, "w").writelines(_stride(scen_file, 600))

    def runmut(m):
        tp = os.path.join(wd, "st-mut%d.ndjson" % m[0])
        _drive(binp, ["-mode", "script", "-scenarios", msp, "-plans", plans_file, "-mutant", str(m[0]), "-trace", tp])
        v = _validate("ParserTrace", tp, "st-mut%d" % m[0], "2g")
        got = sum(v["cnt"].get(r, 0) for r in m[1])
        return {"test": "mutant%d" % m[0], "ok": got >= 1, "detail": "harness-side mutant (%s): %d rejections" % (m[2], got)}

    muts = [(1, ["wrong-decoder-called", "parser-ne-packet"], "custom container's lookup ignores the type"),
            (2, ["parser-ne-packet"], "scripted layers on the parser side forget SetTruncated")]
    with ThreadPoolExecutor(max_workers=2) as ex:
        return list(ex.map(runmut, muts))


# ---------------------------------------------------------------------------------------------------------------
def _trim(e, limit=1500):
    s = json.dumps(e)
    return e if len(s) <= limit else {"truncated_event": s[:limit]}


def run(ctx):
    t0 = time.time()
    quick = ctx.tier == "quick"
    V = vlib.Verdict(PID)
    # ~12 JVMs run here, most of them for seconds: keep each one's GC from spawning a thread per core, and in the
    # quick tier skip the optimising JIT (all runs are short)
    os.environ.setdefault("_JAVA_OPTIONS", "-XX:ParallelGCThreads=2" + (" -XX:TieredStopAtLevel=1" if quick else ""))
    binp = vlib.go_build("./cmd/parser")
    wd = vlib.scratch("c05-%s" % ctx.tier)
    with ThreadPoolExecutor(max_workers=3) as ex:
        fs = ex.submit(part_scripted, ctx, binp, wd)
        fr = ex.submit(part_real, ctx, binp, wd)
        ft = ex.submit(part_stale, ctx, binp, wd)
        S, R, T = fs.result(), fr.result(), ft.result()
    log("[C05] scripted: %d pairs replayed x 48 parser runs each (4 containers x 5 constructions x IgnoreUnsupported + 8 mid-construction), rejected %s" % (S["replayed"], {k: v for k, v in S["cnt"].items() if v}))
    log("[C05] real layers: %d inputs, %d events, rejected %s" % (R["cases"], R["events"], {k: v for k, v in R["cnt"].items() if v}))
    log("[C05] stale state: %d sequences x 7 entry layers x %d pool draws, rejected %s" % (T["sequences"], T["rounds"], {k: v for k, v in T["cnt"].items() if v}))

    drift = S["cnt"].get("model-drift", 0)
    for b in S["bad"]:
        e = b.get("event", {})
        if b["reason"] == "model-drift":
            continue
        if b["reason"] == "incomplete-event":
            raise vlib.Infra("scripted trace event without all 24 parser runs: %s" % json.dumps(e)[:400])
        V.reject({"part": "scripted", "reason": b["reason"]}, {"event": e, "replay_with": "cmd/parser -mode script on one line {script, s}"})
    for b in R["bad"]:
        e = b.get("event", {})
        if b["reason"] == "incomplete-event":
            raise vlib.Infra("real trace event without all 8 parser runs: %s" % json.dumps(e)[:400])
        V.reject({"part": "real", "reason": b["reason"], "where": b.get("where", ""), "after": b.get("after", "")},
                 {"event": _trim(e, 6000), "rerun": [os.path.basename(binp)] + b.get("cmd", []) + ["-only", str(e.get("sc")), "-hex"]})
    for b in T["bad"]:
        e = b.get("event", {})
        if b["reason"] == "no-fresh-reference":
            raise vlib.Infra("stale trace: reuse event without fresh reference: %s" % json.dumps(e)[:300])
        fields = b.get("fields") or [""]
        for f in sorted(fields):
            e2 = dict(e)
            if "val" in e2:
                e2["val"] = {k: v for k, v in e2["val"].items() if k != "df"}
            V.reject({"part": "stale", "reason": b["reason"], "field": f},
                     {"event": _trim(e2, 4000), "inputs_hex": b.get("hex"), "first": b.get("first"),
                      "explain": "cmd/parser -mode explain -first <first> <hex>..."})

    st = S["selftests"] + R["selftests"] + T["selftests"]
    rc = V.finish()
    failed = [x for x in st if not x["ok"]]
    if failed and rc == 0:
        raise vlib.Infra("binding self-test failed (a corrupted trace / a mutant double was accepted): %s" % failed)
    if failed:     # corrupting events that the tree under test already breaks proves nothing either way
        log("[C05] binding self-tests inconclusive on this tree: %s" % ", ".join(x["test"] for x in failed))
    else:
        log("[C05] binding self-tests passed: %s" % ", ".join(x["test"] for x in st))
    mc, g = S["mc"], T["gen"]
    cov = {"states": mc.distinct + g.distinct + S["plans_gen"].distinct + S["tstates"] + R["tstates"] + T["tstates"],
           "transitions": mc.generated + g.generated,
           "model_states_exhaustive": mc.distinct, "max_script": S["max_script"], "container_sets": 16,
           "traces_validated_against_impl": S["replayed"] + R["events"] + T["replayed"],
           "scripted_pairs_exported": S["pairs_exported"], "scripted_pairs_replayed": S["replayed"], "parser_runs_per_pair": 48,
           "construction_plans": S["plans"], "real_parser_runs_per_event": 20,
           "real_inputs": R["cases"], "real_events": R["events"], "real_first_layer": R["first_layer"],
           "real_parser_outcomes": R["parser_outcomes"], "real_events_with_2plus_decoded_layers": R["events_with_2plus_decoded"],
           "real_subsets_used": R["subsets_used"],
           "stale_pool": {"pairs_over": T["N"], "triples_over": T["M"], "draws": T["rounds"], "entry_layers": 7},
           "stale_sequences_replayed": T["replayed"],
           "rejected": {"scripted": {k: v for k, v in S["cnt"].items() if v}, "real": {k: v for k, v in R["cnt"].items() if v},
                        "stale": {k: v for k, v in T["cnt"].items() if v}},
           "model_drift_events": drift, "self_tests": st,
           "evaluations": S["replayed"] + R["events"] + T["replayed"],
           "distinct_nontrivial": S["replayed"] + R["distinct_nontrivial"] + T["replayed"],
           "rule": "scripted: every exported (script, S) pair is distinct; real: distinct (input, subset) whose parser decoded >= 2 layers; stale: every (entry layer, pool draw, index sequence) is distinct",
           "samples": [_trim(x) for x in S["samples"][:1] + R["samples"][:1] + T["samples"][:1]],
           "exhaustive": False}
    vlib.write_evidence(PID, ctx.tier, ctx.seed, "model_checking", cov, time.time() - t0, len(V.violations),
                        ["scripted DecodingLayers follow the documented contract (state fully set by a successful DecodeFromBytes); the equivalent Decoders wrap the same DecodeFromBytes like layers/base.go decodingLayerDecoder",
                         "an IPv6HopByHop layer that is the very object in the preceding IPv6 layer's HopByHop field is part of that IPv6 layer (decodeIPv6 lists it twice by design)",
                         "the type of a failing decoder is not observable on a packet: a trailing DecodeFailure is attributed to the type the parser was told comes next, or to the layer listed just before it (decodeIPv4/IPv6/TCP/UDP add their layer before returning the error)",
                         "a next layer type of LayerTypeZero ends the run without an error (DecodeLayers cannot distinguish it from success)",
                         "field equality is equality of a reflection digest over exported fields (nil and empty slices equal); real-layer inputs are sampled (fixtures, mutations, option splices), not exhaustive"])
    shutil.rmtree(wd, ignore_errors=True)
    return rc
