"""C03 - lazy decoding is observationally equivalent to eager decoding.

Packet.tla: TLC proves LazyResult(a) = EagerResult(a) for every reachable lazy state of every script
(exhaustive), exports (script, accessor program) behaviours; each is replayed on a real lazyPacket and a real
eagerPacket built from the same bytes (scripted real Decoders), and the recorded answers are validated by TLC
(PacketTrace.tla).  The same comparison runs on real layer decoders over fixtures and mutations
(PacketRealTrace.tla).  Verdict reason: lazy-ne-eager (real lazy differs from real eager)."""
import os, time, shutil
import vlib
from vlib import log
from . import pktcommon as pc

PID = "C03"


def run(ctx):
    t0 = time.time()
    quick = ctx.tier == "quick"
    V = vlib.Verdict(PID)
    binp = vlib.go_build("./cmd/pkt")
    wd = vlib.scratch("c03-%s" % ctx.tier)
    mc = pc.design_check(quick)
    log("[C03] Packet.tla exhaustive: %d distinct states (%d generated) in %.1fs" % (mc.distinct, mc.generated, mc.wall))
    st, bad = pc.scripted(ctx, binp, wd, None)
    drift = 0
    for b in bad:
        if b["reason"] == "lazy-ne-eager":
            V.reject({"kind": "scripted", "reason": b["reason"]}, {"event": b["event"]})
        elif b["reason"] == "model-drift":
            drift += 1
    rst, rbad = pc.real_run(ctx, binp, wd, "lz", 24000 if quick else 1500000, nproc=8 if quick else 14)
    for b in rbad:
        if b["reason"] in ("lazy-ne-eager", "hang", "crash"):
            d = pc.sig_dict(b)
            V.reject({"kind": "real", "reason": b["reason"], "first": b["event"].get("first"), "diff": (b["event"].get("diff") or "")[:40]},
                     {"event": b["event"]})
    rc = V.finish()
    cov = {"states": mc.distinct + st["tstates"] + rst["tstates"], "transitions": mc.generated,
           "model_states_exhaustive": mc.distinct,
           "traces_validated_against_impl": st["scenarios"] + rst["cases"],
           "scripted_behaviours_replayed": st["scenarios"], "exports": st["exported"],
           "real_decoder_cases": rst["cases"], "real_first_layer_types": rst["first_layer_types"],
           "evaluations": st["scenarios"] + rst["cases"], "distinct_nontrivial": st["scenarios"] + rst["distinct_nontrivial"],
           "rule": "scripted: every (script, accessor program) pair exported by TLC is distinct; real: distinct (input, first layer, program) with a non-empty program",
           "model_drift_events": drift, "samples": st["samples"] + rst["samples"][:1], "exhaustive": False}
    vlib.write_evidence(PID, ctx.tier, ctx.seed, "model_checking", cov, time.time() - t0, len(V.violations),
                        ["scripted decoders follow the documented PacketBuilder contract (AddLayer before NextDecoder, return NextDecoder's result)",
                         "real-decoder inputs are sampled (fixtures + structural mutations), not exhaustive"])
    shutil.rmtree(wd, ignore_errors=True)
    return rc
