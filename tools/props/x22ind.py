"""X22IND - growth beyond the twenty properties: UNBOUNDED safety results for the design-level (concurrent
pc-machine) specifications, by inductive invariants.

The twenty checks decide their properties with TLC inside small bounds.  For four design specifications the
safety part of that bounded result is lifted here to an unbounded one: an inductive invariant IndInv with
    Init => IndInv,     IndInv /\\ [Next]_vars => IndInv',     IndInv => Property
proved by TLAPS (tlapm; backends SMT / Zenon / Isabelle / PTL) for arbitrary parameters, and for the pool protocol
also checked by Apalache (second, independent engine; it yields concrete counterexamples to induction).

  (a) C04  Pool.tla          PoolInd.tla (thread programs abstracted to per-packet life cycles) + PoolIndProof.tla:
                             NoAlias / FreeDisjoint / ContentOK for ANY set of packets, any number of blocks;
                             PoolIndRef.tla: TLC checks Pool!PSpec => PoolInd!Spec (refinement mapping) on bounded T x P;
                             PoolIndApa.tla: the same induction in Apalache for |Pkt| <= 4.
  (b) C12  PoolConc.tla      PoolConcInd.tla + PoolConcProof.tla on the ORIGINAL module: NoPanic / NoMisdelivery /
                             SingleEntry / NoSharedObject / CompletedAtMostOnce for any Progs, any NConn, both Bidir.
  (c) C16  PacketSource.tla  PacketSourceInd.tla + PacketSourceProof.tla on the ORIGINAL module: all six safety
                             invariants for any Scripts and any K.
      C20  ReaderStream.tla  ReaderStreamInd.tla (mechanically derived copy, recursive helpers as operator constants)
                             + ReaderStreamIndProof.tla: NoPanic and NotStuck (= no deadlock) for any histories;
                             ReaderStreamIndRef.tla: TLC checks ReaderStream!Spec => copy!Spec and NotStuck <=> ENABLED Next.

Every proved invariant has a negative control: a seeded mutant (LateWrite = TRUE; KeyCheck = FALSE; SendCancelled
without `cancelled`; AckInClose = FALSE) for which the same proof script must FAIL inside the expected lemma, and for
which TLC (or Apalache) exhibits a concrete counterexample; plus `FALSE` must not be provable from the proof's
assumptions.  TLC also confirms on the bounded constants of the owning check that each IndInv is an invariant at all.

This check never looks at the Go code: its verdict is about the specifications (exit 0 = every proof went through and
every negative control failed as expected; anything else is reported as an infrastructure problem, exit 2).  The
binding of the specifications to the real code stays with C04 / C12 / C16 / C20.
"""
import json, os, re, shutil, subprocess, time
from concurrent.futures import ThreadPoolExecutor
import vlib
from vlib import log

PID = "X22IND"
TLA_END = "=" * 77


# --------------------------------------------------------------------------------------------------------------------
# tool runners

def spec_dir(wd, name, edits=None):
    """private copy of specs/*.tla (tlapm and apalache resolve EXTENDS in the working directory)"""
    d = os.path.join(wd, name)
    os.makedirs(d, exist_ok=True)
    for f in os.listdir(vlib.SPECS):
        if f.endswith(".tla"):
            shutil.copy(os.path.join(vlib.SPECS, f), d)
    for fn, subs in (edits or {}).items():
        p = os.path.join(d, fn)
        txt = open(p).read()
        for a, b in subs:
            if a not in txt:
                raise vlib.Infra("mutation pattern %r not found in %s" % (a, fn))
            txt = txt.replace(a, b, 1)
        open(p, "w").write(txt)
    return d


def lemma_range(path, names):
    """line range covering the named LEMMA/THEOREM blocks (first line of the first .. last line of the last)"""
    L = open(path).read().split("\n")
    heads = [i for i, l in enumerate(L) if re.match(r"^(LEMMA|THEOREM|ASSUME|====|----)", l)]
    lo, hi = None, None
    for n in names:
        st = [i for i in heads if re.match(r"^(LEMMA|THEOREM)\s+%s\s*==" % re.escape(n), L[i])]
        if not st:
            raise vlib.Infra("no lemma %s in %s" % (n, path))
        s = st[0]
        e = min([i for i in heads if i > s] + [len(L)]) - 1
        lo = s + 1 if lo is None else min(lo, s + 1)
        hi = e + 1 if hi is None else max(hi, e + 1)
    return lo, hi


def tlapm(d, module, threads=4, timeout=900, lines=None, stretch=None, method=None):
    """method=None: tlapm's default cascade SMT -> Zenon -> Isabelle for every obligation without an explicit method"""
    cmd = ["timeout", str(timeout), "tlapm", "--threads", str(threads), "--cleanfp"]
    if method:
        cmd += ["--method", method]
    if stretch:
        cmd += ["--stretch", str(stretch)]
    if lines:
        cmd += ["--toolbox", str(lines[0]), str(lines[1])]
    cmd.append(module + ".tla")
    t0 = time.time()
    try:
        p = subprocess.run(cmd, cwd=d, stdout=subprocess.PIPE, stderr=subprocess.STDOUT, text=True)
    except OSError as ex:
        return {"module": module, "result": "unavailable", "detail": str(ex), "wall_s": 0, "obligations": 0, "failed": 0, "failed_lines": []}
    out = p.stdout or ""
    with open(os.path.join(d, module + ".tlapm.log"), "w") as f:
        f.write(out)
    res = {"module": module, "wall_s": round(time.time() - t0, 1), "obligations": 0, "failed": 0, "failed_lines": [],
           "lines": list(lines) if lines else None, "tool": "tlapm", "backends": method or "smt, zenon, isabelle (default cascade)"}
    m = re.search(r"All (\d+) obligations? proved", out)
    m2 = re.search(r"(\d+)/(\d+) obligations? failed", out)
    fl = set(int(x) for x in re.findall(r'File "[^"]*", line (\d+), characters [^\n]*\n\[ERROR\]: Could not prove', out))
    if p.returncode == 124:
        res["result"] = "timeout"
    elif m:
        res.update(result="proved", obligations=int(m.group(1)))
    elif m2:
        res.update(result="failed", failed=int(m2.group(1)), obligations=int(m2.group(2)), failed_lines=sorted(fl))
    else:
        res.update(result="error", tail=out[-1500:])
    return res


def proof_blocks(path):
    """(first line, last line) of every LEMMA / THEOREM block of a proof module"""
    L = open(path).read().split("\n")
    heads = [i for i, l in enumerate(L) if re.match(r"^(LEMMA|THEOREM|ASSUME|====|----)", l)]
    out = []
    for i in heads:
        if re.match(r"^(LEMMA|THEOREM)", L[i]):
            e = min([j for j in heads if j > i] + [len(L)]) - 1
            out.append((i + 1, e + 1))
    return out


def tlapm_sharded(wd, name, module, shards, threads, timeout, stretch=None):
    """The same proof, cut into `shards` contiguous groups of lemmas that run as parallel tlapm processes (tlapm
    prepares obligations in one thread; a long proof is bound by that).  Every LEMMA/THEOREM block is in exactly one
    group, so the union of the runs is the whole proof."""
    first = spec_dir(wd, "%s-proof-0" % name)
    bl = proof_blocks(os.path.join(first, module + ".tla"))
    total = sum(e - b + 1 for b, e in bl)
    groups, cur, acc = [], [], 0
    for b, e in bl:
        cur.append((b, e))
        acc += e - b + 1
        if acc >= total * (len(groups) + 1) / shards and len(groups) < shards - 1:
            groups.append(cur)
            cur = []
    if cur:
        groups.append(cur)
    t0 = time.time()
    with ThreadPoolExecutor(max_workers=len(groups)) as ex:
        futs = [ex.submit(tlapm, first if i == 0 else spec_dir(wd, "%s-proof-%d" % (name, i)), module, threads, timeout, (g[0][0], g[-1][1]), stretch)
                for i, g in enumerate(groups)]
        rs = [f.result() for f in futs]
    res = {"module": module, "tool": "tlapm", "wall_s": round(time.time() - t0, 1), "shards": [{"lines": r["lines"], "result": r["result"],
           "obligations": r["obligations"], "wall_s": r["wall_s"]} for r in rs], "lemmas": len(bl),
           "obligations": sum(r["obligations"] for r in rs), "failed": sum(r["failed"] for r in rs),
           "failed_lines": sorted(x for r in rs for x in r["failed_lines"]), "backends": rs[0].get("backends")}
    bad = [r for r in rs if r["result"] != "proved"]
    res["result"] = "proved" if not bad else bad[0]["result"]
    if bad and "tail" in bad[0]:
        res["tail"] = bad[0]["tail"]
    return res


def apalache(d, module, tag, cinit, init, inv, length, timeout=600):
    env = dict(os.environ)
    env.pop("JAVA_TOOL_OPTIONS", None)
    env.setdefault("JVM_ARGS", "-Xmx2g -XX:ActiveProcessorCount=4")      # small problems; the machine is shared
    od = os.path.join(d, "apa-" + tag)
    cmd = ["timeout", str(timeout), "apalache-mc", "check", "--cinit=" + cinit, "--init=" + init, "--inv=" + inv,
           "--length=%d" % length, "--out-dir=" + od, module + ".tla"]
    t0 = time.time()
    try:
        p = subprocess.run(cmd, cwd=d, env=env, stdout=subprocess.PIPE, stderr=subprocess.STDOUT, text=True)
    except OSError as ex:
        return {"tag": tag, "result": "unavailable", "detail": str(ex), "wall_s": 0}
    out = p.stdout or ""
    res = {"tag": tag, "cinit": cinit, "init": init, "inv": inv, "length": length, "wall_s": round(time.time() - t0, 1), "tool": "apalache-mc"}
    if p.returncode == 124:
        res["result"] = "timeout"
    elif "The outcome is: NoError" in out and p.returncode == 0:
        res["result"] = "NoError"
    elif "The outcome is: Error" in out:
        res["result"] = "Error"
        cti = None
        for root, _, files in os.walk(od):
            if "violation1.tla" in files:
                cti = open(os.path.join(root, "violation1.tla")).read()
        if cti:
            keep = [l.strip() for l in cti.split("\n") if l.strip() and not l.startswith(("(*", "---", "===", "EXTENDS"))]
            res["counterexample_to_induction"] = keep[:40]
    else:
        res.update(result="failed", tail=out[-1500:])
    return res


def tlc(module, cfg, wd, name, subst=None, timeout=1500, workers=4, files=(), heap=None):
    """-> dict; an expected violation is a result, not an error (vlib.tlc does not know action-property violations)"""
    t0 = time.time()
    try:
        r = vlib.tlc(module, cfg=cfg, workdir=os.path.join(wd, "tlc-" + name), timeout=timeout, workers=workers,
                     cfg_subst=subst or None, files=files, heap=heap)
    except vlib.Infra as ex:
        msg = str(ex)
        if "Action property" in msg and "is violated" in msg:
            return {"name": name, "module": module, "cfg": cfg, "violated": "action-property", "states": 0, "transitions": 0,
                    "wall_s": round(time.time() - t0, 1)}
        raise
    return {"name": name, "module": module, "cfg": cfg, "subst": subst or {}, "violated": r.violated, "states": r.distinct,
            "transitions": r.generated, "depth": r.depth, "wall_s": round(r.wall, 1)}


def derive_readerstream_copy(orig):
    """ReaderStream.tla -> the part of ReaderStreamInd.tla that must stay a verbatim copy: the same text, except that
    the three RECURSIVE helper operators become operator CONSTANTS (TLAPS has no recursive operators) and the two
    definitions that depend on a fourth one (HistLen, EOFComplete) are dropped."""
    L = orig.split("\n")
    out = []
    i = 0
    while i < len(L):
        l = L[i]
        if l.startswith("---") and "MODULE ReaderStream" in l:
            out.append("--------------------------- MODULE ReaderStreamInd ---------------------------")
        elif l.startswith("RECURSIVE Ranges("):
            out.append("CONSTANTS Ranges(_, _, _), BatchLen(_, _), StripEmpty(_)     \\* X22IND: see the header")
            while not L[i].startswith("Stripped(cur) =="):
                i += 1
            continue
        elif l.startswith("RECURSIVE HistLen(") or l.startswith("EOFComplete =="):
            i += 2
            continue
        elif l.startswith("====="):
            break
        else:
            out.append(l)
        i += 1
    return "\n".join(out) + "\n"


# --------------------------------------------------------------------------------------------------------------------
# the four targets

TARGETS = [
    {"id": "pool", "owner": "C04", "spec": "Pool.tla", "proof": "PoolIndProof", "threads": 4,
     "on": "PoolInd.tla (abstraction of Pool.tla: one life-cycle machine per packet, any interleaving; bound to Pool.tla by the TLC refinement check PoolIndRef)",
     "invariant": "IndInv = TypeOK /\\ HoldsIffBetween /\\ NoAlias /\\ FreeDisjoint /\\ ContentOK",
     "implies": ["NoAlias", "FreeDisjoint", "ContentOK"],
     "unbounded_in": "the set Pkt of packets (arbitrary, may be infinite: any number of threads and packets per thread), the number of blocks, the number of steps; LateWrite = FALSE",
     "assumes": ["Correct"],
     "mutant": {"kind": "assume", "what": "LateWrite = TRUE (Dispose returns the block to the pool, then writes to it once more)",
                "edits": {"PoolIndProof.tla": [("ASSUME Correct == LateWrite = FALSE", "ASSUME Correct == LateWrite = TRUE")]},
                "expect_in": ["PutInd", "LateInd"], "must_fail": "PutInd"},
     "not_attempted": ["PropAcceptsIdeal (PJudge accepts the ideal pool's logged events): depends on the log-point sub-steps and the judge state, stays bounded (TLC, C04)",
                       "Pool!PSpec => PoolInd!Spec is checked by TLC on bounded T x P, not proved (needs the pigeonhole argument that a valid order names every operation once)"]},
    {"id": "poolconc", "owner": "C12", "spec": "PoolConc.tla", "proof": "PoolConcProof", "threads": 8, "quick_shards": 4,
     "on": "PoolConc.tla itself (PoolConcInd.tla EXTENDS it)",
     "invariant": "IndInv = TypeOK /\\ InProg /\\ Dir0 /\\ Locked /\\ Alloc /\\ ~panic /\\ ~misdelivered /\\ SingleEntry /\\ A1..A4 /\\ S1..S5",
     "implies": ["NoPanic", "NoMisdelivery", "SingleEntry", "NoSharedObject", "CompletedAtMostOnce"],
     "unbounded_in": "Progs (any number of threads, programs of any length over any keys, flushers included), NConn, Bidir (both), the number of steps; KeyCheck = TRUE, PanicOnRace = FALSE",
     "assumes": ["Design", "PA"],
     "mutant": {"kind": "assume", "what": "KeyCheck = FALSE (the connection does not re-validate its key after locking: the code's actual shape)",
                "edits": {"PoolConcProof.tla": [("ASSUME Design == KeyCheck = TRUE", "ASSUME Design == KeyCheck = FALSE")]},
                "expect_in": ["ProcessInd"], "must_fail": "ProcessInd",
                "quick_steps": (r"^  <1>r\. ASSUME", r"^  <1>2\. CASE")},      # quick tier: only the step that derives `right`
     "not_attempted": ["deadlock freedom (CHECK_DEADLOCK of PoolConcMC.cfg) stays bounded",
                       "the recycled-connection window of the pinned code (KeyCheck = FALSE) is a known finding of C12, not a theorem"]},
    {"id": "packetsource", "owner": "C16", "spec": "PacketSource.tla", "proof": "PacketSourceProof", "threads": 4,
     "on": "PacketSource.tla itself (PacketSourceInd.tla EXTENDS it)",
     "invariant": "IndInv = ITypeOK /\\ Len(chan) <= K /\\ Shape /\\ InFlight /\\ ClosedIff /\\ CancelReads",
     "implies": ["InOrderOnce", "NothingLost", "ClosedMeansDone", "NoSendAfterClose", "TypeOK", "AtMostOneReadAfterCancel"],
     "unbounded_in": "Scripts (any set of source scripts of any length over any alphabet), the channel capacity K, the number of steps",
     "assumes": ["KNat"],
     "mutant": {"kind": "spec", "what": "SendCancelled without the guard `cancelled` (the goroutine may drop the packet in its hand although nobody cancelled)",
                "edits": {"PacketSource.tla": [('SendCancelled == /\\ pc = "send" /\\ cancelled', 'SendCancelled == /\\ pc = "send"')]},
                "expect_in": ["SendCancelledInd"], "must_fail": "SendCancelledInd"},
     "not_attempted": ["liveness (EofCloses, CancelCloses under weak fairness) stays bounded (TLC, C16)"]},
    {"id": "readerstream", "owner": "C20", "spec": "ReaderStream.tla", "proof": "ReaderStreamIndProof", "threads": 3,
     "on": "ReaderStreamInd.tla (mechanically derived copy of ReaderStream.tla with the RECURSIVE helpers as operator constants; bound to the original by the TLC refinement check ReaderStreamIndRef)",
     "invariant": "IndInv = HTypeOK /\\ H1..H8 (handshake between `reassembled`, `done` and Close)",
     "implies": ["NoPanic", "NotStuck (= some action enabled or both goroutines terminated: no deadlock)"],
     "unbounded_in": "Batches (any delivery histories of any length), ReadSizes, MaxReads, LossErrors, the interpretation of Ranges/BatchLen/StripEmpty, the number of steps; AckInClose = TRUE",
     "assumes": ["Repaired", "HA"],
     "mutant": {"kind": "assume", "what": "AckInClose = FALSE (the pinned Close(): drains without acknowledging the batch still held)",
                "edits": {"ReaderStreamIndProof.tla": [("ASSUME Repaired == AckInClose = TRUE", "ASSUME Repaired == AckInClose = FALSE")]},
                "expect_in": ["StartCloseInd"], "must_fail": "StartCloseInd"},
     "not_attempted": ["ReadIsPrefix, EOFOnlyAtEnd, EOFComplete depend on the recursive helpers (Ranges, StripEmpty, HistLen), which TLAPS does not support: stay bounded (TLC, C20)"]},
]


def negative_control(t, wd, quick, tmo):
    """the unchanged proof script on the mutant: must fail, inside the expected lemma.  Quick tier: only the expected
    lemmas are attempted, SMT only (the positive proof needs nothing else); thorough: the whole script, all backends."""
    proof = t["proof"]
    d = spec_dir(wd, t["id"] + "-mutant", t["mutant"]["edits"])
    pp = os.path.join(d, proof + ".tla")
    lo, hi = lemma_range(pp, t["mutant"]["expect_in"])
    ql = (lo, hi)
    if quick and "quick_steps" in t["mutant"]:
        L = open(pp).read().split("\n")
        a = [i + 1 for i in range(lo - 1, hi) if re.match(t["mutant"]["quick_steps"][0], L[i])]
        b = [i + 1 for i in range(lo - 1, hi) if re.match(t["mutant"]["quick_steps"][1], L[i]) and a and i + 1 > a[0]]
        if not a or not b:
            raise vlib.Infra("quick_steps markers not found in %s" % pp)
        ql = (a[0], b[0] - 1)
    r = tlapm(d, proof, threads=2 if quick else 4, timeout=tmo, lines=ql if quick else None, method="smt" if quick else None,
              stretch=None if quick else 3)      # stretched time limits: only genuine failures may remain on a loaded machine
    r["expected_lines"] = [lo, hi]
    mlo, mhi = lemma_range(pp, [t["mutant"]["must_fail"]])
    r["as_expected"] = bool(r["result"] == "failed" and r["failed_lines"] and all(lo <= x <= hi for x in r["failed_lines"])
                            and any(mlo <= x <= mhi for x in r["failed_lines"]))
    return r


def consistency_control(t, wd, tmo):
    """FALSE must not be provable from the named assumptions of the proof (thorough tier; in both tiers the TLC
    cross-check models satisfy these assumptions, which shows them consistent outright)"""
    proof = t["proof"]
    d = spec_dir(wd, t["id"] + "-cons")
    pp = os.path.join(d, proof + ".tla")
    txt = open(pp).read()
    k = txt.rindex(TLA_END)
    txt = txt[:k] + "THEOREM X22AssumptionsConsistent == FALSE\n  BY %s\n" % ", ".join(t["assumes"]) + txt[k:]
    open(pp, "w").write(txt)
    lo, hi = lemma_range(pp, ["X22AssumptionsConsistent"])
    r = tlapm(d, proof, threads=2, timeout=tmo, lines=(lo, hi))
    r["as_expected"] = bool(r["result"] == "failed" and r["failed"] >= 1)
    return r


def run(ctx):
    t0 = time.time()
    quick = ctx.tier == "quick"
    wd = vlib.scratch("x22ind-%s" % ctx.tier)
    tmo = 900 if quick else 2400
    problems = []
    # two queues: the four positive proofs start at once (16 prover threads in all); everything else (TLC, Apalache,
    # controls) shares a small pool so that the machine is not flooded with JVMs
    with ThreadPoolExecutor(max_workers=4) as heavy, ThreadPoolExecutor(max_workers=4) as light:
        fproof = {}
        for t in TARGETS:
            if quick and t.get("quick_shards"):
                fproof[t["id"]] = heavy.submit(tlapm_sharded, wd, t["id"], t["proof"], t["quick_shards"], 3, tmo, 3)
            else:
                fproof[t["id"]] = heavy.submit(tlapm, spec_dir(wd, t["id"] + "-proof"), t["proof"], t["threads"], tmo, None, 3)
        fneg = {t["id"]: light.submit(negative_control, t, wd, quick, tmo) for t in TARGETS}
        # ---- (a) Apalache: the same induction, second engine; CTI for the mutant ------------------------------
        da = spec_dir(wd, "pool-apalache")
        plans = [("init", "CInitOK", "Init", "IndInv", 0), ("step", "CInitOK", "IndInit", "IndInv", 1), ("mutant-step", "CInitMut", "IndInit", "IndInv", 1)]
        if not quick:
            plans.append(("implies", "CInitOK", "IndInit", "Safe", 0))
        fapa = {tag: light.submit(apalache, da, "PoolIndApa", tag, ci, ini, inv, ln, tmo) for (tag, ci, ini, inv, ln) in plans}
        # ---- TLC: bindings to the original modules and "IndInv is an invariant at all" -------------------------
        T = []      # (target, kind, expected violation or None, future)

        def T_add(target, kind, expect, *a, **k):
            k.setdefault("workers", 2)
            T.append((target, kind, expect, light.submit(tlc, *a, **k)))
        T_add("pool", "refinement Pool!PSpec => PoolInd!Spec, IndInv, same verdicts (T=2,P=2,MaxBig=1,SplitLog)", None, "PoolIndRef", "PoolIndRef", wd, "pool-ref", workers=4)
        T_add("pool", "binding self-test: a wrong refinement mapping is rejected", "action-property", "PoolIndRef", "PoolIndRefNeg", wd, "pool-ref-neg")
        T_add("readerstream", "refinement ReaderStream!Spec => ReaderStreamInd!Spec, IndInv, NotStuck <=> ENABLED Next", None, "ReaderStreamIndRef", "ReaderStreamIndRef", wd,
              "rs-ref", subst=None if quick else {r"MaxReads = 5": "MaxReads = 7"}, timeout=3000, workers=4 if quick else 8)
        T_add("readerstream", "negative control: AckInClose = FALSE deadlocks (reachable)", "deadlock", "ReaderStreamIndRef", "ReaderStreamIndRef", wd,
              "rs-mutant", subst={r"AckInClose = TRUE": "AckInClose = FALSE"})
        for w, bs in ([("W2", ("TRUE", "FALSE"))] if quick else [(x, ("TRUE", "FALSE")) for x in ("W1", "W2", "W3", "W4", "W5", "W6")]):
            for b in bs:
                T_add("poolconc", "IndInv and Safe hold on workload %s, Bidir=%s" % (w, b), None, "PoolConcIndMC", "PoolConcIndMC", wd,
                      "pc-%s-%s" % (w, b), subst={r"Progs <- \w+": "Progs <- MC_" + w, r"Bidir = \w+": "Bidir = " + b})
        T_add("poolconc", "negative control: KeyCheck = FALSE violates NoMisdelivery on W2 (reachable)", "NoMisdelivery", "PoolConcMC", "PoolConcMC", wd,
              "pc-mutant", subst={r"Progs <- \w+": "Progs <- MC_W2", r"KeyCheck = TRUE": "KeyCheck = FALSE"})
        T_add("packetsource", "IndInv and Safe hold (scripts up to length 4, K=2)", None, "PacketSourceIndMC", "PacketSourceIndMC", wd, "ps-ind")
        dm = spec_dir(wd, "ps-mutspec", TARGETS[2]["mutant"]["edits"])
        T_add("packetsource", "negative control: the mutated PacketSource.tla violates NothingLost (reachable)", "Safe", "PacketSourceIndMC", "PacketSourceIndMC", wd,
              "ps-mutant", subst={r"INVARIANTS IndInv Safe": "INVARIANTS Safe"}, files=[os.path.join(dm, "PacketSource.tla")])
        fcons = {}
        if not quick:
            T_add("pool", "refinement (T=3,P=2)", None, "PoolIndRef", "PoolIndRef", wd, "pool-ref-t3",
                  subst={r"T = 2": "T = 3", r"MaxBig = 1": "MaxBig = 0", r"SplitLog = TRUE": "SplitLog = FALSE"}, timeout=3000, workers=8, heap="12g")
            T_add("pool", "refinement (T=2,P=3,SplitLog)", None, "PoolIndRef", "PoolIndRef", wd, "pool-ref-p3",
                  subst={r"P = 2": "P = 3", r"MaxBig = 1": "MaxBig = 0"}, timeout=3000, workers=8, heap="12g")
            T_add("pool", "the LateWrite mutant of Pool.tla refines the LateWrite mutant of PoolInd.tla", None, "PoolIndRef", "PoolIndRefMut", wd, "pool-ref-mut", workers=4)
            T_add("pool", "negative control: Pool.tla with LateWrite = TRUE violates NoAlias (reachable)", "NoAlias", "PoolMC", "PoolMutant", wd, "pool-mutant")
            fcons = {t["id"]: light.submit(consistency_control, t, wd, tmo) for t in TARGETS}
        # ---- fidelity of the derived copy ---------------------------------------------------------------------
        core = derive_readerstream_copy(open(os.path.join(vlib.SPECS, "ReaderStream.tla")).read())
        copy_ok = open(os.path.join(vlib.SPECS, "ReaderStreamInd.tla")).read().startswith(core + "\\* ==== X22IND section")

        skipped = {"result": "not run in the quick tier", "as_expected": True, "wall_s": 0}
        proofs = {t["id"]: {"proof": fproof[t["id"]].result(), "negative_control": fneg[t["id"]].result(),
                            "consistency_control": fcons[t["id"]].result() if t["id"] in fcons else dict(skipped)} for t in TARGETS}
        apa = {tag: f.result() for tag, f in fapa.items()}
        tlcs = []
        for (target, kind, expect, fut) in T:
            try:
                r = fut.result()
            except vlib.Infra as ex_:
                r = {"name": kind, "violated": "infra", "states": 0, "transitions": 0, "wall_s": 0, "error": str(ex_)[-800:]}
            r.update(target=target, what=kind, expected=expect, ok=(r["violated"] == expect))
            tlcs.append(r)

    # ---- verdict per specification --------------------------------------------------------------------------------
    specs = {}
    total_obl = 0
    for t in TARGETS:
        pr = proofs[t["id"]]
        p, n, c = pr["proof"], pr["negative_control"], pr["consistency_control"]
        mine = [x for x in tlcs if x["target"] == t["id"]]
        reasons = []
        if p["result"] == "proved":
            status = "proved"
            total_obl += p["obligations"]
        elif p["result"] in ("timeout", "unavailable"):
            status = "not attempted"
            reasons.append("tlapm %s after %ss" % (p["result"], p["wall_s"]))
        else:
            status = "failed"
            reasons.append("tlapm: %s obligations failed at lines %s %s" % (p.get("failed"), p.get("failed_lines"), p.get("tail", "")[-300:]))
        if not n.get("as_expected"):
            reasons.append("negative control: the proof script did not fail as expected on the mutant (%s, failed lines %s, expected within %s)"
                           % (n["result"], n.get("failed_lines"), n.get("expected_lines")))
        if not c.get("as_expected"):
            reasons.append("consistency control: FALSE from the assumptions: tlapm says %s" % c["result"])
        for x in mine:
            if not x["ok"]:
                reasons.append("TLC %s: expected %s, got %s %s" % (x["what"], x["expected"], x["violated"], x.get("error", "")))
        if t["id"] == "pool":
            for tag, want in (("init", "NoError"), ("step", "NoError"), ("implies", "NoError"), ("mutant-step", "Error")):
                if tag in apa and apa[tag]["result"] != want:
                    reasons.append("apalache %s: expected %s, got %s %s" % (tag, want, apa[tag]["result"], apa[tag].get("tail", "")[-300:]))
        if t["id"] == "readerstream" and not copy_ok:
            reasons.append("copy drifted from the original")
        if reasons and status == "proved":
            status = "proved, but a control failed"
        specs[t["spec"]] = {
            "owner": t["owner"], "status": status, "reasons": reasons, "proved_on": t["on"], "invariant": t["invariant"],
            "implies": t["implies"], "unbounded_in": t["unbounded_in"], "tool": "tlapm (TLAPS; SMT/Zenon/Isabelle/PTL)" + ("; apalache-mc 2nd engine for |Pkt|<=4" if t["id"] == "pool" else ""),
            "obligations_proved": p["obligations"] if p["result"] == "proved" else 0, "proof_wall_s": p["wall_s"],
            "negative_control": {"mutant": t["mutant"]["what"], "kind": t["mutant"]["kind"], "tlapm_result": n["result"], "failed_obligations": n.get("failed"),
                                 "failed_lines": n.get("failed_lines"), "expected_within_lines": n.get("expected_lines"),
                                 "restricted_to_expected_lemmas": bool(n.get("lines")), "as_expected": bool(n.get("as_expected")), "wall_s": n["wall_s"]},
            "consistency_control": {"what": "THEOREM FALSE BY " + ", ".join(t["assumes"]), "tlapm_result": c["result"], "as_expected": bool(c.get("as_expected")), "wall_s": c["wall_s"]},
            "tlc_crosschecks": [{k: x.get(k) for k in ("what", "module", "cfg", "subst", "expected", "violated", "states", "transitions", "wall_s", "ok")} for x in mine],
            "not_attempted": t["not_attempted"],
        }
        if t["id"] == "pool":
            specs[t["spec"]]["apalache"] = [apa[k] for k in ("init", "step", "implies", "mutant-step") if k in apa]
        if t["id"] == "readerstream":
            specs[t["spec"]]["copy_is_mechanical_derivative"] = copy_ok
        log("[X22IND] %-17s (%s) %-8s %4d obligations %6.1fs | mutant: %s (%s/%s failed, lines %s) | FALSE: %s | TLC %s"
            % (t["spec"], t["owner"], status, specs[t["spec"]]["obligations_proved"], p["wall_s"], n["result"], n.get("failed"), n.get("obligations"),
               n.get("failed_lines"), c["result"], " ".join("%s:%s" % (x["name"], "ok" if x["ok"] else "BAD") for x in mine)))
        for r in reasons:
            log("[X22IND]    ! %s" % r)
            problems.append("%s: %s" % (t["spec"], r))
    log("[X22IND] apalache PoolIndApa: " + ", ".join("%s=%s (%.1fs)" % (k, apa[k]["result"], apa[k]["wall_s"]) for k in ("init", "step", "implies", "mutant-step") if k in apa))

    good = [x for x in tlcs if x["expected"] is None and x["ok"]]
    samples = []
    cti = apa.get("mutant-step", {}).get("counterexample_to_induction")
    if cti:
        samples.append({"what": "counterexample to induction found by Apalache for PoolInd with LateWrite = TRUE", "trace": cti})
    for t in TARGETS:
        n = proofs[t["id"]]["negative_control"]
        samples.append({"what": "negative control " + t["spec"], "mutant": t["mutant"]["what"], "unprovable_obligations_at_lines": n.get("failed_lines"),
                        "lemmas": t["mutant"]["expect_in"]})
    coverage = {
        "states": sum(x["states"] or 0 for x in good), "transitions": sum(x["transitions"] or 0 for x in good),
        "traces_validated_against_impl": 0,
        "obligations_proved": total_obl, "specifications_proved": sorted(s for s in specs if specs[s]["status"] == "proved"),
        "tools": {"tlapm": tool_version(["tlapm", "--version"]), "apalache-mc": tool_version(["apalache-mc", "version"])},
        "specs": specs, "samples": samples,
        "note": "states/transitions are those of the TLC cross-check runs (bindings to the original modules; IndInv an invariant on the owning check's bounds); the unbounded results are the TLAPS theorems",
    }
    assumptions = [
        "soundness of TLAPS and its backends (no Isabelle re-check of the SMT/Zenon certificates: tlapm -C not used)",
        "Pool.tla and ReaderStream.tla are reached through an abstraction / a derived copy whose link to the original is a bounded TLC refinement check, not a theorem",
        "PoolConc: Progs is a finite sequence of finite programs whose items start with <<key in Nat, dir in {0,1}, ...>>; PacketSource: K in Nat; ReaderStream: histories are finite sequences",
        "a failing tlapm run on a mutant shows that the proof depends on the mutated fact, not that the mutant is non-inductive; that is shown by the TLC counterexamples (and the Apalache CTI for the pool)",
        "this check says nothing about the Go code: the binding of these specifications to the implementation is C04 / C12 / C16 / C20",
    ]
    wall = time.time() - t0
    vlib.write_evidence(PID, ctx.tier, ctx.seed, "model_checking", coverage, wall, 0, assumptions)
    if not problems:
        shutil.rmtree(wd, ignore_errors=True)
        return 0
    raise vlib.Infra("%d problem(s) (scratch kept in %s): %s" % (len(problems), wd, " || ".join(problems)[:3000]))


def tool_version(cmd):
    try:
        env = dict(os.environ)
        env.pop("JAVA_TOOL_OPTIONS", None)
        p = subprocess.run(["timeout", "60"] + cmd, stdout=subprocess.PIPE, stderr=subprocess.STDOUT, text=True, env=env)
        return (p.stdout or "").strip().splitlines()[-1][:80] if p.stdout else "?"
    except OSError:
        return "unavailable"
