"""C01 - packet decoding is total and crash-free with recovery on; the error layer tells the truth.

(a) Packet.tla (TLC, exhaustive): the error-layer laws hold for every decoder script; every exported script is
    replayed through the real NewPacket with scripted real Decoders (ok / error / error-after-AddLayer / panic /
    panic-after-AddLayer / NextDecoder(nil) / SetTruncated x the five Set*Layer kinds) and TLC validates the
    observed layers, pointers and error layer (PacketTrace.tla: reasons error-laws, panic).
(b) Real decoders: fixtures x structural mutations x every registered first layer type x 16 option sets;
    NewPacket and every read-only accessor each run under recover and a watchdog; TLC validates the event stream
    against the outcome alphabet of the specification (PacketRealTrace.tla: no Panic/Hang/Crash transition exists,
    error-layer laws)."""
import os, time, shutil
import vlib
from vlib import log
from . import pktcommon as pc

PID = "C01"


def run(ctx):
    t0 = time.time()
    quick = ctx.tier == "quick"
    V = vlib.Verdict(PID)
    binp = vlib.go_build("./cmd/pkt")
    wd = vlib.scratch("c01-%s" % ctx.tier)
    mc = pc.design_check(quick)
    log("[C01] Packet.tla exhaustive: %d distinct states in %.1fs" % (mc.distinct, mc.wall))
    st, bad = pc.scripted(ctx, binp, wd, None)
    drift = 0
    for b in bad:
        if b["reason"] in ("error-laws", "panic"):
            V.reject({"kind": "scripted", "reason": b["reason"]}, {"event": b["event"]})
        elif b["reason"] == "model-drift":
            drift += 1
    rst, rbad = pc.real_run(ctx, binp, wd, "dec", 40000 if quick else 3000000, nproc=8 if quick else 14, enum_stride=6 if quick else 1)
    for b in rbad:
        if b["reason"] in ("panic", "error-laws", "error-layer-depends-on-first-accessor", "hang", "crash"):
            d = pc.sig_dict(b)
            sig = {"kind": "real", "reason": b["reason"], "acc": d.get("where", "").split("(")[0], "fn": d.get("fn", ""), "file": d.get("file", ""), "text": d.get("text", "")}
            if b["reason"] == "error-laws":
                sig = {"kind": "real", "reason": "error-laws", "first": b["event"].get("first"),
                       "shape": "failIdx=%s failPos=%s nl=%s" % (b["event"].get("failIdx"), b["event"].get("failPos"), b["event"].get("nl"))}
            if b["reason"] == "error-layer-depends-on-first-accessor":
                sig = {"kind": "real", "reason": b["reason"], "first": b["event"].get("first")}
            V.reject(sig, {"event": b["event"]})
    rc = V.finish()
    cov = {"states": mc.distinct + st["tstates"] + rst["tstates"], "transitions": mc.generated,
           "model_states_exhaustive": mc.distinct,
           "traces_validated_against_impl": st["scenarios"] + rst["cases"],
           "scripted_behaviours_replayed": st["scenarios"], "real_decoder_cases": rst["cases"],
           "real_first_layer_types": rst["first_layer_types"], "real_events": rst["kinds"],
           "evaluations": st["scenarios"] + rst["cases"], "distinct_nontrivial": rst["distinct_nontrivial"],
           "rule": "real: distinct (input, first layer type, option set) whose decode produced >= 2 layers; inputs = harvested fixtures and structural mutations (truncation, boundary values in bytes and 16-bit fields, padding to pool-size boundaries), first layer = fixture's own or any registered type",
           "model_drift_events": drift, "samples": rst["samples"][:2] + st["samples"][:1], "exhaustive": False}
    vlib.write_evidence(PID, ctx.tier, ctx.seed, "exploration", cov, time.time() - t0, len(V.violations),
                        ["input space is sampled (seeded), not exhaustive; the packet-builder logic itself is exhaustively model-checked within the script bound",
                         "bounded time = 20 s watchdog per case"])
    shutil.rmtree(wd, ignore_errors=True)
    return rc
