"""C04 - data ownership: copy isolates; NoCopy and Pool change only where bytes live.

(a)+(b) Pure.tla with the ownership option projected OUT of the memo key: every input (ordinary fixtures, mutations,
    and fixtures padded / cut to the lengths {0, 1, 1499, 1500, 1501, 1514, 4000, 9000} around the pool block size) is
    decoded under copy / NoCopy / Pool in a TLC-enumerated order (PureGen.tla, family "own") - all digests must agree;
    then one packet is held, read, every byte of the caller's buffer is flipped (MutateInput), and read again: for a
    copying packet (default or Pool) the result must not change.  PureTrace.tla validates.
(c) Pool.tla: the pool protocol (free set; Get returns ANY free block or a fresh one - all sync.Pool promises;
    CopyIn; Dispose returns the block; oversized packets get private memory) for 3 threads x 2 packets; TLC checks
    NoAlias / FreeDisjoint / ContentOK over all interleavings, that the property part (PoolProp!PJudge) accepts the
    events logged by this ideal pool even with log skew (2 threads, split log points), and exports the per-thread
    operation orders.  harness/cmd/pool runs them on real goroutines (normal and -race build; plus random orders of
    8 threads x 4 packets, an unlogged stress loop, and time-budgeted churn runs with GOMAXPROCS 2 and NumCPU: >= 64
    goroutines each holding 1..6 live pooled packets of different lengths, re-checking the canaries of ALL its live
    packets repeatedly and disposing several back to back; a bounded, time-spread sample of its packets is logged,
    every canary failure and every race report is an event), logging Got(pkt, block) after NewPacket returned and
    Disposing(pkt) before Dispose is called, ordered by an atomic sequence number, with a content canary right before
    every Dispose.  PoolTrace.tla validates NoAlias on these conservative live intervals; race reports of the child
    become Race(site) events, for which there is no transition.  The erroneous protocol "Dispose = Put; then write to
    the block again" is an optional action of Pool.tla (LateWrite): every run checks that NoAlias, ContentOK and PJudge
    each catch it in the model."""
import json, os, random, shutil, threading, time
from concurrent.futures import ThreadPoolExecutor
import vlib
from vlib import log
from . import purecommon as pc

PID = "C04"


def corrupt_own(ev):
    """a Pool decode that differs from the default one; a copying packet that changed after MutateInput"""
    done, used = set(), set()
    for i, e in enumerate(ev):
        if e.get("sc") in used:
            continue
        if e["op"] == "call" and e["own"] == "pool" and "own" not in done:
            e["digest"] = "0000000000000000"
            done.add("own")
            used.add(e["sc"])
        elif e["op"] == "read" and "mut" not in done and i > 0 and ev[i - 1]["op"] == "mutate" and ev[i - 1].get("own") != "nocopy":
            e["digest"] = "1111111111111111"
            done.add("mut")
            used.add(e["sc"])
        elif e["op"] == "call" and "intact" not in done and e["own"] == "nocopy":
            e["intact"] = False
            done.add("intact")
            used.add(e["sc"])
    return ev


def corrupt_pool(ev):
    """a Got naming the block of a packet that is still undisposed; a failed canary; a race report"""
    live, done, used = {}, set(), set()
    for e in ev:
        if e["op"] == "pstart":
            live = {}
        elif e["op"] == "got":
            other = [b for b in live.values() if b != e["block"]]
            if other and "alias" not in done and e["sc"] not in used:
                e["block"] = other[0]
                done.add("alias")
                used.add(e["sc"])
            live[e["pkt"]] = e["block"]
        elif e["op"] in ("disposing", "release"):
            if "canary" not in done and e["sc"] not in used:
                e["canary"] = False
                done.add("canary")
                used.add(e["sc"])
            live.pop(e["pkt"], None)
    sc = ev[-1]["sc"] + 1
    ev += [{"op": "pstart", "sc": sc, "sig": ""}, {"op": "race", "sc": sc, "sig": "x", "writer": "x", "site": "x ~ y", "inlib": True}]
    return ev


def pool_sig(b):
    e = b.get("event", {})
    if b["reason"] in ("race", "panic", "hang", "crash"):
        return pc.pure_sig(b)
    if e.get("op") == "stress":
        return {"reason": b["reason"], "op": "stress", "where": e.get("sig", "")}
    return {"reason": b["reason"], "op": b.get("op", ""), "src": (b.get("start") or {}).get("src", "")}


def run(ctx):
    t0 = time.time()
    quick = ctx.tier == "quick"
    V = vlib.Verdict(PID)
    wd = vlib.scratch("c04-%s" % ctx.tier)
    models = {}

    def do_models():
        try:
            plans = [("T3xP2", {}), ("T2xP2-logskew-big", {r"T = 3": "T = 2", r"SplitLog = FALSE": "SplitLog = TRUE", r"MaxBig = 0": "MaxBig = 1"})]
            if not quick:
                plans += [("T3xP2-big", {r"MaxBig = 0": "MaxBig = 1"}), ("T2xP3-logskew", {r"T = 3": "T = 2", r"P = 2": "P = 3", r"SplitLog = FALSE": "SplitLog = TRUE"})]

            def mc(plan):
                name, subst = plan
                if name == "puregen":
                    return pc.gen(wd, 2, 1, workers=4)          # only the "own" family is used here
                if name == "mutant":
                    # the erroneous protocol "Dispose = Put; then write to the block once more" (optional action
                    # LateWriteStep of Pool.tla) must be caught by the model's invariants and by PJudge
                    caught = []
                    for inv in ("NoAlias", "ContentOK", "PropAcceptsIdeal"):
                        r = vlib.tlc("PoolMC", cfg="PoolMutant", workdir=os.path.join(wd, "mut-" + inv), timeout=600, workers=2,
                                     cfg_subst={r"INVARIANTS \w+": "INVARIANTS " + inv})
                        if r.violated != inv:
                            raise vlib.Infra("Pool.tla: the late-write Dispose mutant is not caught by %s (violated=%s)" % (inv, r.violated))
                        caught.append(inv)
                    log("[C04] Pool.tla mutant (Dispose = Put; late write): caught by %s" % ", ".join(caught))
                    return {"name": "mutant-late-write", "caught_by": caught}
                r = vlib.tlc("PoolMC", workdir=os.path.join(wd, "mc-" + name), timeout=3000, workers=4 if quick else 8, heap="12g", cfg_subst=subst or None)
                if r.violated:
                    raise vlib.Infra("Pool.tla (%s): %s violated in the model itself" % (name, r.violated))
                beh = sorted(set(l[4:] for l in r.printed if isinstance(l, str) and l.startswith("BEH ")))
                if not beh:
                    raise vlib.Infra("Pool.tla (%s) exported no behaviours" % name)
                log("[C04] Pool.tla %-18s: %d distinct states, %d transitions, NoAlias/FreeDisjoint/ContentOK/PropAcceptsIdeal hold, %d per-thread order sets exported (%.1fs)"
                    % (name, r.distinct, r.generated, len(beh), r.wall))
                return {"name": name, "states": r.distinct, "transitions": r.generated, "depth": r.depth, "behaviours": len(beh), "wall": round(r.wall, 1), "beh": beh}
            with ThreadPoolExecutor(max_workers=4) as ex:
                rs = list(ex.map(mc, [("puregen", None), ("mutant", None)] + plans))
            kinds, g = rs[0]
            models["mutant"] = rs[1]
            out = rs[2:]
            models["v"] = (kinds, g, out)
        except BaseException as ex:
            models["err"] = ex
    th = threading.Thread(target=do_models)
    th.start()
    bpure = vlib.go_build("./cmd/pure")
    bpool = vlib.go_build("./cmd/pool")
    bpoolr = vlib.go_build("./cmd/pool", race=True)
    th.join()
    if "err" in models:
        raise models["err"]
    kinds, g, mcs = models["v"]
    beh = []
    for m in mcs:
        beh += m.pop("beh")
    op_, pp_ = os.path.join(wd, "own.scen"), os.path.join(wd, "pool.scen")
    pc.write_scen(op_, kinds["own"])
    open(pp_, "w").write("\n".join(beh) + "\n")
    plan = {
        "own": ("PureTrace", ("epoch",), "sc",
                [bpure, "-phase", "own", "-scenarios", op_, "-seed", str(ctx.seed), "-pools", "1400" if quick else "40000"], False),
        "pool": ("PoolTrace", ("pstart",), "pstart",
                 [bpool, "-scenarios", pp_, "-seed", str(ctx.seed), "-reps", "12" if quick else "100", "-rand", "40" if quick else "2000", "-stress", "3000" if quick else "100000",
                  "-churn", "2000" if quick else "15000", "-procs", "2,0"], False),
        "poolrace": ("PoolTrace", ("pstart",), "pstart",
                     [bpoolr, "-scenarios", pp_, "-seed", str(ctx.seed + 500), "-reps", "6" if quick else "20", "-rand", "25" if quick else "300", "-stress", "600" if quick else "20000",
                      "-churn", "2000" if quick else "10000", "-procs", "2,0"], True),
    }

    def phase(name):
        module, starts, marker, args, race = plan[name]
        tp = os.path.join(wd, name + ".ndjson")
        t1 = time.time()
        st = pc.run_driver(args + ["-trace", tp], need_race=race)
        t2 = time.time()
        v = pc.validate(module, tp, starts, name, maxlines=30000 if quick else 80000, par=3)
        pc.context(tp, v["bad"], starts, marker)
        log("[C04] %-8s: %d scenarios, %d events, %d races reported; driver %.1fs, TLC %.1fs, %d rejected"
            % (name, st["scenarios"], st["events"], st.get("races", 0), t2 - t1, v["wall"], v["nbad"]))
        return name, st, v, tp

    def binding_own():
        t1 = os.path.join(wd, "self-own.ndjson")
        pc.run_driver([bpure, "-phase", "own", "-scenarios", op_, "-seed", str(ctx.seed), "-pools", "120", "-trace", t1])
        return pc.selftest("PureTrace", t1, corrupt_own, {"ownership-option-changes-result", "packet-changed-after-input-mutation", "input-buffer-written"}, "c04own", ("epoch",))

    def binding_pool():
        t2 = os.path.join(wd, "self-pool.ndjson")
        pc.run_driver([bpool, "-scenarios", pp_, "-seed", str(ctx.seed), "-reps", "2", "-rand", "10", "-trace", t2])
        return pc.selftest("PoolTrace", t2, corrupt_pool, {"two-undisposed-packets-share-a-block", "undisposed-packet-content-changed", "race"}, "c04pool", ("pstart",))

    with ThreadPoolExecutor(max_workers=5) as ex:
        f1, f2 = ex.submit(binding_own), ex.submit(binding_pool)
        res = list(ex.map(phase, ["poolrace", "own", "pool"]))
        (ok1, why1, got1, gb1), (ok2, why2, got2, gb2) = f1.result(), f2.result()
    stats = {n: st for n, st, v, tp in res}
    vals = {n: v for n, st, v, tp in res}
    nrej = sum(v["nbad"] for v in vals.values())
    if (not ok1 and not (gb1 and nrej)) or (not ok2 and not (gb2 and nrej)):
        # (a self-test on a recorded prefix that is itself rejected - the tree under test breaks the property there - is moot)
        raise vlib.Infra("binding self-test failed: %s %s" % (why1, why2))
    if (gb1 or gb2) and not nrej:
        raise vlib.Infra("binding self-test: uncorrupted prefix rejected but the full run is clean")
    log("[C04] binding self-tests: corrupted traces rejected with %s" % sorted(got1 | got2))
    for n, st, v, tp in res:
        if st.get("crash") and not any(b["reason"] == "crash" for b in v["bad"]):
            raise vlib.Infra("%s child crashed without a crash event: %s" % (n, st["crash"]))
        pc.reject_all(V, v["bad"], pc.pure_sig if n == "own" else pool_sig)
    rc = V.finish()
    samples = []
    for n, st, v, tp in res:
        with open(tp) as f:
            for i, line in enumerate(f):
                if i in (2, 3):
                    samples.append(json.loads(line))
                if i > 3:
                    break
    pool_sc = stats["pool"]["scenarios"] + stats["poolrace"]["scenarios"]
    cov = {"states": sum(m["states"] for m in mcs) + sum(v["states"] for v in vals.values()),
           "transitions": sum(m["transitions"] for m in mcs),
           "pool_models": mcs, "model_states_exhaustive": sum(m["states"] for m in mcs),
           "traces_validated_against_impl": pool_sc + stats["own"]["scenarios"],
           "pool_scenarios_replayed": pool_sc, "pool_orders_exported": len(beh),
           "pool_ops": sum(stats[k]["news"] + stats[k]["disposes"] + stats[k]["stress_ops"] + stats[k].get("churn_ops", 0) for k in ("pool", "poolrace")),
           "pool_block_reuses_observed": stats["pool"]["block_reuses"] + stats["poolrace"]["block_reuses"],
           "pool_scenarios_with_concurrently_live_packets": stats["pool"]["scenarios_with_concurrent_live_packets"] + stats["poolrace"]["scenarios_with_concurrent_live_packets"],
           "pool_churn": {k: [stats[k].get(f) for f in ("churn_runs", "churn_ops", "churn_canary_checks", "churn_canary_failures", "churn_max_live_per_goroutine", "churn_sampled_events")] for k in ("pool", "poolrace")},
           "pool_model_mutant": models.get("mutant"),
           "pool_distinct_event_orders": stats["pool"]["distinct_shapes"] + stats["poolrace"]["distinct_shapes"],
           "trace_events_validated": sum(v["lines"] for v in vals.values()), "rejected_scenarios": nrej,
           "race_reports": stats["poolrace"].get("races", 0),
           "evaluations": stats["own"]["calls"] + stats["own"]["reads"],
           "distinct_nontrivial": stats["own"]["nontrivial"],
           "rule": "ownership part: distinct (input, first layer, Lazy, DecodeStreamsAsDatagrams, ownership option) whose decode produced >= 2 layers; "
                   "every input is decoded under copy, NoCopy and Pool (order enumerated by TLC) and one of the three packets goes through read / flip every input byte / read",
           "input_lengths": stats["own"].get("lens", {}), "pool_input_lengths": stats["pool"].get("lens", {}),
           "binding_selftest_reasons": sorted(got1 | got2), "phases": stats, "samples": samples, "exhaustive": False}
    vlib.write_evidence(PID, ctx.tier, ctx.seed, "model_checking", cov, time.time() - t0, len(V.violations),
                        ["the pool protocol model is exhaustive within 3 threads x 2 packets (thread-symmetric orders); real goroutine schedules are sampled - there is no yield point inside NewPacket",
                         "block identity = address of the backing array of Data(); live intervals are conservative (Got logged after NewPacket returned, Disposing before Dispose is called)",
                         "double Dispose is caller misuse and out of scope",
                         "ownership part (a, b) is exploration over sampled inputs"])
    shutil.rmtree(wd, ignore_errors=True)
    return rc
