"""X21FSM - growth beyond the twenty properties (DESIGN.md section 8): the explicit state machines of
reassembly/tcpcheck.go, TCPSimpleFSM.CheckState and TCPOptionCheck.Accept.

TcpFSM.tla     Impl layer = transcription of both functions; Prop layer = what a user relies on, from RFC 793's
               connection state diagram / segment acceptability test as far as a passive in-order observer can know:
               every (state, packet) is `must` (accepted), `never` (rejected) or `may`.
TcpFSMMC.tla   TLC runs the transcription against Prop for every packet sequence up to the bound (both values of
               SupportMissingEstablishment; option checker over small integer windows), prints every disagreement
               (DISC = finding candidate, with the concrete sequence) and exports behaviours.
cmd/tcpfsm     replays them (and seeded random conversations beyond the bound) on the real objects, two fresh
               instances per scenario (determinism), panics guarded.
TcpFSMTrace    validates every recorded answer against the Impl layer (exact agreement expected, reported as
               impl_drift, never a verdict) and against the Prop layer (the only source of verdicts).
"""
import json, os, time, shutil
from concurrent.futures import ThreadPoolExecutor
import vlib
from vlib import log

PID = "X21FSM"
KINDS_X = '{"S", "SA", "A", "AD", "FA", "R", "F", "RA", "N"}'
PROPOSED = os.path.join(os.path.dirname(os.path.abspath(__file__)), "x21fsm.findings.jsonl")


def proposed_findings(V):
    """Finding entries proposed by the builder of this check live next to it until the maintainer moves them into
    known_findings.jsonl (entries already present there win)."""
    have = {f.get("id") for f in V.open}
    if os.path.exists(PROPOSED):
        for line in open(PROPOSED):
            line = line.strip()
            if line.startswith("{"):
                d = json.loads(line)
                if d.get("property") == PID and d.get("id") not in have:
                    V.open.append(d)


def fmt(b):
    if b.get("t") == "fsm" or "pk" in b:
        return "sme=%s: " % str(b.get("sme")).lower() + " ".join("%s%d" % (k, d) for k, d in b["pk"])
    return " | ".join(("SYN d%d mss=%d ws=%d win=%d" % (o["d"], o["mss"], o["ws"], o["win"])) if o["syn"] else
                      ("seg d%d win=%d len=%d %s" % (o["d"], o["win"], o["len"], ("seq=next%+d" % o["diff"]) if o["has"] else "no-next"))
                      for o in b["ops"])


def generate(name, cfg, subst, wd, timeout):
    g = vlib.tlc("TcpFSMMC", cfg=cfg, workdir=os.path.join(wd, name), timeout=timeout, workers=4, cfg_subst=subst)
    if g.violated:
        raise vlib.Infra("TcpFSMMC/%s: %s violated (the transcription itself is not sane)" % (cfg, g.violated))
    scen, disc, may = [], {}, {}
    for l in g.printed:
        if not isinstance(l, str):
            continue
        if l.startswith("BEH "):
            scen.append(l[4:])
        elif l.startswith("BEHS "):
            scen.append(l[5:])
        elif l.startswith("DISC "):
            d = json.loads(l[5:])
            la = d["last"]
            key = (la["reason"], la["ph"], la["k"], la["rel"], d["beh"].get("sme", False))
            if key not in disc:
                disc[key] = d["beh"]
        elif l.startswith("MAY "):
            d = json.loads(l[4:])
            may.setdefault("%s:%s:%s:sme=%s" % (d["ph"], d["k"], d["rel"], str(d["sme"]).lower()), set()).add(d["res"])
    nsc = 0
    for s in scen:
        nsc += len(json.loads(s)["ext"]) if '"ext"' in s else 1
    log("[X21FSM] model %-9s %7d states, %6d behaviours exported, %2d finding candidates, %.1fs"
        % (name, g.distinct, nsc, len(disc), g.wall))
    return {"name": name, "cfg": cfg, "subst": subst, "tlc_states": g.distinct, "tlc_generated": g.generated,
            "depth": g.depth, "behaviours": nsc, "wall_s": round(g.wall, 1)}, scen, disc, may


def self_test(good_fsm, good_opt):
    """Binding self-test: two recorded observations are accepted as they are and rejected (by the Prop layer, and
    noticed by the Impl layer) with one field changed."""
    wd = vlib.scratch("x21fsm-selftest")
    f1 = dict(good_fsm, ev=[dict(good_fsm["ev"][0])])
    o1 = dict(good_opt, ev=[dict(good_opt["ev"][0])])
    f2 = json.loads(json.dumps(f1))
    f2["ev"][0]["res"] = "rej"            # the first SYN of a conversation refused
    f2["ev"][0]["state"] = "Closed"
    o2 = json.loads(json.dumps(o1))
    o2["ev"][0]["res"] = "rej"            # a well-formed SYN refused by the option checker
    f3 = json.loads(json.dumps(f1))
    f3["ev"][0]["state"] = "Established"  # right answer, wrong state: only the Impl layer can notice
    f4 = json.loads(json.dumps(f1))       # a refused packet (ACK of the client before any SYN+ACK) that moved the FSM
    f4["ev"].append(dict(f1["ev"][0], k="A", res="rej", state="Established"))
    f5 = json.loads(json.dumps(f1))
    f5["ev"][0]["det"] = False            # the second instance answered differently
    f6 = json.loads(json.dumps(f1))
    f6["ev"][0]["res"] = "panic"
    tp = os.path.join(wd, "trace.ndjson")
    open(tp, "w").write("".join(json.dumps(x) + "\n" for x in (f1, o1, f2, o2, f3, f4, f5, f6)))
    v = vlib.validate_trace("TcpFSMTrace", tp, "selftest", timeout=300)
    got = sorted((b["at"][1], b["reason"]) for b in v["bad"])
    want = [(3, "must-rejected"), (4, "must-rejected"), (6, "state-changed-on-reject"), (7, "nondeterministic"), (8, "panic")]
    if got != want or v["nbad"] != 5:
        raise vlib.Infra("self-test: corrupted answers not rejected exactly as %s: %s" % (want, v["bad"]))
    if v["ndrift"] != 6:
        raise vlib.Infra("self-test: Impl layer did not notice the six corrupted lines: %s" % v["drift"])
    shutil.rmtree(wd, ignore_errors=True)
    return 8


def run(ctx):
    t0 = time.time()
    quick = ctx.tier == "quick"
    V = vlib.Verdict(PID)
    proposed_findings(V)
    wd = vlib.scratch("x21fsm-%s" % ctx.tier)
    # (name, cfg, cfg substitutions)
    plans = [("fsm-view", "TcpFSMMC", {r"MaxLen = \d+": "MaxLen = 7"}),
             ("fsm-all", "TcpFSMAll", {r"MaxLen = \d+": "MaxLen = %d" % (3 if quick else 4)}),
             ("opt-view", "TcpFSMOpt", {r"MaxLen = \d+": "MaxLen = %d" % (2 if quick else 3)})]
    if not quick:
        plans += [("fsmx-view", "TcpFSMMC", {r"MaxLen = \d+": "MaxLen = 9", r"Kinds = \{[^}]*\}": "Kinds = " + KINDS_X}),
                  ("fsmx-all", "TcpFSMAll", {r"MaxLen = \d+": "MaxLen = 3", r"Kinds = \{[^}]*\}": "Kinds = " + KINDS_X}),
                  ("opt-wide", "TcpFSMOpt", {r"MaxLen = \d+": "MaxLen = 3", "MC_OWs": "MC_OWsT", "MC_ODiff": "MC_ODiffT"})]
    with ThreadPoolExecutor(max_workers=4) as ex:
        fb = ex.submit(vlib.go_build, "./cmd/tcpfsm")
        futs = [ex.submit(generate, n, c, s, wd, 600 if quick else 3000) for (n, c, s) in plans]
        binp = fb.result()
        res = [f.result() for f in futs]
    models, scen, disc, may = [], [], {}, {}
    for (m, s, d, my) in res:
        models.append(m)
        scen += s
        for k, b in d.items():
            disc.setdefault(k, b)
        for k, r in my.items():
            may.setdefault(k, set()).update(r)
    sp = os.path.join(wd, "scen.ndjson")
    open(sp, "w").write("\n".join(scen) + "\n")
    tp = os.path.join(wd, "trace.ndjson")
    p = vlib.run([binp, "-scenarios", sp, "-trace", tp, "-seed", str(ctx.seed), "-rand", "150" if quick else "4000"],
                 timeout=1200, ok_codes=(0, 3))
    st = json.loads(p.stdout.strip().splitlines()[-1])
    if p.returncode == 3 or st.get("hang"):
        V.reject({"what": "driver", "reason": "hang", "at": "hang"}, {"scenario": st.get("scenarios")})
        rc = V.finish()
        vlib.write_evidence(PID, ctx.tier, ctx.seed, "model_checking", {"states": 0, "transitions": 0, "traces_validated_against_impl": 0,
                            "samples": [], "hang": True}, time.time() - t0, len(V.violations), [])
        return rc
    log("[X21FSM] replayed %d scenarios (%d FSM, %d option checker), %d observations" % (st["scenarios"], st["fsm"], st["opt"], st["observations"]))

    # impl -> model, in chunks (one TLC run each)
    lines = open(tp).read().splitlines()
    chunk = 60000
    tstates = nbad = ndrift = 0
    cnt = {"must": 0, "never": 0, "may": 0, "obs": 0}
    drift, real_sigs = [], {}
    good_fsm = good_opt = None
    for l in lines:
        if good_fsm and good_opt:
            break
        e = json.loads(l)
        if good_fsm is None and e["op"] == "fsm" and not e["sme"] and e["ev"][0]["k"] == "S" and e["ev"][0]["res"] == "acc":
            good_fsm = e
        if good_opt is None and e["op"] == "opt" and e["ev"][0]["syn"] and e["ev"][0]["res"] == "acc":
            good_opt = e
    if not (good_fsm and good_opt):
        raise vlib.Infra("no pristine observation found for the binding self-test")
    pool = ThreadPoolExecutor(max_workers=1)
    st_f = pool.submit(self_test, good_fsm, good_opt)      # runs beside the validation of the real trace
    for ci in range(0, len(lines), chunk):
        part = lines[ci:ci + chunk]
        cp = os.path.join(wd, "chunk.ndjson")
        open(cp, "w").write("\n".join(part) + "\n")
        v = vlib.validate_trace("TcpFSMTrace", cp, "x21fsm", heap="6g", timeout=3000)
        tstates += v["states"]
        nbad += v["nbad"]
        ndrift += v["ndrift"]
        for k in cnt:
            cnt[k] += v["cnt"][k]
        for d in v["drift"]:
            d["line"] = json.loads(part[d["at"][1] - 1])
            drift.append(d)
        for b in v["bad"]:
            line = json.loads(part[b["at"][1] - 1])
            sig = {"what": b["what"], "reason": b["reason"], "ph": b["ph"], "k": b["k"], "rel": b["rel"], "sme": b["sme"],
                   "at": "%s:%s:%s" % (b["ph"], b["k"], b["rel"])}
            real_sigs[(b["reason"], b["ph"], b["k"], b["rel"], b["sme"])] = line
            if line["op"] == "fsm":
                inp = {"t": "fsm", "sme": line["sme"], "pk": [[e["k"], e["d"]] for e in line["ev"]]}
            else:
                inp = {"t": "opt", "ops": [{k: e[k] for k in ("d", "syn", "mss", "ws", "win", "len", "has", "diff")} for e in line["ev"]]}
            V.reject(sig, {"observation_index": b["at"][2], "answer": b["res"], "recorded": line, "scenario_input": inp,
                           "rerun": "write scenario_input as one line to f.ndjson; out/bin/tcpfsm -scenarios f.ndjson -trace t.ndjson"})
    selftests = st_f.result()
    pool.shutdown()

    # finding candidates of the model vs. what the real code did
    cands = []
    for key, beh in sorted(disc.items(), key=lambda kv: str(kv[0])):
        cands.append({"reason": key[0], "state": key[1], "packet": key[2], "sender": key[3], "sme": key[4],
                      "sequence": fmt(beh), "confirmed_on_real_code": key in real_sigs})
    only_real = [k for k in real_sigs if k not in disc]
    log("[X21FSM] Impl vs Prop in the model: %d finding candidates; %d confirmed by the real code; %d signatures seen only on the real code%s"
        % (len(cands), sum(c["confirmed_on_real_code"] for c in cands), len(only_real), " (random scenarios / drift)" if only_real else ""))
    for c in cands:
        log("   candidate %-14s state=%-20s packet=%-3s from=%-6s %s" % (c["reason"], c["state"], c["packet"], c["sender"], c["sequence"]))
    if ndrift:
        log("IMPL-DRIFT: the real code disagrees with the transcription in TcpFSM.tla in %d scenarios (not a verdict), e.g. %s"
            % (ndrift, json.dumps(drift[0], sort_keys=True)[:500]))
    rc = V.finish()
    samples = [json.loads(l) for l in lines[:2]] + [json.loads(l) for l in lines if '"op":"opt"' in l][:2]
    cov = {"states": sum(m["tlc_states"] for m in models) + tstates, "transitions": cnt["obs"],
           "generator_models": models, "traces_validated_against_impl": st["scenarios"],
           "trace_observations_validated": cnt["obs"], "prop_classes_exercised": {k: cnt[k] for k in ("must", "never", "may")},
           "impl_drift": ndrift, "impl_drift_examples": drift[:5], "rejected_scenarios": nbad,
           "finding_candidates_model": cands, "signatures_only_on_real_code": [list(k) for k in only_real],
           "may_resolution": {k: sorted(v) for k, v in sorted(may.items())},
           "binding_selftest_lines": selftests, "samples": samples, "exhaustive": True,
           "rule": "every packet sequence over {SYN, SYN+ACK, ACK, ACK+data, FIN+ACK, RST} x 2 directions up to length 7 "
                   "(TLC, Impl vs Prop, both values of SupportMissingEstablishment); replayed on the real FSM: one sequence per "
                   "distinct (length, last packet, Impl state, Prop state) plus all sequences of the `fsm-all` depth; option "
                   "checker: shortest sequence to every (state, operation) over small integer windows; seeded random "
                   "conversations up to 45 packets over the extended alphabet and realistic option values"}
    vlib.write_evidence(PID, ctx.tier, ctx.seed, "model_checking", cov, time.time() - t0, len(V.violations),
                        ["the observer sees every packet of the connection, in order (documented limitation of TCPSimpleFSM)",
                         "the FSM alphabet carries no sequence numbers (CheckState ignores them); the option checker is driven with seq relative to nextSeq, bases on both sides of the 32-bit wrap",
                         "the FSM's direction field is read by reflection when it exists; the state through String()"])
    shutil.rmtree(wd, ignore_errors=True)
    return rc
