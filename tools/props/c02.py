"""C02 - decoding is deterministic and side-effect free; eager packets are shareable.

Pure.tla is a determinism monitor in Judge form: Call(key, digest) with key = (input, first layer, Lazy,
DecodeStreamsAsDatagrams, ownership option) is allowed only if the key is new or memo[key] = digest and the caller's
input buffer (including its spare capacity) is intact; Read(pkt, accessor, digest) on a shared eager packet must
equal the sequential result; Race / Panic / Hang / Crash events have no transition.  PureGen.tla (TLC) checks that an
ideal pure decoder is accepted and that the monitor is not vacuous, and enumerates (a) all histories "decode A, then
B (and C), then A again" over a pool of K input indices x 12 option sets, (b) all pairs of accessor programs (length
<= MaxProg over 9 accessor groups incl. VerifyChecksums) for the sharing part.  harness/cmd/pure executes them on the
real decoders: histories sequentially on seeded pools of real inputs (fixtures, mutations, inner-layer starts,
near-duplicates), the same histories on G goroutines sharing the caller buffers, and the accessor programs on G
goroutines sharing one eager packet whose network layer was linked once, sequentially - the concurrent phases in a
-race build, in a child process whose race reports become Race(site) events.  PureTrace.tla validates every event."""
import json, os, random, shutil, threading, time
from concurrent.futures import ThreadPoolExecutor
import vlib
from vlib import log
from . import purecommon as pc

PID = "C02"
STARTS = ("epoch",)


def corrupt(ev):
    """four corruptions in four different scenarios of a good hist trace (+ a race event)"""
    seen, done, used = {}, set(), set()
    epoch = 0
    for i, e in enumerate(ev):
        if e["op"] == "epoch":
            epoch += 1
            seen = {}
            continue
        if e["op"] != "call":
            continue
        key = (epoch, e["in"], e["first"], e["lazy"], e["dsad"], e["own"])
        if key in seen and e["sc"] not in used:
            for what in ("digest", "intact", "conc"):
                if what in done:
                    continue
                if what == "digest":
                    e["digest"] = "0000000000000000"
                elif what == "intact":
                    e["intact"] = False
                else:
                    e["digest"], e["phase"] = "1111111111111111", "conc"
                done.add(what)
                used.add(e["sc"])
                break
        seen[key] = True
    sc = ev[-1]["sc"] + 1
    ev += [{"op": "sc", "sc": sc, "sig": ""}, {"op": "race", "sc": sc, "sig": "x", "writer": "x", "site": "x ~ y", "inlib": True},
           {"op": "sc", "sc": sc + 1, "sig": ""}, {"op": "pkt", "sc": sc + 1, "pkt": 9, "own": "copy", "sig": ""},
           {"op": "read", "sc": sc + 1, "pkt": 9, "acc": "Verify", "digest": "a", "phase": "seq", "sig": "Verify"},
           {"op": "read", "sc": sc + 1, "pkt": 9, "acc": "Verify", "digest": "b", "phase": "conc", "sig": "Verify"}]
    return ev


EXPECT = {"decode-depends-on-history", "input-buffer-written", "decode-differs-under-concurrency", "race",
          "shared-read-differs-from-sequential"}


def run(ctx):
    t0 = time.time()
    quick = ctx.tier == "quick"
    V = vlib.Verdict(PID)
    wd = vlib.scratch("c02-%s" % ctx.tier)
    K = 4 if quick else 5
    genres = {}

    def do_gen():
        try:
            genres["v"] = pc.gen(wd, K, 2)
        except BaseException as ex:            # re-raised in the main thread
            genres["err"] = ex
    th = threading.Thread(target=do_gen)
    th.start()
    binp = vlib.go_build("./cmd/pure")
    binr = vlib.go_build("./cmd/pure", race=True)
    th.join()
    if "err" in genres:
        raise genres["err"]
    kinds, g = genres["v"]
    log("[C02] PureGen.tla: %d states, ideal implementation accepted; %d histories, %d accessor-program pairs (%.1fs, builds done at %.1fs)"
        % (g.distinct, len(kinds["hist"]), len(kinds["share"]), g.wall, time.time() - t0))
    rnd = random.Random(ctx.seed)
    share = kinds["share"]
    if quick:
        single = [d for d in share if all(len(p) == 1 for p in d["progs"])]      # every pair of accessors, always
        rest = [d for d in share if d not in single]
        share = single + rnd.sample(rest, 1200)
    rnd.shuffle(share)
    hp, sp = os.path.join(wd, "hist.scen"), os.path.join(wd, "share.scen")
    pc.write_scen(hp, kinds["hist"])
    pc.write_scen(sp, share)
    G = 8
    plan = {
        "hist": [binp, "-phase", "hist", "-scenarios", hp, "-seed", str(ctx.seed), "-k", str(K), "-pools", "30" if quick else "150"],
        "conc": [binr, "-phase", "conc", "-scenarios", hp, "-seed", str(ctx.seed + 1000), "-k", str(K), "-g", str(G), "-pools", "6" if quick else "30"],
        "share": [binr, "-phase", "share", "-scenarios", sp, "-seed", str(ctx.seed + 2000), "-g", str(G), "-rounds", "2" if quick else "4"],
    }

    def phase(name):
        tp = os.path.join(wd, name + ".ndjson")
        t1 = time.time()
        st = pc.run_driver(plan[name] + ["-trace", tp], need_race=(name != "hist"))
        t2 = time.time()
        v = pc.validate("PureTrace", tp, STARTS, name, maxlines=40000 if quick else 80000, par=3)
        pc.context(tp, v["bad"], STARTS, "sc")
        log("[C02] %-5s: %d scenarios, %d events, %d races reported; driver %.1fs, TLC %.1fs, %d rejected"
            % (name, st["scenarios"], st["events"], st.get("races", 0), t2 - t1, v["wall"], v["nbad"]))
        return name, st, v, tp

    def binding():
        # needs the hist trace: produced separately on a small run so that it can overlap with the phases
        tp = os.path.join(wd, "self.ndjson")
        pc.run_driver([binp, "-phase", "hist", "-scenarios", hp, "-seed", str(ctx.seed), "-k", str(K), "-pools", "2", "-trace", tp])
        return pc.selftest("PureTrace", tp, corrupt, EXPECT, "c02", STARTS)

    with ThreadPoolExecutor(max_workers=4) as ex:
        fut_self = ex.submit(binding)
        res = list(ex.map(phase, ["share", "conc", "hist"]))
        ok, why, got, goodbad = fut_self.result()
    stats = {n: st for n, st, v, tp in res}
    vals = {n: v for n, st, v, tp in res}
    nrej = sum(v["nbad"] for v in vals.values())
    if not ok and not (goodbad and nrej):
        raise vlib.Infra("binding self-test of PureTrace.tla failed: %s" % why)
    if goodbad and not nrej:
        raise vlib.Infra("binding self-test: uncorrupted prefix rejected but the full run is clean")
    log("[C02] binding self-test: corrupted trace rejected with %s" % sorted(got or []))
    for n, st, v, tp in res:
        if st.get("crash") and not any(b["reason"] == "crash" for b in v["bad"]):
            raise vlib.Infra("%s child crashed without a crash event: %s" % (n, st["crash"]))
        pc.reject_all(V, v["bad"])
    rc = V.finish()
    samples = []
    for n, st, v, tp in res:
        with open(tp) as f:
            for i, line in enumerate(f):
                if i in (2, 3):
                    samples.append(json.loads(line))
                if i > 3:
                    break
    evals = stats["hist"]["calls"] + stats["conc"]["calls"] + stats["share"]["reads"]
    cov = {"evaluations": evals,
           "distinct_nontrivial": stats["hist"]["nontrivial"] + stats["conc"]["nontrivial"] + stats["share"]["nontrivial"],
           "rule": "a Call is non-trivial when its (input, first layer, option set) decoded to >= 2 layers (counted once per phase); "
                   "a sharing scenario is non-trivial per distinct pair of accessor programs run on a packet of >= 2 layers. "
                   "Inputs: harvested fixtures, structural mutations, inner-layer starts and near-duplicates in seeded pools of K; "
                   "histories and accessor-program pairs are the exhaustive TLC export (quick: all single-accessor pairs + 1200 seeded longer ones)",
           "generator_model": {"K": K, "MaxProg": 2, "tlc_states": g.distinct, "histories": len(kinds["hist"]),
                               "accessor_program_pairs": len(kinds["share"]), "pairs_replayed": len(share)},
           "phases": stats, "trace_events_validated": sum(v["lines"] for v in vals.values()),
           "trace_states": sum(v["states"] for v in vals.values()), "rejected_scenarios": nrej,
           "race_reports": stats["conc"].get("races", 0) + stats["share"].get("races", 0),
           "binding_selftest_reasons": sorted(got), "goroutines": G, "samples": samples, "exhaustive": False}
    vlib.write_evidence(PID, ctx.tier, ctx.seed, "exploration", cov, time.time() - t0, len(V.violations),
                        ["inputs and goroutine schedules are sampled (seeded / by the scheduler), not exhaustive; there is nothing to yield on inside decoders",
                         "data races are those the Go race detector reports for the schedules that occurred (reports are de-duplicated per stack pair by the runtime)",
                         "digests are reflective renderings of exported fields, contents, payload, error text without stack, truncated flag, pointer-layer indices"])
    shutil.rmtree(wd, ignore_errors=True)
    return rc
