"""C11 - assembler stream lifecycle and buffering are bounded and leak-free (both assembler packages).

Same scenarios as C09/C10 (TLC-generated + random multi-connection), with `new`/`complete` callbacks and the
read-only hook scalars (pages in use, live connections, queued pages, head-of-queue timestamp) logged after every
API call; TLC validates the lifecycle clauses of Reasm.tla."""
import time, shutil
import vlib
from . import asmcommon as ac

PID = "C11"


def run(ctx):
    t0 = time.time()
    V = vlib.Verdict(PID)
    wd = vlib.scratch("c11-%s" % ctx.tier)
    stats, bad = ac.run_asm(ctx, ["reasm", "tcpasm"], wd, 300 if ctx.tier == "quick" else 5000,
                            variants={"reasm": 1, "tcpasm": 1} if ctx.tier == "quick" else None)
    ac.judge(V, bad, ac.LIFECYCLE, ["reasm", "tcpasm"])
    rc = V.finish()
    ac.evidence(PID, ctx, V, stats, t0, ["reassembly", "tcpassembly"], "Lifecycle clauses are evaluated on every api/new/complete/flush event.")
    shutil.rmtree(wd, ignore_errors=True)
    return rc
