"""C11 - assembler stream lifecycle and buffering are bounded and leak-free (both assembler packages).

Same scenarios as C09/C10 (TLC-generated + random multi-connection), with `new`/`complete` callbacks and the
read-only hook scalars (pages in use, live connections, queued pages, head-of-queue timestamp) logged after every
API call; TLC validates the lifecycle clauses of Reasm.tla.  Plus the scripted scenarios escalated from the
implementation-shaped models (ReasmImpl.tla: HalfPagesExact -> per-connection page limit with KeepFrom), and in the
thorough tier the behaviours of both implementation-shaped models replayed on the real assemblers (lifecycle reasons)."""
import time, shutil
import vlib
from . import asmcommon as ac
from . import reasmimpl as ri
from . import tcpasmimpl as ti

PID = "C11"


class _QuickPlans:
    """the Impl-layer pipelines are run with their quick plans inside C11 (their thorough plans belong to C09 / C10)"""
    def __init__(self, ctx):
        self.tier, self.seed, self.pid = "quick", ctx.seed, ctx.pid


def run(ctx):
    t0 = time.time()
    V = vlib.Verdict(PID)
    wd = vlib.scratch("c11-%s" % ctx.tier)
    stats, bad = ac.run_asm(ctx, ["reasm", "tcpasm"], wd, 300 if ctx.tier == "quick" else 5000,
                            variants={"reasm": 1, "tcpasm": 1} if ctx.tier == "quick" else None)
    ac.judge(V, bad, ac.LIFECYCLE, ["reasm", "tcpasm"])
    extra = {"escalated_scenarios": ri.run_escalations(V)}
    if ctx.tier != "quick":
        own = lambda reason: V if reason in ac.LIFECYCLE else None
        for name, mod in (("reassembly", ri), ("tcpassembly", ti)):
            cov = mod.run_impl(_QuickPlans(ctx), own, with_self_test=False)
            extra["impl_model_" + name] = {k: cov[k] for k in ("model", "states", "traces_validated_against_impl", "trace_events_validated",
                                                                "events_compared_model_vs_code", "rejected_real_scenarios", "impl_drift")}
            stats["tstates"] += cov["states"]
            stats["scenarios"] += cov["traces_validated_against_impl"]
            stats["events"] += cov["trace_events_validated"]
    rc = V.finish()
    ac.evidence(PID, ctx, V, stats, t0, ["reassembly", "tcpassembly"], "Lifecycle clauses are evaluated on every api/new/complete/flush event.", extra)
    shutil.rmtree(wd, ignore_errors=True)
    return rc
