"""C20 - stream reader returns exactly the delivered bytes; never wedges the assembler.

ReaderStream.tla: the two goroutines and their two rendezvous channels as a pc-machine; TLC checks (all delivery
histories in the bound x all read sizes x Close at every consumer step) that bytes read are a prefix of bytes
delivered, EOF only at the end, no send-on-closed panic and NO DEADLOCK, and shows that the pinned shape of Close()
(AckInClose = FALSE) does deadlock.  Every terminal behaviour is exported and replayed with two real goroutines on
the real tcpreader.ReaderStream (directly and behind a real tcpassembly.Assembler); TLC validates what every Read
returned (ReaderTrace.tla)."""
import json, os, time, shutil
import vlib
from vlib import log

PID = "C20"


def run(ctx):
    t0 = time.time()
    quick = ctx.tier == "quick"
    V = vlib.Verdict(PID)
    binp = vlib.go_build("./cmd/reader")
    wd = vlib.scratch("c20-%s" % ctx.tier)
    # 1. design: repaired shape is deadlock-free ...
    mc = vlib.tlc("ReaderStreamMC", cfg="ReaderStreamMC", timeout=1800, workers=8)
    if mc.violated:
        raise vlib.Infra("ReaderStream.tla (AckInClose=TRUE) violates %s in the model itself" % mc.violated)
    # ... and the model is sensitive: the old shape of Close() deadlocks
    old = vlib.tlc("ReaderStreamMC", cfg="ReaderStreamMC", timeout=1800, workers=8, cfg_subst={r"AckInClose = TRUE": "AckInClose = FALSE"})
    if old.violated != "deadlock":
        raise vlib.Infra("ReaderStream.tla no longer finds the Close() deadlock of the un-repaired code shape (got %s)" % old.violated)
    log("[C20] model: %d states deadlock-free; old Close() shape deadlocks as expected" % mc.distinct)
    # 2. export terminal behaviours and replay
    ex = vlib.tlc("ReaderStreamMC", cfg="ReaderStreamExport", workdir=os.path.join(wd, "exp"), timeout=1800, workers=8,
                  cfg_subst={r"MaxReads = \d+": "MaxReads = %d" % (5 if quick else 6)})
    if ex.violated:
        raise vlib.Infra("ReaderStream export model violated %s" % ex.violated)
    scen = sorted(set(l[4:] for l in ex.printed if isinstance(l, str) and l.startswith("BEH ")))
    import random
    rnd = random.Random(ctx.seed)
    if quick and len(scen) > 6000:
        scen = rnd.sample(scen, 6000)
    elif len(scen) > 120000:
        scen = rnd.sample(scen, 120000)
    sp = os.path.join(wd, "scen.ndjson")
    open(sp, "w").write("\n".join(scen) + "\n")
    tp = os.path.join(wd, "trace.ndjson")
    p = vlib.run([binp, "-scenarios", sp, "-trace", tp], timeout=3000)
    st = json.loads(p.stdout.strip().splitlines()[-1])
    v = vlib.validate_trace("ReaderTrace", tp, "reader", heap="8g", timeout=3000)
    ev = vlib.read_ndjson(tp) if v["bad"] else None
    for b in v["bad"]:
        evs = [e for e in ev[max(0, b["line"] - 40):b["line"]] if e.get("sc") == b["sc"]]
        V.reject({"reason": b["reason"], "op": b["op"]}, {"bad": b, "events": evs})
    samples = []
    with open(tp) as f:
        for i, line in enumerate(f):
            if i >= 8:
                break
            samples.append(json.loads(line))
    rc = V.finish()
    cov = {"states": mc.distinct + v["states"], "transitions": mc.generated, "model_states_exhaustive": mc.distinct,
           "old_close_shape_deadlocks_in_model": True,
           "traces_validated_against_impl": st["scenarios"], "trace_events_validated": st["events"],
           "behaviours_exported": len(scen), "real_deadlocks_observed": st["deadlocks"],
           "evaluations": st["scenarios"], "distinct_nontrivial": len(scen),
           "rule": "terminal behaviours of ReaderStream.tla (delivery histories of <=2 batches of <=2 chunks with empty chunks and skips, read sizes {1,2,8}, Close at any consumer step); each replayed with LossErrors on and off, and histories without skips also behind a real Assembler",
           "samples": samples, "exhaustive": not quick}
    vlib.write_evidence(PID, ctx.tier, ctx.seed, "model_checking", cov, time.time() - t0, len(V.violations),
                        ["deadlock on the real code = both goroutines still blocked 2 s after the schedule ended",
                         "interleavings are fixed by the two rendezvous channels; the consumer program is the schedule"])
    shutil.rmtree(wd, ignore_errors=True)
    return rc
