"""Implementation-shaped model of gopacket/tcpassembly (specs/TcpasmImpl.tla) and its binding to the real code.

Same pipeline as reasmimpl.py (which holds the engine): TLC checks TcpasmImplMC (ImplSatisfiesProp: every event of the
transcription of tcpassembly/assembly.go is accepted by Reasm!Judge; structural invariants of the page list), refutes
the defect shapes switched on through constants, exports behaviours with predictions; harness/cmd/tcpasm_impl replays
them on the real tcpassembly.Assembler, compares (drift, never a verdict) and TLC validates the real trace against
Reasm.tla (verdicts: C10 for delivery clauses, C11 for lifecycle clauses)."""
from . import reasmimpl as ri

PLANS = {
    "quick": [dict(name="L3-ops4", mode="bfs", L=3, ops=4, seglen=3, grid="MC_CfgsQuick", mod=48),
              dict(name="sim-L5-ops7", mode="sim", L=5, ops=7, seglen=5, grid="MC_CfgsAll", mod=1, walks=40, workers=4)],
    "thorough": [dict(name="L3-ops4-full", mode="bfs", L=3, ops=4, seglen=3, grid="MC_CfgsAll", mod=48),
                 dict(name="L4-ops4", mode="bfs", L=4, ops=4, seglen=4, grid="MC_CfgsQuick", mod=32),
                 dict(name="L3-ops5", mode="bfs", L=3, ops=5, seglen=3, grid="MC_CfgsThree", mod=128),
                 dict(name="sim-L5-ops8", mode="sim", L=5, ops=8, seglen=5, grid="MC_CfgsAll", mod=1, walks=200, workers=4)],
}

DEFECTS = [
    dict(name="wrap-off-by-one", fix="(never present in tcpassembly: uint32Size = 1 << 32)", subst={r"WRAP = \d+": "WRAP = %d" % (ri.MODEL["M"] - 1)},
         grid="MC_CfgsWrap", what="Sequence.Difference adds M-1 instead of M"),
    dict(name="stale-skip-on-recycled-page", fix="(hypothetical: pageCache.next not clearing the page's Reassembly)",
         subst={r"SkipReset = TRUE": "SkipReset = FALSE"}, grid="MC_CfgsSkip", what="a recycled page keeps the Skip of its previous use"),
]


def _subst(plan, seed, extra=None):
    s = {r"L = \d+": "L = %d" % plan["L"], r"MaxOps = \d+": "MaxOps = %d" % plan["ops"],
         r"MaxSegLen = \d+": "MaxSegLen = %d" % plan["seglen"], r"Cfgs <- \w+": "Cfgs <- %s" % plan["grid"],
         r"Seed = \d+": "Seed = %d" % (seed % 1000), r"ExportMod = \d+": "ExportMod = %d" % plan["mod"],
         r"ExportRem = \d+": "ExportRem = %d" % (seed % plan["mod"])}
    s.update(extra or {})
    return s


TCPASM = dict(name="tcpassembly", module="TcpasmImplMC", spec="TcpasmImpl.tla", source="/repo/tcpassembly/assembly.go",
              driver="./cmd/tcpasm_impl", subst=_subst, plans=PLANS, defects=DEFECTS, escalations=[], notes=[],
              defect_plan=dict(L=3, ops=4, seglen=3, mod=1), invariants="ImplSatisfiesProp HeapSane NoLeak NoFlags", scratch="x10impl")


def run_impl(ctx, verdict_for, with_self_test=True):
    return ri.run_impl(ctx, verdict_for, with_self_test, TCPASM)
