"""Implementation-shaped model of gopacket/reassembly (specs/ReasmImpl.tla) and its binding to the real code.

ReasmImpl.tla transcribes /repo/reassembly/tcpassembly.go (one connection, explicit page heap, sequence space of
size M, pages of P bytes).  This module

  1. lets TLC check ReasmImplMC: for every scenario within the bound and every configuration of the grid the events
     the transcription emits are accepted by Reasm!Judge (invariant ImplSatisfiesProp), and the code's own structural
     invariants hold (page lists, contents vs sequence numbers, pageCache.used);
  2. switches the pre-fix shapes of the code on through constants (WRAP = M-1, ...) and requires TLC to produce a
     counterexample for each - the model must be able to find the defects that were repaired;
  3. exports behaviours (configuration, operations, predicted events) - a seed-selected slice of all complete paths
     of the exhaustive run, plus the behaviours visited by TLC's simulation mode on a larger bound (longer streams,
     both directions, whole configuration grid) -, replays them on the real Assembler (harness/cmd/reasm_impl),
     compares predicted with observed events and hook scalars (drift: reported, never a verdict), and has TLC validate
     what the real code did against Reasm.tla (ReasmTrace.tla) - the only source of verdicts.

`run_impl(ctx, verdict_for)` is the entry point (c09.py may call it with its own Verdict objects);
tools/props/x09impl.py is the stand-alone check `bin/check X09IMPL`."""
import json, os, re, shutil, time
from concurrent.futures import ThreadPoolExecutor
import vlib
from vlib import log
from . import asmcommon as ac

MODEL = {"M": 32, "P": 2}

# mode bfs: exhaustive check + export of the paths with hash % mod == seed % mod
# mode sim: TLC simulation (random walks, invariants checked on every generated state; every complete behaviour
#           generated at the last step of a walk is exported)
PLANS = {
    "quick": [dict(name="L3-ops4", mode="bfs", L=3, dirs="{0}", ops=4, seglen=3, grid="MC_CfgsQuick", mod=48),
              dict(name="sim-L5-ops6-bidir", mode="sim", L=5, dirs="{0,1}", ops=6, seglen=4, grid="MC_CfgsEverything", mod=1, walks=25, workers=4)],
    "thorough": [dict(name="L3-ops4-full", mode="bfs", L=3, dirs="{0}", ops=4, seglen=3, grid="MC_CfgsThorough", mod=96),
                 dict(name="L4-ops4", mode="bfs", L=4, dirs="{0}", ops=4, seglen=4, grid="MC_CfgsAll12", mod=64),
                 dict(name="L3-ops3-bidir", mode="bfs", L=3, dirs="{0,1}", ops=3, seglen=3, grid="MC_CfgsAll12", mod=8),
                 dict(name="sim-L5-ops6-bidir", mode="sim", L=5, dirs="{0,1}", ops=6, seglen=4, grid="MC_CfgsEverything", mod=1, walks=150, workers=4),
                 dict(name="sim-L5-ops8", mode="sim", L=5, dirs="{0}", ops=8, seglen=5, grid="MC_CfgsEverything", mod=1, walks=150, workers=4)],
}

# pre-fix shapes of the code: each must make TLC violate ImplSatisfiesProp
DEFECTS = [
    dict(name="wrap-off-by-one", fix="1e6977b", subst={r"WRAP = \d+": "WRAP = %d" % (MODEL["M"] - 1)}, grid="MC_CfgsWrap",
         what="Sequence.Difference adds uint32Max (M-1) instead of 2^32 (M)"),
    dict(name="fin-counted-while-queued", fix="b39eea8", subst={r"FinOnlyClosed = TRUE": "FinOnlyClosed = FALSE"}, grid="MC_CfgsFin",
         what="nextSeq advanced for a FIN that is still queued"),
    dict(name="saved-pages-leak-at-close", fix="82c8ff2", subst={r"ReleaseSaved = TRUE": "ReleaseSaved = FALSE"}, grid="MC_CfgsKeep",
         what="closeHalfConnection does not release the saved (KeepFrom) pages"),
    dict(name="cleansg-skip-accounting", fix="ea98ddb", subst={r"CleanSkipFixed = TRUE": "CleanSkipFixed = FALSE"}, grid="MC_CfgsClean",
         what="cleanSG applies the KeepFrom offset again behind a live packet", tier="thorough"),     # shortest counterexample: 4 operations
]

# design-level findings escalated beyond the exhaustive bound: one scripted scenario each, run through the model
# (prediction + the model's own Judge verdict) and through the real code.  A rejection of the real behaviour is a
# violation of the named property (ESCALATED_ENFORCED = False only while a new finding is being triaged: it is then
# printed as FINDING-PROPOSED and recorded in the evidence without affecting the exit code).
ESCALATIONS = [
    dict(name="page-limit-undercount", property="C11", script="MC_ScriptPageLimit", grid="MC_CfgsScript", L=10, ops=8, seglen=1,
         what="half.pages does not count the pages of a kept (KeepFrom) live packet but uncounts them when they are released: "
              "MaxBufferedPagesPerConnection=1 lets three out-of-order pages queue up"),
]
ESCALATED_ENFORCED = True

INVS = "ImplSatisfiesProp HeapSane ContentMatchesSeq UsedExact NoFlags"


def _subst(plan, seed, extra=None):
    s = {r"L = \d+": "L = %d" % plan["L"], r"Dirs = \{[^}]*\}": "Dirs = %s" % plan["dirs"],
         r"MaxOps = \d+": "MaxOps = %d" % plan["ops"], r"MaxSegLen = \d+": "MaxSegLen = %d" % plan["seglen"],
         r"Cfgs <- \w+": "Cfgs <- %s" % plan["grid"], r"Seed = \d+": "Seed = %d" % (seed % 1000),
         r"ExportMod = \d+": "ExportMod = %d" % plan["mod"], r"ExportRem = \d+": "ExportRem = %d" % (seed % plan["mod"])}
    s.update(extra or {})
    return s


# what distinguishes the two assemblers' Impl-layer checks (tcpasmimpl.py defines the other family)
REASM = dict(name="reassembly", module="ReasmImplMC", spec="ReasmImpl.tla", source="/repo/reassembly/tcpassembly.go",
             driver="./cmd/reasm_impl", subst=_subst, plans=PLANS, defects=DEFECTS, escalations=ESCALATIONS,
             defect_plan=dict(L=3, dirs="{0}", ops=4, seglen=3, mod=1), invariants=INVS, scratch="x09impl")


def _printed(r, tag):
    return [l[len(tag):] for l in r.printed if isinstance(l, str) and l.startswith(tag)]


def check_and_export(plan, seed, wd, fam=REASM):
    """TLC: ImplSatisfiesProp + structural invariants; returns (TLCResult, behaviours, counterexamples)."""
    if plan["mode"] == "sim":
        r = vlib.tlc(fam["module"], workdir=wd, timeout=3000, workers=plan["workers"], heap="8g", cfg_subst=fam["subst"](plan, seed),
                     simulate="num=%d" % plan["walks"], depth=plan["ops"] + 2, seed=seed)
        m = re.search(r"The number of states generated: (\d+)", r.out)
        r.generated = r.distinct = int(m.group(1)) if m else 0
        if r.error and not r.violated and "Finished in" not in r.out:
            raise vlib.Infra("TLC simulation failed on %s:\n%s" % (fam["module"], r.error))
    else:
        r = vlib.tlc(fam["module"], workdir=wd, timeout=3000, workers=min(vlib.NCPU, 16), heap="24g", cfg_subst=fam["subst"](plan, seed))
    beh = list(dict.fromkeys(_printed(r, "BEH ")))
    # signature-directed export: every TLC worker prints one behaviour per distinct set of code decisions in the last
    # operation; keep a few per signature ("one implementation test per transition")
    nsig, per = {}, plan.get("per_sig", 3)
    for l in _printed(r, "SIG "):
        k = l[l.rindex('"sig":'):]
        if nsig.get(k, 0) < per:
            nsig[k] = nsig.get(k, 0) + 1
            beh.append(l)
    r.signatures = len(nsig)
    # decisions of the transcribed code taken in the last operation of some complete behaviour (branch coverage of the model)
    r.decisions = sorted(set(t for k in nsig for t in json.loads(k[len('"sig":'):-1])[0]))
    cex = [json.loads(l) for l in _printed(r, "CEX ")]
    return r, beh, cex


def defect_run(d, wd, fam=REASM):
    """The pre-fix shape must be refuted by TLC; returns dict with the counterexample."""
    plan = dict(fam["defect_plan"], grid=d["grid"])
    sub = fam["subst"](plan, 0, d["subst"])
    sub[r"ExportRem = \d+"] = "ExportRem = 1"          # nothing exported
    sub[r"INVARIANTS[^\n]*"] = "INVARIANTS ImplSatisfiesProp"
    r = vlib.tlc(fam["module"], workdir=wd, timeout=900, workers=2, cfg_subst=sub)
    cex = [json.loads(l) for l in _printed(r, "CEX ")]
    return {"name": d["name"], "what": d["what"], "repaired_by": d["fix"], "violated": r.violated, "states": r.distinct,
            "wall_s": round(r.wall, 1), "counterexample": cex[0] if cex else None}


def design_note_half_pages(wd):
    """half.pages (the number the per-connection limit compares) against the pages actually linked: a statement about
    the code's bookkeeping; escalated to a C11 scenario in ESCALATIONS."""
    plan = dict(L=3, dirs="{0}", ops=3, seglen=3, grid="MC_CfgsKeep", mod=1)
    sub = _subst(plan, 0)
    sub[r"ExportRem = \d+"] = "ExportRem = 1"
    sub[r"INVARIANTS[^\n]*"] = "INVARIANTS HalfPagesExact"
    r = vlib.tlc("ReasmImplMC", workdir=os.path.join(wd, "fixed"), timeout=900, workers=1, cfg_subst=sub)
    sub2 = dict(sub)
    sub2[r"PagesFix = \w+"] = "PagesFix = FALSE"
    r2 = vlib.tlc("ReasmImplMC", workdir=os.path.join(wd, "prefix"), timeout=900, workers=1, cfg_subst=sub2)
    if r.violated:
        raise vlib.Infra("ReasmImpl.tla: HalfPagesExact violated with PagesFix = TRUE (%s)" % r.violated)
    return {"invariant": "HalfPagesExact", "holds_in_model": True, "pre_fix_shape_refuted": r2.violated == "HalfPagesExact",
            "states": r.distinct, "repaired_by": "129d6d6",
            "meaning": "half.pages (the number the per-connection limit compares) equals the pages really linked to the half "
                       "connection.  Before fix 129d6d6 cleanSG converted a kept live packet into pages without counting them and "
                       "addPending dropped non-contiguous saved pages without uncounting them (constant PagesFix = FALSE: refuted "
                       "after one operation); escalated to the C11 scenario in ESCALATIONS"}


REASM["notes"] = [design_note_half_pages]


TAIL = ',"tail":[["flushall"]]}'


def replay(binp, beh_lines, units, wd, tag):
    """model -> implementation.  Every behaviour is followed by a FlushAll that the model did not predict (run and
    judged, not compared): Reasm!Judge then checks the quiescence clauses (every arrived byte delivered, stream
    completed, no page in use) on each replayed behaviour.  Returns (stats, drift examples, trace path)."""
    os.makedirs(wd, exist_ok=True)
    bp = os.path.join(wd, "beh-%s.ndjson" % tag)
    with open(bp, "w") as f:
        f.write("\n".join(l[:-1] + TAIL for l in beh_lines) + "\n")
    tp = os.path.join(wd, "trace-%s.ndjson" % tag)
    dp = os.path.join(wd, "drift-%s.ndjson" % tag)
    p = vlib.run([binp, "-behaviours", bp, "-trace", tp, "-drift", dp, "-units", str(units), "-M", str(MODEL["M"]),
                  "-P", str(MODEL["P"])], timeout=3000, ok_codes=(0, 3))
    st = json.loads(p.stdout.strip().splitlines()[-1])
    return st, vlib.read_ndjson(dp), tp


def validate(tp, tag):
    """implementation -> model: Reasm!Judge over what the real code did.  Returns (verdict dict, bad [(badrec, events)])."""
    v = vlib.validate_trace("ReasmTrace", tp, tag, heap="6g", timeout=3000)
    out = []
    if v["bad"]:
        ev = vlib.read_ndjson(tp)
        for b in v["bad"]:
            evs = [e for e in ev[max(0, b["line"] - 80):b["line"]] if e.get("sc") == b["sc"]]
            out.append((b, evs))
    return v, out


def self_test(binp, beh_lines, units, wd):
    """Binding self-tests.  (a) drift comparison: predictions with one corrupted field must be reported as drift for
    exactly those behaviours.  (b) trace spec: a recorded good trace with one corrupted delivery must be rejected by
    ReasmTrace at that scenario, the pristine one accepted."""
    picks = [l for l in beh_lines if '"op":"sg"' in l][:40]
    if len(picks) < 10:
        raise vlib.Infra("self-test: not enough behaviours with deliveries")
    corrupted, want = [], set()
    for i, l in enumerate(picks):
        b = json.loads(l)
        if i % 4 == 0:          # pages after the last operation + 1
            b["pred"][-1][-1]["pages"] += 1
            want.add(i + 1)
        elif i % 4 == 1:        # the first delivery announces one more unit of skip
            e = next(e for op in b["pred"] for e in op if e["op"] == "sg")
            e["skip"] = e["skip"] + 1 if e["skip"] >= 0 else 0
            want.add(i + 1)
        corrupted.append(json.dumps(b))
    st, drift, tp = replay(binp, corrupted, units, wd, "selftest")
    got = set(d["sc"] for d in drift)
    if got != want or st["drift"] != len(want):
        raise vlib.Infra("self-test: drift comparison reported %s, expected %s" % (sorted(got), sorted(want)))
    # (b) the recorded (uncorrupted) trace is accepted; shifting one delivered run by a unit is rejected there
    v, _ = validate(tp, "selftest0")
    if v["bad"]:
        raise vlib.Infra("self-test: pristine recorded trace rejected: %s" % v["bad"][:2])
    ev = vlib.read_ndjson(tp)
    idx = next(i for i, e in enumerate(ev) if e["op"] == "sg" and e["nrun"] and e["sc"] >= 3)
    S = 1900 // MODEL["P"]
    ev[idx]["nrun"] = [[ev[idx]["nrun"][0][0] + S, ev[idx]["nrun"][0][1] + S]]
    t2 = os.path.join(wd, "selftest-corrupt.ndjson")
    with open(t2, "w") as f:
        f.write("".join(json.dumps(e) + "\n" for e in ev))
    v2, _ = validate(t2, "selftest1")
    if [b["sc"] for b in v2["bad"]] != [ev[idx]["sc"]]:
        raise vlib.Infra("self-test: corrupted delivery not rejected exactly at scenario %d: %s" % (ev[idx]["sc"], v2["bad"]))
    return {"drift_comparison_corrupted_predictions_detected": len(want), "trace_spec_rejects_corrupted_delivery": v2["bad"][0]["reason"]}


def plan_pipeline(plan, seed, binp, wd, want_self_test, fam=REASM):
    """One plan: TLC (check + export) -> replay on the real code -> comparison -> trace validation."""
    r, beh, cex = check_and_export(plan, seed, os.path.join(wd, "tlc"), fam)
    rec = {"plan": plan, "tlc_states": r.distinct, "tlc_generated": r.generated, "depth": r.depth, "tlc_wall_s": round(r.wall, 1),
           "invariants": fam["invariants"], "violated": r.violated, "behaviours_exported": len(beh),
           "distinct_last_operation_signatures": r.signatures, "code_decisions_exercised": r.decisions}
    log("[impl] %s: %d states, %.1fs, violated=%s, %d behaviours exported" % (plan["name"], r.distinct, r.wall, r.violated, len(beh)))
    extra = []
    if r.violated:
        # a design-level counterexample of the transcription is not a verdict about the code: it is replayed
        rec["model_counterexamples"] = cex[:3]
        extra = [json.dumps({"cfg": c["cfg"], "ops": c["ops"]}) for c in cex[:20]]
    if not beh and not extra:
        raise vlib.Infra("%s exported no behaviours for plan %s" % (fam["module"], plan["name"]))
    t1 = time.time()
    st, drift, tp = replay(binp, beh + extra, plan["L"], wd, "main")
    t2 = time.time()
    selft = None
    with ThreadPoolExecutor(max_workers=2) as ex:
        fs = ex.submit(self_test, binp, beh, plan["L"], os.path.join(wd, "selftest")) if want_self_test else None
        v, bad = validate(tp, plan["name"])
        if fs is not None:
            try:
                selft = fs.result()
            except vlib.Infra as e:
                selft = e
    log("[impl] %s: replay %.1fs (%d behaviours, drift %d), trace validation %.1fs (%d events, %d rejected)"
        % (plan["name"], t2 - t1, st["scenarios"], st["drift"], time.time() - t2, st["events"], v["nbad"]))
    rec.update({"replayed": st["scenarios"], "events": st["events"], "compared_events": st["compared_events"],
                "drift": st["drift"], "drift_kinds": st["drift_kinds"], "deliveries": st["deliveries"],
                "deliveries_with_skip": st["deliveries_with_skip"], "deliveries_with_saved": st["deliveries_with_saved"],
                "trace_states": v["states"], "rejected": v["nbad"]})
    with open(tp) as f:
        samples = [json.loads(next(f)) for _ in range(6)]
    os.remove(tp)
    return {"rec": rec, "bad": bad, "drift": drift, "samples": samples, "self_test": selft, "nbeh": len(beh)}


def escalation_run(e, binp, wd, fam=REASM):
    """Scripted scenario: model prediction and model verdict (TLC), then the real code (replay, comparison, Judge)."""
    plan = dict(L=e["L"], dirs="{0}", ops=e["ops"], seglen=e["seglen"], grid=e["grid"], mod=1)
    sub = fam["subst"](plan, 0, {r"Script <- \w+": "Script <- %s" % e["script"]})
    sub[r"INVARIANTS[^\n]*"] = "INVARIANTS Export"
    r = vlib.tlc(fam["module"], workdir=os.path.join(wd, "tlc"), timeout=900, workers=1, cfg_subst=sub)
    beh = _printed(r, "BEH ")
    if len(beh) != 1:
        raise vlib.Infra("escalation %s: expected one scripted behaviour, got %d" % (e["name"], len(beh)))
    b = json.loads(beh[0])
    st, drift, tp = replay(binp, beh, e["L"], wd, "esc")
    v, bad = validate(tp, "esc-" + e["name"])
    return {"name": e["name"], "property": e["property"], "what": e["what"], "cfg": b["cfg"], "ops": b["ops"],
            "model_judge": sorted(set(x[0] for x in b["verdicts"])) or ["accepted"],
            "real_code_judge": [x[0]["reason"] for x in bad] or ["accepted"], "model_vs_code_drift": st["drift"],
            "enforced": ESCALATED_ENFORCED, "_bad": bad}


def cex_pipeline(fdefects, binp, wd):
    """The counterexamples of the pre-fix shapes are replayed on the real code: today's code must not show them."""
    runs = [f.result() for f in fdefects]
    for d in runs:
        if d["violated"] != "ImplSatisfiesProp" or not d["counterexample"]:
            raise vlib.Infra("defect-finding run %s: TLC did not refute the pre-fix shape (violated=%s)" % (d["name"], d["violated"]))
    lines = [json.dumps({"cfg": d["counterexample"]["cfg"], "ops": d["counterexample"]["ops"]}) for d in runs]
    st, _, tp = replay(binp, lines, 3, wd, "cex")
    v, bad = validate(tp, "cex")
    for b, evs in bad:
        runs[b["sc"] - 1]["real_code"] = "REJECTED by Reasm!Judge: %s" % b["reason"]
    for d in runs:
        d.setdefault("real_code", "accepted by Reasm!Judge (the real code does not show the model's counterexample)")
    return runs, bad


def run_impl(ctx, verdict_for, with_self_test=True, fam=REASM):
    """Runs the whole Impl-layer pipeline.  verdict_for(reason) -> vlib.Verdict that owns a rejection with that reason
    (delivery reasons belong to C09, lifecycle reasons to C11).  Returns the coverage dict for the evidence."""
    t0 = time.time()
    wd = vlib.scratch("%s-%s" % (fam["scratch"], ctx.tier))
    binp = vlib.go_build(fam["driver"])
    plans = fam["plans"][ctx.tier]
    cov = {"model": dict(MODEL, module="%s / %s.tla" % (fam["spec"], fam["module"]), transcribes=fam["source"]),
           "plans": [], "defect_finding_runs": [], "impl_drift": {"behaviours_with_drift": 0, "kinds": {}, "examples": []},
           "states": 0, "transitions": 0, "traces_validated_against_impl": 0, "trace_events_validated": 0,
           "events_compared_model_vs_code": 0, "rejected_real_scenarios": 0, "samples": []}

    def reject(b, evs, **more):
        V = verdict_for(b["reason"])
        if V is not None:
            payload = {"driver": "reasm_impl", "bad": b, "events": evs, "model": MODEL}
            payload.update(more)
            V.reject({"assembler": b["asm"], "reason": b["reason"], "op": b["op"]}, payload)

    with ThreadPoolExecutor(max_workers=12) as ex:
        # everything is independent: plans (TLC -> replay -> validation), defect-finding configurations (small state
        # spaces) with the replay of their counterexamples, the bookkeeping note, the scripted escalations
        fd = [ex.submit(defect_run, d, os.path.join(wd, "defect-" + d["name"]), fam) for d in fam["defects"]
              if d.get("tier", "quick") == "quick" or ctx.tier == "thorough"]
        fc = ex.submit(cex_pipeline, fd, binp, os.path.join(wd, "cex"))
        fn = [ex.submit(f, os.path.join(wd, "note-%d" % i)) for i, f in enumerate(fam.get("notes", []))]
        fe = [ex.submit(escalation_run, e, binp, os.path.join(wd, "esc-" + e["name"]), fam) for e in fam["escalations"]]
        # the exhaustive plans one after the other (each uses all cores), the simulations beside them
        seq = [p for p in plans if p["mode"] == "bfs"]
        par = [p for p in plans if p["mode"] == "sim"]
        fpar = [ex.submit(plan_pipeline, p, ctx.seed, binp, os.path.join(wd, "plan-" + p["name"]), False, fam) for p in par]
        results = []
        for i, p in enumerate(seq):
            results.append(plan_pipeline(p, ctx.seed, binp, os.path.join(wd, "plan-" + p["name"]), with_self_test and i == 0, fam))
        results += [f.result() for f in fpar]
        for res in results:
            rec = res["rec"]
            cov["plans"].append(rec)
            cov["states"] += rec["tlc_states"] + rec["trace_states"]
            cov["transitions"] += rec["tlc_generated"]
            cov["traces_validated_against_impl"] += rec["replayed"]
            cov["trace_events_validated"] += rec["events"]
            cov["events_compared_model_vs_code"] += rec["compared_events"]
            cov["rejected_real_scenarios"] += rec["rejected"]
            cov["impl_drift"]["behaviours_with_drift"] += rec["drift"]
            for k, n in rec["drift_kinds"].items():
                cov["impl_drift"]["kinds"][k] = cov["impl_drift"]["kinds"].get(k, 0) + n
            cov["impl_drift"]["examples"] += res["drift"][:max(0, 8 - len(cov["impl_drift"]["examples"]))]
            cov["samples"] = cov["samples"] or res["samples"]
            for b, evs in res["bad"]:
                reject(b, evs, plan=rec["plan"], model_counterexample=b["sc"] > res["nbeh"])
        runs, bad = fc.result()
        cov["defect_finding_runs"] = runs
        cov["traces_validated_against_impl"] += len(runs)
        cov["rejected_real_scenarios"] += len(bad)
        for b, evs in bad:
            reject(b, evs, counterexample_of=runs[b["sc"] - 1]["name"])
        cov["design_notes"] = [f.result() for f in fn]
        cov["escalated_scenarios"] = []
        for f in fe:
            e = f.result()
            ebad = e.pop("_bad")
            cov["escalated_scenarios"].append(e)
            cov["traces_validated_against_impl"] += 1
            for bb, evs in ebad:
                if ESCALATED_ENFORCED:
                    reject(bb, evs, escalation=e["name"])
                else:
                    log("FINDING-PROPOSED: property=%s %s: real code rejected by Reasm!Judge (%s) on scripted scenario cfg=%s ops=%s "
                        "[not enforced: see ESCALATED_ENFORCED in tools/props/reasmimpl.py]"
                        % (e["property"], e["name"], bb["reason"], json.dumps(e["cfg"]), json.dumps(e["ops"])))
        deviates = cov["rejected_real_scenarios"] > 0 or cov["impl_drift"]["behaviours_with_drift"] > 0
        for res in results:
            s = res["self_test"]
            if isinstance(s, vlib.Infra):
                # the self-test presupposes a code base the model agrees with; with drift or rejections it is moot
                if not deviates:
                    raise s
                cov["binding_self_tests"] = "skipped (the real code deviates from the model in this run)"
            elif s is not None:
                cov["binding_self_tests"] = s
    cov["impl_wall_s"] = round(time.time() - t0, 1)
    if cov["impl_drift"]["behaviours_with_drift"]:
        log("IMPL-DRIFT: %d replayed behaviours differ from the prediction of %s (first differing event: %s) - not a verdict"
            % (cov["impl_drift"]["behaviours_with_drift"], fam["spec"], cov["impl_drift"]["kinds"]))
        for d in cov["impl_drift"]["examples"][:2]:
            log("  e.g. cfg=%s ops=%s op#%d\n    predicted %s\n    observed  %s" % (d["cfg"], d["ops"], d["op_index"], d["predicted"], d["observed"]))
    shutil.rmtree(wd, ignore_errors=True)
    return cov


def run_escalations(V, fam=REASM):
    """The scripted scenarios of ESCALATIONS that belong to V's property, alone (used by the registered check of that
    property on every run: a repaired defect found at design level must be reported again if it ever returns)."""
    mine = [e for e in fam["escalations"] if e["property"] == V.pid]
    if not mine:
        return []
    wd = vlib.scratch("%s-esc-%s" % (fam["scratch"], V.pid.lower()))
    binp = vlib.go_build(fam["driver"])
    out = []
    for e in mine:
        r = escalation_run(e, binp, os.path.join(wd, "esc-" + e["name"]), fam)
        for bb, evs in r.pop("_bad"):
            V.reject({"assembler": bb["asm"], "reason": bb["reason"], "op": bb["op"], "escalation": e["name"]},
                     {"driver": fam["driver"], "bad": bb, "events": evs, "model": MODEL, "scripted": {"cfg": r["cfg"], "ops": r["ops"]}})
        out.append(r)
    shutil.rmtree(wd, ignore_errors=True)
    return out


def verdict_router(v09, v11):
    """Delivery reasons are violations of C09, lifecycle-only reasons of C11."""
    def f(reason):
        if reason in ac.DELIVERY:
            return v09
        if reason in ac.LIFECYCLE:
            return v11
        return v09
    return f
