"""Implementation-shaped model of gopacket/reassembly (specs/ReasmImpl.tla) and its binding to the real code.

ReasmImpl.tla transcribes /repo/reassembly/tcpassembly.go (one connection, explicit page heap, sequence space of
size M, pages of P bytes).  This module

  1. lets TLC check ReasmImplMC: for every scenario within the bound and every configuration of the grid the events
     the transcription emits are accepted by Reasm!Judge (invariant ImplSatisfiesProp), and the code's own structural
     invariants hold (page lists, contents vs sequence numbers, pageCache.used);
  2. switches the pre-fix shapes of the code on through constants (WRAP = M-1, ...) and requires TLC to produce a
     counterexample for each - the model must be able to find the defects that were repaired;
  3. exports a seed-selected slice of the complete behaviours (configuration, operations, predicted events) from
     the same TLC run, replays them on the real Assembler (harness/cmd/reasm_impl), compares predicted with observed
     events and hook scalars (drift - reported, never a verdict), and has TLC validate what the real code did
     against Reasm.tla (ReasmTrace.tla) - the only source of verdicts.

`run_impl(ctx, verdict_for)` is the entry point (c09.py may call it with its own Verdict objects);
tools/props/x09impl.py is the stand-alone check `bin/check X09IMPL`."""
import json, os, shutil, time
from concurrent.futures import ThreadPoolExecutor
import vlib
from vlib import log
from . import asmcommon as ac

MODEL = {"M": 32, "P": 2}

# one TLC run per plan: check + export (hash-selected slice: behaviours with hash % mod == seed % mod)
PLANS = {
    "quick": [dict(name="L3-ops4", L=3, dirs="{0}", ops=4, seglen=3, grid="MC_CfgsQuick", mod=64)],
    "thorough": [dict(name="L3-ops4-full", L=3, dirs="{0}", ops=4, seglen=3, grid="MC_CfgsThorough", mod=96),
                 dict(name="L4-ops4", L=4, dirs="{0}", ops=4, seglen=4, grid="MC_CfgsAll12", mod=64),
                 dict(name="L3-ops3-bidir", L=3, dirs="{0,1}", ops=3, seglen=3, grid="MC_CfgsAll12", mod=8)],
}

# pre-fix shapes of the code: each must make TLC violate ImplSatisfiesProp
DEFECTS = [
    dict(name="wrap-off-by-one", fix="1e6977b", subst={r"WRAP = \d+": "WRAP = %d" % (MODEL["M"] - 1)}, grid="MC_CfgsWrap",
         what="Sequence.Difference adds uint32Max (M-1) instead of 2^32 (M)"),
    dict(name="fin-counted-while-queued", fix="b39eea8", subst={r"FinOnlyClosed = TRUE": "FinOnlyClosed = FALSE"}, grid="MC_CfgsFin",
         what="nextSeq advanced for a FIN that is still queued"),
    dict(name="saved-pages-leak-at-close", fix="82c8ff2", subst={r"ReleaseSaved = TRUE": "ReleaseSaved = FALSE"}, grid="MC_CfgsKeep",
         what="closeHalfConnection does not release the saved (KeepFrom) pages"),
    dict(name="cleansg-skip-accounting", fix="ea98ddb", subst={r"CleanSkipFixed = TRUE": "CleanSkipFixed = FALSE"}, grid="MC_CfgsClean",
         what="cleanSG applies the KeepFrom offset again behind a live packet"),
]


# design-level findings escalated beyond the exhaustive bound: one scripted scenario each, run through the model
# (prediction + the model's own Judge verdict) and through the real code.  While ENFORCED is False a rejection of
# the real behaviour is printed as FINDING-PROPOSED and recorded in the evidence without affecting the exit code
# (the maintainer decides between a fix: commit and a known_findings entry, then sets it to True).
ESCALATIONS = [
    dict(name="page-limit-undercount", property="C11", script="MC_ScriptPageLimit", grid="MC_CfgsScript", L=10, ops=8, seglen=1,
         what="half.pages does not count the pages of a kept (KeepFrom) live packet but uncounts them when they are released: "
              "MaxBufferedPagesPerConnection=1 lets three out-of-order pages queue up"),
]
ESCALATED_ENFORCED = False


def _subst(plan, seed, extra=None):
    s = {r"L = \d+": "L = %d" % plan["L"], r"Dirs = \{[^}]*\}": "Dirs = %s" % plan["dirs"],
         r"MaxOps = \d+": "MaxOps = %d" % plan["ops"], r"MaxSegLen = \d+": "MaxSegLen = %d" % plan["seglen"],
         r"Cfgs <- \w+": "Cfgs <- %s" % plan["grid"], r"Seed = \d+": "Seed = %d" % (seed % 1000),
         r"ExportMod = \d+": "ExportMod = %d" % plan["mod"], r"ExportRem = \d+": "ExportRem = %d" % (seed % plan["mod"])}
    s.update(extra or {})
    return s


def check_and_export(plan, seed, wd):
    """TLC: ImplSatisfiesProp + structural invariants over the whole grid; returns (TLCResult, behaviours)."""
    r = vlib.tlc("ReasmImplMC", workdir=wd, timeout=3000, workers=min(vlib.NCPU, 16), heap="24g", cfg_subst=_subst(plan, seed))
    beh = [l[4:] for l in r.printed if isinstance(l, str) and l.startswith("BEH ")]
    cex = [json.loads(l[4:]) for l in r.printed if isinstance(l, str) and l.startswith("CEX ")]
    return r, beh, cex


def defect_run(d, wd):
    """The pre-fix shape must be refuted by TLC; returns dict with the counterexample."""
    plan = dict(L=3, dirs="{0}", ops=4, seglen=3, grid=d["grid"], mod=1)
    sub = _subst(plan, 0, d["subst"])
    sub[r"ExportRem = \d+"] = "ExportRem = 1"          # nothing exported
    sub[r"INVARIANTS[^\n]*"] = "INVARIANTS ImplSatisfiesProp"
    r = vlib.tlc("ReasmImplMC", workdir=wd, timeout=900, workers=2, cfg_subst=sub)
    cex = [json.loads(l[4:]) for l in r.printed if isinstance(l, str) and l.startswith("CEX ")]
    return {"name": d["name"], "what": d["what"], "repaired_by": d["fix"], "violated": r.violated, "states": r.distinct,
            "wall_s": round(r.wall, 1), "counterexample": cex[0] if cex else None}


def design_note_half_pages(wd):
    """half.pages (the number the per-connection limit compares) against the pages actually linked: a statement about
    the code's bookkeeping, not part of C09/C11 as stated - reported as a note."""
    plan = dict(L=3, dirs="{0}", ops=3, seglen=3, grid="MC_CfgsKeep", mod=1)
    sub = _subst(plan, 0)
    sub[r"ExportRem = \d+"] = "ExportRem = 1"
    sub[r"INVARIANTS[^\n]*"] = "INVARIANTS HalfPagesExact"
    r = vlib.tlc("ReasmImplMC", workdir=wd, timeout=900, workers=1, cfg_subst=sub)
    return {"invariant": "HalfPagesExact", "violated_in_model": r.violated == "HalfPagesExact", "states": r.distinct,
            "meaning": "cleanSG converts a kept live packet into pages without counting them in half.pages, and addPending drops "
                       "non-contiguous saved pages without uncounting them: half.pages drifts from the pages really held"}


def escalation_run(e, binp, wd):
    """Scripted scenario: model prediction and model verdict (TLC), then the real code (replay, comparison, Judge)."""
    plan = dict(L=e["L"], dirs="{0}", ops=e["ops"], seglen=e["seglen"], grid=e["grid"], mod=1)
    sub = _subst(plan, 0, {r"Script <- \w+": "Script <- %s" % e["script"]})
    sub[r"INVARIANTS[^\n]*"] = "INVARIANTS Export"
    os.makedirs(wd, exist_ok=True)
    r = vlib.tlc("ReasmImplMC", workdir=os.path.join(wd, "tlc"), timeout=900, workers=1, cfg_subst=sub)
    beh = [l[4:] for l in r.printed if isinstance(l, str) and l.startswith("BEH ")]
    if len(beh) != 1:
        raise vlib.Infra("escalation %s: expected one scripted behaviour, got %d" % (e["name"], len(beh)))
    b = json.loads(beh[0])
    st, drift, tp = replay(binp, beh, plan, wd, "esc")
    v, bad = validate(tp, "esc-" + e["name"])
    return {"name": e["name"], "property": e["property"], "what": e["what"], "cfg": b["cfg"], "ops": b["ops"],
            "model_judge": sorted(set(x[0] for x in b["verdicts"])) or ["accepted"],
            "real_code_judge": [x[0]["reason"] for x in bad] or ["accepted"], "model_vs_code_drift": st["drift"],
            "enforced": ESCALATED_ENFORCED, "_bad": bad}


def replay(binp, beh_lines, plan, wd, tag):
    """model -> implementation.  Returns (stats, drift examples, trace path)."""
    bp = os.path.join(wd, "beh-%s.ndjson" % tag)
    with open(bp, "w") as f:
        f.write("\n".join(beh_lines) + "\n")
    tp = os.path.join(wd, "trace-%s.ndjson" % tag)
    dp = os.path.join(wd, "drift-%s.ndjson" % tag)
    p = vlib.run([binp, "-behaviours", bp, "-trace", tp, "-drift", dp, "-units", str(plan["L"]), "-M", str(MODEL["M"]),
                  "-P", str(MODEL["P"])], timeout=3000, ok_codes=(0, 3))
    st = json.loads(p.stdout.strip().splitlines()[-1])
    return st, vlib.read_ndjson(dp), tp


def validate(tp, tag):
    """implementation -> model: Reasm!Judge over what the real code did.  Returns (verdict dict, bad [(badrec, events)])."""
    v = vlib.validate_trace("ReasmTrace", tp, tag, heap="6g", timeout=3000)
    out = []
    if v["bad"]:
        ev = vlib.read_ndjson(tp)
        for b in v["bad"]:
            evs = [e for e in ev[max(0, b["line"] - 60):b["line"]] if e.get("sc") == b["sc"]]
            out.append((b, evs))
    return v, out


def self_test(binp, beh_lines, plan, wd):
    """Binding self-tests.  (a) drift comparison: predictions with one corrupted field must be reported as drift for
    exactly those behaviours.  (b) trace spec: a recorded good trace with one corrupted delivery must be rejected by
    ReasmTrace at that scenario, the pristine one accepted."""
    picks = [l for l in beh_lines if '"op":"sg"' in l][:40]
    if len(picks) < 10:
        raise vlib.Infra("self-test: not enough behaviours with deliveries")
    corrupted, want = [], set()
    for i, l in enumerate(picks):
        b = json.loads(l)
        if i % 4 == 0:          # pages after the last operation + 1
            b["pred"][-1][-1]["pages"] += 1
            want.add(i + 1)
        elif i % 4 == 1:        # the first delivery announces one more unit of skip
            e = next(e for op in b["pred"] for e in op if e["op"] == "sg")
            e["skip"] = e["skip"] + 1 if e["skip"] >= 0 else 0
            want.add(i + 1)
        corrupted.append(json.dumps(b))
    st, drift, tp = replay(binp, corrupted, plan, wd, "selftest")
    got = set(d["sc"] for d in drift)
    if got != want or st["drift"] != len(want):
        raise vlib.Infra("self-test: drift comparison reported %s, expected %s" % (sorted(got), sorted(want)))
    # (b) the recorded (uncorrupted) trace is accepted; shifting one delivered run by a unit is rejected there
    v, _ = validate(tp, "selftest0")
    if v["bad"]:
        raise vlib.Infra("self-test: pristine recorded trace rejected: %s" % v["bad"][:2])
    ev = vlib.read_ndjson(tp)
    idx = next(i for i, e in enumerate(ev) if e["op"] == "sg" and e["nrun"] and e["sc"] >= 3)
    S = 1900 // MODEL["P"]
    ev[idx]["nrun"] = [[ev[idx]["nrun"][0][0] + S, ev[idx]["nrun"][0][1] + S]]
    t2 = os.path.join(wd, "selftest-corrupt.ndjson")
    with open(t2, "w") as f:
        f.write("".join(json.dumps(e) + "\n" for e in ev))
    v2, _ = validate(t2, "selftest1")
    if [b["sc"] for b in v2["bad"]] != [ev[idx]["sc"]]:
        raise vlib.Infra("self-test: corrupted delivery not rejected exactly at scenario %d: %s" % (ev[idx]["sc"], v2["bad"]))
    return {"drift_comparison_corrupted_predictions_detected": len(want), "trace_spec_rejects_corrupted_delivery": v2["bad"][0]["reason"]}


def run_impl(ctx, verdict_for, with_self_test=True):
    """Runs the whole Impl-layer pipeline.  verdict_for(reason) -> vlib.Verdict that owns a rejection with that reason
    (delivery reasons belong to C09, lifecycle reasons to C11).  Returns the coverage dict for the evidence."""
    t0 = time.time()
    wd = vlib.scratch("x09impl-%s" % ctx.tier)
    binp = vlib.go_build("./cmd/reasm_impl")
    plans = PLANS[ctx.tier]
    cov = {"model": dict(MODEL, module="ReasmImpl.tla / ReasmImplMC.tla", transcribes="/repo/reassembly/tcpassembly.go"),
           "plans": [], "defect_finding_runs": [], "impl_drift": {"behaviours_with_drift": 0, "kinds": {}, "examples": []},
           "states": 0, "transitions": 0, "traces_validated_against_impl": 0, "trace_events_validated": 0,
           "events_compared_model_vs_code": 0, "rejected_real_scenarios": 0, "samples": []}

    with ThreadPoolExecutor(max_workers=6) as ex:
        # defect-finding configurations and the bookkeeping note run beside the main check (small state spaces)
        fd = [ex.submit(defect_run, d, os.path.join(wd, "defect-" + d["name"])) for d in DEFECTS]
        fn = ex.submit(design_note_half_pages, os.path.join(wd, "note"))
        fe = [ex.submit(escalation_run, e, binp, os.path.join(wd, "esc-" + e["name"])) for e in ESCALATIONS]
        fself = None
        for pi, plan in enumerate(plans):
            r, beh, cex = check_and_export(plan, ctx.seed, os.path.join(wd, "mc-%d" % pi))
            rec = {"plan": plan, "tlc_states": r.distinct, "tlc_generated": r.generated, "depth": r.depth, "tlc_wall_s": round(r.wall, 1),
                   "invariants": "ImplSatisfiesProp HeapSane ContentMatchesSeq UsedExact NoFlags", "violated": r.violated,
                   "behaviours_exported": len(beh)}
            cov["states"] += r.distinct
            cov["transitions"] += r.generated
            log("[impl] %s: %d states, %.1fs, violated=%s, %d behaviours exported" % (plan["name"], r.distinct, r.wall, r.violated, len(beh)))
            if not beh:
                raise vlib.Infra("ReasmImplMC exported no behaviours for plan %s" % plan["name"])
            nbeh = len(beh)
            extra = []          # (what, record) of behaviours replayed without a prediction
            if r.violated:
                # a design-level counterexample of the transcription is not a verdict about the code: it is replayed
                rec["model_counterexamples"] = cex[:3]
                extra += [("model-counterexample", c) for c in cex[:20]]
            if pi == 0:
                # the counterexamples of the pre-fix shapes are replayed on the real code: today's code must not show them
                cov["defect_finding_runs"] = [f.result() for f in fd]
                for d in cov["defect_finding_runs"]:
                    if d["violated"] != "ImplSatisfiesProp" or not d["counterexample"]:
                        raise vlib.Infra("defect-finding run %s: TLC did not refute the pre-fix shape (violated=%s)" % (d["name"], d["violated"]))
                    extra.append((d["name"], d["counterexample"]))
            t1 = time.time()
            st, drift, tp = replay(binp, beh + [json.dumps({"cfg": c["cfg"], "ops": c["ops"]}) for _, c in extra], plan, wd, "p%d" % pi)
            if st.get("hang"):
                log("[impl] driver watchdog fired")
            if pi == 0 and with_self_test:
                fself = ex.submit(self_test, binp, beh, plan, wd)
            t2 = time.time()
            v, bad = validate(tp, "p%d" % pi)
            log("[impl] %s: replay %.1fs (%d behaviours, drift %d), trace validation %.1fs (%d events, %d rejected)"
                % (plan["name"], t2 - t1, st["scenarios"], st["drift"], time.time() - t2, st["events"], v["nbad"]))
            rec.update({"replayed": st["scenarios"], "events": st["events"], "compared_events": st["compared_events"],
                        "drift": st["drift"], "deliveries": st["deliveries"], "deliveries_with_skip": st["deliveries_with_skip"],
                        "deliveries_with_saved": st["deliveries_with_saved"], "trace_states": v["states"], "rejected": v["nbad"]})
            cov["plans"].append(rec)
            cov["states"] += v["states"]
            cov["traces_validated_against_impl"] += st["scenarios"]
            cov["trace_events_validated"] += st["events"]
            cov["events_compared_model_vs_code"] += st["compared_events"]
            cov["rejected_real_scenarios"] += v["nbad"]
            cov["impl_drift"]["behaviours_with_drift"] += st["drift"]
            for k, n in st["drift_kinds"].items():
                cov["impl_drift"]["kinds"][k] = cov["impl_drift"]["kinds"].get(k, 0) + n
            cov["impl_drift"]["examples"] += drift[:max(0, 8 - len(cov["impl_drift"]["examples"]))]
            if not cov["samples"]:
                with open(tp) as f:
                    cov["samples"] = [json.loads(next(f)) for _ in range(6)]
            for b, evs in bad:
                payload = {"driver": "reasm_impl", "bad": b, "events": evs, "plan": plan, "model": MODEL}
                if b["sc"] > nbeh:
                    what, c = extra[b["sc"] - nbeh - 1]
                    payload["counterexample_of"] = what
                    for d in cov["defect_finding_runs"]:
                        if d["name"] == what:
                            d["real_code"] = "REJECTED by Reasm!Judge: %s" % b["reason"]
                V = verdict_for(b["reason"])
                if V is not None:
                    V.reject({"assembler": b["asm"], "reason": b["reason"], "op": b["op"]}, payload)
            os.remove(tp)
        for d in cov["defect_finding_runs"]:
            d.setdefault("real_code", "accepted by Reasm!Judge (the real code does not show the model's counterexample)")
        cov["design_notes"] = [fn.result()]
        cov["escalated_scenarios"] = []
        for f in fe:
            e = f.result()
            bad = e.pop("_bad")
            cov["escalated_scenarios"].append(e)
            cov["traces_validated_against_impl"] += 1
            for bb, evs in bad:
                if ESCALATED_ENFORCED:
                    V = verdict_for(bb["reason"])
                    if V is not None:
                        V.reject({"assembler": bb["asm"], "reason": bb["reason"], "op": bb["op"]},
                                 {"driver": "reasm_impl", "bad": bb, "events": evs, "escalation": e["name"], "model": MODEL})
                else:
                    log("FINDING-PROPOSED: property=%s %s: real code rejected by Reasm!Judge (%s) on scripted scenario cfg=%s ops=%s "
                        "[not enforced: see ESCALATED_ENFORCED in tools/props/reasmimpl.py]"
                        % (e["property"], e["name"], bb["reason"], json.dumps(e["cfg"]), json.dumps(e["ops"])))
        if fself is not None:
            try:
                cov["binding_self_tests"] = fself.result()
            except vlib.Infra:
                # the self-test presupposes a code base the model agrees with; with drift or rejections it is moot
                if cov["rejected_real_scenarios"] == 0 and cov["impl_drift"]["behaviours_with_drift"] == 0:
                    raise
                cov["binding_self_tests"] = "skipped (real code deviates from the model in this run)"
    cov["impl_wall_s"] = round(time.time() - t0, 1)
    if cov["impl_drift"]["behaviours_with_drift"]:
        log("IMPL-DRIFT: %d replayed behaviours differ from the prediction of ReasmImpl.tla (kinds %s) - not a verdict"
            % (cov["impl_drift"]["behaviours_with_drift"], cov["impl_drift"]["kinds"]))
        for d in cov["impl_drift"]["examples"][:2]:
            log("  e.g. cfg=%s ops=%s op#%d\n    predicted %s\n    observed  %s" % (d["cfg"], d["ops"], d["op_index"], d["predicted"], d["observed"]))
    shutil.rmtree(wd, ignore_errors=True)
    return cov


def verdict_router(v09, v11):
    """Delivery reasons are violations of C09, lifecycle-only reasons of C11."""
    def f(reason):
        if reason in ac.DELIVERY:
            return v09
        if reason in ac.LIFECYCLE:
            return v11
        return v09
    return f
