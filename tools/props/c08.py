"""C08 - Written checksums are correct; verification accepts exactly the correct ones.

Checksum.tla is the independent reference: RFC 1071 one's-complement sum word by word with end-around carry, odd-length
padding, complement; IPv4/IPv6 pseudo-headers, covered region and field location per protocol read from the serialized
bytes at fixed offsets; UDP's "computed 0 is sent as 0xffff / stored 0 over IPv4 means none"; GRE only with the C bit.
(1) Apalache proves the loop of gopacket.FoldChecksum (ChecksumFoldMC.tla) equal to the reference fold for all 2^32
accumulators.  (2) TLC checks an ideal sender/receiver against Judge on every small packet and every single-bit flip
(ChecksumMC.tla: satisfiable, not over-strict, every corruption detected, corrupted events rejected).  (3) The Go driver
harness/cmd/cksum records FoldChecksum, ComputeChecksum, serialization with ComputeChecksums (fresh structs, the same
layer objects a second time, decoded layers re-serialized, structs with a garbage Checksum field), VerifyChecksum and
Packet.VerifyChecksums on produced and single-bit-flipped packets; ChecksumTrace.tla recomputes every expected value
and judges every event."""
import json, os, re, shutil, subprocess, time, threading
import vlib
from vlib import log

PID = "C08"


def apalache(wd, inv, timeout):
    """Bounded check that is complete here: every execution of the fold machine ends within 3 steps (part of FoldInv)."""
    os.makedirs(wd, exist_ok=True)
    for f in ("ChecksumFold.tla", "ChecksumFoldMC.tla"):
        shutil.copy(os.path.join(vlib.SPECS, f), wd)
    t0 = time.time()
    env = dict(os.environ)
    env.pop("JAVA_TOOL_OPTIONS", None)
    env.setdefault("JVM_ARGS", "-Xmx2g")
    try:
        p = subprocess.run(["timeout", str(timeout), "apalache-mc", "check", "--length=4", "--inv=" + inv,
                            "--out-dir=" + os.path.join(wd, "out-" + inv), "ChecksumFoldMC.tla"],
                           cwd=wd, env=env, stdout=subprocess.PIPE, stderr=subprocess.STDOUT, text=True)
    except OSError as ex:
        return {"inv": inv, "result": "unavailable", "detail": str(ex), "wall_s": 0}
    out = p.stdout or ""
    if p.returncode == 124:
        res = "timeout"
    elif "The outcome is: NoError" in out and p.returncode == 0:
        res = "NoError"
    elif "The outcome is: Error" in out or "invariant 0 violated" in out:
        res = "Error"
    else:
        res = "failed"
    return {"inv": inv, "result": res, "wall_s": round(time.time() - t0, 1), "tail": out[-1500:] if res not in ("NoError", "Error") else ""}


def split_trace(path, wd, chunk):
    """Chunks end only where the next event starts afresh (fold, sum, ser): verify/pverify refer to the last ser."""
    parts, cur, n = [], None, 0
    with open(path) as f:
        for line in f:
            fresh = '"op":"verify"' not in line and '"op":"pverify"' not in line
            if cur is None or (n >= chunk and fresh):
                if cur:
                    cur.close()
                pp = os.path.join(wd, "part%03d.ndjson" % len(parts))
                parts.append(pp)
                cur = open(pp, "w")
                n = 0
            cur.write(line)
            n += 1
    if cur:
        cur.close()
    return parts


def validate_parts(parts, tag, par):
    res = [None] * len(parts)
    errs = []
    sem = threading.Semaphore(par)

    def work(i):
        with sem:
            try:
                res[i] = vlib.validate_trace("ChecksumTrace", parts[i], "%s%03d" % (tag, i), heap="3g", timeout=2400)
            except Exception as ex:      # noqa: collected and re-raised as Infra below
                errs.append(ex)
    ths = [threading.Thread(target=work, args=(i,)) for i in range(len(parts))]
    for t in ths:
        t.start()
    for t in ths:
        t.join()
    if errs:
        raise errs[0] if isinstance(errs[0], vlib.Infra) else vlib.Infra("trace validation failed: %r" % (errs[0],))
    return res


def pick_events(path):
    """A few recorded events of every kind (for the self-test and the evidence samples)."""
    out, have = [], {}
    with open(path) as f:
        grab = 0
        for line in f:
            e = json.loads(line)
            op = e["op"]
            if grab > 0 and op in ("verify", "pverify"):
                out.append(e)
                grab -= 1
                continue
            grab = 0
            if op == "fold" and have.get(op, 0) < 2:
                out.append(e)
            elif op == "sum" and len(e["bytes"]) > 3 and e["ihi"] < 60000 and have.get(op, 0) < 2:
                out.append(e)
            elif op == "ser" and e["proto"] == "tcp" and have.get(op, 0) < 2:
                out.append(e)
                grab = 2
            else:
                continue
            have[op] = have.get(op, 0) + 1
            if have.get("fold", 0) >= 2 and have.get("sum", 0) >= 2 and have.get("ser", 0) >= 2:
                break
    return out


def selftest(events, wd):
    """Binding: a recorded good trace with one corrupted field per event must be rejected, with the right reason."""
    fold = next(e for e in events if e["op"] == "fold")
    sm = next(e for e in events if e["op"] == "sum" and len(e["bytes"]) > 3 and e["ihi"] < 60000)
    si = next(i for i, e in enumerate(events) if e["op"] == "ser" and e["proto"] == "tcp" and i + 2 < len(events)
              and events[i + 1]["op"] == "verify" and events[i + 1]["flip"] == [] and events[i + 2]["op"] == "pverify")
    ser, ver, pver = events[si], events[si + 1], events[si + 2]
    fo = ser["off"] + 16
    bad_ser = dict(ser, bytes=ser["bytes"][:fo + 1] + [ser["bytes"][fo + 1] ^ 1] + ser["bytes"][fo + 2:])
    want = [("fold-differs", dict(fold, out=(fold["out"] + 1) % 65536)),
            ("sum-differs", dict(sm, olo=(sm["olo"] + 1) % 65536, ohi=sm["ohi"] + (1 if sm["olo"] == 65535 else 0))),
            ("ok", fold), ("ok", sm),
            ("written-differs", bad_ser),
            ("ok", ser), ("ok", ver), ("ok", pver),
            ("verify-rejects-correct", dict(ver, valid=False)),
            ("verify-correct-differs", dict(ver, correct=(ver["correct"] + 1) % 65536)),
            ("verify-actual-differs", dict(ver, actual=(ver["actual"] + 1) % 65536)),
            ("pverify-layers-differ", dict(pver, mism=[{"layer": "tcp", "correct": ver["correct"], "actual": ver["actual"]}])),
            ("harness-malformed", dict(ver, flip=[ser["off"], 0])),
            ("verify-accepts-corrupt", dict(ver, flip=[ser["off"], 0],
                                            bytes=ver["bytes"][:ser["off"]] + [ver["bytes"][ser["off"]] ^ 1] + ver["bytes"][ser["off"] + 1:]))]
    tp = os.path.join(wd, "selftest.ndjson")
    with open(tp, "w") as f:
        for _, e in want:
            f.write(json.dumps(e) + "\n")
    v = vlib.validate_trace("ChecksumTrace", tp, "self", heap="1g", timeout=600)
    exp = sorted((i + 1, r) for i, (r, _) in enumerate(want) if r != "ok")
    got = sorted((b["line"], b["reason"]) for b in v["bad"])
    if got != exp or v["nbad"] != len(exp):
        raise vlib.Infra("self-test: corrupted events were judged %s, expected %s" % (got, exp))
    return {"corrupted_events": len(exp), "rejected_with_expected_reason": len(got), "reasons": [r for _, r in exp]}


def run(ctx):
    t0 = time.time()
    quick = ctx.tier == "quick"
    V = vlib.Verdict(PID)
    wd = vlib.scratch("c08-%s" % ctx.tier)
    side = {}

    def bg_proof():
        side["proof"] = apalache(os.path.join(wd, "apa1"), "FoldInv", 240 if quick else 600)

    def bg_broken():
        side["broken"] = apalache(os.path.join(wd, "apa2"), "FoldInvBroken", 240 if quick else 600)

    def bg_model():
        try:
            bits = "{0, 7}" if quick else "{0, 1, 2, 3, 4, 5, 6, 7}"
            side["mc"] = vlib.tlc("ChecksumMC", workdir=os.path.join(wd, "mc"), timeout=600 if quick else 2400,
                                  workers=4 if quick else 8, heap="3g",
                                  cfg_subst={r"MaxPay = \d+": "MaxPay = %d" % (2 if quick else 3),
                                             r"Bits = \{[^}]*\}": "Bits = " + bits})
        except Exception as ex:
            side["mc_err"] = ex
    bgs = [threading.Thread(target=f) for f in (bg_proof, bg_broken, bg_model)]
    for t in bgs:
        t.start()

    binp = vlib.go_build("./cmd/cksum")
    tp = os.path.join(wd, "trace.ndjson")
    args = [binp, "-trace", tp, "-seed", str(ctx.seed)]
    if quick:
        args += ["-folds", "1000", "-sums", "6", "-packets", "50", "-flippackets", "200", "-flips", "10", "-allbits", "2"]
    else:
        args += ["-foldall", "-folds", "40000", "-sums", "60", "-packets", "600", "-flippackets", "2000", "-flips", "40", "-allbits", "100",
                 "-maxpay", "30", "-sweep"]
    p = vlib.run(args, timeout=1800, ok_codes=(0, 3))
    try:
        dstat = json.loads(p.stdout.strip().splitlines()[-1])
    except (ValueError, IndexError):
        raise vlib.Infra("cksum driver printed no statistics:\n%s" % p.stdout[-2000:])
    if p.returncode == 3 or dstat.get("hang"):
        V.reject({"reason": "hang", "proto": "", "ipver": 0}, {"note": "driver watchdog: a library call did not return", "stats": dstat})
    log("[C08] driver: %d events (%d fold, %d sum, %d ser + %d again / %d decoded / %d garbage-field ser, %d verify, "
        "%d pverify, %d flips) in %.1fs" % (
            dstat["events"], dstat.get("fold", 0), dstat.get("sum", 0), dstat.get("ser", 0), dstat.get("ser_again", 0),
            dstat.get("ser_decoded", 0), dstat.get("ser_garbage", 0), dstat.get("verify", 0),
            dstat.get("pverify", 0), dstat.get("flips", 0), time.time() - t0))
    parts = split_trace(tp, wd, 2500 if quick else 12000)
    head = pick_events(tp)
    st = selftest(head, wd)
    log("[C08] self-test: %d corrupted events rejected with the expected reasons" % st["corrupted_events"])
    res = validate_parts(parts, "c08", 6 if quick else 8)
    tstates = sum(v["states"] for v in res)
    nbad = sum(v["nbad"] for v in res)
    cnt = {}
    for v in res:
        for k, n in v.get("cnt", {}).items():
            cnt[k] = cnt.get(k, 0) + n
    log("[C08] TLC judged %d events in %d chunks (%.1fs of TLC time): %d rejected" % (
        sum(v["lines"] for v in res), len(parts), sum(v["wall"] for v in res), nbad))
    harness_bad = []
    for pi, v in enumerate(res):
        if not v["bad"]:
            continue
        ev = vlib.read_ndjson(parts[pi])
        for b in v["bad"]:
            e = ev[b["line"] - 1]
            if b["reason"].startswith("harness-"):
                harness_bad.append((b, e))
                continue
            ctxev = [e]
            if e["op"] in ("verify", "pverify"):
                j = b["line"] - 1
                while j >= 0 and ev[j]["op"] != "ser":
                    j -= 1
                if j >= 0:
                    ctxev = [ev[j], e]
            sig = {"reason": b["reason"], "proto": b["proto"], "ipver": b["v"]}
            if b.get("variant"):
                sig["variant"] = b["variant"]      # serialization from re-used / decoded / pre-filled layer structs
            V.reject(sig,
                     {"bad": b, "expected_by_Checksum_tla": b.get("expected"), "events": ctxev,
                      "hex": " ".join("%02x" % x for x in e.get("bytes", []))})
    if harness_bad:
        raise vlib.Infra("the driver produced events the spec calls malformed: %s" % json.dumps(harness_bad[0])[:1500])
    samples = [e for e in head if e["op"] == "fold"][:1] + [e for e in head if e["op"] == "sum"][:1] + \
              [e for e in head if e["op"] in ("ser", "verify", "pverify")][:3]

    for t in bgs:
        t.join()
    if "mc_err" in side:
        raise side["mc_err"] if isinstance(side["mc_err"], vlib.Infra) else vlib.Infra("ChecksumMC: %r" % (side["mc_err"],))
    mc = side["mc"]
    if mc.violated:
        raise vlib.Infra("ChecksumMC.tla: %s violated (Checksum.tla disagrees with the ideal sender/receiver)" % mc.violated)
    proof, broken = side["proof"], side["broken"]
    log("[C08] ChecksumMC: %d states in %.1fs; Apalache FoldInv: %s in %.1fs (self-test invariant: %s)" % (
        mc.distinct, mc.wall, proof["result"], proof["wall_s"], broken["result"]))
    if proof["result"] == "Error":
        raise vlib.Infra("Apalache found a counterexample to FoldInv: the transcription of FoldChecksum or the reference is wrong")
    if proof["result"] == "NoError" and broken["result"] == "NoError":
        raise vlib.Infra("Apalache accepts the deliberately false invariant FoldInvBroken: the proof step is vacuous")

    rc = V.finish()
    cov = {"states": mc.distinct + tstates, "transitions": dstat["events"],
           "traces_validated_against_impl": dstat.get("ser", 0) + dstat.get("fold", 0) + dstat.get("sum", 0),
           "trace_events_validated": dstat["events"], "events_by_kind": cnt, "rejected_events": nbad,
           "sub_results": {
               "fold_proof": {"tool": "apalache-mc 0.58 check --length=4 --inv=FoldInv ChecksumFoldMC.tla",
                              "claim": "FoldChecksum loop = RFC 1071 fold for all c in 0..2^32-1; loop body runs <= 2 times; OCAdd(hi16,lo16) = closed form",
                              "level": "proof" if proof["result"] == "NoError" else "not established in this run",
                              "result": proof["result"], "wall_s": proof["wall_s"], "detail": proof.get("tail", ""),
                              "false_invariant_refuted": broken["result"] == "Error"},
               "ideal_model": {"module": "ChecksumMC", "tlc_states": mc.distinct, "wall_s": round(mc.wall, 1),
                               "invariants": ["PropAcceptsIdeal", "FlipsDetected", "RejectsCorrupt"]},
               "binding_selftest": st},
           "driver": dstat, "chunks": len(parts),
           "samples": samples}
    assumptions = ["ComputeChecksum is judged modulo the one's-complement representation (NormOC of the 32-bit result) and only while the 32-bit accumulator does not overflow",
                   "the Apalache proof is about the transcription of the FoldChecksum loop; the Go function is bound to it on the sampled accumulators",
                   "bit flips leave framing fields alone (version, header/total lengths, protocol, fragmentation, TCP offset/flags/options, UDP length, ICMP type/code, GRE flags/protocol)",
                   "UDP with a stored checksum of 0 is 'no checksum' over IPv4 only (RFC 8200 section 8.1 forbids it over IPv6)"]
    vlib.write_evidence(PID, ctx.tier, ctx.seed, "model_checking", cov, time.time() - t0, len(V.violations), assumptions)
    shutil.rmtree(wd, ignore_errors=True)
    return rc
