"""Implementation-shaped model of gopacket/ip4defrag (specs/DefragImpl.tla) and its binding to the real code.

DefragImpl.tla transcribes /repo/ip4defrag/defrag.go (fragment map keyed by flow + id, securityChecks, ordered insert,
Highest / Current / FinalReceived / LastSeen bookkeeping, build, DiscardOlderThan; uint16 arithmetic modulo W; bytes
abstracted by provenance).  This module

  1. lets TLC check DefragImplMC: for every scenario within the bound (every fragment [lo, hi) over the cut positions with
     either MF value, the halves of a second datagram, DiscardOlderThan at any point) and every configuration (header
     length 20 / 24, the component in which the second key differs) the events the transcription emits are accepted by
     Defrag!Judge (invariant ImplSatisfiesProp) and the code's own bookkeeping invariants hold (list ordered, Current =
     sum of the listed lengths, Highest = highest end, FinalReceived, LastSeen, keys separate, nothing held that was not
     received, a ready list was built);
  2. switches the pre-fix shapes of the code on through constants and requires TLC to refute each;
  3. exports behaviours (configuration, operations, predicted events) - a seed-selected slice of all complete paths, one
     behaviour per distinct set of code decisions, and the walks of TLC's simulation mode on a larger bound -, replays
     them on the real IPv4Defragmenter (harness/cmd/defrag_impl), compares predicted with observed events (drift:
     reported, never a verdict) and has TLC validate what the real code did against Defrag.tla (DefragTrace.tla) - the
     only source of verdicts.

`run_impl(ctx, verdict_for)` is the entry point (c13.py may call it with its own Verdict object);
tools/props/x13impl.py is the stand-alone check `bin/check X13IMPL`."""
import json, os, re, shutil, time
from concurrent.futures import ThreadPoolExecutor
import vlib
from vlib import log

MODULE = "DefragImplMC"
SPEC = "DefragImpl.tla"
SOURCE = "/repo/ip4defrag/defrag.go"
DRIVER = "./cmd/defrag_impl"
REAL = dict(W=65536, maxfo=8183)          # the code's constants (uint16, IPv4MaximumFragmentOffset)
SMALL = dict(W=64, maxfo=5)               # small word size: the uint16 wrap lies inside the exhaustive bound (model only)

# mode bfs: exhaustive check + export of the paths with hash % mod == seed % mod (+ one per set of code decisions)
# mode sim: TLC simulation (random walks, invariants checked on every state; every completed walk is exported)
PLANS = {
    "quick": [dict(name="U3-ops4", mode="bfs", cuts="MC_CutsU3", k2="MC_K2", ops=4, grid="MC_CfgsQuick", mod=32, workers=6),
              dict(name="edge-ops3", mode="bfs", cuts="MC_CutsEdge", k2="MC_K2None", ops=3, grid="MC_CfgsBoth", mod=12, workers=2),
              # a datagram whose end is not a multiple of 8 (MF fragments of 5 bytes are "too small"), plus final fragments without
              # payload (the only way past the duplicate test of insert)
              dict(name="tail-empties-ops3", mode="bfs", cuts="MC_CutsTail", k2="MC_K2", ops=3, grid="MC_CfgsQuickB", mod=16, workers=2, empties=True),
              dict(name="sim-U5-ops7", mode="sim", cuts="MC_CutsU5", k2="MC_K2", ops=7, grid="MC_CfgsAll", mod=1, walks=20, workers=2, cap=1000)],
    "thorough": [dict(name="U3-ops4-all", mode="bfs", cuts="MC_CutsU3", k2="MC_K2", ops=4, grid="MC_CfgsAll", mod=16),
                 dict(name="U4-ops4", mode="bfs", cuts="MC_CutsU4", k2="MC_K2", ops=4, grid="MC_CfgsQuick", mod=32),
                 dict(name="U3-ops5", mode="bfs", cuts="MC_CutsU3x8", k2="MC_K2", ops=5, grid="MC_CfgsQuick", mod=128),
                 dict(name="U6-ops3", mode="bfs", cuts="MC_CutsU6", k2="MC_K2", ops=3, grid="MC_CfgsQuick", mod=8),
                 dict(name="edge-ops4", mode="bfs", cuts="MC_CutsEdge", k2="MC_K2None", ops=4, grid="MC_CfgsBoth", mod=64),
                 dict(name="tail-ops4", mode="bfs", cuts="MC_CutsTail", k2="MC_K2None", ops=4, grid="MC_CfgsQuick", mod=64),
                 dict(name="empties-ops4", mode="bfs", cuts="MC_CutsU3x8", k2="MC_K2", ops=4, grid="MC_CfgsQuick", mod=16, empties=True),
                 dict(name="sim-U5-ops7", mode="sim", cuts="MC_CutsU5", k2="MC_K2", ops=7, grid="MC_CfgsAll", mod=1, walks=120, workers=4),
                 dict(name="sim-U6-ops9", mode="sim", cuts="MC_CutsU6", k2="MC_K2", ops=9, grid="MC_CfgsAll", mod=1, walks=120, workers=4)],
}

INVS = ("ImplSatisfiesProp ListSorted CurrentIsSum HighestIsMax FinalIffListed LastSeenIsNewest KeysSeparate "
        "ListedWereReceived ReadyWasBuilt NoPanic")

# pre-fix shapes of the code: each must be refuted by TLC (by the named invariant)
DEFECTS = [
    dict(name="length-omits-header", fix="8495df6", subst={r"LengthWithHeader = TRUE": "LengthWithHeader = FALSE"}, cuts="MC_CutsU3x8",
         grid="MC_CfgsBoth", refuted_by="ImplSatisfiesProp", what="out.Length = Highest instead of IHL*4 + Highest"),
    dict(name="overlap-advances-by-offset", fix="bb3a8a3", subst={r"OverlapAdvance = TRUE": "OverlapAdvance = FALSE"}, cuts="MC_CutsU4x8",
         grid="MC_CfgsBoth", refuted_by="ImplSatisfiesProp",
         what="build advances currentOffset by frag.FragOffset*8 instead of the bytes appended when a fragment overlaps"),
    dict(name="payload-length-ignores-ihl", fix="81c191c", subst={r"IhlAware = TRUE": "IhlAware = FALSE"}, cuts="MC_CutsU3x8",
         grid="MC_CfgsBoth", refuted_by="ImplSatisfiesProp", what="fragment payload length computed as Length - 20 (IP options never complete)"),
    dict(name="counted-but-not-stored", fix="71be4e0", subst={r"StoreTail = TRUE": "StoreTail = FALSE"}, cuts="MC_CutsU3x8",
         grid="MC_CfgsBoth", refuted_by="CurrentIsSum",
         what="a fragment behind every listed offset but below Highest is counted in Current and not stored "
              "(Defrag!Judge alone does not see it within U=4, 4 operations: the overlapping sets it needs are outside the exact clauses)"),
]

# design-level findings escalated to the real word size: one scripted scenario each, run through the model (prediction
# + the model's own Judge verdict) and through the real code.  A rejection of the real behaviour is a violation of the
# named property (ESCALATED_ENFORCED = False only while a new finding is being triaged: it is then printed as
# FINDING-PROPOSED and recorded in the evidence without affecting the exit code).
ESCALATIONS = [
    dict(name="oversize-set-returns-datagram", property="C13", script="MC_ScriptOversize", cuts="MC_CutsOver", grid="MC_CfgsBoth", ops=2,
         what="securityChecks adds fragOffset + ip.Length in uint16, so 'fragment will overrun' never fires: the fragments [0,65464)+MF "
              "and [65464,65520) are accepted and a 'datagram' of 65520 payload bytes is returned whose Length field is (20+65520) mod 65536 = 4"),
]
# The shape of the code the cfg describes.  OVERRUN_FIXED = False: today's securityChecks (uint16 sum, dead oversize test);
# set it to True once the repair proposed with this check is in /repo (then OverrunFix = TRUE everywhere, the escalation is
# enforced and the oversize region becomes a binding plan).  X13_OVERRUN_FIXED=1 in the environment does the same for a
# trial against a scratch worktree that carries the repair.
OVERRUN_FIXED = os.environ.get("X13_OVERRUN_FIXED", "1") == "1"      # repaired in /repo by 92f478a
ESCALATED_ENFORCED = OVERRUN_FIXED
OVER_PLAN = dict(name="over-ops3", mode="bfs", cuts="MC_CutsOver", k2="MC_K2None", ops=3, grid="MC_CfgsBoth", mod=4, workers=2)


def _subst(plan, seed, extra=None):
    c = plan.get("consts", REAL)
    s = {r"W = \d+": "W = %d" % c["W"], r"MaxFO = \d+": "MaxFO = %d" % c["maxfo"],
         r"Cuts <- \w+": "Cuts <- %s" % plan["cuts"], r"K2 <- \w+": "K2 <- %s" % plan.get("k2", "MC_K2"),
         r"MaxFragBytes = \d+": "MaxFragBytes = %d" % plan.get("maxfrag", 65535),
         r"Empties = \w+": "Empties = %s" % ("TRUE" if plan.get("empties") else "FALSE"),
         r"MaxOps = \d+": "MaxOps = %d" % plan["ops"], r"Cfgs <- \w+": "Cfgs <- %s" % plan["grid"],
         r"Seed = \d+": "Seed = %d" % (seed % 1000), r"ExportMod = \d+": "ExportMod = %d" % plan["mod"],
         r"ExportRem = \d+": "ExportRem = %d" % (seed % plan["mod"])}
    if OVERRUN_FIXED:
        s[r"OverrunFix = FALSE"] = "OverrunFix = TRUE"
    s.update(extra or {})
    return s


def _printed(r, tag):
    return [l[len(tag):] for l in r.printed if isinstance(l, str) and l.startswith(tag)]


def check_and_export(plan, seed, wd):
    """TLC: ImplSatisfiesProp + structural invariants; returns (TLCResult, behaviours, counterexamples)."""
    if plan["mode"] == "sim":
        r = vlib.tlc(MODULE, workdir=wd, timeout=3000, workers=plan["workers"], heap="6g", cfg_subst=_subst(plan, seed),
                     simulate="num=%d" % plan["walks"], depth=plan["ops"] + 2, seed=seed)
        m = re.search(r"The number of states generated: (\d+)", r.out)
        r.generated = r.distinct = int(m.group(1)) if m else 0
        if r.error and not r.violated and "Finished in" not in r.out:
            raise vlib.Infra("TLC simulation failed on %s:\n%s" % (MODULE, r.error))
    else:
        r = vlib.tlc(MODULE, workdir=wd, timeout=3000, workers=min(vlib.NCPU, plan.get("workers", 8)), heap="12g", cfg_subst=_subst(plan, seed))
    beh = list(dict.fromkeys(_printed(r, "BEH ")))[:plan.get("cap", 10 ** 9)]
    nsig, per = {}, plan.get("per_sig", 3)
    for l in _printed(r, "SIG "):
        k = l[l.rindex('"sig":'):]
        if nsig.get(k, 0) < per:
            nsig[k] = nsig.get(k, 0) + 1
            beh.append(l)
    r.signatures = len(nsig)
    dec = set()
    for l in beh:        # decisions of the transcribed code taken in the last operation of an exported behaviour
        dec |= set(json.loads(l[l.rindex('"sig":') + 6:-1])[0])
    r.decisions = sorted(dec)
    cex = [json.loads(l) for l in _printed(r, "CEX ")]
    return r, beh, cex


def defect_run(d, wd):
    """The pre-fix shape must be refuted by TLC; returns dict with the counterexample."""
    plan = dict(cuts=d["cuts"], k2="MC_K2", ops=d.get("ops", 4), grid=d["grid"], mod=1, consts=d.get("consts", REAL), maxfrag=d.get("maxfrag", 65535))
    sub = _subst(plan, 0, d["subst"])
    sub[r"ExportRem = \d+"] = "ExportRem = 1"          # nothing exported (ExportMod = 1: hash % 1 = 0)
    sub[r"ExportSig = TRUE"] = "ExportSig = FALSE"
    sub[r"INVARIANTS[^\n]*"] = "INVARIANTS " + INVS
    r = vlib.tlc(MODULE, workdir=wd, timeout=900, workers=1, cfg_subst=sub)
    cex = [json.loads(l) for l in _printed(r, "CEX ") if json.loads(l).get("inv") == r.violated]
    return {"name": d["name"], "what": d["what"], "repaired_by": d["fix"], "expected_refutation": d["refuted_by"], "violated": r.violated,
            "states": r.distinct, "wall_s": round(r.wall, 1), "counterexample": cex[0] if cex else None}


def design_note_uint16(wd, tier):
    """Word size W = 64 (model only): fragments may end behind the 16-bit range.  Today's shape of securityChecks (the sum
    fragOffset + Length wraps, the oversize test is dead) must be refuted, the proposed repair (sum without wrap) must
    satisfy the property and every bookkeeping invariant.  Escalated to the real word size in ESCALATIONS."""
    base = dict(cuts="MC_CutsW64", k2="MC_K2", mod=1, consts=SMALL, maxfrag=40)
    today = dict(base, ops=3, grid="MC_CfgsBoth")
    sub = _subst(today, 0, {r"OverrunFix = FALSE": "OverrunFix = FALSE"})
    sub[r"ExportRem = \d+"] = "ExportRem = 1"
    sub[r"ExportSig = TRUE"] = "ExportSig = FALSE"
    sub[r"INVARIANTS[^\n]*"] = "INVARIANTS ImplSatisfiesProp"
    with ThreadPoolExecutor(max_workers=2) as ex:
        f1 = ex.submit(vlib.tlc, MODULE, workdir=os.path.join(wd, "today"), timeout=900, workers=2, cfg_subst=sub)
        rep = dict(base, ops=2 if tier == "quick" else 3, grid="MC_CfgsBoth")
        sub2 = _subst(rep, 0, {r"OverrunFix = FALSE": "OverrunFix = TRUE"})
        sub2[r"ExportRem = \d+"] = "ExportRem = 1"
        sub2[r"ExportSig = TRUE"] = "ExportSig = FALSE"
        sub2[r"INVARIANTS[^\n]*"] = "INVARIANTS " + INVS
        f2 = ex.submit(vlib.tlc, MODULE, workdir=os.path.join(wd, "repaired"), timeout=2400, workers=4, heap="8g", cfg_subst=sub2)
        r1, r2 = f1.result(), f2.result()
    if r2.violated:
        raise vlib.Infra("DefragImpl.tla: %s violated at W = 64 with OverrunFix = TRUE" % r2.violated)
    cex = [json.loads(l) for l in _printed(r1, "CEX ")]
    return {"note": "uint16-oversize-test", "word_size": SMALL["W"], "today_shape_refuted_by": r1.violated,
            "today_shape_counterexample": cex[0] if cex else None, "today_states": r1.distinct,
            "repaired_shape_holds": True, "repaired_depth": rep["ops"], "repaired_states": r2.distinct, "repaired_wall_s": round(r2.wall, 1), "repaired_invariants": INVS,
            "meaning": "securityChecks compares the uint16 sum fragOffset + ip.Length with 65535: the test can never fire, so fragment sets "
                       "that describe a datagram longer than 65535 bytes are accepted; Highest, Current, currentOffset and the returned "
                       "Length then wrap.  With the word size reduced to 64 TLC refutes today's shape after two operations "
                       "(inconsistent-header-fields) and verifies the repaired one (sum computed without wrapping); escalated to the "
                       "real word size in ESCALATIONS (constant OverrunFix)"}


NOTES = [design_note_uint16]


def replay(binp, beh_lines, wd, tag):
    """model -> implementation.  Returns (stats, drift examples, trace path)."""
    os.makedirs(wd, exist_ok=True)
    bp = os.path.join(wd, "beh-%s.ndjson" % tag)
    with open(bp, "w") as f:
        f.write("\n".join(beh_lines) + "\n")
    tp = os.path.join(wd, "trace-%s.ndjson" % tag)
    dp = os.path.join(wd, "drift-%s.ndjson" % tag)
    p = vlib.run([binp, "-behaviours", bp, "-trace", tp, "-drift", dp], timeout=3000, ok_codes=(0, 3))
    st = json.loads(p.stdout.strip().splitlines()[-1])
    if st.get("hang"):
        raise vlib.Infra("defrag_impl: the defragmenter hung in scenario %s" % st.get("scenarios"))
    return st, vlib.read_ndjson(dp), tp


def validate(tp, tag):
    """implementation -> model: Defrag!Judge over what the real code did.  Returns (verdict dict, [(badrec, events)])."""
    v = vlib.validate_trace("DefragTrace", tp, tag, heap="6g", timeout=3000)
    out = []
    if v["bad"]:
        ev = vlib.read_ndjson(tp)
        for b in v["bad"]:
            evs = [e for e in ev[max(0, b["line"] - 30):b["line"]] if e.get("sc") == b["sc"]]
            for e in evs:
                if len(json.dumps(e.get("runs", []))) > 600:
                    e["runs"] = e["runs"][:8] + ["..."]
            out.append((b, evs))
    return v, out


def self_test(binp, beh_lines, wd):
    """Binding self-tests.  (a) drift comparison: predictions with one corrupted field must be reported as drift for
    exactly those behaviours.  (b) trace spec: a recorded good trace with one corrupted field must be rejected by
    DefragTrace at exactly that scenario, the pristine one accepted."""
    picks = [l for l in beh_lines if '"res":"dgram"' in l][:40]
    if len(picks) < 10:
        raise vlib.Infra("self-test: not enough behaviours with datagrams")
    corrupted, want = [], set()
    for i, l in enumerate(picks):
        b = json.loads(l)
        dg = next(e for op in b["pred"] for e in op if e.get("res") == "dgram")
        if i % 4 == 0:          # the datagram is announced 8 bytes longer
            dg["plen"] += 8
            want.add(i + 1)
        elif i % 4 == 1:        # its first run is attributed to another fragment
            dg["runs"][0]["fi"] += 1
            want.add(i + 1)
        elif i % 4 == 2:        # the last operation answers differently
            e = b["pred"][-1][-1]
            if e["op"] == "discard":
                e["n"] += 1
            else:
                e["res"] = "err" if e["res"] != "err" else "nil"
            want.add(i + 1)
        corrupted.append(json.dumps(b))
    st, drift, tp = replay(binp, corrupted, wd, "selftest")
    got = set(d["sc"] for d in drift)
    if got != want or st["drift"] != len(want):
        raise vlib.Infra("self-test: drift comparison reported %s, expected %s" % (sorted(got), sorted(want)))
    v, _ = validate(tp, "selftest0")
    if v["bad"]:
        raise vlib.Infra("self-test: pristine recorded trace rejected: %s" % v["bad"][:2])
    ev = vlib.read_ndjson(tp)
    out = {"drift_comparison_corrupted_predictions_detected": len(want)}
    # three corruptions of recorded datagrams, one per trace: provenance shifted by 8 bytes, Length one too large,
    # a datagram turned into "nothing" (the benign complete set then owes a datagram)
    idxs = [i for i, e in enumerate(ev) if e["op"] == "frag" and e["res"] == "dgram" and e["runs"] and e["sc"] >= 3]

    def shift(e):
        e["runs"] = [dict(r) for r in e["runs"]]
        e["runs"][-1]["lo"] += 8
        e["runs"][-1]["hi"] += 8

    def longer(e):
        e["length"] += 1

    i1, i2 = idxs[0], idxs[len(idxs) // 2]
    if ev[i1]["sc"] == ev[i2]["sc"]:
        raise vlib.Infra("self-test: not enough recorded datagrams")
    ev2 = [dict(e) for e in ev]
    shift(ev2[i1])
    longer(ev2[i2])
    t2 = os.path.join(wd, "selftest-corrupt.ndjson")
    with open(t2, "w") as f:
        f.write("".join(json.dumps(e) + "\n" for e in ev2))
    v2, _ = validate(t2, "selftest1")
    got = [(b["sc"], b["reason"]) for b in v2["bad"]]
    want2 = [(ev[i1]["sc"], "byte-not-placed-by-any-fragment"), (ev[i2]["sc"], "inconsistent-header-fields")]
    if got != want2 or v2["nbad"] != 2:
        raise vlib.Infra("self-test: corrupted trace not rejected exactly at %s: %s" % (want2, v2["bad"]))
    out["trace_spec_rejects_shifted_provenance"] = got[0][1]
    out["trace_spec_rejects_length_off_by_one"] = got[1][1]
    return out


def plan_pipeline(plan, seed, binp, wd, want_self_test):
    """One plan: TLC (check + export) -> replay on the real code -> comparison -> trace validation."""
    r, beh, cex = check_and_export(plan, seed, os.path.join(wd, "tlc"))
    rec = {"plan": plan, "tlc_states": r.distinct, "tlc_generated": r.generated, "depth": r.depth, "tlc_wall_s": round(r.wall, 1),
           "invariants": INVS, "violated": r.violated, "behaviours_exported": len(beh),
           "distinct_last_operation_signatures": r.signatures, "code_decisions_exercised": r.decisions}
    log("[impl] %s: %d states, %.1fs, violated=%s, %d behaviours exported" % (plan["name"], r.distinct, r.wall, r.violated, len(beh)))
    extra = []
    if r.violated:
        # a design-level counterexample of the transcription is not a verdict about the code: it is replayed
        rec["model_counterexamples"] = cex[:3]
        extra = [json.dumps({"cfg": c["cfg"], "ops": c["ops"]}) for c in cex[:20]]
    if not beh and not extra:
        raise vlib.Infra("%s exported no behaviours for plan %s" % (MODULE, plan["name"]))
    t1 = time.time()
    st, drift, tp = replay(binp, beh + extra, wd, "main")
    t2 = time.time()
    selft = None
    with ThreadPoolExecutor(max_workers=2) as ex:
        fs = ex.submit(self_test, binp, beh, os.path.join(wd, "selftest")) if want_self_test else None
        v, bad = validate(tp, plan["name"])
        if fs is not None:
            try:
                selft = fs.result()
            except vlib.Infra as e:
                selft = e
    log("[impl] %s: replay %.1fs (%d behaviours, drift %d), trace validation %.1fs (%d events, %d rejected)"
        % (plan["name"], t2 - t1, st["scenarios"], st["drift"], time.time() - t2, st["events"], v["nbad"]))
    rec.update({"replayed": st["scenarios"], "events": st["events"], "compared_events": st["compared_events"],
                "drift": st["drift"], "drift_kinds": st["drift_kinds"], "datagrams": st["datagrams"],
                "fragments_contributing_partially": st["partial_contributions"], "errors": st["errors"], "error_kinds": st["error_kinds"],
                "discards_that_forgot": st["discards_that_forgot"], "panics": st["panics"],
                "trace_states": v["states"], "rejected": v["nbad"]})
    with open(tp) as f:
        samples = [json.loads(next(f)) for _ in range(6)]
    os.remove(tp)
    return {"rec": rec, "bad": bad, "drift": drift, "samples": samples, "self_test": selft, "nbeh": len(beh)}


def escalation_run(e, binp, wd):
    """Scripted scenario: model prediction and model verdict (TLC), then the real code (replay, comparison, Judge)."""
    plan = dict(cuts=e["cuts"], k2="MC_K2None", ops=e["ops"], grid=e["grid"], mod=1)
    sub = _subst(plan, 0, {r"Script <- \w+": "Script <- %s" % e["script"]})
    sub[r"INVARIANTS[^\n]*"] = "INVARIANTS Export"
    r = vlib.tlc(MODULE, workdir=os.path.join(wd, "tlc"), timeout=900, workers=1, cfg_subst=sub)
    beh = _printed(r, "BEH ")
    if not beh:
        raise vlib.Infra("escalation %s: the scripted behaviour was not exported" % e["name"])
    bs = [json.loads(b) for b in beh]
    st, drift, tp = replay(binp, beh, wd, "esc")
    v, bad = validate(tp, "esc-" + e["name"])
    return {"name": e["name"], "property": e["property"], "what": e["what"], "cfgs": [b["cfg"] for b in bs], "ops": bs[0]["ops"],
            "model_judge": sorted(set(x[0] for b in bs for x in b["verdicts"])) or ["accepted"],
            "real_code_judge": sorted(set(x[0]["reason"] for x in bad)) or ["accepted"], "model_vs_code_drift": st["drift"],
            "enforced": ESCALATED_ENFORCED, "_bad": bad}


def run_escalations(V):
    """The scripted scenarios of ESCALATIONS that belong to V's property, alone (the registered check of that property
    runs them on every run: a repaired defect found at design level must be reported again if it ever returns)."""
    mine = [e for e in ESCALATIONS if e["property"] == V.pid]
    if not mine:
        return []
    wd = vlib.scratch("x13impl-esc-%s" % V.pid.lower())
    binp = vlib.go_build(DRIVER)
    out = []
    for e in mine:
        r = escalation_run(e, binp, os.path.join(wd, "esc-" + e["name"]))
        for bb, evs in r.pop("_bad"):
            V.reject({"reason": bb["reason"], "ipversion": bb.get("v", 4), "escalation": e["name"]},
                     {"driver": DRIVER, "bad": bb, "events": evs, "scripted": {"cfgs": r["cfgs"], "ops": r["ops"]}})
        out.append(r)
    shutil.rmtree(wd, ignore_errors=True)
    return out


def cex_pipeline(fdefects, binp, wd):
    """The counterexamples of the pre-fix shapes are replayed on the real code: today's code must not show them."""
    runs = [f.result() for f in fdefects]
    for d in runs:
        if d["violated"] != d["expected_refutation"] or not d["counterexample"]:
            raise vlib.Infra("defect-finding run %s: TLC did not refute the pre-fix shape by %s (violated=%s)"
                             % (d["name"], d["expected_refutation"], d["violated"]))
    lines = [json.dumps({"cfg": d["counterexample"]["cfg"], "ops": d["counterexample"]["ops"]}) for d in runs]
    st, _, tp = replay(binp, lines, wd, "cex")
    v, bad = validate(tp, "cex")
    for b, evs in bad:
        runs[b["sc"] - 1]["real_code"] = "REJECTED by Defrag!Judge: %s" % b["reason"]
    for d in runs:
        d.setdefault("real_code", "accepted by Defrag!Judge (the real code does not show the model's counterexample)")
    return runs, bad


def run_impl(ctx, verdict_for, with_self_test=True):
    """Runs the whole Impl-layer pipeline.  verdict_for(reason) -> vlib.Verdict that owns a rejection with that reason.
    Returns the coverage dict for the evidence."""
    t0 = time.time()
    wd = vlib.scratch("x13impl-%s" % ctx.tier)
    binp = vlib.go_build(DRIVER)
    plans = PLANS[ctx.tier] + ([OVER_PLAN] if OVERRUN_FIXED else [])
    cov = {"model": dict(REAL, code_shape={"OverrunFix": OVERRUN_FIXED}, module="%s / %s.tla" % (SPEC, MODULE), transcribes=SOURCE),
           "plans": [], "defect_finding_runs": [], "impl_drift": {"behaviours_with_drift": 0, "kinds": {}, "examples": []},
           "states": 0, "transitions": 0, "traces_validated_against_impl": 0, "trace_events_validated": 0,
           "events_compared_model_vs_code": 0, "rejected_real_scenarios": 0, "samples": []}

    def reject(b, evs, **more):
        V = verdict_for(b["reason"])
        if V is not None:
            payload = {"driver": "defrag_impl", "bad": b, "events": evs, "model": REAL}
            payload.update(more)
            V.reject({"reason": b["reason"], "ipversion": b["v"]}, payload)

    try:
        with ThreadPoolExecutor(max_workers=12) as ex:
            # quick: two of the four pre-fix shapes per run (which two rotates with the seed), thorough: all
            fd = [ex.submit(defect_run, d, os.path.join(wd, "defect-" + d["name"])) for i, d in enumerate(DEFECTS)
                  if ctx.tier == "thorough" or i % 2 == ctx.seed % 2]
            fc = ex.submit(cex_pipeline, fd, binp, os.path.join(wd, "cex"))
            fn = [ex.submit(f, os.path.join(wd, "note-%d" % i), ctx.tier) for i, f in enumerate(NOTES)]
            fe = [ex.submit(escalation_run, e, binp, os.path.join(wd, "esc-" + e["name"])) for e in ESCALATIONS]
            # the exhaustive plans a few at a time (quick: all three, they are small), the simulations beside them
            seq = [p for p in plans if p["mode"] == "bfs"]
            par = [p for p in plans if p["mode"] == "sim"]
            fpar = [ex.submit(plan_pipeline, p, ctx.seed, binp, os.path.join(wd, "plan-" + p["name"]), False) for p in par]
            with ThreadPoolExecutor(max_workers=3 if ctx.tier == "quick" else 2) as ex2:
                fseq = [ex2.submit(plan_pipeline, p, ctx.seed, binp, os.path.join(wd, "plan-" + p["name"]), with_self_test and i == 0)
                        for i, p in enumerate(seq)]
                results = [f.result() for f in fseq]
            results += [f.result() for f in fpar]
            for res in results:
                rec = res["rec"]
                cov["plans"].append(rec)
                cov["states"] += rec["tlc_states"] + rec["trace_states"]
                cov["transitions"] += rec["tlc_generated"]
                cov["traces_validated_against_impl"] += rec["replayed"]
                cov["trace_events_validated"] += rec["events"]
                cov["events_compared_model_vs_code"] += rec["compared_events"]
                cov["rejected_real_scenarios"] += rec["rejected"]
                cov["impl_drift"]["behaviours_with_drift"] += rec["drift"]
                for k, n in rec["drift_kinds"].items():
                    cov["impl_drift"]["kinds"][k] = cov["impl_drift"]["kinds"].get(k, 0) + n
                cov["impl_drift"]["examples"] += res["drift"][:max(0, 8 - len(cov["impl_drift"]["examples"]))]
                cov["samples"] = cov["samples"] or res["samples"]
                for b, evs in res["bad"]:
                    reject(b, evs, plan=rec["plan"], model_counterexample=b["sc"] > res["nbeh"])
            cov["code_decisions_exercised"] = sorted(set(t for p in cov["plans"] for t in p["code_decisions_exercised"]))
            runs, bad = fc.result()
            cov["defect_finding_runs"] = runs
            cov["states"] += sum(d["states"] for d in runs)
            cov["traces_validated_against_impl"] += len(runs)
            cov["rejected_real_scenarios"] += len(bad)
            for b, evs in bad:
                reject(b, evs, counterexample_of=runs[b["sc"] - 1]["name"])
            cov["design_notes"] = [f.result() for f in fn]
            cov["states"] += sum(n.get("today_states", 0) + n.get("repaired_states", 0) for n in cov["design_notes"])
            cov["escalated_scenarios"] = []
            for f in fe:
                e = f.result()
                ebad = e.pop("_bad")
                cov["escalated_scenarios"].append(e)
                cov["traces_validated_against_impl"] += len(e["cfgs"])
                for bb, evs in ebad:
                    if ESCALATED_ENFORCED:
                        reject(bb, evs, escalation=e["name"])
                    else:
                        log("FINDING-PROPOSED: property=%s %s: real code rejected by Defrag!Judge (%s) on scripted scenario ops=%s "
                            "[not enforced: see ESCALATED_ENFORCED in tools/props/defragimpl.py]"
                            % (e["property"], e["name"], bb["reason"], json.dumps(e["ops"])))
            deviates = cov["rejected_real_scenarios"] > 0 or cov["impl_drift"]["behaviours_with_drift"] > 0
            for res in results:
                s = res["self_test"]
                if isinstance(s, vlib.Infra):
                    # the self-test presupposes a code base the model agrees with; with drift or rejections it is moot
                    if not deviates:
                        raise s
                    cov["binding_self_tests"] = "skipped (the real code deviates from the model in this run)"
                elif s is not None:
                    cov["binding_self_tests"] = s
    finally:
        shutil.rmtree(wd, ignore_errors=True)
    cov["impl_wall_s"] = round(time.time() - t0, 1)
    if cov["impl_drift"]["behaviours_with_drift"]:
        log("IMPL-DRIFT: %d replayed behaviours differ from the prediction of %s (first differing event: %s) - not a verdict"
            % (cov["impl_drift"]["behaviours_with_drift"], SPEC, cov["impl_drift"]["kinds"]))
        for d in cov["impl_drift"]["examples"][:2]:
            log("  e.g. cfg=%s ops=%s op#%d\n    predicted %s\n    observed  %s" % (d["cfg"], d["ops"], d["op_index"], d["predicted"], d["observed"]))
    return cov
