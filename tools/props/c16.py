"""C16 - packet source delivers each packet once, in order, intact; shuts down cleanly.

PacketSource.tla: the background goroutine of PacketsCtx as a pc-machine (loop test, gated source read, select
{send | ctx.Done}, sleep, deferred close) with a consumer and a canceller; TLC checks order/exactly-once/no loss
across transient errors, close after EOF-class errors, at most one read after cancel, and liveness (eventually
closed) for all source scripts <= 4.  Every terminal behaviour is exported as a harness-visible schedule and
replayed on the real PacketSource with a gated data source; TLC validates the observations (PacketSourceTrace.tla),
including capture metadata, truncation flag, stability of delivered packets, the pull interface, the real channel
capacity, and the zero-copy + NoCopy refusal."""
import json, os, time, shutil, random
import vlib
from vlib import log

PID = "C16"


def run(ctx):
    t0 = time.time()
    quick = ctx.tier == "quick"
    V = vlib.Verdict(PID)
    binp = vlib.go_build("./cmd/psrc")
    wd = vlib.scratch("c16-%s" % ctx.tier)
    mc = vlib.tlc("PacketSourceMC", cfg="PacketSourceMC", timeout=1800, workers=8)
    if mc.violated:
        raise vlib.Infra("PacketSource.tla violates %s in the model itself" % mc.violated)
    log("[C16] model: %d distinct states, safety + liveness hold" % mc.distinct)
    ex = vlib.tlc("PacketSourceMC", cfg="PacketSourceExport", workdir=os.path.join(wd, "exp"), timeout=1800, workers=8)
    if ex.violated:
        raise vlib.Infra("PacketSource export model violated %s" % ex.violated)
    scen = sorted(set(l[4:] for l in ex.printed if isinstance(l, str) and l.startswith("BEH ")))
    rnd = random.Random(ctx.seed)
    total = len(scen)
    if quick and len(scen) > 2500:
        scen = rnd.sample(scen, 2500)
    sp = os.path.join(wd, "scen.ndjson")
    open(sp, "w").write("\n".join(scen) + "\n")
    tp = os.path.join(wd, "trace.ndjson")
    p = vlib.run([binp, "-scenarios", sp, "-trace", tp, "-par", "16"], timeout=3000)
    st = json.loads(p.stdout.strip().splitlines()[-1])
    v = vlib.validate_trace("PacketSourceTrace", tp, "psrc", heap="8g", timeout=3000)
    ev = vlib.read_ndjson(tp) if v["bad"] else None
    for b in v["bad"]:
        evs = [e for e in ev[max(0, b["line"] - 40):b["line"]] if e.get("sc") == b["sc"]]
        V.reject({"reason": b["reason"], "op": b["op"]}, {"bad": b, "events": evs})
    samples = []
    with open(tp) as f:
        for i, line in enumerate(f):
            if i >= 8:
                break
            samples.append(json.loads(line))
    rc = V.finish()
    cov = {"states": mc.distinct + v["states"], "transitions": mc.generated, "model_states_exhaustive": mc.distinct,
           "liveness_properties_checked": ["EofCloses", "CancelCloses"],
           "traces_validated_against_impl": st["scenarios"], "trace_events_validated": st["events"],
           "behaviours_exported": total, "behaviours_replayed": len(scen),
           "evaluations": st["scenarios"], "distinct_nontrivial": len(scen),
           "rule": "terminal behaviours of PacketSource.tla (source scripts <= 4 over {pkt, timeout, temporary, EOF-class}, K=2, cancel anywhere) as harness schedules, rotated over 6 variants (copying, lazy, zero-copy source, NoCopy, concatenated source, zero-copy+NoCopy); every 7th also through NextPacket; one capacity scenario with the real 1000-slot channel",
           "samples": samples, "exhaustive": not quick}
    vlib.write_evidence(PID, ctx.tier, ctx.seed, "model_checking", cov, time.time() - t0, len(V.violations),
                        ["the select between send and ctx.Done() is the runtime's choice: both outcomes are in the model, neither is forced",
                         "waits use generous timeouts (150 ms) and only ever produce the no-op event rempty"])
    shutil.rmtree(wd, ignore_errors=True)
    return rc
