"""C06 - serialize then decode returns the same layers and payload.

1. TLC enumerates from WireGen.tla (which EXTENDS Wire.tla) every list-valued SHAPE of the core layers within the
   bound (IPv4 / TCP options, IPv6 hop-by-hop / destination TLVs with alignment requirements, NDP options of the
   five neighbour-discovery messages, GRE source routes with every combination of optional fields; 0..MaxList
   entries over small alphabets; payloads {0, 1, 33, 1500}) and every STACK of Wire.tla's stacking relation
   ({Ethernet, Dot1Q} x {IPv4, IPv6(+hop-by-hop / destination / routing / fragment)} x {TCP, UDP, ICMPv4,
   ICMPv6(+echo, +NDP), GRE(-> IPv4 / IPv6 ...)} x Payload), with the codes that link the layers.  In the model an
   ideal RFC encoder builds each of them and the layout laws must accept it (LawsAcceptIdeal) and reject a
   reordered list (LawsRejectWrong).
2. The Go driver (harness/cmd/codec -mode c06) instantiates the shapes and stacks with concrete in-range values,
   adds a few > 64 KiB cases (IPv6 jumbograms, UDP length 0) and layers obtained by decoding fixtures and
   mutations (chosen uniformly over ~76 layer types), writes everything with FixLengths + ComputeChecksums through
   gopacket.SerializeLayers, decodes the bytes again and writes the decoded layers once more: events ser / dec /
   ser2 with the header bytes each core layer really produced.  Two of three cases reuse ONE buffer for all their
   serializations (plus explicit sequences: stack with a stand-alone hop-by-hop layer, then IPv6-with-own-hop-by-hop
   stacks and jumbograms); TLC also enumerates stacks at every 16-bit length limit (largest that fits / first that
   does not: UDP and TCP over IPv4 and IPv6 with and without hop-by-hop, the UDP/IPv6 jumbo window 65527..65536).
3. TLC validates the trace against Codec.tla + Wire.tla: Dec(Ser(x)) = x (types, keys, lists in order, payload,
   no error, not truncated), Ser(Dec(Ser(x))) = Ser(x), the layout laws on the real header bytes and, in stacks,
   that every header names the layer that follows.  Verdicts come only from step 3.
Serialization errors are outside the property; they are counted and reported separately.
"""
import json, os, time, shutil, subprocess
from concurrent.futures import ThreadPoolExecutor
import vlib
from vlib import log

PID = "C06"


def gen_scenarios(maxlist, maxlist2, wd):
    r = vlib.tlc("WireGen", workdir=os.path.join(wd, "gen"), timeout=2400,
                 cfg_subst={r"MaxList = \d+": "MaxList = %d" % maxlist, r"MaxList2 = \d+": "MaxList2 = %d" % maxlist2})
    if r.violated:
        raise vlib.Infra("WireGen.tla: %s violated in the model itself (layout laws vs ideal encoders)" % r.violated)
    beh = [l[4:] for l in r.printed if isinstance(l, str) and l.startswith("BEH ")]
    if not beh:
        raise vlib.Infra("WireGen.tla exported nothing")
    return r, beh


def split_reason(reason):
    parts = reason.split(":")
    base = parts[0]
    typ = parts[1] if len(parts) > 1 else ""
    clause = parts[2] if len(parts) > 2 else ""
    return base, typ, clause


def collect(tp, v):
    need = {b["line"]: b for b in v["bad"]}
    out = []
    ser = {}
    with open(tp) as f:
        for i, line in enumerate(f, 1):
            if '"op":"ser"' in line or i in need:
                e = json.loads(line)
                if e["op"] == "ser":
                    ser = e
                if i in need:
                    out.append((need[i], e, ser))
    return out


def trim(e):
    e = json.loads(json.dumps(e))
    for x in e.get("lay", []):
        if isinstance(x.get("hdr"), list) and x["hdr"]:
            x["hdr"] = " ".join("%02x" % b for b in x["hdr"])
    return e


def self_test(tp, wd):
    """binding: a recorded slice is judged as before; with ONE key changed in a dec event / ONE length byte changed
    in a serialized IPv4 or TCP header it is rejected at exactly that line with the expected reason"""
    lines = []
    with open(tp) as f:
        for line in f:
            lines.append(line)
            if len(lines) >= 1500:
                break
    while lines and '"op":"ser"' not in lines[-1]:
        lines.pop()
    lines = lines[:-1]
    p0 = os.path.join(wd, "st0.ndjson")
    open(p0, "w").write("".join(lines))
    base = vlib.validate_trace("CodecTrace", p0, "c06st0")
    badsc = set(b["sc"] for b in base["bad"])
    badlines = set(b["line"] for b in base["bad"])
    n = 1
    # (1) key of a decoded layer
    idx = next((i for i, l in enumerate(lines) if '"op":"dec"' in l and json.loads(l)["sc"] not in badsc
                and json.loads(l)["lay"]), None)
    # (2) header length nibble of an IPv4 / data offset of a TCP header
    idx2 = None
    for i, l in enumerate(lines):
        if '"op":"ser"' in l:
            e = json.loads(l)
            if e["sc"] not in badsc and e["err"] == "" and e["lay"][0]["t"] in ("IPv4", "TCP") and e["lay"][0]["hdr"]:
                idx2 = i
                break
    if idx is None or idx2 is None:
        raise vlib.Infra("self-test: no suitable events in the slice")
    for which in ("key", "hdr"):
        l2 = list(lines)
        if which == "key":
            e = json.loads(l2[idx])
            e["lay"][0]["key"] = "0" * 16
            l2[idx] = json.dumps(e) + "\n"
            at, want = idx + 1, "fields-differ"
        else:
            e = json.loads(l2[idx2])
            if e["lay"][0]["t"] == "IPv4":
                e["lay"][0]["hdr"][0] += 1
                want = "layout:IPv4:ihl"
            else:
                e["lay"][0]["hdr"][12] += 16
                want = "layout:TCP:data-offset"
            l2[idx2] = json.dumps(e) + "\n"
            at = idx2 + 1
        p1 = os.path.join(wd, "st-%s.ndjson" % which)
        open(p1, "w").write("".join(l2))
        v = vlib.validate_trace("CodecTrace", p1, "c06st-" + which)
        new = [b for b in v["bad"] if b["line"] not in badlines]
        if v["nbad"] != base["nbad"] + 1 or len(new) != 1 or new[0]["line"] != at or not new[0]["reason"].startswith(want):
            raise vlib.Infra("self-test: corrupted %s not rejected exactly at line %d: %s" % (which, at, new))
        n += 1
    return n


def run(ctx):
    t0 = time.time()
    quick = ctx.tier == "quick"
    V = vlib.Verdict(PID)
    binp = vlib.go_build("./cmd/codec")
    wd = vlib.scratch("c06-%s" % ctx.tier)

    # 1. shapes and stacks from the model
    gr, beh = gen_scenarios(3 if quick else 4, 2 if quick else 4, wd)
    bp = os.path.join(wd, "beh.ndjson")
    open(bp, "w").write("\n".join(beh) + "\n")
    nshape = sum(1 for b in beh if '"kind":"shape"' in b)
    nstack = len(beh) - nshape
    log("[C06] WireGen.tla: %d shapes, %d stacks, laws accept the ideal encodings (%d states, %.1fs)"
        % (nshape, nstack, gr.distinct, gr.wall))

    # 2. real serializers / decoders
    kparts = 4 if quick else 8
    nfix = 4 if quick else 10
    per = 600 if quick else 12000
    procs = []
    fixextra = []
    if ctx.replay:
        ser = (json.load(open(ctx.replay)).get("replay") or {}).get("ser") or {}
        if ser.get("src") == "fix":
            if not ser.get("hex"):
                raise vlib.Infra("replay file carries no input bytes (inputs longer than 1600 bytes are not kept)")
            first = ser["name"].split(" first=")[-1].split(" layer=")[0]
            fixextra = ["-inhex", ser["hex"], "-first", first]
            open(bp, "w").write("")
            nfix, per = 1, 1
        else:
            if not ser.get("name", "").startswith("{"):
                raise vlib.Infra("replay of %r is not supported (re-run the check)" % ser.get("name"))
            open(bp, "w").write(ser["name"] + "\n")
            nfix = 0
        kparts = 1
    for k in range(kparts):
        tp = os.path.join(wd, "g-%d.ndjson" % k)
        cmd = [binp, "-mode", "c06", "-only", "gen,stack", "-part", "%d/%d" % (k, kparts), "-shapes", bp, "-stacks", bp,
               "-seed", str(ctx.seed * 1000 + k), "-trace", tp] + (["-nobig"] if ctx.replay else [])
        procs.append((k, tp, subprocess.Popen(cmd, env=vlib.goenv(), stdout=subprocess.PIPE, stderr=subprocess.PIPE, text=True)))
    for k in range(nfix):
        tp = os.path.join(wd, "f-%d.ndjson" % k)
        cmd = [binp, "-mode", "c06", "-only", "fix", "-n", str(per), "-seed", str(ctx.seed * 1000 + 100 + k), "-trace", tp] + fixextra
        procs.append((100 + k, tp, subprocess.Popen(cmd, env=vlib.goenv(), stdout=subprocess.PIPE, stderr=subprocess.PIPE, text=True)))
    stats = {}
    for k, tp, p in procs:
        out, err = p.communicate(timeout=3000)
        if p.returncode not in (0, 3):
            fatal = [l for l in err.splitlines() if l.startswith("fatal error") or l.startswith("panic:")][:1]
            raise vlib.Infra("codec driver exited %d: %s" % (p.returncode, fatal or err[-600:]))
        st = json.loads(out.strip().splitlines()[-1])
        for key, val in st.items():
            if key == "types_indexed":
                stats[key] = val
            else:
                stats[key] = stats.get(key, 0) + val
    log("[C06] %d round trips recorded (%d generated, %d stacks, %d decoded layers) in %.1fs"
        % (stats.get("cases", 0), stats.get("cases_gen", 0), stats.get("cases_stack", 0), stats.get("cases_fix", 0), time.time() - t0))

    # 3. TLC judges
    def val(job):
        k, tp, _ = job
        return tp, vlib.validate_trace("CodecTrace", tp, "c06-%d" % k, heap="5g", timeout=3000)
    with ThreadPoolExecutor(max_workers=4 if quick else 6) as ex:
        results = list(ex.map(val, procs))
    cnt = {"ser": 0, "vacuous": 0, "dec": 0, "ser2": 0, "laws": 0}
    tstates = lines = nbad = 0
    sererr, types, sigs, samples = {}, {}, set(), []
    for tp, v in results:
        tstates += v["states"]
        lines += v["lines"]
        nbad += v["nbad"]
        for key in cnt:
            cnt[key] += v["cnt"][key]
        for b, ev, ser in collect(tp, v):
            base, typ, clause = split_reason(b["reason"])
            sig = {"reason": base, "type": typ, "clause": clause, "field": ev.get("diff", ""), "src": b.get("src", ""),
                   "big": bool(ser.get("plen", 0) > 65535)}
            V.reject(sig, {"bad": b, "ser": trim(ser), "event": trim(ev),
                           "how": "name = TLC scenario (gen/stack) or '<input> first=<type> layer=<j>' (fix); written with "
                                  "FixLengths+ComputeChecksums, decoded, written again"})
        with open(tp) as f:
            for line in f:
                if '"op":"ser"' not in line:
                    continue
                e = json.loads(line)
                t0n = e["lay"][0]["t"] if e["lay"] else "?"
                if e["err"]:
                    key = "%s|%s|%s" % (e["src"], t0n if e["src"] != "stack" else "stack", e["err"][:70])
                    sererr[key] = sererr.get(key, 0) + 1
                    continue
                types[t0n] = types.get(t0n, 0) + 1
                sigs.add((e["src"], tuple(x["t"] for x in e["lay"]), tuple(len(x["list"]) for x in e["lay"]),
                          min(e["plen"], 2000)))
                if len(samples) < 1 and e["src"] == "gen" and e["lay"][0]["list"]:
                    samples.append(trim(e))
                if len(samples) == 1 and e["src"] == "stack":
                    samples.append({"op": "ser", "src": "stack", "types": [x["t"] for x in e["lay"]], "n": e["n"], "name": e["name"][:300]})
                if len(samples) == 2 and e["src"] == "fix":
                    samples.append(trim(e))
    judged = cnt["ser"] - cnt["vacuous"]
    log("[C06] TLC judged %d events: %d round trips (%d layout-law evaluations on real header bytes), %d rejected before known findings"
        % (lines, judged, cnt["laws"], nbad))
    if cnt["vacuous"]:
        log("[C06] NOTE: %d serializations returned an error (outside the property, not judged):" % cnt["vacuous"])
        for k, n in sorted(sererr.items(), key=lambda kv: -kv[1])[:12]:
            log("         %5d  %s" % (n, k))
    if not ctx.replay and (judged == 0 or cnt["laws"] == 0):
        raise vlib.Infra("nothing was judged (judged=%d laws=%d)" % (judged, cnt["laws"]))
    rc = V.finish()
    nst = self_test(procs[0][1], wd) if rc == 0 and not ctx.replay else 0   # only meaningful when the real traces were accepted
    cov = {"evaluations": judged, "distinct_nontrivial": len(sigs),
           "rule": "evaluation = one round trip Ser -> Dec -> Ser2 judged by TLC (serialization errors excluded); non-trivial = "
                   "distinct (source, layer types, list lengths, payload length) signature",
           "shapes_enumerated_by_tlc": nshape, "stacks_enumerated_by_tlc": nstack, "generator_states": gr.distinct,
           "round_trips": {"generated": stats.get("cases_gen", 0), "stacks": stats.get("cases_stack", 0), "decoded_layers": stats.get("cases_fix", 0)},
           "layout_law_evaluations": cnt["laws"], "layer_types": len(types), "round_trips_per_first_layer_type": types,
           "serialization_errors_outside_property": cnt["vacuous"], "serialization_errors": sererr,
           "skipped_no_standalone_decoder": stats.get("skipped_no_standalone_decoder", 0),
           "states": gr.distinct + tstates, "transitions": lines, "traces_validated_against_impl": len(results),
           "trace_events_validated": lines, "rejected_cases": nbad, "known_findings_seen": len(V.known),
           "binding_self_tests": nst, "samples": samples, "exhaustive": False}
    vlib.write_evidence(PID, ctx.tier, ctx.seed, "exploration", cov, time.time() - t0, len(V.violations),
                        ["shapes and stacks are exhaustive within WireGen.tla's bound, scalar field values and option data are sampled (seeded); decoded layers are sampled from fixtures and mutations",
                         "'same field values' is a Go projection (harness/cmd/codec/fields.go): exported fields in order, nil == empty, BaseLayer left out, padding entries and decoder-only bookkeeping fields left out (listed there with reasons)",
                         "layout laws cover the core stack only; for the other ~60 layer types the specification states only the round-trip law",
                         "layers whose type has no decoder of its own (SCTP chunks) are skipped; serialization errors are outside the property"])
    shutil.rmtree(wd, ignore_errors=True)
    return rc
