"""X13IMPL - the implementation-shaped model of gopacket/ip4defrag (DefragImpl.tla) and its binding to the code.

Design level: TLC checks that the transcription of ip4defrag/defrag.go satisfies Defrag.tla (ImplSatisfiesProp) and the
code's own bookkeeping invariants for every scenario and configuration within the bound, and that it refutes each
pre-fix shape of the code (Length without header, overlap arithmetic, Length - 20, counted-but-not-stored) as well as -
with the word size reduced to 64 - today's dead oversize test.
Binding: a seed-selected slice of the model's behaviours plus one behaviour per distinct set of code decisions and the
walks of TLC's simulation mode are replayed on the real IPv4Defragmenter; predicted and observed results (including the
provenance of every returned byte, Length, error class, DiscardOlderThan counts) are compared (impl_drift in the
evidence, exit code unaffected) and the real trace is validated by TLC against Defrag.tla.  Exit 1 only if the REAL
behaviour is rejected by Defrag!Judge: that is a violation of C13 and is printed as such."""
import time
import vlib
from . import defragimpl as di

PID = "X13IMPL"


def run(ctx):
    t0 = time.time()
    v13 = vlib.Verdict("C13")
    cov = di.run_impl(ctx, lambda reason: v13)
    rc = v13.finish()
    bad = [(p["plan"]["name"], p["violated"]) for p in cov["plans"] if p["violated"]]
    if bad:
        vlib.log("MODEL-COUNTEREXAMPLE: DefragImplMC violated %s - replayed on the real code, verdict as above" % bad)
    cov["exhaustive"] = True
    cov["rule"] = ("every behaviour of DefragImpl.tla (transcription of ip4defrag/defrag.go; ops = every fragment [lo, hi) over the cut "
                   "positions with either MF value, the two halves of a second datagram, DiscardOlderThan(now / now+1) at any point) within "
                   "the plan bounds for every configuration (IHL 5 / 6, key 2 differing in id / source / direction) is judged by Defrag!Judge "
                   "inside TLC; a hash-selected slice (seed), one behaviour per distinct set of code decisions and the walks of TLC's "
                   "simulation mode are replayed on the real IPv4Defragmenter with predicted-vs-observed comparison")
    vlib.write_evidence(PID, ctx.tier, ctx.seed, "model_checking", cov, time.time() - t0, len(v13.violations),
                        ["DefragImpl.tla is a hand transcription; its agreement with the code is measured (impl_drift), verdicts come only from real traces",
                         "bytes are abstracted by provenance (which fragment placed which byte); the driver decodes it from the returned payload in groups of 8 bytes",
                         "binding plans stay below 65535 bytes per datagram (the oversize region is covered by the W = 64 design note and the scripted escalation)",
                         "the list-length cap (8192) is transcribed but not reachable within the bounds; DF flag, locking and verbatim header fields are not transcribed"])
    return rc
