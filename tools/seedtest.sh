#!/bin/sh
# usage: tools/seedtest.sh <patch.diff> <check-id> [tier]
# Trial of a seeded change: applies it to a scratch worktree of /repo's HEAD (outside /repo and /verif), runs the
# check against that worktree (VERIF_REPO), removes the worktree.  /repo itself is not touched, so several trials
# and normal work can run side by side.  (The registered checks always run against /repo.)
P="$1"; ID="$2"; TIER="${3:-quick}"
WT="/tmp/seedwt-$$"
git -C /repo worktree add -q --detach "$WT" HEAD || exit 2
if ! git -C "$WT" apply "$P"; then echo "seedtest $P: patch does not apply"; git -C /repo worktree remove --force "$WT"; exit 2; fi
cd /verif && VERIF_REPO="$WT" timeout 3000 bin/check "$ID" --tier "$TIER" > "out/seed-$ID-$$.log" 2>&1; rc=$?
git -C /repo worktree remove --force "$WT"
echo "seedtest $P on $ID: exit=$rc"; grep -E "^VIOLATION|signature|INFRA|KNOWN" "out/seed-$ID-$$.log" | head -6

find /verif/out/bin -name "*-alt*" -mmin +90 -delete 2>/dev/null
exit 0
