#!/bin/sh
# usage: tools/seedtest.sh <patch.diff> <check-id> [tier]  -- applies a seeded change to /repo, runs the check, reverts.
P="$1"; ID="$2"; TIER="${3:-quick}"
cd /repo || exit 2
if [ -n "$(git status --porcelain)" ]; then echo "repo dirty"; exit 2; fi
git apply "$P" || { echo "patch does not apply"; exit 2; }
cd /verif && timeout 3000 bin/check "$ID" --tier "$TIER" > "out/seed-$ID-$$.log" 2>&1; rc=$?
git -C /repo checkout -- . 
echo "seedtest $P on $ID: exit=$rc"; grep -E "^VIOLATION|signature|INFRA|KNOWN" "out/seed-$ID-$$.log" | head -6
exit 0
