#!/usr/bin/env python3
"""Regenerates /verif/MANIFEST.json from the table below (single source of truth for the interface)."""
import json, os, subprocess
V = os.path.dirname(os.path.dirname(os.path.abspath(__file__)))

BASE_OFF = ("cd /repo && GOFLAGS=-mod=mod GOPROXY=off go test -json -vet=off -count=1 -timeout 25m ./... ")

CHECKS = {
 "C01": dict(
   category="exploration",
   text="Packet.tla: TLC checks the error-layer laws for every decoder script (exhaustive to the bound) and every exported script is replayed through the real NewPacket with scripted real Decoders (error / error-after-AddLayer / panic / NextDecoder(nil) ...); real decoders: fixtures x structural mutations x every registered first layer x 16 option sets, NewPacket and every read-only accessor under recover+watchdog; TLC validates the event stream (no Panic/Hang/Crash transition, error-layer laws).",
   design_ref="4/C01", technique="TLA+ packet-builder model (TLC exhaustive) + scripted-decoder replay + TLC trace validation of sampled real decodes",
   note="The byte-input space is sampled (seeded), not enumerated; the TLA+ side decides the builder state machine and the outcome alphabet only."),
 "C03": dict(
   category="model_checking",
   text="Packet.tla: TLC proves LazyResult(a)=EagerResult(a) for every reachable lazy state of every script <= bound and exports (script, accessor program) behaviours; each is replayed on a real lazy and a real eager packet built from the same bytes and TLC validates the recorded answers; the same lazy-vs-eager comparison runs on real layer decoders over fixtures and mutations with random accessor programs.",
   design_ref="4/C03", technique="TLA+ refinement-style invariant (TLC exhaustive) + behaviour replay + TLC trace validation",
   note="Verdict = real lazy packet differs from real eager packet; scripted decoders follow the PacketBuilder contract; real inputs sampled."),
 "C09": dict(
   category="model_checking",
   text="Reasm.tla is the property in functional form (Judge); ReasmGen.tla enumerates all scenarios in the bound (all segment intervals, SYN/FIN, FlushAll, age flushes) and checks an ideal assembler against Judge; every scenario is replayed on the real reassembly.Assembler under seeded configurations (page limits, KeepFrom policies, forced start, ISNs around the 32-bit wrap, multi-page segments) and TLC validates every delivery in stream offsets.",
   design_ref="4/C09", technique="TLA+ property spec + TLC scenario enumeration + replay + TLC trace validation; thorough: implementation-shaped TLA+ transcription (ReasmImpl.tla) model-checked against the property spec, behaviours replayed on the real code with drift comparison",
   note="Positions are inferred from delivered content; conflicting retransmissions out of scope; small-scope exhaustive plus random."),
 "C10": dict(
   category="model_checking",
   text="Same specification and scenario space as C09, replayed on the real tcpassembly.Assembler (one event per Reassembly); TLC validates order, exactly-once, skip values and their cause.",
   design_ref="4/C10", technique="TLA+ property spec + TLC scenario enumeration + replay + TLC trace validation; thorough: implementation-shaped TLA+ transcription (TcpasmImpl.tla) model-checked against the property spec, behaviours replayed on the real code with drift comparison",
   note="As C09."),
 "C11": dict(
   category="model_checking",
   text="Lifecycle clauses of Reasm.tla (New/Complete exactly once, no data after completion, no pages / removable connections after FlushAll, page-limit bound, age-flush clauses) validated by TLC on traces of both real assemblers over the TLC-generated and random multi-connection scenarios, with read-only hook scalars logged after every API call.",
   design_ref="4/C11", technique="TLA+ property spec + TLC scenario enumeration + replay + TLC trace validation (hooks: read-only accessors); scripted scenarios escalated from the implementation-shaped models (every run) and their behaviours replayed (thorough)",
   note="Hook accessors (build tag verif) are trusted to report pageCache.used / pool size / queued pages faithfully."),
 "C13": dict(
   category="model_checking",
   text="Defrag.tla states the property functionally (benign fragment sets: nothing, then exactly the datagram, once; any other set: nothing, an error, or a datagram whose every byte some fragment placed at that offset); DefragGen.tla enumerates every arrival sequence in the bound (all intervals x MF, duplicates, overlaps, a second key, discards) and checks an ideal defragmenter; every sequence is replayed on the real ip4defrag (IHL 5/6) and TLC validates each result with byte provenance; random benign datagrams up to 65515 bytes, boundary offsets, hostile sets and IPv6 permutations extend it.",
   design_ref="4/C13", technique="TLA+ property spec + TLC scenario enumeration + replay + TLC trace validation; scripted scenarios escalated from the implementation-shaped transcription DefragImpl.tla (every run) and its behaviours replayed with drift comparison (thorough)",
   note="Byte provenance is decoded from fragment content; IPv6 is checked for benign permutations only."),
 "C16": dict(
   category="model_checking",
   text="PacketSource.tla models the background goroutine of PacketsCtx as a pc-machine (loop test, source read, select {send|ctx.Done}, sleep, deferred close) with consumer and canceller; TLC checks order / exactly-once / no loss across transient errors / close after EOF-class errors / at most one read after cancel and two liveness properties for all source scripts <= 4; every terminal behaviour is replayed as a harness schedule on the real PacketSource with a gated data source (8 option variants incl. zero-copy, Pool, NoCopy, concatenated sources, packets beyond the pool block size, the real 1000-slot channel) and TLC validates the observations.",
   design_ref="4/C16", technique="TLA+ concurrent model (TLC safety+liveness) + schedule replay + TLC trace validation",
   note="The select between send and ctx.Done() cannot be forced; both outcomes are accepted. Timeouts only produce no-op events."),
 "C20": dict(
   category="model_checking",
   text="ReaderStream.tla models the assembler and consumer goroutines and their two rendezvous channels; TLC checks prefix-delivery, EOF placement, no send-on-closed panic and deadlock freedom for all delivery histories in the bound x read sizes x Close at every consumer step, and demonstrates that the un-repaired Close() shape deadlocks; every terminal behaviour is replayed with two real goroutines on the real ReaderStream (also behind a real Assembler) and TLC validates every Read result, loss reports and termination.",
   design_ref="4/C20", technique="TLA+ concurrent model (TLC, deadlock check) + behaviour replay + TLC trace validation",
   note="Real deadlock = both goroutines still blocked 2 s after the schedule ended."),
 "C19": dict(
   category="exploration",
   text="The corpus of C01 (fixtures x structural and layer-aware mutations x every registered first layer) is pushed through the three non-recovering paths (DecodeFromBytes on 97 DecodingLayer types, NewPacket with SkipDecodeRecovery, DecodingLayerParser with IgnorePanic); TLC validates every recorded outcome against the outcome alphabet of the specification (a decode step ends in ok or error; Panic/Hang/Crash have no transition). Decoder source files that already panic on the pinned tree are listed as known findings (file granularity); a panic in any other file, a hang or a fatal crash is a violation.",
   design_ref="4/C19", technique="TLC trace validation of sampled real decodes against the specification's outcome alphabet",
   note="Memory safety of ~110 pure functions is outside what a state-machine specification decides; inputs are sampled; 22 source files are masked by known findings."),
 "C08": dict(
   category="model_checking",
   text="Checksum.tla is the independent reference written in TLA+ (RFC 1071 sum/fold/complement, IPv4/IPv6 pseudo-headers read from the serialized header bytes, per-protocol coverage and field location, UDP 0->0xffff and 'no checksum' rules, GRE C bit). Apalache proves the transcribed FoldChecksum loop equal to the reference fold for all 2^32 accumulators; TLC checks an ideal sender/receiver with every single-bit flip; TLC validates traces of the real code: Fold and Sum events, every checksum written by SerializeTo for IPv4 header, TCP, UDP, ICMPv4, ICMPv6, GRE over v4/v6 (steered to 0x0000/0xffff and random outcomes; thorough: all 65536 outcomes), and VerifyChecksum / VerifyChecksums on unmodified and single-bit-flipped packets.",
   design_ref="4/C08", technique="TLA+ reference computation + Apalache proof of the fold + TLC trace validation of real serialization/verification",
   note="The Apalache proof concerns the transcription of the loop; the Go function is bound to it on sampled accumulators. Bit flips leave framing fields alone."),
 "C12": dict(
   category="model_checking",
   text="PoolConc.tla models the assembler goroutines of both packages as pc-machines whose atomic steps are the code segments between lock acquisitions (the verifYield hooks), with a concurrent FlushAll. TLC checks the re-validating design exhaustively (no panic, no misdelivery, completion at most once, single entry per connection, deadlock freedom) and, for the code's actual shape, exports one schedule per distinct terminal state of each workload; every schedule is replayed on the real assemblers by a cooperative scheduler through the hooks and TLC validates the recorded callbacks against Reasm.tla (order per direction, lifecycle, no panic, no packet handed to another connection's stream, no overlapping callbacks, no stall); a free-running -race phase turns race reports into rejected events.",
   design_ref="4/C12", technique="TLA+ concurrent model (TLC) + schedule replay with yield hooks + TLC trace validation + race-detector phase",
   note="Exhaustive only at yield granularity; races found only by the uncontrolled phase; the recycled-connection window is a recorded known finding for both packages."),
 "C02": dict(
   category="exploration",
   text="Pure.tla is a determinism monitor in Judge form (a decode keyed by input, first layer and options must reproduce the digest first seen; the caller's buffer incl. spare-capacity canaries must stay intact; reads of a shared eager packet must equal the sequential result; race/panic/hang have no transition). TLC enumerates histories A,B,(C),A over input pools x 12 option sets and all pairs of accessor programs over 9 accessor groups and checks an ideal pure decoder; the driver replays them on the real decoders sequentially, on 8 goroutines, and on one shared eager packet in a -race child process whose race reports become events; TLC validates the traces.",
   design_ref="4/C02", technique="TLA+ determinism monitor + TLC-enumerated histories/programs + replay (incl. -race child) + TLC trace validation",
   note="Inputs and schedules are sampled; races are those the detector reports for schedules that occurred."),
 "C04": dict(
   category="model_checking",
   text="Pool.tla models the packet pool protocol (Get returns any free block or a fresh one, CopyIn, Dispose) for 3 threads x 2 packets and TLC checks NoAlias / FreeDisjoint / ContentOK over all interleavings; exported per-thread orders are replayed on real goroutines (also in a -race build) logging block identity and content canaries, validated by TLC (PoolTrace); ownership clauses (copy isolates from later mutation; NoCopy/Pool decode identically to default, lengths around the 1500-byte block) are judged by Pure.tla with the ownership option projected out of the key.",
   design_ref="4/C04", technique="TLA+ pool protocol (TLC exhaustive) + order replay + TLC trace validation; Pure.tla for the ownership clauses",
   note="No yield point inside NewPacket: real schedules are sampled; double Dispose is out of scope."),
 "C06": dict(
   category="exploration",
   text="Wire.tla states layout laws for the core stack (IPv4/TCP options and padding, UDP length incl. jumbo, IPv6 payload length and TLV padding/alignment, NDP option units and wire order, GRE flags vs fields) and the stacking relation; WireGen.tla lets TLC enumerate all list shapes and stacks and checks the laws against ideal encoders; every shape/stack is written by the real serializers, decoded and written again, as are layers decoded from fixtures/mutations over ~76 types; TLC validates every round trip against Codec.tla (types, field digests, list order, payload, no error, not truncated, bytes'=bytes) and the layout laws on the real header bytes.",
   design_ref="4/C06", technique="TLC scenario enumeration + ideal-encoder law check + TLC trace validation of real round trips",
   note="Field equality is a Go projection with documented exclusions; serialization errors are outside the property; layout laws cover the core stack only; 16 serializer limitations are recorded known findings."),
 "C07": dict(
   category="exploration",
   text="SerHistory.tla (extends SerializeBuffer.tla) enumerates all buffer histories in the bound (fresh, pre-sized, filled with 0xAA/0xFF and cleared, reused by other stacks) and predicts their stale bytes (confirmed on the real buffer); layers decoded from fixtures/mutations (76 types) x 4 option sets are serialized into a fresh and into dirty histories, twice each, from a fresh decode per call; TLC validates against SerPure.tla (function law by memo: same layer, payload, options => same bytes; no panic/hang).",
   design_ref="4/C07", technique="TLC history enumeration + replay + TLC trace validation",
   note="Histories exhaustive within the bound, layers sampled; digests used for equality only; Dot11 masked by two known findings."),
 "C17": dict(
   category="model_checking",
   text="Flow.tla defines endpoints/flows as values with Eq, Less (strict total order), Reverse, Split/Join and the hash relation; FlowGen.tla checks the laws exhaustively over a small universe (types, byte alphabet {0,1,255}, lengths 0..2 and 15-17) with an ideal implementation and exports all pairs; the driver builds exactly those values through every constructor route from dirty arrays and records ==, map-key behaviour, LessThan, Reverse, Endpoints round trip and FastHash relations; for decoded real packets every layer exposing a flow must carry exactly its address fields and the address-swapped packet must give the reversed flow with equal hash; TLC validates every observation.",
   design_ref="4/C17", technique="TLA+ value algebra (TLC exhaustive small scope) + replay of all pairs + TLC trace validation",
   note="The hash is judged relationally (FNV is not computed in TLC); layer address fields are read by reflection over conventional field names."),
 "C14": dict(
   category="model_checking",
   text="PcapFile.tla gives the framing of classic pcap and pcapng as functions (header, record, block and option lengths with padding and end-of-options) and the truncation law ReadPrefix(file, cut); PcapFileGen.tla enumerates record sequences (<= 3 packets, capture lengths incl. 0 and non-multiples of 4, micro/nano writer, boundary timestamps, 1-2 interfaces, option strings of length 0..5, per-packet options) and checks an ideal block-by-block reader against the law at every offset; every scenario is written by the real writers, its size and every block boundary compared with the model, read back with copying and zero-copy calls and through libpcap, and re-read from EVERY byte prefix; TLC validates each observation (exactly the packets wholly inside the prefix, unaltered, then EOF or unexpected EOF).",
   design_ref="4/C14", technique="TLA+ framing functions and truncation law + TLC scenario enumeration + replay with exhaustive truncation + TLC trace validation; thorough: implementation-shaped TLA+ transcription of the pcapng reader (NgReaderImpl.tla) model-checked against the property specs and replayed on the real NgReader with drift comparison",
   note="A crash is modelled as a prefix of the flushed byte stream; the pcapng writer's resolution is fixed at ns; if_tsoffset handling of NgWriter is a recorded known finding."),
 "C15": dict(
   category="exploration",
   text="The layout map of PcapFile.tla makes every field of every block header, option and record enumerable; NgReaderGen.tla lets TLC enumerate (base file, field locator, value class) corruptions for pcap, pcapng and snoop and stream chunkings, with an ideal reader; each corruption is applied to a really written file (also gzip-wrapped) and read to the end in child processes under an address-space cap through whole / 1-byte / TLC-chosen chunkings and with injected I/O errors; NgReader.tla accepts iff no panic/hang/abort, datalen = caplen <= len, per-call allocation within c0 + c1*(bytes present + snaplen), identical results for all chunkings, and injected errors surfacing as errors; seeded random corruptions on the same map complete the space.",
   design_ref="4/C15", technique="TLC-enumerated corruptions over a TLA+ layout map + replay in capped child processes + TLC trace validation of the reader envelope; thorough: implementation-shaped TLA+ transcription of the pcapng reader (NgReaderImpl.tla) model-checked against the property specs and replayed on the real NgReader with drift comparison",
   note="Allocation bound constants c0 = 1 MiB, c1 = 8; gzip streams are checked for the envelope only."),
 "C05": dict(
   category="model_checking",
   text="Parser.tla transcribes the LayersDecoder/DecodeLayers loop over decoder scripts and a container set; TLC proves ParserResult(script,S) conforms to LeadingRun(EagerResult(script),S) for every script <= bound and every S and exports the pairs; each is replayed with scripted DecodingLayers through Map/Sparse/Array/custom containers (IgnoreUnsupported, warm parser, non-empty slice) and through NewPacket, and TLC validates parser-vs-packet; the same LeadingRun judges real layers (fixtures, mutations, option/hop-by-hop splices; subsets x 4 containers; per-layer digests, error text, Truncated); TLC-enumerated pairs/triples over seeded pools compare reused vs fresh layer objects through a memo (ParserSeq.tla).",
   design_ref="4/C05", technique="TLA+ impl/prop spec (TLC exhaustive) + behaviour replay + TLC trace validation + memo determinism",
   note="Verdict = real parser differs from the leading run of the real packet, or reused != fresh; field equality is a reflection digest over exported fields; real inputs are sampled; the IPv6 jumbogram payload convention is a recorded known finding."),
 "C18": dict(
   category="model_checking",
   text="SerializeBuffer.tla: TLC proves exhaustively (all op sequences to the bound) that the transcription of writer.go refines the abstract buffer; every exported behaviour is replayed on the real buffer and every real step is validated by TLC against the abstract layer (contents, returned-slice length, window position, layers).",
   design_ref="4/C18", technique="TLA+ refinement check (TLC) + exhaustive behaviour replay + TLC trace validation",
   note="Trusts TLC, the ndjson projection (Bytes()/Layers()/len of returned slice, markers written through returned slices) and that byte ids modulo 251 do not mask a misplacement."),
}

NOT_YET = {}

def main():
    props = [json.loads(l) for l in open(os.path.join(V, "properties.jsonl"))]
    na_path = os.path.join(V, "tools", "not_applicable.json")
    na = json.load(open(na_path)) if os.path.exists(na_path) else {}
    checks = []
    for p in props:
        pid = p["id"]
        if pid not in CHECKS:
            continue
        c = CHECKS[pid]
        checks.append({
            "property_id": pid,
            "quick_cmd": "bin/check %s --tier quick" % pid,
            "thorough_cmd": "bin/check %s --tier thorough" % pid,
            "evidence_file": "evidence/%s.json" % pid,
            "replay_cmd_template": "bin/check %s --replay {path}" % pid,
            "engine": "tlc-conformance",
            "level_claimed": {"category": c["category"], "text": c["text"], "design_ref": c["design_ref"]},
            "level_note": c["note"],
            "technique": c["technique"],
        })
    hooks_commits = []
    hp = os.path.join(V, "tools", "hook_commits.txt")
    if os.path.exists(hp):
        hooks_commits = [l.strip() for l in open(hp) if l.strip()]
    man = {
        "version": 1,
        "setup_cmd": "bin/setup",
        "hooks": {"guard": "verif (Go build tag)", "enable": "go build -tags verif (harness module /verif/harness, replace github.com/gopacket/gopacket => /repo)",
                  "baseline_off_cmd": BASE_OFF, "source_commits": hooks_commits, "add_only": True},
        "engines": [{"name": "tlc-conformance", "path": "tools/check.py", "serves_properties": sorted(CHECKS),
                     "kind_free_text": "explicit TLA+ specifications (specs/*.tla) checked by TLC; TLC-exported behaviours replayed on the real code; ndjson traces of the real code validated by TLC trace specifications"}],
        "checks": checks,
        "notes": "All verdicts come from real-code behaviour rejected by a Prop-level TLA+ module; see DESIGN.md.",
        "not_applicable": [{"property_id": p["id"], "reason": na.get(p["id"], "check not yet built in this round (planned, see DESIGN.md section 4); not claimed until it is green on the unchanged tree")}
                           for p in props if p["id"] not in CHECKS],
    }
    with open(os.path.join(V, "MANIFEST.json"), "w") as f:
        json.dump(man, f, indent=1)
        f.write("\n")
    print("MANIFEST.json: %d checks, %d not claimed" % (len(checks), len(man["not_applicable"])))

if __name__ == "__main__":
    main()
