#!/usr/bin/env python3
"""Regenerates /verif/MANIFEST.json from the table below (single source of truth for the interface)."""
import json, os, subprocess
V = os.path.dirname(os.path.dirname(os.path.abspath(__file__)))

BASE_OFF = ("cd /repo && GOFLAGS=-mod=mod GOPROXY=off go test -json -vet=off -count=1 -timeout 25m ./... ")

CHECKS = {
 "C18": dict(
   category="model_checking",
   text="SerializeBuffer.tla: TLC proves exhaustively (all op sequences to the bound) that the transcription of writer.go refines the abstract buffer; every exported behaviour is replayed on the real buffer and every real step is validated by TLC against the abstract layer (contents, returned-slice length, window position, layers).",
   design_ref="4/C18", technique="TLA+ refinement check (TLC) + exhaustive behaviour replay + TLC trace validation",
   note="Trusts TLC, the ndjson projection (Bytes()/Layers()/len of returned slice, markers written through returned slices) and that byte ids modulo 251 do not mask a misplacement."),
}

NOT_YET = {}

def main():
    props = [json.loads(l) for l in open(os.path.join(V, "properties.jsonl"))]
    na_path = os.path.join(V, "tools", "not_applicable.json")
    na = json.load(open(na_path)) if os.path.exists(na_path) else {}
    checks = []
    for p in props:
        pid = p["id"]
        if pid not in CHECKS:
            continue
        c = CHECKS[pid]
        checks.append({
            "property_id": pid,
            "quick_cmd": "bin/check %s --tier quick" % pid,
            "thorough_cmd": "bin/check %s --tier thorough" % pid,
            "evidence_file": "evidence/%s.json" % pid,
            "replay_cmd_template": "bin/check %s --replay {path}" % pid,
            "engine": "tlc-conformance",
            "level_claimed": {"category": c["category"], "text": c["text"], "design_ref": c["design_ref"]},
            "level_note": c["note"],
            "technique": c["technique"],
        })
    hooks_commits = []
    hp = os.path.join(V, "tools", "hook_commits.txt")
    if os.path.exists(hp):
        hooks_commits = [l.strip() for l in open(hp) if l.strip()]
    man = {
        "version": 1,
        "setup_cmd": "bin/setup",
        "hooks": {"guard": "verif (Go build tag)", "enable": "go build -tags verif (harness module /verif/harness, replace github.com/gopacket/gopacket => /repo)",
                  "baseline_off_cmd": BASE_OFF, "source_commits": hooks_commits, "add_only": True},
        "engines": [{"name": "tlc-conformance", "path": "tools/check.py", "serves_properties": sorted(CHECKS),
                     "kind_free_text": "explicit TLA+ specifications (specs/*.tla) checked by TLC; TLC-exported behaviours replayed on the real code; ndjson traces of the real code validated by TLC trace specifications"}],
        "checks": checks,
        "notes": "All verdicts come from real-code behaviour rejected by a Prop-level TLA+ module; see DESIGN.md.",
        "not_applicable": [{"property_id": p["id"], "reason": na.get(p["id"], "check not yet built in this round (planned, see DESIGN.md section 4); not claimed until it is green on the unchanged tree")}
                           for p in props if p["id"] not in CHECKS],
    }
    with open(os.path.join(V, "MANIFEST.json"), "w") as f:
        json.dump(man, f, indent=1)
        f.write("\n")
    print("MANIFEST.json: %d checks, %d not claimed" % (len(checks), len(man["not_applicable"])))

if __name__ == "__main__":
    main()
