#!/usr/bin/env python3
import sys, json
f, sc = sys.argv[1], int(sys.argv[2])
for i, l in enumerate(open(f), 1):
    e = json.loads(l)
    if e.get("sc") == sc:
        print(i, json.dumps(e)[:400])
    elif e.get("sc", 0) > sc:
        break
