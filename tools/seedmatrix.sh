#!/bin/sh
# usage: tools/seedmatrix.sh [name ...]   -- trial of every stored seeded change against the check of its own property
cd /verif
names="$@"; [ -z "$names" ] && names=$(ls seeded)
for n in $names; do
  id=$(python3 -c "import json;print(json.load(open('seeded/$n/meta.json'))['property'])")
  tools/seedtest.sh /verif/seeded/$n/patch.diff $id | grep -v "^KNOWN" | head -3 | cut -c1-220
done
echo SEEDMATRIX-DONE
