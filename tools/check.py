#!/usr/bin/env python3
"""check.py <property-id> [--tier quick|thorough] [--replay path] [--seed N]

Dispatches to tools/props/<id>.py:run(ctx).  See vlib.py for exit-code conventions."""
import argparse, importlib, os, sys, time, traceback
sys.path.insert(0, os.path.dirname(os.path.abspath(__file__)))
import vlib


class Ctx:
    pass


def main():
    ap = argparse.ArgumentParser()
    ap.add_argument("pid")
    ap.add_argument("--tier", default=os.environ.get("VERIF_TIER", "quick"))
    ap.add_argument("--replay", default=None)
    ap.add_argument("--seed", type=int, default=None)
    a = ap.parse_args()
    ctx = Ctx()
    ctx.pid = a.pid.upper()
    ctx.tier = a.tier if a.tier in ("quick", "thorough") else "quick"
    seed = a.seed if a.seed is not None else os.environ.get("VERIF_SEED", "1")
    try:
        ctx.seed = int(seed)
    except ValueError:
        ctx.seed = 1
    ctx.replay = a.replay
    ctx.t0 = time.time()
    try:
        mod = importlib.import_module("props." + ctx.pid.lower())
    except ImportError as ex:
        print("no check for %s: %s" % (ctx.pid, ex))
        return 2
    try:
        rc = mod.run(ctx)
    except vlib.Infra as ex:
        print("INFRA-ERROR property=%s: %s" % (ctx.pid, ex))
        return 2
    except Exception:
        traceback.print_exc()
        print("INFRA-ERROR property=%s: unexpected exception in check driver" % ctx.pid)
        return 2
    print("[%s] tier=%s seed=%d exit=%d wall=%.1fs" % (ctx.pid, ctx.tier, ctx.seed, rc, time.time() - ctx.t0))
    return rc


if __name__ == "__main__":
    sys.exit(main())
