-------------------------------- MODULE Wire --------------------------------
(***************************************************************************)
(* Layout laws of the core protocol stack (C06), evaluated by TLC on the   *)
(* header bytes a real serializer produced, and the stacking relation      *)
(* from which TLC enumerates the stacks that are written with              *)
(* gopacket.SerializeLayers.                                               *)
(*                                                                         *)
(* A header is a sequence of bytes h (0-based access B(h, i)).  Every law  *)
(* is a total operator returning "ok" or the name of the violated clause.  *)
(* The list-valued field of a layer (IPv4 / TCP options, IPv6 TLVs, NDP    *)
(* options, GRE source route entries) arrives as `list`, a projection of   *)
(* the layer object in FIELD ORDER; the laws parse the wire bytes in TLA+  *)
(* and demand the same entries in the same order.                          *)
(*                                                                         *)
(* Enc* are ideal encoders (RFC 791, 793, 768, 8200, 4861, 1701/2784/2890) *)
(* used by WireGen.tla to show that the laws are satisfiable and not       *)
(* over-strict: Law(Enc(x)) = "ok" for every enumerated shape x.           *)
(***************************************************************************)
EXTENDS Integers, Sequences, FiniteSets, TLC

B(h, i) == h[i + 1]
U16(h, i) == B(h, i) * 256 + B(h, i + 1)
Zeros(n) == [i \in 1..n |-> 0]
Fill(n, v) == [i \in 1..n |-> v]
AllZero(h, from) == \A i \in (from + 1)..Len(h) : h[i] = 0        \* bytes at 0-based offsets >= from
Hi(x) == (x \div 256) % 256
Lo(x) == x % 256
RECURSIVE SumSeq(_, _)
SumSeq(s, i) == IF i > Len(s) THEN 0 ELSE s[i] + SumSeq(s, i + 1)
RECURSIVE Flat(_, _)
Flat(ss, i) == IF i > Len(ss) THEN <<>> ELSE ss[i] \o Flat(ss, i + 1)
PadTo(n, m) == (m - (n % m)) % m                                  \* bytes needed to reach a multiple of m

-----------------------------------------------------------------------------
(* stacking relation and demultiplexing codes                              *)

LinkLayers == {"Ethernet"}
Over(t) ==
  CASE t = "Ethernet"        -> {"Dot1Q", "IPv4", "IPv6"}
    [] t = "Dot1Q"           -> {"IPv4", "IPv6"}
    [] t = "IPv4"            -> {"TCP", "UDP", "ICMPv4", "GRE"}
    [] t = "IPv6"            -> {"TCP", "UDP", "ICMPv6", "GRE", "IPv6Destination", "IPv6Routing", "IPv6Fragment"}
    [] t = "IPv6Destination" -> {"TCP", "UDP", "ICMPv6"}
    [] t = "IPv6Routing"     -> {"TCP", "UDP", "ICMPv6"}
    [] t = "IPv6Fragment"    -> {"Payload"}
    [] t = "GRE"             -> {"IPv4", "IPv6"}
    [] t = "ICMPv6"          -> {"ICMPv6Echo", "ICMPv6NeighborSolicitation", "ICMPv6NeighborAdvertisement",
                                 "ICMPv6RouterSolicitation", "ICMPv6RouterAdvertisement", "ICMPv6Redirect"}
    [] t \in {"TCP", "UDP", "ICMPv4", "ICMPv6Echo"} -> {"Payload"}
    [] OTHER                 -> {}           \* NDP messages end the stack (options belong to the message)
Terminal(t) == Over(t) = {}

\* the value the enclosing header must carry in its type / protocol / next-header field
Code(t) ==
  CASE t = "IPv4" -> 2048 [] t = "IPv6" -> 34525 [] t = "Dot1Q" -> 33024
    [] t = "TCP" -> 6 [] t = "UDP" -> 17 [] t = "ICMPv4" -> 1 [] t = "ICMPv6" -> 58 [] t = "GRE" -> 47
    [] t = "IPv6HopByHop" -> 0 [] t = "IPv6Destination" -> 60 [] t = "IPv6Routing" -> 43 [] t = "IPv6Fragment" -> 44
    [] t = "ICMPv6Echo" -> 128 [] t = "ICMPv6RouterSolicitation" -> 133 [] t = "ICMPv6RouterAdvertisement" -> 134
    [] t = "ICMPv6NeighborSolicitation" -> 135 [] t = "ICMPv6NeighborAdvertisement" -> 136 [] t = "ICMPv6Redirect" -> 137
    [] OTHER -> -1
\* inside GRE and Ethernet the code is an EtherType, inside IP a protocol number; IPv4/IPv6 have both
IPProtoOf(t) == CASE t = "IPv4" -> 4 [] t = "IPv6" -> 41 [] OTHER -> Code(t)

\* fixed part of the NDP messages (bytes after the 4-byte ICMPv6 header, before the options)
NDPFixed(t) ==
  CASE t = "ICMPv6RouterSolicitation" -> 4 [] t = "ICMPv6RouterAdvertisement" -> 12
    [] t = "ICMPv6NeighborSolicitation" -> 20 [] t = "ICMPv6NeighborAdvertisement" -> 20
    [] t = "ICMPv6Redirect" -> 36 [] OTHER -> -1
IsNDP(t) == NDPFixed(t) >= 0

\* where the next-layer code sits in a header, as read from the wire
NextField(t, h) ==
  CASE t = "Ethernet" -> U16(h, 12) [] t = "Dot1Q" -> U16(h, 2) [] t = "GRE" -> U16(h, 2)
    [] t = "IPv4" -> B(h, 9)
    [] t = "IPv6" -> IF B(h, 6) = 0 /\ Len(h) > 40 THEN B(h, 40) ELSE B(h, 6)
    [] t \in {"IPv6Destination", "IPv6Routing", "IPv6Fragment", "IPv6HopByHop"} -> B(h, 0)
    [] t = "ICMPv6" -> B(h, 0)
    [] OTHER -> -1
ExpectedNext(t, nxt) ==
  IF t \in {"Ethernet", "Dot1Q", "GRE"} THEN Code(nxt)
  ELSE IF t = "ICMPv6" THEN Code(nxt) ELSE IPProtoOf(nxt)

-----------------------------------------------------------------------------
(* kind/length option lists: IPv4 and TCP.  list entries <<kind, total length>> (1 for EOL = 0 and NOP = 1) *)

RECURSIVE ParseKL(_, _, _)
ParseKL(h, off, acc) ==
  IF off >= Len(h) THEN [ok |-> TRUE, opts |-> acc, eol |-> -1]
  ELSE LET k == B(h, off) IN
       IF k = 0 THEN [ok |-> TRUE, opts |-> acc, eol |-> off]
       ELSE IF k = 1 THEN ParseKL(h, off + 1, Append(acc, <<1, 1>>))
       ELSE IF off + 1 >= Len(h) THEN [ok |-> FALSE, opts |-> acc, eol |-> -1]
       ELSE LET n == B(h, off + 1) IN
            IF n < 2 \/ off + n > Len(h) THEN [ok |-> FALSE, opts |-> acc, eol |-> -1]
            ELSE ParseKL(h, off + n, Append(acc, <<k, n>>))

\* the list up to (not including) the first end-of-list entry: what follows EOL is padding, not options
RECURSIVE BeforeEOL(_, _)
BeforeEOL(l, i) == IF i > Len(l) \/ l[i][1] = 0 THEN <<>> ELSE << <<l[i][1], l[i][2]>> >> \o BeforeEOL(l, i + 1)

\* padzero: the padding is the serializer's own (always for IPv4; for TCP unless the layer carries an explicit
\* non-zero Padding field, which SerializeTo copies behind the options)
KLLaw(h, list, padzero) ==
  LET p == ParseKL(h, 20, <<>>) IN
  IF ~p.ok THEN "options-malformed"
  ELSE IF p.opts # BeforeEOL(list, 1) THEN "option-order"
  ELSE IF padzero /\ p.eol >= 0 /\ ~AllZero(h, p.eol) THEN "padding-not-zero"
  ELSE "ok"

IPv4Law(h, after, list) ==
  LET n == Len(h) IN
  IF n < 20 \/ n > 60 THEN "header-length"
  ELSE IF n % 4 # 0 THEN "options-not-padded-to-4"
  ELSE IF (B(h, 0) % 16) * 4 # n THEN "ihl"
  ELSE IF n + after <= 65535 /\ U16(h, 2) # n + after THEN "total-length"
  ELSE KLLaw(h, list, TRUE)

TCPLaw(h, after, list, padzero) ==
  LET n == Len(h) IN
  IF n < 20 \/ n > 60 THEN "header-length"
  ELSE IF n % 4 # 0 THEN "options-not-padded-to-4"
  ELSE IF (B(h, 12) \div 16) * 4 # n THEN "data-offset"
  ELSE KLLaw(h, list, padzero)

UDPLaw(h, after, jumbo) ==
  IF Len(h) # 8 THEN "header-length"
  ELSE IF 8 + after <= 65535 /\ U16(h, 4) # 8 + after THEN "length"
  ELSE IF 8 + after > 65535 /\ jumbo /\ U16(h, 4) # 0 THEN "length-of-jumbogram"
  ELSE "ok"

EncKL(list) == Flat([i \in 1..Len(list) |->
                      IF list[i][1] \in {0, 1} THEN <<list[i][1]>>
                      ELSE <<list[i][1], list[i][2]>> \o Fill(list[i][2] - 2, 7)], 1)
EncIPv4(list, after, proto) ==
  LET o == EncKL(list)
      opts == o \o Zeros(PadTo(Len(o), 4))
      n == 20 + Len(opts) IN
  <<64 + n \div 4, 0, Hi(n + after), Lo(n + after), 0, 0, 0, 0, 64, proto, 0, 0, 10, 0, 0, 1, 10, 0, 0, 2>> \o opts
EncTCP(list) ==
  LET o == EncKL(list)
      opts == o \o Zeros(PadTo(Len(o), 4))
      n == 20 + Len(opts) IN
  <<0, 80, 0, 81, 0, 0, 0, 1, 0, 0, 0, 2, (n \div 4) * 16, 16, 1, 0, 0, 0, 0, 0>> \o opts
EncUDP(after) == LET l == IF 8 + after <= 65535 THEN 8 + after ELSE 0 IN <<0, 53, 0, 54, Hi(l), Lo(l), 0, 0>>

-----------------------------------------------------------------------------
(* IPv6 extension headers with TLV options (hop-by-hop, destination).      *)
(* list entries <<type, data length, x, y>>: alignment requirement xn+y    *)
(* (x = 0: none).  Pad1 = type 0 (one byte), PadN = type 1.                *)

RECURSIVE ParseTLV(_, _, _)
ParseTLV(h, off, acc) ==       \* entries <<type, data length, offset>>
  IF off = Len(h) THEN [ok |-> TRUE, opts |-> acc]
  ELSE IF B(h, off) = 0 THEN ParseTLV(h, off + 1, Append(acc, <<0, 0, off>>))
  ELSE IF off + 1 >= Len(h) \/ off + 2 + B(h, off + 1) > Len(h) THEN [ok |-> FALSE, opts |-> acc]
  ELSE ParseTLV(h, off + 2 + B(h, off + 1), Append(acc, <<B(h, off), B(h, off + 1), off>>))

IsPad(k) == k \in {0, 1}
NoPads(s) == SelectSeq(s, LAMBDA x : ~IsPad(x[1]))
TL(s) == [i \in 1..Len(s) |-> <<s[i][1], s[i][2]>>]

TLVLaw(h, list) ==
  LET n == Len(h) IN
  IF n < 8 \/ n % 8 # 0 THEN "length-not-multiple-of-8"
  ELSE IF B(h, 1) # n \div 8 - 1 THEN "hdr-ext-len"
  ELSE LET p == ParseTLV(h, 2, <<>>) IN
       IF ~p.ok THEN "tlv-overrun"
       \* PadN options the serializer inserts are zero; a PadN entry of the layer's own list is data and is
       \* copied as it is (a decoded layer may carry one with non-zero bytes)
       ELSE IF Cardinality({i \in 1..Len(p.opts) : p.opts[i][1] = 1 /\
                  \E j \in 1..p.opts[i][2] : B(h, p.opts[i][3] + 1 + j) # 0})
               > Cardinality({i \in 1..Len(list) : list[i][1] = 1}) THEN "padn-not-zero"
       ELSE LET w == NoPads(p.opts)
                l == NoPads(list) IN
            IF TL(w) # TL(l) THEN "option-order"
            ELSE IF \E i \in 1..Len(l) : l[i][3] # 0 /\ w[i][3] % l[i][3] # l[i][4] THEN "alignment"
            ELSE "ok"

Pad6(p) == IF p = 0 THEN <<>> ELSE IF p = 1 THEN <<0>> ELSE <<1, p - 2>> \o Zeros(p - 2)
AlignPad(off, x, y) == IF x = 0 THEN 0 ELSE (((y - off) % x) + x) % x
RECURSIVE EncTLVBody(_, _, _)
EncTLVBody(list, i, off) ==
  IF i > Len(list) THEN Pad6(PadTo(off, 8))
  ELSE LET e == list[i]
           p == AlignPad(off, e[3], e[4])
           b == IF e[1] = 0 THEN <<0>> ELSE <<e[1], e[2]>> \o Fill(e[2], 7) IN
       Pad6(p) \o b \o EncTLVBody(list, i + 1, off + p + Len(b))
EncTLV(nh, list) == LET body == EncTLVBody(list, 1, 2) IN <<nh, (2 + Len(body)) \div 8 - 1>> \o body

\* jumbo payload option (type 0xC2 = 194, 4 bytes, alignment 4n+2): value as 4 bytes
JumboBytes(h) ==
  LET p == ParseTLV(h, 2, <<>>)
      js == IF p.ok THEN SelectSeq(p.opts, LAMBDA x : x[1] = 194 /\ x[2] = 4) ELSE <<>> IN
  IF Len(js) = 0 THEN <<>> ELSE SubSeq(h, js[1][3] + 3, js[1][3] + 6)
Bytes4(x) == <<(x \div 16777216) % 256, (x \div 65536) % 256, Hi(x), Lo(x)>>

\* IPv6 header; when the layer carries its hop-by-hop header itself, h = 40 bytes + that extension header
IPv6Law(h, after, hbhlist) ==
  LET n == Len(h)
      pl == (n - 40) + after IN
  IF n < 40 THEN "header-length"
  ELSE IF n > 40 /\ B(h, 6) # 0 THEN "hop-by-hop-not-first"
  ELSE IF pl <= 65535 /\ U16(h, 4) # pl THEN "payload-length"
  ELSE IF pl > 65535 /\ U16(h, 4) # 0 THEN "payload-length-of-jumbogram"
  ELSE IF pl > 65535 /\ (n = 40 \/ JumboBytes(SubSeq(h, 41, n)) # Bytes4(pl)) THEN "jumbo-option"
  ELSE IF n > 40 THEN TLVLaw(SubSeq(h, 41, n), hbhlist)
  ELSE "ok"
EncIPv6(after, nh) == <<96, 0, 0, 0, Hi(after), Lo(after), nh, 64>> \o Fill(15, 0) \o <<1>> \o Fill(15, 0) \o <<2>>

-----------------------------------------------------------------------------
(* ICMPv6 neighbour discovery messages: fixed part, then options           *)
(* <<type, length in units of 8 bytes, data>>.  list entries <<type, data length>>. *)

RECURSIVE ParseNDP(_, _, _)
ParseNDP(h, off, acc) ==
  IF off = Len(h) THEN [ok |-> TRUE, opts |-> acc]
  ELSE IF off + 1 >= Len(h) \/ B(h, off + 1) = 0 \/ off + 8 * B(h, off + 1) > Len(h) THEN [ok |-> FALSE, opts |-> acc]
  ELSE ParseNDP(h, off + 8 * B(h, off + 1), Append(acc, <<B(h, off), 8 * B(h, off + 1) - 2>>))

NDPLaw(t, h, list) ==
  IF Len(h) < NDPFixed(t) THEN "header-length"
  ELSE IF \E i \in 1..Len(list) : (list[i][2] + 2) % 8 # 0 THEN "ok"      \* not representable: outside the law
  ELSE LET p == ParseNDP(h, NDPFixed(t), <<>>) IN
       IF ~p.ok THEN "option-length-unit"
       ELSE IF p.opts # TL(list) THEN
               IF Len(p.opts) = Len(list) /\ \A i \in 1..Len(list) : \E j \in 1..Len(list) : p.opts[j] = <<list[i][1], list[i][2]>>
               THEN "option-order" ELSE "options-differ"
       ELSE "ok"
EncNDP(t, list) == Zeros(NDPFixed(t)) \o
                   Flat([i \in 1..Len(list) |-> <<list[i][1], (list[i][2] + 2) \div 8>> \o Fill(list[i][2], 7)], 1)

-----------------------------------------------------------------------------
(* GRE (RFC 1701 with RFC 2890 key / sequence and the PPTP acknowledgment) *)
(* f = [c, r, k, s, a : BOOLEAN, keyb, seqb, ackb : 4 bytes]; list entries <<address family, SRE length>> *)

RECURSIVE ParseSRE(_, _, _)
ParseSRE(h, off, acc) ==
  IF off + 4 > Len(h) THEN [ok |-> FALSE, opts |-> acc, end |-> off]
  ELSE IF U16(h, off) = 0 /\ B(h, off + 3) = 0 THEN [ok |-> TRUE, opts |-> acc, end |-> off + 4]
  ELSE IF off + 4 + B(h, off + 3) > Len(h) THEN [ok |-> FALSE, opts |-> acc, end |-> off]
  ELSE ParseSRE(h, off + 4 + B(h, off + 3), Append(acc, <<U16(h, off), B(h, off + 3)>>))

Bit(b) == IF b THEN 1 ELSE 0
GRELen(f, list) == 4 + 4 * Bit(f.c \/ f.r) + 4 * Bit(f.k) + 4 * Bit(f.s)
                   + Bit(f.r) * (SumSeq([i \in 1..Len(list) |-> 4 + list[i][2]], 1) + 4) + 4 * Bit(f.a)
GRELaw(h, f, list) ==
  LET n == Len(h)
      o1 == 4 + 4 * Bit(f.c \/ f.r)
      o2 == o1 + 4 * Bit(f.k)
      o3 == o2 + 4 * Bit(f.s) IN
  IF n < 4 THEN "header-length"
  ELSE IF <<B(h, 0) >= 128, (B(h, 0) \div 64) % 2 = 1, (B(h, 0) \div 32) % 2 = 1, (B(h, 0) \div 16) % 2 = 1, B(h, 1) >= 128>>
          # <<f.c, f.r, f.k, f.s, f.a>> THEN "flags"
  ELSE IF n # GRELen(f, list) THEN "header-length"
  ELSE IF f.k /\ SubSeq(h, o1 + 1, o1 + 4) # f.keyb THEN "key-position"
  ELSE IF f.s /\ SubSeq(h, o2 + 1, o2 + 4) # f.seqb THEN "sequence-position"
  ELSE IF f.a /\ SubSeq(h, n - 3, n) # f.ackb THEN "ack-position"
  ELSE IF f.r THEN
       LET p == ParseSRE(h, o3, <<>>) IN
       IF ~p.ok THEN "routing-not-terminated"
       ELSE IF p.opts # TL(list) THEN "routing-order"
       ELSE IF p.end + 4 * Bit(f.a) # n THEN "routing-null-sre-position"
       ELSE "ok"
  ELSE "ok"
EncGRE(f, list, proto) ==
  <<128 * Bit(f.c) + 64 * Bit(f.r) + 32 * Bit(f.k) + 16 * Bit(f.s), 128 * Bit(f.a), Hi(proto), Lo(proto)>>
  \o (IF f.c \/ f.r THEN <<0, 0, 0, 0>> ELSE <<>>) \o (IF f.k THEN f.keyb ELSE <<>>) \o (IF f.s THEN f.seqb ELSE <<>>)
  \o (IF f.r THEN Flat([i \in 1..Len(list) |-> <<Hi(list[i][1]), Lo(list[i][1]), 0, list[i][2]>> \o Fill(list[i][2], 7)], 1)
                   \o <<0, 0, 0, 0>> ELSE <<>>)
  \o (IF f.a THEN f.ackb ELSE <<>>)

-----------------------------------------------------------------------------
(* fixed headers                                                           *)
EthernetLaw(h, after, trailer) ==
  IF Len(h) # 14 THEN "header-length"
  ELSE IF 14 + after + trailer < 60 THEN "minimum-frame-size"
  ELSE "ok"
FixedLaw(t, h) ==
  LET want == CASE t = "Dot1Q" -> 4 [] t = "ICMPv4" -> 8 [] t = "ICMPv6" -> 4 [] t = "IPv6Fragment" -> 8
                [] t = "ICMPv6Echo" -> 4 [] OTHER -> Len(h) IN
  IF Len(h) # want THEN "header-length" ELSE "ok"
RoutingLaw(h) == IF Len(h) < 8 \/ Len(h) % 8 # 0 THEN "length-not-multiple-of-8"
                 ELSE IF B(h, 1) # Len(h) \div 8 - 1 THEN "hdr-ext-len" ELSE "ok"

\* one layer of a Ser event: [t, hdr, after, trailer, list, f]
LayerLaw(x) ==
  CASE x.t = "IPv4" -> IPv4Law(x.hdr, x.after, x.list)
    [] x.t = "TCP" -> TCPLaw(x.hdr, x.after, x.list, x.f.padzero)
    [] x.t = "UDP" -> UDPLaw(x.hdr, x.after, x.f.jumbo)
    [] x.t = "IPv6" -> IPv6Law(x.hdr, x.after, x.list)
    [] x.t \in {"IPv6HopByHop", "IPv6Destination"} -> TLVLaw(x.hdr, x.list)
    [] x.t = "IPv6Routing" -> RoutingLaw(x.hdr)
    [] IsNDP(x.t) -> NDPLaw(x.t, x.hdr, x.list)
    [] x.t = "GRE" -> GRELaw(x.hdr, x.f, x.list)
    [] x.t = "Ethernet" -> EthernetLaw(x.hdr, x.after, x.trailer)
    [] x.t \in {"Dot1Q", "ICMPv4", "ICMPv6", "IPv6Fragment", "ICMPv6Echo"} -> FixedLaw(x.t, x.hdr)
    [] OTHER -> "ok"
CoreTypes == {"Ethernet", "Dot1Q", "IPv4", "IPv6", "IPv6HopByHop", "IPv6Destination", "IPv6Routing", "IPv6Fragment",
              "TCP", "UDP", "ICMPv4", "ICMPv6", "ICMPv6Echo", "ICMPv6NeighborSolicitation",
              "ICMPv6NeighborAdvertisement", "ICMPv6RouterSolicitation", "ICMPv6RouterAdvertisement",
              "ICMPv6Redirect", "GRE"}
=============================================================================
