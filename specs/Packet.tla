------------------------------- MODULE Packet -------------------------------
(***************************************************************************)
(* gopacket packet.go: the packet builder (eagerPacket / lazyPacket).      *)
(*                                                                         *)
(* A decoder chain is abstracted as a `script`: one step code per layer,   *)
(* which the conformance harness turns into real input bytes interpreted   *)
(* by real gopacket.Decoder implementations (one byte per layer).          *)
(*   code = kind*16 + out*2 + trunc                                        *)
(*   kind : 0 plain, 1 link, 2 network, 3 transport, 4 application         *)
(*          (the layer type is kind+1; the decoder calls Set<kind>Layer)   *)
(*   out  : 0 AddLayer; return NextDecoder(next)                           *)
(*          1 AddLayer; return nil            (terminal layer)             *)
(*          2 return error                    (nothing added)              *)
(*          3 AddLayer; return error          (as decodeTCP does)          *)
(*          4 panic                           (nothing added)              *)
(*          5 AddLayer; panic                                              *)
(*          6 AddLayer; return NextDecoder(nil)                            *)
(*   trunc: 1 = the decoder calls SetTruncated first                       *)
(*                                                                         *)
(* Impl layer: DecodeNext is lazyPacket.decodeNextLayer, EagerRun is       *)
(* eagerPacket.initialDecode, accessors loop exactly like the code.        *)
(* Prop layer: C03 (every lazy accessor result = eager result) and the     *)
(* error-layer laws of C01.                                                *)
(***************************************************************************)
EXTENDS Integers, Sequences, FiniteSets, TLC

CONSTANTS Steps,       \* set of step codes used to build scripts
          MaxScript,   \* max script length
          MaxProg      \* max accessor-program length (history bound)

FailType == 6
Kind(c)  == c \div 16
Out(c)   == (c % 16) \div 2
Trunc(c) == (c % 2) = 1
LType(c) == Kind(c) + 1

\* accessors: <<name, arg>>
Accessors == {<<"Layers", 0>>, <<"String", 0>>, <<"Dump", 0>>,
              <<"Link", 0>>, <<"Net", 0>>, <<"Trans", 0>>, <<"App", 0>>, <<"Err", 0>>}
             \cup {<<"Layer", t>> : t \in 1..6}
             \cup {<<"Class", c>> : c \in 1..2}
ClassSet(c) == IF c = 1 THEN {3, 4} ELSE {1, 5, 6}

\* packet state.  layer references are indexes into `layers` (0 = nil).
\* next = index of the script step the stored decoder will run (0 = no decoder stored)
NewPk == [layers |-> <<>>, link |-> 0, net |-> 0, trans |-> 0, app |-> 0,
          fail |-> 0, trunc |-> FALSE, next |-> 1]

SetPtr(pk, kind, idx) ==
  CASE kind = 1 /\ pk.link = 0  -> [pk EXCEPT !.link = idx]
    [] kind = 2 /\ pk.net = 0   -> [pk EXCEPT !.net = idx]
    [] kind = 3 /\ pk.trans = 0 -> [pk EXCEPT !.trans = idx]
    [] kind = 4 /\ pk.app = 0   -> [pk EXCEPT !.app = idx]
    [] OTHER -> pk

AddLayer(pk, c) ==
  LET p2 == [pk EXCEPT !.layers = Append(pk.layers, LType(c))]
  IN SetPtr(p2, Kind(c), Len(p2.layers))

\* addFinalDecodeError: append a DecodeFailure layer; SetErrorLayer is first-wins
AddFailure(pk) ==
  LET p2 == [pk EXCEPT !.layers = Append(pk.layers, FailType)]
  IN IF p2.fail = 0 THEN [p2 EXCEPT !.fail = Len(p2.layers)] ELSE p2

\* one call of a scripted decoder for step i (the data it is given is non-empty)
DoStep(pk0, scr, i) ==
  LET c  == scr[i]
      pk == IF Trunc(c) THEN [pk0 EXCEPT !.trunc = TRUE] ELSE pk0
  IN CASE Out(c) = 0 -> [AddLayer(pk, c) EXCEPT !.next = i + 1]
       [] Out(c) = 1 -> AddLayer(pk, c)
       [] Out(c) = 2 -> AddFailure(pk)
       [] Out(c) = 3 -> AddFailure(AddLayer(pk, c))
       [] Out(c) = 4 -> AddFailure(pk)
       [] Out(c) = 5 -> AddFailure(AddLayer(pk, c))
       [] Out(c) = 6 -> AddFailure(AddLayer(pk, c))

\* lazyPacket.decodeNextLayer
DecodeNext(pk, scr) ==
  IF pk.next = 0 THEN pk
  ELSE LET i == pk.next
           p1 == [pk EXCEPT !.next = 0]
       IN IF i > Len(scr) THEN p1          \* payload of the last layer is empty
          ELSE DoStep(p1, scr, i)

\* eagerPacket: decode to the end
RECURSIVE EagerRun(_, _)
EagerRun(pk, scr) == IF pk.next = 0 THEN pk ELSE EagerRun(DecodeNext(pk, scr), scr)
Eager(scr) == EagerRun(NewPk, scr)

FirstOf(ls, S) == IF \E i \in 1..Len(ls) : ls[i] \in S
                  THEN CHOOSE i \in 1..Len(ls) : ls[i] \in S /\ \A j \in 1..(i-1) : ls[j] \notin S
                  ELSE 0

\* loop condition of the lazy accessors: `for <not found> && p.next != nil { decodeNextLayer }`
Found(pk, a) ==
  CASE a[1] \in {"Layers", "String", "Dump"} -> FALSE
    [] a[1] = "Link"  -> pk.link # 0
    [] a[1] = "Net"   -> pk.net # 0
    [] a[1] = "Trans" -> pk.trans # 0
    [] a[1] = "App"   -> pk.app # 0
    [] a[1] = "Err"   -> pk.fail # 0
    [] a[1] = "Layer" -> FirstOf(pk.layers, {a[2]}) # 0
    [] a[1] = "Class" -> FirstOf(pk.layers, ClassSet(a[2])) # 0

\* state of the lazy packet after accessor a
RECURSIVE LazyAfter(_, _, _)
LazyAfter(pk, scr, a) ==
  IF Found(pk, a) \/ pk.next = 0 THEN pk ELSE LazyAfter(DecodeNext(pk, scr), scr, a)

\* what accessor a returns on packet state pk (after any decoding it triggered)
Result(pk, a) ==
  CASE a[1] \in {"Layers", "String", "Dump"} -> <<pk.layers, pk.trunc>>
    [] a[1] = "Link"  -> pk.link
    [] a[1] = "Net"   -> pk.net
    [] a[1] = "Trans" -> pk.trans
    [] a[1] = "App"   -> pk.app
    [] a[1] = "Err"   -> pk.fail
    [] a[1] = "Layer" -> FirstOf(pk.layers, {a[2]})
    [] a[1] = "Class" -> FirstOf(pk.layers, ClassSet(a[2]))

-----------------------------------------------------------------------------
VARIABLES script, lazy, prog, lastRes
vars == <<script, lazy, prog, lastRes>>

Scripts == UNION {[1..n -> Steps] : n \in 1..MaxScript}

Init == /\ script \in Scripts
        /\ lazy = NewPk
        /\ prog = <<>>
        /\ lastRes = <<0, 0>>

Call(a) == /\ Len(prog) < MaxProg
           /\ lazy' = LazyAfter(lazy, script, a)
           /\ lastRes' = <<Result(lazy', a), Result(Eager(script), a)>>
           /\ prog' = Append(prog, a)
           /\ UNCHANGED script

Next == \E a \in Accessors : Call(a)
Spec == Init /\ [][Next]_vars

-----------------------------------------------------------------------------
(* C03 *)
LazyEqualsEager == lastRes[1] = lastRes[2]

IsPrefix(s, t) == Len(s) <= Len(t) /\ \A i \in 1..Len(s) : s[i] = t[i]

\* lazily decoded layers are always a prefix of the eager ones, pointers agree once set
PrefixInv ==
  LET e == Eager(script) IN
  /\ IsPrefix(lazy.layers, e.layers)
  /\ lazy.link  # 0 => lazy.link  = e.link
  /\ lazy.net   # 0 => lazy.net   = e.net
  /\ lazy.trans # 0 => lazy.trans = e.trans
  /\ lazy.app   # 0 => lazy.app   = e.app
  /\ lazy.fail  # 0 => lazy.fail  = e.fail
  /\ lazy.next = 0 => lazy = e            \* fully decoded: identical, including Truncated

(* C01: error-layer laws on the eager result *)
Failing(scr) == \E i \in 1..Len(scr) :
                      /\ Out(scr[i]) \in {2, 3, 4, 5, 6}
                      /\ \A j \in 1..(i-1) : Out(scr[j]) = 0
ErrorLaws(pk, scr) ==
  /\ pk.fail # 0 <=> Failing(scr)
  /\ pk.fail # 0 => pk.fail = Len(pk.layers) /\ pk.layers[pk.fail] = FailType
  /\ \A i \in 1..Len(pk.layers) : pk.layers[i] = FailType => i = pk.fail
ErrorLayerLaws == ErrorLaws(Eager(script), script)
=============================================================================
