------------------------------ MODULE PoolProp ------------------------------
(***************************************************************************)
(* Property part of the packet pool protocol (C04 c), in functional form:  *)
(* PJudge(st, e) returns <<reason, st'>>, "ok" iff event e is allowed.     *)
(* See Pool.tla for the protocol model that is checked against it and for  *)
(* the meaning of the events.                                              *)
(***************************************************************************)
EXTENDS Integers, Sequences, FiniteSets, TLC

PNew == [live |-> <<>>]
PPut(f, k, v) == [x \in DOMAIN f \cup {k} |-> IF x = k THEN v ELSE f[x]]
PDel(f, k) == [x \in DOMAIN f \ {k} |-> f[x]]

PJudge(st, e) ==
  CASE e.op = "pstart" -> <<"ok", PNew>>
    [] e.op = "got" ->
         IF e.pkt \in DOMAIN st.live THEN <<"packet-id-reused", st>>
         ELSE IF \E q \in DOMAIN st.live : st.live[q] = e.block THEN <<"two-undisposed-packets-share-a-block", st>>
         ELSE IF ~e.same THEN <<"packet-data-differs-from-input", [st EXCEPT !.live = PPut(@, e.pkt, e.block)]>>
         ELSE <<"ok", [st EXCEPT !.live = PPut(@, e.pkt, e.block)]>>
    [] e.op \in {"disposing", "release"} ->
         IF e.pkt \notin DOMAIN st.live THEN <<"unknown-packet", st>>
         ELSE IF ~e.canary THEN <<"undisposed-packet-content-changed", [st EXCEPT !.live = PDel(@, e.pkt)]>>
         ELSE <<"ok", [st EXCEPT !.live = PDel(@, e.pkt)]>>
    [] e.op = "stress" -> IF e.canary THEN <<"ok", st>> ELSE <<"undisposed-packet-content-changed", st>>
    [] e.op = "race"  -> <<"race", st>>
    [] e.op = "panic" -> <<"panic", st>>
    [] e.op = "hang"  -> <<"hang", st>>
    [] e.op = "crash" -> <<"crash", st>>
    [] OTHER -> <<"unknown-event", st>>

PNotVacuous ==
  LET g(p, b) == [op |-> "got", pkt |-> p, block |-> b, same |-> TRUE]
      s1 == PJudge(PNew, g(1, 7))[2]
      s2 == PJudge(s1, [op |-> "disposing", pkt |-> 1, canary |-> TRUE])[2]
  IN /\ PJudge(s1, g(2, 7))[1] = "two-undisposed-packets-share-a-block"
     /\ PJudge(s2, g(2, 7))[1] = "ok"
     /\ PJudge(s1, [op |-> "disposing", pkt |-> 1, canary |-> FALSE])[1] = "undisposed-packet-content-changed"
     /\ PJudge(s1, [g(2, 8) EXCEPT !.same = FALSE])[1] = "packet-data-differs-from-input"
     /\ PJudge(s1, [op |-> "race", site |-> "x"])[1] = "race"
=============================================================================
