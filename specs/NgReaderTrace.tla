----------------------------- MODULE NgReaderTrace -----------------------------
(* Implementation -> model: validates traces of the real pcapgo readers on      *)
(* hostile input (harness/cmd/pcapio -mode hostile) against NgReader.tla.       *)
(* After a rejection the rest of that case is skipped.                          *)
EXTENDS NgReader, Json
VARIABLES l, st, cur, bad, skip, nbad
tvars == <<l, st, cur, bad, skip, nbad>>
Trace == ndJsonDeserialize("trace.ndjson")
Key(r) == <<r.reason, r.fmt, r.loc, r.site, r.rd>>
Note(b, r) == IF \E i \in 1..Len(b) : Key(b[i]) = Key(r) THEN b
              ELSE IF Len(b) < 400 THEN Append(b, r) ELSE b
NoCase == [cs |-> 0, fmt |-> "-", loc |-> "-", cls |-> "-", src |-> "-"]
TInit == l = 1 /\ st = NewCase /\ cur = NoCase /\ bad = <<>> /\ skip = FALSE /\ nbad = 0
\* the site of a panic / abort, for the signature of the rejection
SiteOf(e) == IF e.op = "crash" THEN e.site
             ELSE IF e.op = "mode" /\ \E i \in 1..Len(e.groups) : e.groups[i].end = "panic"
                  THEN e.groups[CHOOSE i \in 1..Len(e.groups) : e.groups[i].end = "panic"].site
             ELSE ""
Step ==
  /\ l <= Len(Trace)
  /\ l' = l + 1
  /\ LET e == Trace[l] IN
     IF e.op = "case" THEN /\ st' = JudgeR(st, e)[2] /\ skip' = FALSE /\ UNCHANGED <<bad, nbad>>
                           /\ cur' = [cs |-> e.cs, fmt |-> e.fmt, loc |-> e.loc, cls |-> e.cls, src |-> e.src]
     ELSE IF skip THEN UNCHANGED <<st, cur, bad, skip, nbad>>
     ELSE LET r == JudgeR(st, e) IN
          IF r[1] = "ok" THEN st' = r[2] /\ UNCHANGED <<cur, bad, skip, nbad>>
          ELSE /\ bad' = Note(bad, [cs |-> cur.cs, line |-> l, op |-> e.op, reason |-> r[1], fmt |-> cur.fmt, loc |-> cur.loc,
                                    cls |-> cur.cls, src |-> cur.src, rd |-> (IF e.op \in {"mode", "crash", "hang"} THEN e.rd ELSE "-"),
                                    site |-> SiteOf(e)])
               /\ nbad' = nbad + 1 /\ skip' = TRUE /\ UNCHANGED <<st, cur>>
TSpec == TInit /\ [][Step]_tvars
Done == l = Len(Trace) + 1 => PrintT("VERDICT " \o ToJson([lines |-> Len(Trace), bad |-> bad, nbad |-> nbad]))
=============================================================================
