SPECIFICATION Spec
CONSTANTS
  K = 4
  G = 2
  MaxProg = 2
  Acc = {"Layers", "Layer", "String", "Dump", "LayerString", "LayerDump", "Flows", "Verify", "Data"}
INVARIANTS PropAcceptsIdeal Export
CHECK_DEADLOCK FALSE
