SPECIFICATION FsmSpec
CONSTANTS
  MaxLen = 3
  Kinds = {"S", "SA", "A", "AD", "FA", "R"}
  Smes = {TRUE, FALSE}
  ExportEvery = FALSE
  OMss <- MC_None
  OWs <- MC_None
  OWin = {0}
  OLen = {0}
  ODiff = {0}
INVARIANTS FsmImplSane FsmExport FsmReport
CHECK_DEADLOCK FALSE
