------------------------------ MODULE DnsName ------------------------------
(***************************************************************************)
(* X23DNS - DNS name decompression as a pointer graph (DESIGN.md section   *)
(* 8).  Subject: decodeName in layers/dns.go and the record decoders that  *)
(* call it (question, owner name, NS/CNAME/PTR/SOA/MX/SRV/NAPTR RDATA).     *)
(*                                                                         *)
(* A message is a sequence of octets 0..255, addressed from 0 (the first   *)
(* octet of the DNS header).  An octet read as the head of a label has a    *)
(* type in its two top bits: 00 = length octet (0 = root), 11 = first       *)
(* octet of a two-octet pointer (14-bit offset from the start of the        *)
(* message), 01 and 10 reserved.  Everything else is opaque label content.  *)
(*                                                                         *)
(* PROP LAYER (Ideal, Expected, Verdict, Judge).  Where each clause is from:*)
(*  RFC 1035 3.1, 4.1.4  a name is a sequence of labels ended by the root   *)
(*        label or by a pointer; a pointer continues the name at the given  *)
(*        offset; the name is the concatenation of the labels met on that   *)
(*        walk (here in the library's presentation: labels joined by '.',   *)
(*        no escaping, empty for the root);                                 *)
(*  RFC 1035 4.1.4       parsing of the enclosing record continues behind   *)
(*        the FIRST pointer (or behind the root label when there is none);  *)
(*  totality (C01/C19)   the walk must end: a walk that comes back to an    *)
(*        offset it has been at (pointer cycle, pointer to itself) never     *)
(*        ends, so it MUST be an error; nothing outside the data may be     *)
(*        read: a start offset / pointer target / label end beyond the data *)
(*        and a pointer cut by the end of the data MUST be errors;          *)
(*  code (dns.go)        label types 01 (RFC 2673) and 10 are `unsupported  *)
(*        yet`: MUST be an error; a pointer may point forward (RFC: `prior  *)
(*        occurrence`) as long as it stays inside the data; a run of labels *)
(*        longer than 255 octets counted from where the run starts (start   *)
(*        offset or pointer target) MUST be an error (RFC 2.3.4 makes every *)
(*        such name illegal as well);                                       *)
(*  MAY clauses (either answer is accepted, a returned name must still be   *)
(*        the right one):  RFC 2.3.4 limits the whole name to 255 octets -   *)
(*        the code only limits each run, so a longer name assembled through *)
(*        pointers (or of exactly 256 octets) is accepted by the code and   *)
(*        illegal by the RFC; the code gives up behind MaxLevel - 1 pointer *)
(*        indirections (maxRecursionLevel = 255) - the RFC has no limit.    *)
(*                                                                         *)
(* IMPL LAYER (IInit, Step, Run): a transcription of decodeName as it is    *)
(* written, as a machine with an explicit call stack: one frame per active  *)
(* invocation (offset, index, start, level), pc "call" = entry tests of an  *)
(* invocation, "loop" = head of `for data[index] != 0`, "ret" = an          *)
(* invocation has returned without error to the pointer case of its caller, *)
(* "done".  The shared append-only buffer from which the result is sliced,  *)
(* the order of the tests and the error values are the code's.  Every       *)
(* decision is tagged.  The model checker takes one Step per transition     *)
(* (structural invariants hold in every state); the trace validator runs    *)
(* the same Step to completion (Run) to predict what the real decoder does. *)
(* Shape selects the code as it is ("head") or a broken variant that TLC    *)
(* must refute ("nolevel": the recursive call passes level instead of       *)
(* level+1; "noptrlen": the test that both pointer octets are inside the    *)
(* data is missing; "nextafter": the offset behind the pointed-to name is   *)
(* returned instead of the one behind the pointer).                         *)
(***************************************************************************)
EXTENDS Integers, Sequences, FiniteSets, TLC     \* TLC: TLCEval only (TLC passes operator arguments unevaluated and
                                                 \* evaluates them again at each use; TLCEval makes them values)

CONSTANTS MaxLevel,   \* maxRecursionLevel of dns.go (255)
          Shape,      \* "head" | "nolevel" | "noptrlen" | "nextafter"
          StrictLen   \* FALSE: a name of more than 255 octets is `may` (what the check demands of the code as it is);
                      \* TRUE: it MUST be an error (RFC 1035 2.3.4) - used to measure the code against the RFC clause

Dot == 46
At(d, i) == d[i + 1]                          \* octet at 0-based offset i
U16(d, i) == d[i + 1] * 256 + d[i + 2]
Cut(d, a, b) == SubSeq(d, a + 1, b)           \* Go's d[a:b]
Join(name, lab) == IF name = <<>> THEN lab ELSE name \o <<Dot>> \o lab

-----------------------------------------------------------------------------
(* Prop layer: ideal decompression with an explicit visited set            *)

IdealErr(why) == [kind |-> "err", why |-> why, name |-> <<>>, next |-> 0, may |-> FALSE, ptrs |-> 0, wire |-> 0]

\* pos: where the walk is; seg: where the current run of labels started; vis: offsets the walk has been at;
\* next: offset behind the first pointer (valid when ptrs > 0); wire: octets of the expanded name so far
RECURSIVE IdealWalk(_, _, _, _, _, _, _, _)
IdealWalk(d, pos, seg, vis, name, next, ptrs, wire) ==
  IF pos < 0 \/ pos >= Len(d) THEN IdealErr("outside-data")
  ELSE LET b == At(d, pos) IN
    IF b = 0 /\ StrictLen /\ wire + 1 > 255 THEN IdealErr("name-over-255")
    ELSE IF b = 0 THEN [kind |-> "name", why |-> "", name |-> name, next |-> (IF ptrs = 0 THEN pos + 1 ELSE next),
                   may |-> (wire + 1 > 255) \/ (ptrs >= MaxLevel), ptrs |-> ptrs, wire |-> wire + 1]
    ELSE IF b < 64 THEN
      IF pos + 1 + b - seg > 255 THEN IdealErr("run-over-255")
      ELSE IF pos + 1 + b > Len(d) THEN IdealErr("label-past-end")
      ELSE IdealWalk(d, pos + 1 + b, seg, TLCEval(vis \cup {pos}), TLCEval(Join(name, Cut(d, pos + 1, pos + 1 + b))), next, ptrs, TLCEval(wire + 1 + b))
    ELSE IF b < 128 THEN IdealErr("reserved-01")
    ELSE IF b < 192 THEN IdealErr("reserved-10")
    ELSE IF pos + 2 > Len(d) THEN IdealErr("pointer-cut")
    ELSE LET t == (b - 192) * 256 + At(d, pos + 1) IN
      IF t >= Len(d) THEN IdealErr("pointer-past-end")
      ELSE IF t \in vis \cup {pos} THEN IdealErr("cycle")
      ELSE IdealWalk(d, t, t, TLCEval(vis \cup {pos}), name, TLCEval(IF ptrs = 0 THEN pos + 2 ELSE next), TLCEval(ptrs + 1), wire)

Ideal(d, off) == IdealWalk(d, off, off, {}, <<>>, 0, 0, 0)

-----------------------------------------------------------------------------
(* Impl layer: decodeName(data, offset, buffer, level) of layers/dns.go    *)

\* more steps than the code as it is can take: at most MaxLevel + 1 invocations, each with at most one loop iteration per octet
Fuel(d) == (MaxLevel + 2) * (Len(d) + 2)
Frame(off, lvl) == [offset |-> off, index |-> off, start |-> 0, level |-> lvl]
IInit(off, buf0) == [pc |-> "call", stack |-> <<Frame(off, 1)>>, buf |-> buf0, err |-> "", name |-> <<>>, next |-> 0,
                     steps |-> 0, tags |-> {}, oob |-> FALSE, lo |-> 1000000, depth |-> 1]
Top(st) == st.stack[Len(st.stack)]
\* a read of data[i]: the lowest offset read is remembered
Read(st, i) == IF i >= st.lo THEN st ELSE [st EXCEPT !.lo = i]
Tagged(st, t) == IF t \in st.tags THEN [st EXCEPT !.steps = @ + 1] ELSE [st EXCEPT !.steps = @ + 1, !.tags = @ \cup {t}]
\* `return nil, nil, 0, err`, and `if err != nil { return nil, nil, 0, err }` in every caller up the stack
Fail(st, e) == [st EXCEPT !.pc = "done", !.err = e, !.steps = @ + Len(st.stack),
                          !.tags = @ \cup {e} \cup (IF Len(st.stack) > 1 THEN {"ptr-error-propagated"} ELSE {})]
Panic(st) == Fail([st EXCEPT !.oob = TRUE], "panic")           \* an index outside the data: Go panics
\* a frame returns (name, next) without error.  Only the outermost name is used by anybody (callers use the pointed-to
\* name for label bookkeeping only, which is not modelled), so the slice is taken for the outermost frame only.
\*   if len(*buffer) <= start { return (*buffer)[start:], labels, index + 1, nil } ; return (*buffer)[start+1:], labels, index + 1, nil
EndCode(st, start, index, tag) ==
  LET t2 == IF Len(st.buf) <= start THEN "end-empty" ELSE "end-name" IN
  [st EXCEPT !.pc = "ret", !.next = index + 1, !.steps = @ + 1, !.tags = @ \cup {tag, t2},
             !.name = IF Len(st.stack) > 1 \/ Len(st.buf) <= start THEN <<>> ELSE SubSeq(st.buf, start + 2, Len(st.buf))]

Step(d, st) ==
  LET f == Top(st)
      n == Len(d)
      k == Len(st.stack)
  IN
  IF st.steps > Fuel(d) THEN Fail(st, "diverged")
  ELSE IF st.pc = "call" THEN
    IF f.level > MaxLevel THEN Fail(st, "maxrec")
    ELSE IF f.offset >= n THEN Fail(st, "offhigh")
    ELSE IF f.offset < 0 THEN Fail(st, "offneg")
    ELSE IF At(d, f.offset) = 0 THEN                               \* return nil, labels, index + 1, nil
      [Read(st, f.offset) EXCEPT !.pc = "ret", !.name = <<>>, !.next = f.offset + 1, !.steps = @ + 1, !.tags = @ \cup {"root-first"}]
    ELSE [Read(st, f.offset) EXCEPT !.pc = "loop", !.stack[k] = [f EXCEPT !.start = Len(st.buf)], !.steps = @ + 1]
  ELSE IF st.pc = "loop" THEN
    IF f.index < 0 \/ f.index >= n THEN Panic(st)
    ELSE LET b == At(d, f.index) IN
      IF b = 0 THEN EndCode(Read(st, f.index), f.start, f.index, "loop-ends-at-root")
      ELSE IF b < 64 THEN
        LET index2 == f.index + b + 1 IN
        IF index2 - f.offset > 255 THEN Fail(st, "toolong")
        ELSE IF index2 < f.index + 1 \/ index2 > n THEN Fail(st, "invidx")
        ELSE LET st2 == [Read(st, f.index) EXCEPT !.buf = @ \o <<Dot>> \o Cut(d, f.index + 1, index2),
                                                  !.stack[k] = [f EXCEPT !.index = index2],
                                                  !.steps = @ + 1, !.tags = @ \cup {"label"}]
             IN IF index2 >= n THEN Fail(st2, "walked") ELSE st2
      ELSE IF b < 128 THEN Fail(st, "res40")
      ELSE IF b < 192 THEN Fail(st, "res80")
      ELSE IF Shape # "noptrlen" /\ f.index + 2 > n THEN Fail(st, "ptrcut")
      ELSE IF f.index + 1 >= n THEN Panic(st)                      \* data[index:index+2] outside the data
      ELSE LET offsetp == (b - 192) * 256 + At(d, f.index + 1) IN
        IF offsetp > n THEN Fail(st, "ptrhigh")
        ELSE [Read(st, f.index) EXCEPT !.pc = "call", !.steps = @ + 1, !.tags = @ \cup {"ptr"},
                                       !.stack = Append(@, Frame(offsetp, IF Shape = "nolevel" THEN f.level ELSE f.level + 1)),
                                       !.depth = IF k + 1 > @ THEN k + 1 ELSE @]
  ELSE IF st.pc = "ret" THEN
    IF k = 1 THEN [st EXCEPT !.pc = "done"]
    ELSE LET c == st.stack[k - 1] IN                               \* the caller, in `case 0xc0` at c.index: index++ ; break loop
      EndCode([st EXCEPT !.stack = SubSeq(@, 1, k - 1)], c.start,
              (IF Shape = "nextafter" THEN st.next - 1 ELSE c.index + 1), "ptr-followed")
  ELSE st

RECURSIVE Run(_, _)
Run(d, st) == IF st.pc = "done" THEN st ELSE Run(d, TLCEval(Step(d, st)))
ImplName(d, off, buf0) == Run(d, IInit(off, buf0))

\* the decision tags of the code as it is (for branch coverage of the model); "offneg" and the first half of
\* "invidx" (index2 < index+1) cannot be reached with non-negative offsets and are listed apart
ImplTags == {"maxrec", "offhigh", "root-first", "loop-ends-at-root", "label", "toolong", "invidx", "walked", "res40", "res80",
             "ptrcut", "ptrhigh", "ptr", "ptr-error-propagated", "ptr-followed", "end-empty", "end-name"}
ImplDeadTags == {"offneg"}

\* error values of the code -> classes the driver reports (harness/cmd/dnsname errClass)
\*   maxrec  "max DNS recursion level hit"      offhigh "dns name offset too high"      toolong "dns name is too long"
\*   invidx  "dns name uncomputable: invalid index"   ptrcut/ptrhigh "dns offset pointer too high"
\*   walked  "dns index walked out of range"    res40/res80 "qname '0x40'/'0x80' ... unsupported yet"
ErrClass(e) == IF e \in {"ptrcut", "ptrhigh"} THEN "ptrhigh" ELSE e

-----------------------------------------------------------------------------
(* The record around the name (what the driver can observe)                *)
(*   ctx  "Q"     question: name, then 4 octets (type, class)               *)
(*        "OWN"   owner name of a resource record: name, then type, class,  *)
(*                ttl, rdlength (10 octets), then rdlength octets of RDATA  *)
(*        "NS" "CNAME" "PTR" "MX" "SRV" "NAPTR"  one name in RDATA, the     *)
(*                offset behind it is not used; the decoder sees data[:end] *)
(*        "SOA"   two names in RDATA, the second starts behind the first,   *)
(*                then 20 octets                                            *)
(* d is the slice the record decoder passes to decodeName, at the offset of *)
(* the (first) name.  Result: what must be observed.                        *)

\* RR types whose RDATA the library parses further (everything else, and an empty RDATA, is kept as bytes)
ParsedTypes == {2, 5, 6, 12, 13, 15, 16, 33, 35, 41, 46, 48, 64, 65, 256}

XErr(why) == [kind |-> "err", why |-> why, may |-> FALSE, names |-> <<>>, nums |-> <<>>]
XName(names, nums, may) == [kind |-> "name", why |-> "", may |-> may, names |-> names, nums |-> nums]

ExpectedOf(ctx, d, at, r1) ==
  IF r1.kind = "err" THEN XErr(r1.why)
  ELSE IF ctx = "Q" THEN
    IF r1.next + 4 > Len(d) THEN XErr("question-cut")
    ELSE XName(<<r1.name>>, <<U16(d, r1.next), U16(d, r1.next + 2)>>, r1.may)
  ELSE IF ctx = "OWN" THEN
    IF r1.next + 10 > Len(d) THEN XErr("record-cut")
    ELSE IF r1.next + 10 + U16(d, r1.next + 8) > Len(d) THEN XErr("rdata-cut")
    ELSE XName(<<r1.name>>, <<U16(d, r1.next), U16(d, r1.next + 2)>>,
               r1.may \/ (U16(d, r1.next + 8) > 0 /\ U16(d, r1.next) \in ParsedTypes))    \* RDATA of a parsed type: not modelled
  ELSE IF ctx = "SOA" THEN
    CHOOSE x \in {IF r2.kind = "err" THEN XErr(r2.why)
                  ELSE IF r2.next + 20 > Len(d) THEN XErr("soa-cut")
                  ELSE XName(<<r1.name, r2.name>>, <<U16(d, r2.next), U16(d, r2.next + 2)>>, r1.may \/ r2.may) :
                  r2 \in {Ideal(d, r1.next)}} : TRUE
  ELSE XName(<<r1.name>>, <<>>, r1.may)

Expected(ctx, d, at) == CHOOSE x \in {ExpectedOf(ctx, d, at, r1) : r1 \in {Ideal(d, at)}} : TRUE

\* the same through the Impl layer (what the transcription predicts for the real decoder: kind, error class, names, numbers)
PErr(ec, tags) == [kind |-> "err", ec |-> ec, names |-> <<>>, nums |-> <<>>, loose |-> FALSE, tags |-> tags]
PName(names, nums, loose, tags) == [kind |-> "ok", ec |-> "", names |-> names, nums |-> nums, loose |-> loose, tags |-> tags]

PredictedOf(ctx, d, at, i1) ==
  IF i1.err # "" THEN PErr(ErrClass(i1.err), i1.tags)
  ELSE IF ctx = "Q" THEN
    IF Len(d) < i1.next + 4 THEN PErr("qsmall", i1.tags)
    ELSE PName(<<i1.name>>, <<U16(d, i1.next), U16(d, i1.next + 2)>>, FALSE, i1.tags)
  ELSE IF ctx = "OWN" THEN
    IF Len(d) < i1.next + 10 THEN PErr("rrsmall", i1.tags)
    ELSE IF i1.next + 10 + U16(d, i1.next + 8) > Len(d) THEN PErr("rrlen", i1.tags)
    ELSE PName(<<i1.name>>, <<U16(d, i1.next), U16(d, i1.next + 2)>>,
               U16(d, i1.next + 8) > 0 /\ U16(d, i1.next) \in ParsedTypes, i1.tags)
  ELSE IF ctx = "SOA" THEN
    CHOOSE x \in {IF i2.err # "" THEN PErr(ErrClass(i2.err), i2.tags)
                  ELSE IF Len(d) < i2.next + 20 THEN PErr("soasmall", i2.tags)
                  ELSE PName(<<i1.name, i2.name>>, <<U16(d, i2.next), U16(d, i2.next + 2)>>, FALSE, i2.tags) :
                  i2 \in {Run(d, [IInit(i1.next, i1.buf) EXCEPT !.tags = i1.tags])}} : TRUE
  ELSE PName(<<i1.name>>, <<>>, FALSE, i1.tags)

Predicted(ctx, d, at) == CHOOSE x \in {PredictedOf(ctx, d, at, i1) : i1 \in {ImplName(d, at, <<>>)}} : TRUE

-----------------------------------------------------------------------------
(* Judge form                                                              *)
(* An observation o = <<kind, names, nums>>, kind one of                    *)
(*   "ok"    decoded; names / nums as the record exposes them               *)
(*   "err"   the decoder reported an error                                  *)
(*   "panic" a panic came out of the call (or of a later read-only use)     *)
(*   "hang"  no answer within the watchdog time   "fatal" the process died  *)
(*   "skip"  not run (the process had died in an earlier mode)              *)

Verdict(exp, o, recovery) ==
  IF o[1] = "skip" THEN "ok"
  ELSE IF o[1] = "panic" THEN (IF recovery THEN "panic-recovery-on" ELSE "panic-no-recovery")
  ELSE IF o[1] = "hang" THEN "hang"
  ELSE IF o[1] = "fatal" THEN "crash"
  ELSE IF o[1] = "err" THEN (IF exp.kind = "err" \/ exp.may THEN "ok" ELSE "error-on-valid-name")
  ELSE IF o[1] = "ok" THEN
    IF exp.kind = "err" THEN "name-for-invalid-encoding"
    ELSE IF o[2] # exp.names THEN "wrong-name"
    ELSE IF o[3] # exp.nums THEN "wrong-next-offset"
    ELSE "ok"
  ELSE "malformed-observation"

\* the Impl layer's result for bare decodeName, seen as an observation (used by the model checker)
ImplObs(i) == IF i.err \in {"panic", "diverged"} THEN <<(IF i.err = "panic" THEN "panic" ELSE "hang"), <<>>, <<>>>>
              ELSE IF i.err # "" THEN <<"err", <<>>, <<>>>>
              ELSE <<"ok", <<i.name>>, <<i.next>>>>
IdealExp(r) == IF r.kind = "err" THEN XErr(r.why) ELSE XName(<<r.name>>, <<r.next>>, r.may)

\* Judge(st, e): st = the layout in force (set by a "lay" event), e = one recorded event.
\*   lay : ctx, at, dlen (length of the slice the record decoder works on), pre, suf (octets before / behind the region),
\*         tm = what follows the record under test is not modelled (hostile trailer, or records behind a question /
\*         owner name whose end decides where they start): an error is then accepted, a returned name is still judged
\*   case: reg (octets of the region; data = pre \o reg \o suf), a / b / c observations
\*         (a: NewPacket with recovery + read-only uses, b: NewPacket NoCopy SkipDecodeRecovery, c: DecodeFromBytes on a
\*         reused layer), h = digests <<input before, buffer after a, after b, after c>> (equality only)
\* returns <<reason, st'>>; the reason names the first failing clause, prefixed by the mode
NewState == [ctx |-> "", at |-> 0, dlen |-> 0, pre |-> <<>>, suf |-> <<>>, tm |-> FALSE]
DataOf(st, e) == SubSeq(st.pre \o e.reg \o st.suf, 1, st.dlen)

JudgeCase(st, e, exp0) ==
  LET exp == [exp0 EXCEPT !.may = @ \/ st.tm]
      va == Verdict(exp, e.a, TRUE)
      vb == Verdict(exp, e.b, FALSE)
      vc == Verdict(exp, e.c, FALSE)
  IN IF va # "ok" THEN <<va, "a">>
     ELSE IF vb # "ok" THEN <<vb, "b">>
     ELSE IF vc # "ok" THEN <<vc, "c">>
     ELSE IF \E i \in 2..Len(e.h) : e.h[i] # e.h[1] /\ e.h[i] # -1 THEN <<"input-modified", "h">>
     ELSE <<"ok", "">>

Judge(st, e) ==
  IF e.op = "lay" THEN <<"ok", [ctx |-> e.ctx, at |-> e.at, dlen |-> e.dlen, pre |-> e.pre, suf |-> e.suf, tm |-> e.tm]>>
  ELSE IF e.op = "case" THEN <<JudgeCase(st, e, Expected(st.ctx, DataOf(st, e), st.at))[1], st>>
  ELSE <<"ok", st>>
=============================================================================
