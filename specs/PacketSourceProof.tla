------------------------- MODULE PacketSourceProof -------------------------
(***************************************************************************)
(* X22IND (c): TLAPS proof that IndInv (PacketSourceInd.tla) is an         *)
(* inductive invariant of the original PacketSource.tla (C16) and implies  *)
(* its six safety invariants - for any set Scripts and any capacity K.     *)
(*   tlapm --threads N PacketSourceProof.tla                               *)
(***************************************************************************)
EXTENDS PacketSourceInd, SequenceTheorems, TLAPS

ASSUME KNat == K \in Nat

THEOREM InitInd == Init => IndInv
  BY KNat DEF Init, IndInv, ITypeOK, PcSet, Shape, InFlight, ClosedIff, CancelReads

LEMMA CheckInd == ASSUME IndInv, Check PROVE IndInv'
  BY DEF Check, IndInv, ITypeOK, PcSet, Shape, InFlight, ClosedIff, CancelReads

LEMMA ReadStartInd == ASSUME IndInv, ReadStart PROVE IndInv'
  BY DEF ReadStart, IndInv, ITypeOK, PcSet, Shape, InFlight, ClosedIff, CancelReads

LEMMA ReadReturnInd == ASSUME IndInv, ReadReturn PROVE IndInv'
  <1> USE DEF IndInv
  <1> DEFINE it == Item(pos)
  <1>0. pc = "reading" /\ UNCHANGED <<src, chan, closed, cancelled, delivered, readsAfterCancel>>
    BY DEF ReadReturn
  <1>1. CASE it = "pkt"
    <2>a. pc' = "send" /\ cur' = nextId /\ nextId' = nextId + 1 /\ produced' = Append(produced, nextId)
      BY <1>1 DEF ReadReturn
    <2>b. /\ produced' \in Seq(Nat) /\ Len(produced') = Len(produced) + 1
          /\ produced'[Len(produced) + 1] = nextId
          /\ \A i \in 1..Len(produced) : produced'[i] = produced[i]
      BY <2>a DEF ITypeOK
    <2> HIDE DEF it
    <2>1. ITypeOK' BY <1>0, <2>a, <2>b DEF ITypeOK, PcSet
    <2>2. (Len(chan) <= K)' BY <1>0
    <2>3. Shape' BY <1>0, <2>a, <2>b DEF Shape, ITypeOK
    <2>4. InFlight' BY <1>0, <2>a DEF InFlight, ITypeOK
    <2>5. ClosedIff' /\ CancelReads' BY <1>0, <2>a DEF ClosedIff, CancelReads
    <2>6. QED BY <2>1, <2>2, <2>3, <2>4, <2>5
  <1>2. CASE it # "pkt" /\ it \in {"timeout", "temp"}
    <2>a. pc' = "sleep" /\ UNCHANGED <<cur, nextId, produced>>
      BY <1>2 DEF ReadReturn
    <2> HIDE DEF it
    <2>1. QED BY <1>0, <2>a DEF ITypeOK, PcSet, Shape, InFlight, ClosedIff, CancelReads
  <1>3. CASE it # "pkt" /\ it \notin {"timeout", "temp"}
    <2>a. pc' = "closing" /\ UNCHANGED <<cur, nextId, produced>>
      BY <1>3 DEF ReadReturn
    <2> HIDE DEF it
    <2>1. QED BY <1>0, <2>a DEF ITypeOK, PcSet, Shape, InFlight, ClosedIff, CancelReads
  <1>4. QED BY <1>1, <1>2, <1>3

LEMMA SendInd == ASSUME IndInv, Send PROVE IndInv'
  <1> USE DEF IndInv
  <1>a. /\ pc = "send" /\ Len(chan) < K /\ chan' = Append(chan, cur) /\ pc' = "check"
        /\ UNCHANGED <<src, pos, cur, closed, cancelled, delivered, readsAfterCancel, nextId, produced, ops>>
    BY DEF Send
  <1>b. /\ chan' \in Seq(Nat) /\ Len(chan') = Len(chan) + 1 /\ chan'[Len(chan) + 1] = cur
        /\ \A i \in 1..Len(chan) : chan'[i] = chan[i]
    BY <1>a DEF ITypeOK
  <1>1. ITypeOK' BY <1>a, <1>b DEF ITypeOK, PcSet
  <1>2. (Len(chan) <= K)' BY <1>a, <1>b, KNat DEF ITypeOK
  <1>3. Shape' BY <1>a, <1>b DEF Shape, ITypeOK, InFlight
  <1>4. InFlight' BY <1>a, <1>b DEF InFlight, ITypeOK
  <1>5. ClosedIff' /\ CancelReads' BY <1>a DEF ClosedIff, CancelReads
  <1>6. QED BY <1>1, <1>2, <1>3, <1>4, <1>5

LEMMA SendCancelledInd == ASSUME IndInv, SendCancelled PROVE IndInv'
  BY DEF SendCancelled, IndInv, ITypeOK, PcSet, Shape, InFlight, ClosedIff, CancelReads

LEMMA SleepInd == ASSUME IndInv, Sleep PROVE IndInv'
  BY DEF Sleep, IndInv, ITypeOK, PcSet, Shape, InFlight, ClosedIff, CancelReads

LEMMA CloseInd == ASSUME IndInv, Close PROVE IndInv'
  BY DEF Close, IndInv, ITypeOK, PcSet, Shape, InFlight, ClosedIff, CancelReads

LEMMA RecvInd == ASSUME IndInv, Recv PROVE IndInv'
  <1> USE DEF IndInv
  <1>a. /\ chan # <<>> /\ delivered' = Append(delivered, Head(chan)) /\ chan' = Tail(chan)
        /\ UNCHANGED <<src, pos, pc, cur, closed, cancelled, readsAfterCancel, nextId, produced>>
    BY DEF Recv
  <1>b. /\ Len(chan) \in Nat /\ Len(chan) >= 1 /\ Head(chan) = chan[1] /\ Head(chan) \in Nat
        /\ chan' \in Seq(Nat) /\ Len(chan') = Len(chan) - 1
        /\ \A i \in 1..Len(chan') : chan'[i] = chan[i + 1]
    BY <1>a DEF ITypeOK
  <1>c. /\ delivered' \in Seq(Nat) /\ Len(delivered') = Len(delivered) + 1
        /\ delivered'[Len(delivered) + 1] = Head(chan)
        /\ \A i \in 1..Len(delivered) : delivered'[i] = delivered[i]
    BY <1>a, <1>b DEF ITypeOK
  <1>1. ITypeOK' BY <1>a, <1>b, <1>c DEF ITypeOK
  <1>2. (Len(chan) <= K)' BY <1>b, KNat DEF ITypeOK
  <1>3. Shape' BY <1>a, <1>b, <1>c DEF Shape, ITypeOK
  <1>4. InFlight' BY <1>a, <1>b, <1>c DEF InFlight, ITypeOK
  <1>5. ClosedIff' /\ CancelReads' BY <1>a DEF ClosedIff, CancelReads
  <1>6. QED BY <1>1, <1>2, <1>3, <1>4, <1>5

LEMMA CancelInd == ASSUME IndInv, Cancel PROVE IndInv'
  BY DEF Cancel, IndInv, ITypeOK, PcSet, Shape, InFlight, ClosedIff, CancelReads

THEOREM StepInd == IndInv /\ [Next]_vars => IndInv'
  <1> SUFFICES ASSUME IndInv, [Next]_vars PROVE IndInv' OBVIOUS
  <1>1. CASE UNCHANGED vars
    BY <1>1 DEF vars, IndInv, ITypeOK, PcSet, Shape, InFlight, ClosedIff, CancelReads
  <1>2. CASE Done BY <1>1, <1>2 DEF Done
  <1>3. QED BY <1>1, <1>2, CheckInd, ReadStartInd, ReadReturnInd, SendInd, SendCancelledInd, SleepInd, CloseInd,
                RecvInd, CancelInd DEF Next

THEOREM IndImpliesSafe == IndInv => Safe
  <1> SUFFICES ASSUME IndInv PROVE Safe OBVIOUS
  <1> USE DEF IndInv
  <1> DEFINE dc == delivered \o chan
  <1>1. /\ dc \in Seq(Nat) /\ Len(dc) = Len(delivered) + Len(chan)
        /\ \A i \in 1..Len(dc) : dc[i] = i
    BY DEF ITypeOK, Shape
  <1>2. Len(delivered) + Len(chan) <= Len(produced)
    BY DEF ITypeOK, Shape, InFlight, PcSet
  <1>3. InOrderOnce
    BY <1>1, <1>2 DEF InOrderOnce, IsPrefix, Shape, ITypeOK
  <1>4. ASSUME Len(delivered) + Len(chan) = nextId - 1 PROVE dc = produced
    <2>1. Len(dc) = Len(produced) /\ \A i \in 1..Len(dc) : dc[i] = produced[i]
      BY <1>1, <1>4 DEF Shape, ITypeOK
    <2>2. produced \in Seq(Nat) BY DEF ITypeOK
    <2> HIDE DEF dc
    <2>3. QED BY <1>1, <2>1, <2>2, SeqEqual
  <1>5. NothingLost BY <1>4 DEF NothingLost, InFlight
  <1>6. ClosedMeansDone BY <1>4 DEF ClosedMeansDone, InFlight, ClosedIff
  <1>7. NoSendAfterClose /\ TypeOK /\ AtMostOneReadAfterCancel
    BY DEF NoSendAfterClose, TypeOK, AtMostOneReadAfterCancel, ClosedIff, CancelReads
  <1>8. QED BY <1>3, <1>5, <1>6, <1>7 DEF Safe

THEOREM Safety == Spec => []Safe
  <1>1. Init /\ [][Next]_vars => []IndInv BY InitInd, StepInd, PTL
  <1>2. Spec => Init /\ [][Next]_vars BY DEF Spec
  <1>3. QED BY <1>1, <1>2, IndImpliesSafe, PTL
=============================================================================
