SPECIFICATION TSpec
CONSTANTS
  MaxLevel = 255
  Shape = "head"
INVARIANT Done
CHECK_DEADLOCK FALSE
