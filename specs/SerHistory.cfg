SPECIFICATION HSpec
CONSTANTS
  Sizes = {1, 64, 4096}
  Hints <- MC_Hints
  MaxDepth = 0
  LTypes = {0}
  Stacks <- MC_Stacks
  FillBytes = {170, 255}
  MaxFill = 2
INVARIANTS DoneIsEmpty OnlyFill HExport
CHECK_DEADLOCK FALSE
