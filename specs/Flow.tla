-------------------------------- MODULE Flow --------------------------------
(***************************************************************************)
(* Endpoints and flows as plain values (C17), in functional form:          *)
(* Judge(e) returns "ok" iff observation e of the real code is allowed.    *)
(*                                                                         *)
(* An endpoint is <<typ, bytes>>, a flow is <<typ, src, dst>>; bytes are   *)
(* sequences over 0..255 of length 0..MaxSize.  There is no state: the     *)
(* property is a set of algebraic laws over values, so every observation   *)
(* carries the values it was made on (the values are the ones exported by  *)
(* FlowGen.tla, or seeded random ones beyond its bound).                   *)
(*                                                                         *)
(* The 64-bit FNV hash is not computed here.  What the property demands of *)
(* the hash is a relation: values that must hash alike are exactly those   *)
(* in the same HashClass ({f, Reverse(f)} for flows, {e} for endpoints).   *)
(* The driver reports only whether two hashes were equal.                  *)
(***************************************************************************)
EXTENDS Integers, Sequences, FiniteSets, TLC

MaxSize == 16
Min(x, y) == IF x < y THEN x ELSE y

\* ----- values ------------------------------------------------------------
Eq(a, b) == a[1] = b[1] /\ a[2] = b[2]

\* lexicographic order on byte strings: a proper prefix is smaller
LexLess(x, y) ==
  \E k \in 0..Min(Len(x), Len(y)) :
     /\ \A i \in 1..k : x[i] = y[i]
     /\ \/ k = Len(x) /\ k < Len(y)
        \/ k < Len(x) /\ k < Len(y) /\ x[k + 1] < y[k + 1]
\* type first, then bytes
Less(a, b) == a[1] < b[1] \/ (a[1] = b[1] /\ LexLess(a[2], b[2]))

FEq(f, g) == f[1] = g[1] /\ f[2] = g[2] /\ f[3] = g[3]
Reverse(f) == <<f[1], f[3], f[2]>>
Src(f) == <<f[1], f[2]>>
Dst(f) == <<f[1], f[3]>>
Split(f) == <<Src(f), Dst(f)>>
Joinable(a, b) == a[1] = b[1]
Join(a, b) == <<a[1], a[2], b[2]>>
Constructible(bytes) == Len(bytes) <= MaxSize

\* the hash laws as a relation
HashClass(f) == {f, Reverse(f)}
MustHashAlike(f, g) == HashClass(f) = HashClass(g)

\* ----- observations (JSON records) -----------------------------------------
E(r) == <<r.t, r.b>>              \* {"t":typ,"b":[bytes]}
F(r) == <<r.t, r.s, r.d>>         \* {"t":typ,"s":[bytes],"d":[bytes]}
IsPrefix(p, x) == Len(p) <= Len(x) /\ \A i \in 1..Len(p) : p[i] = x[i]

\* NewEndpoint(t, b): rejected iff too long, otherwise the endpoint is exactly <<t, b>>
JudgeEp(e) ==
  IF ~Constructible(e.b) THEN (IF e.res = "panic" THEN "ok" ELSE "oversize-endpoint-accepted")
  ELSE IF e.res # "ok" THEN "endpoint-constructor-failed"
  ELSE IF E(e.got) # <<e.t, e.b>> THEN "endpoint-not-faithful"
  ELSE "ok"

\* NewFlow(t, s, d)
JudgeFl(e) ==
  IF ~Constructible(e.s) \/ ~Constructible(e.d) THEN (IF e.res = "panic" THEN "ok" ELSE "oversize-flow-accepted")
  ELSE IF e.res # "ok" THEN "flow-constructor-failed"
  ELSE IF F(e.got) # <<e.t, e.s, e.d>> THEN "flow-not-faithful"
  ELSE "ok"

\* a pair of endpoints: ==, both used as keys of one map, LessThan both ways, FastHash equality
JudgeEPair(e) ==
  LET a == E(e.a)  b == E(e.b) IN
  IF e.eq # Eq(a, b) THEN "endpoint-equality-wrong"
  ELSE IF e.mapn # (IF Eq(a, b) THEN 1 ELSE 2) THEN "endpoint-map-key-wrong"
  ELSE IF e.ltab # Less(a, b) \/ e.ltba # Less(b, a) THEN "endpoint-order-wrong"
  ELSE IF Eq(a, b) /\ ~e.heq THEN "equal-endpoints-hash-differently"
  ELSE "ok"

\* FlowFromEndpoints(a, b) and everything derived from the result
JudgeJoin(e) ==
  LET a == E(e.a)  b == E(e.b) IN
  IF ~Joinable(a, b) THEN (IF e.res = "err" THEN "ok" ELSE "mismatched-endpoint-types-joined")
  ELSE IF e.res # "ok" THEN "join-failed"
  ELSE IF F(e.f) # Join(a, b) THEN "joined-flow-not-faithful"
  ELSE IF <<E(e.src), E(e.dst)>> # Split(Join(a, b)) \/ ~e.spliteq THEN "split-does-not-return-endpoints"
  ELSE IF ~e.rejoineq THEN "split-join-not-identity"
  ELSE IF ~e.neweq THEN "NewFlow-and-FlowFromEndpoints-differ"
  ELSE IF F(e.rev) # Reverse(Join(a, b)) \/ ~e.revjoineq THEN "reverse-wrong"
  ELSE IF ~e.revreveq THEN "reverse-not-involution"
  ELSE IF ~e.hrev THEN "flow-and-reverse-hash-differently"
  ELSE "ok"

\* a pair of flows
JudgeFPair(e) ==
  LET f == F(e.f)  g == F(e.g) IN
  IF e.eq # FEq(f, g) THEN "flow-equality-wrong"
  ELSE IF e.mapn # (IF FEq(f, g) THEN 1 ELSE 2) THEN "flow-map-key-wrong"
  ELSE IF MustHashAlike(f, g) /\ ~e.heq THEN "same-hash-class-hash-differently"
  ELSE "ok"

\* the endpoint type each flow-exposing layer of the library reports (layers/endpoints.go)
LayerEPType == [lt \in {"Ethernet", "FDDI", "Linux SLL", "Linux SLL2", "IPv4", "IPv6", "TCP", "UDP", "SCTP",
                        "RUDP", "UDPLite", "PPP"} |->
                 CASE lt \in {"Ethernet", "FDDI", "Linux SLL", "Linux SLL2"} -> 3
                   [] lt = "IPv4" -> 1 [] lt = "IPv6" -> 2 [] lt = "TCP" -> 4 [] lt = "UDP" -> 5
                   [] lt = "SCTP" -> 6 [] lt = "RUDP" -> 7 [] lt = "UDPLite" -> 8 [] lt = "PPP" -> 9]

\* a decoded layer: its flow is <<type, the layer's source field, the layer's destination field>>.
\* An address longer than MaxSize cannot be carried; then only a prefix is demanded.
Carries(fb, lb) == IF Constructible(lb) THEN fb = lb ELSE (Len(fb) = MaxSize /\ IsPrefix(fb, lb))
JudgeLayer(e) ==
  IF e.res = "panic" THEN "layer-flow-panics"
  ELSE IF ~Carries(e.f.s, e.src) \/ ~Carries(e.f.d, e.dst) THEN "layer-flow-not-the-layer-addresses"
  ELSE IF e.lt \in DOMAIN LayerEPType /\ e.f.t # LayerEPType[e.lt] THEN "layer-flow-wrong-endpoint-type"
  ELSE "ok"

\* the same packet with source and destination swapped: mutually reversed flows, equal hashes
JudgeSwap(e) ==
  IF e.res = "panic" THEN "layer-flow-panics"
  ELSE IF F(e.g) # Reverse(F(e.f)) THEN "opposite-direction-not-reversed-flow"
  ELSE IF ~e.goeq THEN "reversed-flow-not-equal-as-value"
  ELSE IF ~e.heq THEN "directions-hash-differently"
  ELSE "ok"

Judge(e) ==
  CASE e.op = "ep"    -> JudgeEp(e)
    [] e.op = "fl"    -> JudgeFl(e)
    [] e.op = "epair" -> JudgeEPair(e)
    [] e.op = "join"  -> JudgeJoin(e)
    [] e.op = "fpair" -> JudgeFPair(e)
    [] e.op = "layer" -> JudgeLayer(e)
    [] e.op = "swap"  -> JudgeSwap(e)
    [] e.op = "hang"  -> "hang"
    [] e.op = "panic" -> "panic"
    [] OTHER          -> "unknown-event"

\* ----- the laws themselves (checked by TLC over the universe of FlowGen.tla) --
OrderLaws(a, b, c) ==
  /\ ~Less(a, a)
  /\ (Less(a, b) /\ Less(b, c)) => Less(a, c)
  /\ Eq(a, b) <=> (a = b)                                  \* equality is identity of <<typ, bytes>>
  /\ Cardinality({x \in {1, 2, 3} : CASE x = 1 -> Less(a, b) [] x = 2 -> Eq(a, b) [] x = 3 -> Less(b, a)}) = 1
JoinLaws(a, b) ==
  Joinable(a, b) =>
     /\ Split(Join(a, b)) = <<a, b>>
     /\ Reverse(Join(a, b)) = Join(b, a)
FlowLaws(f, g) ==
  /\ Reverse(Reverse(f)) = f
  /\ Join(Src(f), Dst(f)) = f
  /\ FEq(f, g) <=> (f = g)
  /\ FEq(f, g) <=> (Eq(Src(f), Src(g)) /\ Eq(Dst(f), Dst(g)))
  /\ MustHashAlike(f, Reverse(f))
  /\ FEq(f, g) => MustHashAlike(f, g)
  /\ MustHashAlike(f, g) <=> (FEq(f, g) \/ FEq(f, Reverse(g)))
  /\ MustHashAlike(f, g) <=> MustHashAlike(g, f)
=============================================================================
