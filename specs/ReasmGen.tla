------------------------------ MODULE ReasmGen ------------------------------
(***************************************************************************)
(* Scenario generator for the two TCP assemblers plus an IDEAL assembler.  *)
(*                                                                         *)
(* A scenario is a bounded sequence of operations on one connection:       *)
(*   <<"seg", d, lo, hi, syn, fin>>  a segment carrying stream bytes        *)
(*                                   [lo,hi) of direction d                 *)
(*   <<"rst", d, p>>                 an empty RST segment at offset p       *)
(*   <<"flushall">>, <<"flusholder", t>>                                    *)
(* Operation i carries timestamp i.  TLC enumerates every scenario up to   *)
(* the bounds; each is exported and replayed on the real assemblers.       *)
(* The ideal assembler (deliver what is contiguous at once, release the    *)
(* lowest buffered run on flush with the exact gap as skip) runs inside    *)
(* the model and its deliveries are judged by Reasm!Judge: TLC thereby     *)
(* checks that the property-level specification is satisfiable by a        *)
(* correct assembler for every scenario (no over-strict clause).           *)
(***************************************************************************)
EXTENDS Reasm, Json

CONSTANTS L,          \* stream length (units)
          Dirs,       \* set of directions used, e.g. {0} or {0,1}
          MaxOps,     \* scenario length
          MaxSegLen   \* longest segment

VARIABLES ops,        \* the scenario so far
          ideal,      \* [d -> [started, next, buf, fins, ended]]
          st,         \* Reasm state fed with the ideal assembler's events
          verdicts    \* reasons # "ok" produced by Judge on the ideal assembler's events
gvars == <<ops, ideal, st, verdicts>>

NewIdeal == [started |-> FALSE, next |-> 0, buf |-> {}, fins |-> {}, ended |-> FALSE]

\* feed a sequence of events through Judge, collecting rejections
RECURSIVE Feed(_, _, _, _)
Feed(s, evs, i, bad) ==
  IF i > Len(evs) THEN <<s, bad>>
  ELSE LET r == Judge(s, evs[i])
       IN Feed(r[2], evs, i + 1, IF r[1] = "ok" THEN bad ELSE Append(bad, <<r[1], evs[i]>>))

MinOf(S) == CHOOSE x \in S : \A y \in S : x <= y
\* end of the maximal run of consecutive offsets in S starting at a
RECURSIVE RunEnd(_, _)
RunEnd(a, S) == IF a \in S THEN RunEnd(a + 1, S) ELSE a

SegEv(d, lo, hi, syn, fin, rst, ts) ==
  [op |-> "seg", c |-> 1, d |-> d, lo |-> lo, hi |-> hi, syn |-> syn, fin |-> fin, rst |-> rst,
   force |-> FALSE, ts |-> ts]
SGEv(d, a, b, skip, end) ==
  [op |-> "sg", c |-> 1, d |-> d, srun |-> <<>>, nrun |-> (IF b > a THEN << <<a, b>> >> ELSE <<>>),
   skip |-> skip, end |-> end, keep |-> -1]

\* ideal reaction of half h to contiguous data: returns <<h', events>>
DeliverContig(h, d) ==
  IF ~h.started \/ h.ended THEN <<h, <<>>>>
  ELSE LET m0 == RunEnd(h.next, h.buf)
           fin == \E f \in h.fins : f >= h.next /\ f <= m0
           \* the stream ends at the first FIN reached; bytes beyond it are not part of the stream
           m == IF fin THEN MinOf({f \in h.fins : f >= h.next /\ f <= m0}) ELSE m0
       IN IF m = h.next /\ ~fin THEN <<h, <<>>>>
          ELSE <<[h EXCEPT !.next = m, !.buf = {x \in h.buf : x >= m}, !.ended = fin],
                 << SGEv(d, h.next, m, 0, fin) >> >>

\* ideal flush of one half: release lowest buffered run, repeat (bounded by L)
RECURSIVE FlushHalf(_, _, _)
FlushHalf(h, d, evs) ==
  IF h.ended \/ h.buf = {} THEN <<h, evs>>
  ELSE LET a == MinOf(h.buf)
           m0 == RunEnd(a, h.buf)
           fin == \E f \in h.fins : f > a /\ f <= m0
           m == IF fin THEN MinOf({f \in h.fins : f > a /\ f <= m0}) ELSE m0
           skip == IF h.started THEN a - h.next ELSE -1
           h2 == [h EXCEPT !.started = TRUE, !.next = m, !.buf = {x \in h.buf : x >= m}, !.ended = fin]
       IN FlushHalf(h2, d, Append(evs, SGEv(d, a, m, skip, fin)))

Init == /\ ops = <<>>
        /\ ideal = [d \in Dirs |-> NewIdeal]
        /\ st = Judge(NewState, [op |-> "new", c |-> 1])[2]
        /\ verdicts = <<>>

Seg(d, lo, hi, syn, fin, rst) ==
  LET ts == Len(ops) + 1
      h  == ideal[d]
      h1 == IF h.ended THEN h
            ELSE LET hs == IF syn /\ ~h.started THEN [h EXCEPT !.started = TRUE, !.next = 0] ELSE h
                 IN [hs EXCEPT !.buf = @ \cup {x \in lo..(hi - 1) : ~hs.started \/ x >= hs.next},
                               !.fins = IF fin \/ rst THEN @ \cup {hi} ELSE @]
      r  == DeliverContig(h1, d)
      f  == Feed(st, <<SegEv(d, lo, hi, syn, fin, rst, ts)>> \o r[2], 1, verdicts)
  IN /\ ops' = Append(ops, IF rst THEN <<"rst", d, lo>> ELSE <<"seg", d, lo, hi, syn, fin>>)
     /\ ideal' = [ideal EXCEPT ![d] = r[1]]
     /\ st' = f[1] /\ verdicts' = f[2]

FlushAll ==
  LET ds == CHOOSE q \in [1..Cardinality(Dirs) -> Dirs] : \A i, j \in DOMAIN q : i # j => q[i] # q[j]
      RECURSIVE Go(_, _, _)
      Go(i, idl, evs) == IF i > Len(ds) THEN <<idl, evs>>
                         ELSE LET r == FlushHalf(idl[ds[i]], ds[i], <<>>)
                              IN Go(i + 1, [idl EXCEPT ![ds[i]] = [r[1] EXCEPT !.ended = TRUE]], evs \o r[2])
      g == Go(1, ideal, <<>>)
      evs == <<[op |-> "flushb", kind |-> "all", t |-> 0]>> \o g[2]
             \o <<[op |-> "complete", c |-> 1, remove |-> TRUE], [op |-> "flushe", kind |-> "all", t |-> 0]>>
      f == Feed(st, evs, 1, verdicts)
  IN /\ GetC(st, 1).completes = 0
     /\ ops' = Append(ops, <<"flushall">>)
     /\ ideal' = g[1]
     /\ st' = f[1] /\ verdicts' = f[2]

\* the ideal assembler treats an age flush as a no-op on data (allowed: it may keep waiting)
FlushOlder(t) ==
  /\ ops' = Append(ops, <<"flusholder", t>>)
  /\ UNCHANGED <<ideal, st, verdicts>>

Next ==
  /\ Len(ops) < MaxOps
  /\ \/ \E d \in Dirs, lo \in 0..(L - 1), hi \in 1..L :
           /\ lo < hi /\ hi - lo <= MaxSegLen
           /\ \E fin \in {FALSE, TRUE} : (fin => hi = L) /\ Seg(d, lo, hi, FALSE, fin, FALSE)
     \/ \E d \in Dirs, p \in 0..L : Seg(d, p, p, FALSE, FALSE, TRUE)   \* RST (possibly injected) at any position
     \/ \E d \in Dirs : Seg(d, 0, 0, TRUE, FALSE, FALSE)  \* SYN
     \/ FlushAll
     \/ \E t \in {Len(ops), Len(ops) + 1} : t >= 2 /\ FlushOlder(t)

Spec == Init /\ [][Next]_gvars

\* the property-level specification accepts everything the ideal assembler does
PropAcceptsIdeal == verdicts = <<>>

\* every offset the ideal assembler holds is >= next (sanity of the generator itself)
IdealSane == \A d \in Dirs : ideal[d].started => \A x \in ideal[d].buf : x >= ideal[d].next

Export == Len(ops) = MaxOps => PrintT("BEH " \o ToJson(ops))
GenView == <<ops>>
=============================================================================
