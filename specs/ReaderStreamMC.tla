--------------------------- MODULE ReaderStreamMC ---------------------------
EXTENDS ReaderStream, Json
Chunks == {<<l, s>> : l \in {0, 1, 3}, s \in {0, 2}}
BatchSet == {<<c>> : c \in Chunks} \cup {<<c1, c2>> : c1 \in Chunks, c2 \in Chunks}
MC_Batches == {<<>>} \cup {<<b>> : b \in BatchSet} \cup {<<b1, b2>> : b1 \in BatchSet, b2 \in BatchSet}
MC_BatchesSmall == {<<>>} \cup {<<b>> : b \in BatchSet} \cup {<<b1, b2>> : b1 \in {<<c>> : c \in Chunks}, b2 \in BatchSet}

\* export: terminal states only (both sides done), one line per complete behaviour
Export == (apc = "finished" /\ rpc = "done") => PrintT("BEH " \o ToJson([hist |-> hist, prog |-> prog]))
MCView == <<hist, apc, bi, rpc, current, first, closed, lossReported, chClosed, n, readNext, delivered, result>>
=============================================================================
