---------------------------- MODULE DnsNameTrace ----------------------------
(***************************************************************************)
(* Implementation -> model for X23DNS.  Reads trace.ndjson recorded by      *)
(* harness/cmd/dnsname from the real DNS decoder (layers.DNS through        *)
(* gopacket.NewPacket and DecodeFromBytes):                                 *)
(*   {"op":"lay","ctx","at","dlen","tm","pre":[..],"suf":[..]}  the layout  *)
(*   {"op":"case","sc":n,"reg":[..],"a":[kind,names,nums],"b":..,"c":..,     *)
(*      "ec":[error class a, b, c],"h":[digest before, after a, b, c]}      *)
(*   {"op":"abort","sc":n,"left":k}  the driver gave up after repeated      *)
(*      crashes (each of them is in the trace as a case with kind "fatal")  *)
(* data of a case = pre \o reg \o suf, the name under test starts at `at`,  *)
(* the record decoder hands decodeName the first dlen octets.               *)
(* Two judgements per case, as in TcpFSMTrace:                              *)
(*  - Prop layer (DnsName!Expected / JudgeCase): the only source of         *)
(*    verdicts; one example per distinct (reason, mode, ctx, clause) in     *)
(*    `bad` (capped), all counted in nbad;                                  *)
(*  - Impl layer (DnsName!Predicted = the transcription run to completion   *)
(*    on the same data): kind, error class, names and numbers must be       *)
(*    predicted exactly; misses go to `drift` - reported, never a verdict.  *)
(* The tags of the transcription's decisions met on the recorded inputs     *)
(* are accumulated (branch coverage of the model by the replay).            *)
(***************************************************************************)
EXTENDS DnsName, Json
VARIABLES l, lay, bad, nbad, drift, ndrift, cnt, tags
tvars == <<l, lay, bad, nbad, drift, ndrift, cnt, tags>>
Trace == ndJsonDeserialize("trace.ndjson")

Note(b, rs, cap) == IF rs = <<>> THEN b
                    ELSE IF \E i \in 1..Len(b) : b[i].sig = rs[1].sig THEN b
                    ELSE IF Len(b) < cap THEN Append(b, rs[1]) ELSE b

\* does observation o (error class ec) agree with the prediction p of the transcription?
Agrees(p, o, ec) ==
  IF o[1] = "skip" THEN TRUE
  ELSE IF p.kind = "err" THEN o[1] = "err" /\ ec = p.ec
  ELSE IF o[1] = "ok" THEN o[2] = p.names /\ o[3] = p.nums
  ELSE (p.loose \/ lay.tm) /\ o[1] = "err"

Modes == <<"a", "b", "c">>
Obs(e, m) == IF m = "a" THEN e.a ELSE IF m = "b" THEN e.b ELSE e.c

DriftOf(e, p) ==
  LET ms == {i \in 1..3 : ~Agrees(p, Obs(e, Modes[i]), e.ec[i])} IN
  IF ms = {} THEN <<>>
  ELSE LET i == CHOOSE x \in ms : \A y \in ms : x <= y
           o == Obs(e, Modes[i])
       IN <<[sig |-> <<lay.ctx, Modes[i], p.kind, p.ec, o[1], e.ec[i]>>, sc |-> e.sc, line |-> l, ctx |-> lay.ctx, mode |-> Modes[i],
             want |-> p.kind, wantec |-> p.ec, got |-> o[1], gotec |-> e.ec[i]]>>

BadOf(e, x, j) ==
  IF j[1] = "ok" THEN <<>>
  ELSE <<[sig |-> <<j[1], j[2], lay.ctx, x.why>>, sc |-> e.sc, line |-> l, reason |-> j[1], mode |-> j[2], ctx |-> lay.ctx,
          expect |-> x.kind, why |-> x.why, may |-> x.may]>>

Count(e, x) ==
  [cnt EXCEPT !.cases = @ + 1,
              !.must_err = @ + (IF x.kind = "err" THEN 1 ELSE 0),
              !.must_name = @ + (IF x.kind = "name" /\ ~x.may /\ ~lay.tm THEN 1 ELSE 0),
              !.may = @ + (IF x.kind = "name" /\ (x.may \/ lay.tm) THEN 1 ELSE 0),
              !.may_accepted = @ + (IF x.kind = "name" /\ x.may /\ e.b[1] = "ok" THEN 1 ELSE 0),
              !.obs_ok = @ + (IF e.b[1] = "ok" THEN 1 ELSE 0),
              !.obs_err = @ + (IF e.b[1] = "err" THEN 1 ELSE 0)]

TInit == /\ l = 1 /\ lay = NewState /\ bad = <<>> /\ nbad = 0 /\ drift = <<>> /\ ndrift = 0 /\ tags = {}
         /\ cnt = [cases |-> 0, must_err |-> 0, must_name |-> 0, may |-> 0, may_accepted |-> 0, obs_ok |-> 0, obs_err |-> 0, aborted |-> 0]

Step1 ==
  /\ l <= Len(Trace)
  /\ l' = l + 1
  /\ \E e \in {Trace[l]} :
       IF e.op = "lay" THEN lay' = Judge(lay, e)[2] /\ UNCHANGED <<bad, nbad, drift, ndrift, cnt, tags>>
       ELSE IF e.op = "case" THEN
         \E d \in {DataOf(lay, e)} : \E x \in {Expected(lay.ctx, d, lay.at)} : \E p \in {Predicted(lay.ctx, d, lay.at)} :
         \E j \in {JudgeCase(lay, e, x)} : \E dr \in {DriftOf(e, p)} :
           /\ bad' = Note(bad, BadOf(e, x, j), 60)
           /\ nbad' = nbad + (IF j[1] = "ok" THEN 0 ELSE 1)
           /\ drift' = Note(drift, dr, 40)
           /\ ndrift' = ndrift + Len(dr)
           /\ cnt' = Count(e, x)
           /\ tags' = tags \cup p.tags
           /\ UNCHANGED lay
       ELSE /\ cnt' = [cnt EXCEPT !.aborted = @ + 1]
            /\ UNCHANGED <<lay, bad, nbad, drift, ndrift, tags>>
TSpec == TInit /\ [][Step1]_tvars
Done == l = Len(Trace) + 1 =>
          PrintT("VERDICT " \o ToJson([lines |-> Len(Trace), bad |-> bad, nbad |-> nbad, drift |-> drift, ndrift |-> ndrift,
                                       cnt |-> cnt, tags |-> tags, missing |-> ImplTags \ tags]))
=============================================================================
