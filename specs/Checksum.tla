------------------------------ MODULE Checksum ------------------------------
(***************************************************************************)
(* C08 - the independent reference computation of the Internet checksum    *)
(* and the property in functional form: Judge(st, e) returns <<reason,     *)
(* st'>>, reason = "ok" iff observation e of the real code is allowed.     *)
(*                                                                         *)
(* A packet is a sequence of bytes (0..255) that starts at the IP header   *)
(* which encapsulates the checksummed layer; l4off is the byte offset of   *)
(* that layer.  Everything the reference needs is read from these bytes at *)
(* fixed offsets (RFC 791, 8200, 768, 9293, 792, 4443, 2784/1701), never   *)
(* from values of the Go program:                                          *)
(*   IPv4 header : region [0, IHL*4), field at 10, no pseudo-header        *)
(*   TCP         : region = IP payload, field at +16, pseudo-header        *)
(*   UDP         : region = IP payload, field at +6,  pseudo-header;       *)
(*                 a computed 0 is sent as 0xffff; a stored 0 over IPv4    *)
(*                 means "no checksum"                                     *)
(*   ICMPv4      : region = IP payload, field at +2,  no pseudo-header     *)
(*   ICMPv6      : region = IP payload, field at +2,  IPv6 pseudo-header   *)
(*   GRE         : region = IP payload, field at +4 iff the C bit is set   *)
(*                 (otherwise there is no checksum)                        *)
(* The sum is taken word by word with end-around carry (OCAdd), odd        *)
(* lengths are padded with a zero byte, the field itself counts as zero.   *)
(* 32-bit accumulators appear as two 16-bit halves (TLC integers are       *)
(* 32-bit signed); NormOC32 is proved equal to the closed form by Apalache *)
(* (ChecksumFoldMC.tla).                                                   *)
(***************************************************************************)
EXTENDS ChecksumFold, Sequences

B(p, o) == p[o + 1]                      \* byte at 0-based offset o
W(p, o) == 256 * p[o + 1] + p[o + 2]     \* big-endian 16-bit word at offset o

\* one's-complement sum of the words of p[lo, hi) added to acc; the word at offset z counts as zero
RECURSIVE OCSum(_, _, _, _, _)
OCSum(p, o, hi, z, acc) ==
  IF o >= hi THEN acc
  ELSE LET w == IF o = z THEN 0 ELSE IF o + 1 < hi THEN W(p, o) ELSE 256 * B(p, o)
       IN OCSum(p, o + 2, hi, z, OCAdd(acc, w))

Sum16(p, init) == OCSum(p, 0, Len(p), -1, init)
Ref1071(p) == Compl16(Sum16(p, 0))
NormOC32(hi, lo) == OCAdd(hi, lo)        \* = NormOC(hi * 65536 + lo)
Fold(hi, lo) == Compl16(NormOC32(hi, lo))

\* plain integer sum of the words (for the overflow precondition of ComputeChecksum only)
RECURSIVE RawSum(_, _)
RawSum(p, o) == IF o >= Len(p) THEN 0
                ELSE (IF o + 1 < Len(p) THEN W(p, o) ELSE 256 * B(p, o)) + RawSum(p, o + 2)

Protos == {"ip4", "tcp", "udp", "icmp4", "icmp6", "gre"}
ProtoNum(proto) == CASE proto = "tcp" -> 6 [] proto = "udp" -> 17 [] proto = "icmp4" -> 1
                     [] proto = "icmp6" -> 58 [] proto = "gre" -> 47 [] OTHER -> -1
MinHdr(proto) == CASE proto = "tcp" -> 20 [] proto = "udp" -> 8 [] proto = "icmp4" -> 8
                   [] proto = "icmp6" -> 4 [] proto = "gre" -> 4 [] OTHER -> 0

IHL(p) == (B(p, 0) % 16) * 4
L4Len(v, p, off) == IF v = 4 THEN W(p, 2) - off ELSE 40 + W(p, 4) - off
PseudoV4(p, n) == OCSum(p, 12, 20, -1, OCAdd(B(p, 9), n))     \* src, dst, 0:proto, length
PseudoV6(p, n) == OCSum(p, 8, 40, -1, OCAdd(B(p, 6), n))      \* src, dst, 32-bit length (< 65536), 0:0:0:next
Pseudo(v, p, n) == IF v = 4 THEN PseudoV4(p, n) ELSE PseudoV6(p, n)
UsesPseudo(proto) == proto \in {"tcp", "udp", "icmp6"}

\* the bytes are framed the way the event claims (otherwise the harness, not the library, is wrong)
WellFormed(proto, v, p, off) ==
  /\ proto \in Protos /\ v \in {4, 6}
  /\ \A i \in 1..Len(p) : p[i] \in 0..255
  /\ Len(p) >= (IF v = 4 THEN 20 ELSE 40)
  /\ B(p, 0) \div 16 = v
  /\ IF v = 4 THEN IHL(p) >= 20 /\ IHL(p) <= Len(p) /\ W(p, 2) = Len(p)
              ELSE W(p, 4) + 40 = Len(p)
  /\ IF proto = "ip4" THEN v = 4 /\ off = 0
     ELSE /\ off = (IF v = 4 THEN IHL(p) ELSE 40)
          /\ (IF v = 4 THEN B(p, 9) ELSE B(p, 6)) = ProtoNum(proto)
          /\ L4Len(v, p, off) >= MinHdr(proto)
          /\ (proto = "gre" /\ B(p, off) >= 128) => L4Len(v, p, off) >= 8
          /\ (proto = "icmp6") => v = 6
          /\ (proto = "icmp4") => v = 4

HasField(proto, p, off) == proto # "gre" \/ B(p, off) >= 128
FieldOff(proto, off) == CASE proto = "ip4" -> 10 [] proto = "tcp" -> off + 16 [] proto = "udp" -> off + 6
                          [] proto = "gre" -> off + 4 [] OTHER -> off + 2
Stored(proto, p, off) == W(p, FieldOff(proto, off))

Computed(proto, v, p, off) ==
  IF proto = "ip4" THEN Compl16(OCSum(p, 0, IHL(p), 10, 0))
  ELSE LET n == L4Len(v, p, off)
           init == IF UsesPseudo(proto) THEN Pseudo(v, p, n) ELSE 0
       IN Compl16(OCSum(p, off, off + n, FieldOff(proto, off), init))

\* what a sender must write
Expected(proto, v, p, off) ==
  LET c == Computed(proto, v, p, off) IN IF proto = "udp" /\ c = 0 THEN 65535 ELSE c

\* stored values the protocol defines as "the sender generated no checksum"
NoChecksum(proto, v, p, off) ==
  \/ proto = "udp" /\ v = 4 /\ Stored(proto, p, off) = 0
  \/ proto = "gre" /\ ~HasField(proto, p, off)

\* a receiver must accept exactly: the expected value, or "no checksum"
VerifyOK(proto, v, p, off) == NoChecksum(proto, v, p, off) \/ Stored(proto, p, off) = Expected(proto, v, p, off)

-----------------------------------------------------------------------------
\* Events.  st remembers the packet produced by the last "ser" event.
NewState == [p |-> <<>>, proto |-> "", v |-> 0, off |-> 0, ok |-> FALSE]

JudgeFold(e) ==     \* FoldChecksum(chi * 65536 + clo) = out
  IF ~(e.chi \in 0..65535 /\ e.clo \in 0..65535) THEN "harness-bad-event"
  ELSE IF e.out = Fold(e.chi, e.clo) THEN "ok" ELSE "fold-differs"

JudgeSum(e) ==      \* ComputeChecksum(bytes, ihi:ilo) = ohi:olo
  IF ~(\A i \in 1..Len(e.bytes) : e.bytes[i] \in 0..255) \/ ~(e.ihi \in 0..65535 /\ e.ilo \in 0..65535)
  THEN "harness-bad-event"
  ELSE IF e.ihi + ((e.ilo + RawSum(e.bytes, 0)) \div 65536) > 65535
  THEN "ok"           \* the 32-bit accumulator overflows: outside the contract of ComputeChecksum
  ELSE IF NormOC32(e.ohi, e.olo) = Sum16(e.bytes, NormOC32(e.ihi, e.ilo)) THEN "ok" ELSE "sum-differs"

JudgeSer(e) ==      \* serialization with ComputeChecksums wrote these bytes
  IF ~WellFormed(e.proto, e.v, e.bytes, e.off) THEN "harness-malformed"
  ELSE IF ~HasField(e.proto, e.bytes, e.off) THEN "ok"
  ELSE IF Stored(e.proto, e.bytes, e.off) = Expected(e.proto, e.v, e.bytes, e.off) THEN "ok"
  ELSE "written-differs"

\* e.bytes is st.p, or st.p with exactly the bit e.flip = <<offset, bit>> inverted
FlipBit(b, k) == IF (b \div (2 ^ k)) % 2 = 1 THEN b - 2 ^ k ELSE b + 2 ^ k
Derived(st, e) ==
  /\ Len(e.bytes) = Len(st.p) /\ e.proto = st.proto /\ e.v = st.v /\ e.off = st.off
  /\ IF Len(e.flip) = 0 THEN e.bytes = st.p
     ELSE /\ Len(e.flip) = 2 /\ e.flip[1] \in 0..(Len(st.p) - 1) /\ e.flip[2] \in 0..7
          /\ \A i \in 1..Len(st.p) :
               e.bytes[i] = IF i = e.flip[1] + 1 THEN FlipBit(st.p[i], e.flip[2]) ELSE st.p[i]

JudgeVerify(st, e) ==   \* VerifyChecksum of the decoded layer returned (err, valid, correct, actual)
  LET p == e.bytes
      exp == Expected(e.proto, e.v, p, e.off)
      sto == Stored(e.proto, p, e.off)
  IN
  IF ~st.ok \/ ~Derived(st, e) \/ ~WellFormed(e.proto, e.v, p, e.off) THEN "harness-malformed"
  ELSE IF e.err # "" THEN "verify-error"
  ELSE IF HasField(e.proto, p, e.off) /\ e.actual # sto THEN "verify-actual-differs"
  ELSE IF NoChecksum(e.proto, e.v, p, e.off)
       THEN (IF e.valid THEN "ok" ELSE "verify-rejects-nochecksum")
  ELSE IF sto = exp
       THEN (IF ~e.valid THEN "verify-rejects-correct"
             ELSE IF e.correct # exp THEN "verify-correct-differs" ELSE "ok")
  ELSE IF e.valid
       THEN (IF e.proto = "udp" /\ sto = 0 THEN "verify-accepts-zero-udp6" ELSE "verify-accepts-corrupt")
  ELSE IF e.correct # exp THEN "verify-correct-differs"
  ELSE "ok"

\* Packet.VerifyChecksums() on the same bytes (packets IP / e.proto / opaque payload, e.proto # "ip4"): the
\* mismatches are exactly the checksummed layers (IPv4 header, then the layer e.proto) that a receiver must
\* reject, each with the reference value as Correct
ExpMismatch(e) ==
  LET p == e.bytes
      one(proto, off) == IF VerifyOK(proto, e.v, p, off) THEN <<>>
                         ELSE <<[layer |-> proto, correct |-> Expected(proto, e.v, p, off),
                                 actual |-> Stored(proto, p, off)]>>
  IN (IF e.v = 4 THEN one("ip4", 0) ELSE <<>>) \o one(e.proto, e.off)

JudgePVerify(st, e) ==
  IF e.proto = "ip4" \/ ~st.ok \/ ~Derived(st, e) \/ ~WellFormed(e.proto, e.v, e.bytes, e.off) THEN "harness-malformed"
  ELSE IF e.err # "" THEN "pverify-error"
  ELSE LET x == ExpMismatch(e)
           zero6 == e.proto = "udp" /\ e.v = 6 /\ Stored("udp", e.bytes, e.off) = 0
       IN
       IF zero6 /\ Len(e.mism) = 0 THEN "pverify-accepts-zero-udp6"
       ELSE IF Len(x) # Len(e.mism) \/ \E i \in 1..Len(x) : x[i].layer # e.mism[i].layer THEN "pverify-layers-differ"
       ELSE IF \E i \in 1..Len(x) : x[i].correct # e.mism[i].correct \/ x[i].actual # e.mism[i].actual
            THEN "pverify-values-differ"
       ELSE "ok"

Judge(st, e) ==
  CASE e.op = "fold"    -> <<JudgeFold(e), st>>
    [] e.op = "sum"     -> <<JudgeSum(e), st>>
    [] e.op = "ser"     -> LET r == JudgeSer(e) IN
                           <<r, [p |-> e.bytes, proto |-> e.proto, v |-> e.v, off |-> e.off,
                                 ok |-> r # "harness-malformed"]>>
    [] e.op = "verify"  -> <<JudgeVerify(st, e), st>>
    [] e.op = "pverify" -> <<JudgePVerify(st, e), st>>
    [] OTHER            -> <<"harness-unknown-op", st>>
=============================================================================
