----------------------------- MODULE CodecTrace -----------------------------
(* Implementation -> model: validates recorded round trips (C06) against     *)
(* Codec.tla + Wire.tla.  Total: every line is consumed; after a rejection   *)
(* the rest of that case is skipped (next "ser" starts a new case); one      *)
(* example per distinct (reason, source, diagnostic field) is kept (capped). *)
EXTENDS Codec, Json
VARIABLES l, st, bad, nbad, skip, cnt
tvars == <<l, st, bad, nbad, skip, cnt>>
Trace == ndJsonDeserialize("trace.ndjson")
Diag(e) == IF "diff" \in DOMAIN e THEN e.diff ELSE ""
Note(b, r) == IF \E i \in 1..Len(b) : b[i].reason = r.reason /\ b[i].src = r.src /\ b[i].diff = r.diff THEN b
              ELSE IF Len(b) < 600 THEN Append(b, r) ELSE b
TInit == /\ l = 1 /\ st = NewState /\ bad = <<>> /\ nbad = 0 /\ skip = FALSE
         /\ cnt = [ser |-> 0, vacuous |-> 0, dec |-> 0, ser2 |-> 0, laws |-> 0]
Step ==
  /\ l <= Len(Trace)
  /\ l' = l + 1
  /\ LET e == Trace[l] IN
     IF skip /\ e.op # "ser" THEN UNCHANGED <<st, bad, nbad, skip, cnt>>
     ELSE LET r == Judge(st, e) IN
          /\ st' = r[2]
          /\ cnt' = CASE e.op = "ser" -> [cnt EXCEPT !.ser = @ + 1,
                                             !.vacuous = @ + (IF e.err # "" THEN 1 ELSE 0),
                                             !.laws = @ + (IF e.err = "" THEN Cardinality({i \in 1..Len(e.lay) : HasHdr(e.lay[i])}) ELSE 0)]
                      [] e.op = "dec" -> [cnt EXCEPT !.dec = @ + 1]
                      [] e.op = "ser2" -> [cnt EXCEPT !.ser2 = @ + 1]
                      [] OTHER -> cnt
          /\ IF r[1] = "ok" THEN skip' = FALSE /\ UNCHANGED <<bad, nbad>>
             ELSE /\ nbad' = nbad + 1 /\ skip' = TRUE
                  /\ bad' = Note(bad, [sc |-> (IF "sc" \in DOMAIN e THEN e.sc ELSE 0), line |-> l, op |-> e.op,
                                       reason |-> r[1], src |-> (IF st'.cur.op = "none" THEN "" ELSE st'.cur.src),
                                       diff |-> Diag(e)])
TSpec == TInit /\ [][Step]_tvars
Done == l = Len(Trace) + 1 =>
          PrintT("VERDICT " \o ToJson([lines |-> Len(Trace), bad |-> bad, nbad |-> nbad, cnt |-> cnt]))
=============================================================================
