SPECIFICATION TSpec
CONSTANTS
  MaxLevel = 255
  StrictLen = FALSE
  Shape = "nextafter"
INVARIANT Done
CHECK_DEADLOCK FALSE
