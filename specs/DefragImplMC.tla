---------------------------- MODULE DefragImplMC ----------------------------
(* Model-checking instances of DefragImpl.tla: cut positions, key-2 fragments, configuration grids and scripted
   scenarios (cfg files cannot hold sets of records or tuples). *)
EXTENDS DefragImpl

CONSTANT Seed      \* rotates unit size and configuration grid (VERIF_SEED)

\* cut positions: n units of ub bytes
CutsOf(n, ub) == {i * ub : i \in 0..n}
UnitOf(s) == <<8, 16, 24>>[(s % 3) + 1]
MC_CutsU3 == CutsOf(3, UnitOf(Seed))                \* the bound of DefragGen.tla (U = 3), unit 8 / 16 / 24 bytes by seed
MC_CutsU3x8 == CutsOf(3, 8)
MC_CutsU4 == CutsOf(4, UnitOf(Seed + 1))
MC_CutsU4x8 == CutsOf(4, 8)
MC_CutsU5 == CutsOf(5, UnitOf(Seed + 2))
MC_CutsU6 == CutsOf(6, 8)
\* a datagram whose last fragment is not a multiple of 8 bytes long (MF fragments of 5 bytes are "too small")
MC_CutsTail == {0, 8, 16, 24, 29}
\* the edges of the 16-bit fields: the highest legal fragment offset (8183), the first illegal one (8184), the longest
\* datagram that still fits with a 24-byte header (65511 + 24 = 65535)
MC_CutsEdge == {0, 8, 65464, 65472, 65511}
\* beyond the edge: fragments that end behind byte 65535 of the datagram (oversize sets)
MC_CutsOver == {0, 8, 65464, 65520, 65544}
\* small word size W = 64 (see MC_W64_*): every multiple of 8 up to 72, i.e. fragments may end behind W
MC_CutsW64 == CutsOf(9, 8)

MC_K2 == {<<0, 8, TRUE>>, <<8, 16, FALSE>>}         \* the two halves of a second datagram (interleaving)
MC_K2None == {}

\* configurations: header length 20 / 24 bytes x the component in which key 2 differs from key 1
MC_CfgsAll == [ihl : {5, 6}, kd : 0..3]
MC_CfgsQuick == {[ihl |-> 5, kd |-> Seed % 4], [ihl |-> 6, kd |-> (Seed + 1) % 4]}
\* the other two ways key 2 may differ (so that two quick plans together see all four in every run)
MC_CfgsQuickB == {[ihl |-> 5, kd |-> (Seed + 2) % 4], [ihl |-> 6, kd |-> (Seed + 3) % 4]}
MC_CfgsIhl5 == {[ihl |-> 5, kd |-> Seed % 4]}
MC_CfgsIhl6 == {[ihl |-> 6, kd |-> Seed % 4]}
MC_CfgsBoth == [ihl : {5, 6}, kd : {0}]

\* scripted scenarios (escalations of design-level findings beyond the exhaustive bound)
MC_NoScript == <<>>
\* oversize set: the second fragment ends at byte 20 + 65520 > 65535 of the datagram; securityChecks computes
\* fragOffset + Length in uint16 (65464 + 76 = 4 mod 65536) and lets it through, build returns Length = (20 + 65520) mod 65536 = 4
MC_ScriptOversize == << <<"frag", 1, 0, 65464, TRUE>>, <<"frag", 1, 65464, 65520, FALSE>> >>
\* the same with the counters wrapping onto each other: three fragments, 131008 bytes "received", Current = Highest mod 65536
MC_ScriptOversizeOverlap == << <<"frag", 1, 65464, 65544, FALSE>>, <<"frag", 1, 0, 65464, TRUE>>, <<"frag", 1, 8, 65464, TRUE>> >>
=============================================================================
