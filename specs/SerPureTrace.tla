---------------------------- MODULE SerPureTrace ----------------------------
(* Implementation -> model: validates traces of real SerializeTo calls (C07) *)
(* against SerPure.tla.  Total: every line is consumed; one example per      *)
(* distinct (reason, layer type, options) is kept (capped).                  *)
EXTENDS SerPure, Json
VARIABLES l, st, bad, nbad, ty, hs
tvars == <<l, st, bad, nbad, ty, hs>>
Trace == ndJsonDeserialize("trace.ndjson")
\* one example per (reason, layer type, options, where): `where` is the diagnostic position of the first
\* difference or the panic site - used to keep examples apart, never to decide
Where(e) == IF "diag" \in DOMAIN e THEN <<e.diag.kind, e.diag.hi>>
            ELSE IF "site" \in DOMAIN e THEN <<e.site, 0>> ELSE <<"", 0>>
Note(b, r) == IF \E i \in 1..Len(b) : b[i].reason = r.reason /\ b[i].type = r.type /\ b[i].o = r.o /\ b[i].w = r.w THEN b
              ELSE IF Len(b) < 600 THEN Append(b, r) ELSE b
TInit == l = 1 /\ st = NewState /\ bad = <<>> /\ nbad = 0 /\ ty = "" /\ hs = [n |-> 0, agree |-> 0, dirty |-> 0]
Step ==
  /\ l <= Len(Trace)
  /\ l' = l + 1
  /\ LET e == Trace[l]
         r == Judge(st, e) IN
     /\ st' = r[2]
     /\ ty' = IF e.op = "case" THEN e.type ELSE ty
     /\ hs' = IF e.op = "hist"
              THEN [n |-> hs.n + 1, agree |-> hs.agree + (IF HistAgrees(e) THEN 1 ELSE 0),
                    dirty |-> hs.dirty + (IF HistDirty(e) THEN 1 ELSE 0)]
              ELSE hs
     /\ IF r[1] = "ok" THEN UNCHANGED <<bad, nbad>>
        ELSE /\ nbad' = nbad + 1
             /\ bad' = Note(bad, [sc |-> (IF "sc" \in DOMAIN e THEN e.sc ELSE 0), line |-> l, reason |-> r[1],
                                  type |-> ty, o |-> (IF "o" \in DOMAIN e THEN e.o ELSE -1), w |-> Where(e)])
TSpec == TInit /\ [][Step]_tvars
Done == l = Len(Trace) + 1 =>
          PrintT("VERDICT " \o ToJson([lines |-> Len(Trace), bad |-> bad, nbad |-> nbad, hist |-> hs]))
=============================================================================
