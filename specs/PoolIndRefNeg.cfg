SPECIFICATION PSpec
CONSTANTS
  T = 2
  P = 1
  MaxBig = 0
  SplitLog = TRUE
  LateWrite = FALSE
PROPERTIES AWrongRefines
CHECK_DEADLOCK FALSE
