SPECIFICATION TSpec
CONSTANTS
  Steps = {0}
  MaxScript = 0
INVARIANT Done
CHECK_DEADLOCK FALSE
