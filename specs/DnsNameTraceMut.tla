--------------------------- MODULE DnsNameTraceMut ---------------------------
(* Binding self-test of X23DNS: the trace validator with a deliberately wrong *)
(* Impl layer (DnsNameTraceMut.cfg sets Shape = "nextafter").  Run on a       *)
(* recorded good trace it must report drift (the prediction is corrupted)     *)
(* and no verdict (the Prop layer does not depend on the Impl layer).         *)
EXTENDS DnsNameTrace
=============================================================================
