SPECIFICATION Spec
CONSTANTS
  Progs <- MC_W1
  Bidir = TRUE
  PanicOnRace = FALSE
  KeyCheck = FALSE
  NConn = 4
INVARIANTS Export
VIEW MCView
CHECK_DEADLOCK TRUE
