SPECIFICATION Spec
CONSTANTS
  Progs <- MC_W2
  Bidir = TRUE
  PanicOnRace = FALSE
  KeyCheck = TRUE
  NConn = 4
INVARIANTS IndInv Safe
VIEW MCView
CHECK_DEADLOCK TRUE
