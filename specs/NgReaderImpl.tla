------------------------------ MODULE NgReaderImpl ------------------------------
(***************************************************************************)
(* Implementation-shaped model of the pcapng reader of gopacket/pcapgo     *)
(* (C14, C15): a transcription of /repo/pcapgo/ngread.go (with             *)
(* ngread_dsb.go and ngread_nrb.go) over the byte image of an ABSTRACT     *)
(* block stream (NgReaderImplEnc.tla), bound to the real code by           *)
(* harness/cmd/ngread_impl.                                                *)
(*                                                                         *)
(* What is transcribed, function by function (Go name -> operator):        *)
(*   NgReader.readBytes / discard             ReadN / Discard              *)
(*   getUint16 / getUint32 / getUint64        G16 / G32 / G64              *)
(*   NewNgReader                              NewReader                    *)
(*   readBlock                                ReadBlock                    *)
(*   readOption                               ReadOption                   *)
(*   readData / readDataGrowing               ReadData / Growing           *)
(*   readSectionHeader (RESTART, OPTIONS)     ReadSectionHeader /          *)
(*                                            SecRestart / ShbOptLoop      *)
(*   skipSection                              SkipSection                  *)
(*   firstInterface                           FirstInterface               *)
(*   readInterfaceDescriptor                  ReadInterfaceDescriptor /    *)
(*                                            IdbOptLoop / FinishIface     *)
(*   convertTime                              ConvertTime                  *)
(*   readInterfaceStatistics                  ReadInterfaceStatistics /    *)
(*                                            IsbOptLoop                   *)
(*   readPacketHeader (RESTART, FIND_PACKET)  ReadPacketHeader             *)
(*   readPacketOptions                        PktOptLoop                   *)
(*   checkPacketLengths                       CheckPacketLengths           *)
(*   ReadPacketDataWithOptions                ReadCopy                     *)
(*   ZeroCopyReadPacketDataWithOptions        ReadZero                     *)
(*   readDecryptionSecretsBlock               ReadDsb                      *)
(*   readNameResolutionBlock, readIPAddr,     ReadNrb / NrbLoop / NrbNames *)
(*   readHWAddr                                                            *)
(* ReadPacketData / ZeroCopyReadPacketData are the same calls with the     *)
(* options dropped.  The callbacks of NgReaderOptions are set by the       *)
(* harness and modelled as events (cb).                                    *)
(*                                                                         *)
(* State of the reader = the fields of NgReader the code reads again:      *)
(* position in the stream, byte order, currentBlock (type, remaining       *)
(* length - uint32 arithmetic, see SubU32), currentOption (code, value,    *)
(* capacity of the reused value buffer), the interface table with link     *)
(* type / snap length / resolution / offset / strings, linkType and        *)
(* firstSectionFound, activeSection, ci, ancil, the reusable packet buffer *)
(* of the zero-copy path (capacity, length, identity), counts of secrets   *)
(* and name records.  Allocation identities (ghost) say which slices a     *)
(* returned packet shares with the reader.                                 *)
(*                                                                         *)
(* 32-bit quantities: TLC integers are 32 bit.  Values below 2^30 are      *)
(* exact; larger ones are kept as an order-preserving approximation        *)
(* (Huge).  All that the code does with such a value is compare it or      *)
(* discard that many bytes, which ends in unexpected EOF.  64-bit          *)
(* timestamps are exact (byte limbs).  Resolutions whose divisor exceeds   *)
(* 2^31 in base 2 are outside the model (flag unsup, invariant             *)
(* ModelCoversInput).  gzip input is not transcribed.                      *)
(*                                                                         *)
(* The model emits per reader call exactly what the driver records from    *)
(* the real code: callbacks, then a packet (interface, link type,          *)
(* timestamp, lengths, data checksum, option contents) or the end (eof /   *)
(* ueof / error class), finally the interface table.  ImplSatisfiesProp:   *)
(* for a stream the real NgWriter produces, PcapFile!Judge accepts the     *)
(* full read (JudgeRead, JudgeMeta) and every truncated read (JudgeCuts);  *)
(* for every stream NgReader!JudgeR (the envelope of C15) accepts.         *)
(* Constants switch the shapes the code had before its fix: commits        *)
(* (CheckOptLen a6be975, ZeroLenResets 6e4acd8, CheckPktLen bac4e1f).      *)
(* Every decision of the code is tagged (Tag); the export prints, besides  *)
(* a hash-selected slice of all complete runs, one run per distinct set of *)
(* decisions taken in a call.                                              *)
(***************************************************************************)
EXTENDS NgReaderImplEnc

CONSTANTS
  Heads,           \* set of first blocks of a stream
  Alphabet,        \* set of blocks that may follow
  MaxBlocks,       \* longest stream
  Cfgs,            \* set of configurations [mixed, errmis, skipver, zero]: NgReaderOptions + which read call
  CutDeltas,       \* truncation offsets explored besides "no cut": for every block b, Off(b) (boundary) and Off(b) + d,
                   \* End(b) - d for d in CutDeltas; {-1} = every offset, {-2} = no truncation at all
  ReadStep,        \* ngReadStep: 65536 in the code
  CheckOptLen,     \* TRUE: option values are length-checked and unsupported resolutions rejected (today); FALSE: before a6be975
  ZeroLenResets,   \* TRUE: a zero-length option has an empty value (today); FALSE: it keeps the previous value (before 6e4acd8)
  CheckPktLen,     \* TRUE: capture / secrets lengths are validated against block and length (today); FALSE: before bac4e1f
  Script,          \* <<>>: every stream within the bounds; otherwise the one stream to run
  FullOnly,        \* TRUE: the reader is started on streams of MaxBlocks blocks only (shorter ones are another plan's)
  RandomStart,     \* TRUE (simulation plans): ONE configuration and truncation per stream, drawn at random, instead of all
  ExportMod, ExportRem,
  ExportSig

ASSUME TLCSet(1, {})

VARIABLES stream,    \* abstract block stream chosen so far
          conf,      \* configuration of this run (element of Cfgs) once the reader is started
          cut,       \* number of bytes of the image the reader gets
          img,       \* those bytes
          full,      \* the whole image and
          ext,       \* the true extent <<kind, offset, length>> of every block (both computed once, when the reader starts)
          rd,        \* the NgReader
          phase,     \* gen | open | read | done
          pred       \* per reader call (NewNgReader first): the events the model predicts
ivars == <<stream, conf, cut, img, full, ext, rd, phase, pred>>

-----------------------------------------------------------------------------
(* results, tags, events *)
R(r) == [rd |-> r, err |-> ""]
E(r, e) == [rd |-> r, err |-> e]
Tag(r, t) == [r EXCEPT !.tags = @ \cup {t}, !.atags = @ \cup {t}]
Emit(r, ev) == [r EXCEPT !.evs = Append(@, ev)]
Panic(r, why) == E([Tag(r, "panic-" \o why) EXCEPT !.panic = why], "panic")
\* "if err != nil { return err }" with the error class kind ("" = the error itself) and the decision name tg
Bind(a, tg, kind, F(_)) == IF a.err # "" THEN E(IF tg = "" THEN a.rd ELSE Tag(a.rd, tg), IF kind = "" \/ a.err = "panic" THEN a.err ELSE kind) ELSE F(a.rd)

(* 32-bit values *)
HugeBase == 1073741824                          \* 2^30
HugeTop == 1879048191                           \* image of 2^32 - 1
V32(b0, b1, b2, b3) == IF b3 < 64 THEN b0 + 256 * b1 + 65536 * b2 + 16777216 * b3
                       ELSE 805306368 + b3 * 4194304 + b2 * 16384 + b1 * 64 + (b0 \div 4)
IsHuge(v) == v >= HugeBase
SubU32(a, b) == IF IsHuge(a) THEN a ELSE IF a >= b THEN a - b ELSE HugeTop - ((b - a + 3) \div 4)      \* b exact
Min(a, b) == IF a < b THEN a ELSE b
Max(a, b) == IF a > b THEN a ELSE b

(* the stream: bufio.Reader over the (possibly truncated) image *)
ShbType == 168627466
ReadN(r, n) ==                                   \* readBytes(buffer of n bytes): all of them or io.ErrUnexpectedEOF
  IF r.pos + n <= Len(img) THEN R([r EXCEPT !.at = r.pos, !.pos = r.pos + n, !.got = n])
  ELSE E([r EXCEPT !.at = r.pos, !.got = Len(img) - r.pos, !.pos = Len(img)], "ueof")
Discard(r, n) ==                                 \* discard(n): on success currentBlock.length -= n
  IF r.pos + n <= Len(img) THEN R([r EXCEPT !.pos = r.pos + n, !.cbLen = SubU32(@, n)])
  ELSE E([r EXCEPT !.pos = Len(img)], "ueof")
B(p) == img[p + 1]                               \* byte at offset p
G16(r, p) == IF r.be THEN B(p) * 256 + B(p + 1) ELSE B(p) + 256 * B(p + 1)
G32(r, p) == IF r.be THEN V32(B(p + 3), B(p + 2), B(p + 1), B(p)) ELSE V32(B(p), B(p + 1), B(p + 2), B(p + 3))
G64(r, p) == IF r.be THEN [i \in 1..8 |-> B(p + 8 - i)] ELSE [i \in 1..8 |-> B(p + i - 1)]           \* limbs, least significant first
\* uint64(hi)<<32 | uint64(lo) of two 32-bit fields at p and p + 4
HiLo(r, p) == IF r.be THEN [i \in 1..8 |-> B(p + 8 - i)]
              ELSE [i \in 1..8 |-> IF i <= 4 THEN B(p + 4 + i - 1) ELSE B(p + i - 5)]
Bytes(ref) == IF ref[2] = 0 THEN <<>> ELSE SubSeq(img, ref[1] + 1, ref[1] + ref[2])                  \* ref = <<offset, length>>
NoRef == <<0, 0>>

NewIface == [link |-> 0, snap |-> 0, res |-> 0, off |-> U64Zero, mask0 |-> FALSE, unsup |-> FALSE,
             name |-> NoRef, cmt |-> NoRef, descr |-> NoRef, filter |-> NoRef, os |-> NoRef, sec |-> 0, nstat |-> 0]
NewSection == [hw |-> NoRef, os |-> NoRef, app |-> NoRef, cmt |-> NoRef]
NewCi == [ifc |-> 0, s |-> 0, ns |-> 0, cap |-> 0, len |-> 0]
NewRd == [pos |-> 0, at |-> 0, got |-> 0, be |-> FALSE, cbTyp |-> 0, cbLen |-> 0, cbOff |-> 0,
          optCode |-> 0, optVal |-> NoRef, optCap |-> 1024,
          ifaces |-> <<>>, sect |-> NewSection, linkType |-> 0, firstFound |-> FALSE, active |-> FALSE, ci |-> NewCi, ancil |-> 0,
          pbCap |-> 0, pbLen |-> 0, pbId |-> 0, nalloc |-> 0, alloc |-> 0, secrets |-> 0, names |-> 0,
          nsec |-> 0, ret |-> <<>>, evs |-> <<>>, tags |-> {}, atags |-> {}, maxalloc |-> 0, panic |-> "", unsup |-> FALSE]
Alloc(r, n) == [r EXCEPT !.nalloc = @ + 1, !.alloc = IF n >= HugeBase \/ @ >= HugeBase THEN HugeBase ELSE @ + n]        \* make([]byte, n): a fresh array (identity r.nalloc + 1)

-----------------------------------------------------------------------------
(* readBlock: ngread.go:165-193 *)
ReadBlock(r0) ==
  LET a == ReadN(r0, 8) IN
  IF a.err # "" THEN IF a.rd.got = 0 THEN E(Tag(a.rd, "block-eof"), "eof")        \* the only place an EOF is expected
                     ELSE E(Tag(a.rd, "block-ueof-in-header"), "ueof")
  ELSE
  LET r1 == [a.rd EXCEPT !.cbOff = a.rd.at]
      p == r1.at
      typ == G32(r1, p)                                                           \* with the byte order in force
  IN
  IF typ = ShbType
  THEN LET c == ReadN(r1, 4) IN
       IF c.err # "" THEN E(Tag(c.rd, "block-ueof-in-magic"), "ueof")
       ELSE LET q == c.rd.at
                bo == <<B(q), B(q + 1), B(q + 2), B(q + 3)>>
            IN IF bo # <<26, 43, 60, 77>> /\ bo # <<77, 60, 43, 26>> THEN E(Tag([c.rd EXCEPT !.cbTyp = typ], "shb-bad-magic"), "bom")
               ELSE LET r2 == [c.rd EXCEPT !.be = (bo = <<26, 43, 60, 77>>), !.cbTyp = typ]
                    IN R(Tag([r2 EXCEPT !.cbLen = SubU32(SubU32(G32(r2, p + 4), 8), 4)],
                             IF r2.be THEN "shb-big-endian" ELSE "shb-little-endian"))
  ELSE R([r1 EXCEPT !.cbTyp = typ, !.cbLen = SubU32(G32(r1, p + 4), 8)])

(* readOption: ngread.go:196-237 *)
ReadOption(r0) ==
  IF r0.cbLen = 4 THEN R(Tag([r0 EXCEPT !.optCode = 0], "opt-end-faked"))           \* no more options
  ELSE
  Bind(ReadN(r0, 4), "opt-ueof-in-header", "", LAMBDA ra :
  LET r1 == [ra EXCEPT !.cbLen = SubU32(@, 4)]
      code == G16(r1, r1.at)
      length == G16(r1, r1.at + 2)
      r2 == [r1 EXCEPT !.optCode = code]
  IN
  IF code = 0 THEN IF length # 0 THEN E(Tag(r2, "opt-end-with-length"), "eoo-len") ELSE R(Tag(r2, "opt-end"))
  ELSE IF length # 0
  THEN LET r3 == IF length < r2.optCap THEN Tag(r2, "opt-buffer-reused")
                 ELSE Tag([Alloc(r2, length) EXCEPT !.optCap = length], "opt-buffer-grown")
       IN Bind(ReadN(r3, length), "opt-ueof-in-value", "", LAMBDA rb :
          LET r4 == [rb EXCEPT !.optVal = <<rb.at, length>>]
              padding == (4 - (length % 4)) % 4
          IN Bind(IF padding > 0 THEN Discard(r4, padding) ELSE R(r4), "opt-ueof-in-padding", "", LAMBDA rc :
             R(Tag([rc EXCEPT !.cbLen = SubU32(@, length)], IF padding > 0 THEN "opt-padded" ELSE "opt-aligned"))))
  ELSE R(Tag(IF ZeroLenResets THEN [r2 EXCEPT !.optVal = NoRef] ELSE r2, "opt-zero-length")))

(* readData / readDataGrowing: ngread.go:244-271.  buf = [cap, len, id]; returns [rd, err, buf, ref] *)
RECURSIVE Growing(_, _, _, _)
Growing(r, buf, n, first) ==
  IF buf.len >= n THEN [rd |-> r, err |-> "", buf |-> buf, ref |-> <<first, n>>]
  ELSE LET m == Min(n - buf.len, ReadStep)
           a == ReadN(r, m)
       IN IF a.err # "" THEN [rd |-> Tag(a.rd, "data-ueof-while-growing"), err |-> "ueof", buf |-> buf, ref |-> <<first, buf.len>>]
          ELSE LET grown == buf.len + m > buf.cap                                   \* append reallocates
                   r1 == IF grown THEN Alloc(a.rd, buf.len + m) ELSE a.rd
               IN Growing(r1, [cap |-> Max(buf.cap, buf.len + m), len |-> buf.len + m, id |-> IF grown THEN r1.nalloc ELSE buf.id], n, first)
ReadData(r, buf, n) ==
  IF n > buf.cap /\ n > ReadStep
  THEN Growing(Tag(Alloc(r, ReadStep), "data-growing"), [buf EXCEPT !.len = 0], n, r.pos)     \* chunk := make([]byte, ngReadStep)
  ELSE LET r1 == IF buf.cap < n THEN Tag(Alloc(r, n), "data-allocated") ELSE Tag(r, "data-buffer-reused")
           b1 == IF buf.cap < n THEN [cap |-> n, len |-> n, id |-> r1.nalloc] ELSE [buf EXCEPT !.len = n]
           a == ReadN(r1, n)
       IN [rd |-> IF a.err # "" THEN Tag(a.rd, "data-ueof") ELSE a.rd, err |-> a.err, buf |-> b1, ref |-> <<r.pos, IF a.err # "" THEN a.rd.got ELSE n>>]
NilBuf == [cap |-> 0, len |-> 0, id |-> 0]

(* readDecryptionSecretsBlock: ngread_dsb.go:18-39 *)
ReadDsb(r0) ==
  Bind(ReadN(r0, 8), "dsb-ueof-in-header", "dsb-read", LAMBDA ra :
  LET r1 == [ra EXCEPT !.cbLen = SubU32(@, 8)]
      sl == G32(r1, r1.at + 4)
  IN IF CheckPktLen /\ sl > r1.cbLen THEN E(Tag(r1, "dsb-length-exceeds-block"), "dsb-len")
     ELSE LET d == ReadData(IF CheckPktLen THEN r1 ELSE Alloc(r1, sl), NilBuf, sl)
          IN IF d.err # "" THEN E(Tag(d.rd, "dsb-ueof-in-payload"), "dsb-read")
             ELSE R(Tag([d.rd EXCEPT !.cbLen = SubU32(@, sl), !.secrets = @ + 1], "dsb-saved")))

(* readNameResolutionBlock: ngread_nrb.go:64-130 *)
Pad32(n) == (4 - (n % 4)) % 4                                                  \* paddingBytes32b
RECURSIVE NrbNames(_, _)
NrbNames(r, length) ==                                                         \* for length > 0 { r.r.ReadBytes(0) ... }
  IF length <= 0 THEN R(r)
  ELSE LET zs == {i \in r.pos..(Len(img) - 1) : B(i) = 0} IN
       IF zs = {} THEN E(Tag([r EXCEPT !.pos = Len(img)], "nrb-name-unterminated"), "nrb-name")
       ELSE LET z == CHOOSE i \in zs : \A j \in zs : i <= j
            IN NrbNames([r EXCEPT !.pos = z + 1], length - (z + 1 - r.pos))
RECURSIVE NrbLoop(_)
NrbLoop(r0) ==
  IF r0.cbLen = 0 THEN Discard(Tag(r0, "nrb-block-exhausted"), 0)
  ELSE
  Bind(ReadN(r0, 4), "nrb-ueof-in-record-header", "nrb-read", LAMBDA ra :
  LET r1 == [ra EXCEPT !.cbLen = SubU32(@, 4)]
      rt == G16(r1, r1.at)
      rl == G16(r1, r1.at + 2)
      length == Min(rl, r1.cbLen)
      padding == Pad32(length)
      \* readIPAddr reads 4 / 16 bytes and keeps them; readHWAddr reads 6 / 8 bytes and keeps ALL of r.buf (24 bytes)
      addr(n, kept, tg) ==
        Bind(ReadN(r1, n), "nrb-ueof-in-address", "nrb-read", LAMBDA rb :
        LET r2 == [rb EXCEPT !.cbLen = SubU32(@, length)] IN
        Bind(NrbNames(r2, length - kept), "", "", LAMBDA rc :
        Bind(Discard([rc EXCEPT !.names = @ + 1], padding), "nrb-ueof-in-padding", "", LAMBDA rdd : NrbLoop(Tag(rdd, tg)))))
  IN CASE rt = 1 -> addr(4, 4, "nrb-ipv4")
       [] rt = 2 -> addr(16, 16, "nrb-ipv6")
       [] rt = 3 -> addr(6, 24, "nrb-eui48")
       [] rt = 4 -> addr(8, 24, "nrb-eui64")
       [] rt = 0 -> Discard(Tag(r1, "nrb-end-record"), r1.cbLen)                \* DONE: everything behind nrb_record_end
       [] OTHER  -> Bind(Discard(r1, length + padding), "nrb-ueof-in-unknown-record", "nrb-discard", LAMBDA rb : NrbLoop(Tag(rb, "nrb-unknown-record"))))
ReadNrb(r) == NrbLoop(r)

-----------------------------------------------------------------------------
(* readInterfaceDescriptor: ngread.go:413-487 *)
ResBinary(res) == res >= 128
ResExp(res) == res % 128
RECURSIVE IdbOptLoop(_, _)
IdbOptLoop(r0, intf) ==
  LET o == ReadOption(r0) IN
  IF o.err # "" THEN [rd |-> o.rd, err |-> o.err, intf |-> intf]
  ELSE
  LET r == o.rd
      v == r.optVal
      n == v[2]
      next(r2, i2) == IdbOptLoop(r2, i2)
      stop(r2, e) == [rd |-> r2, err |-> e, intf |-> intf]
  IN
  CASE r.optCode = 0  -> [rd |-> r, err |-> "", intf |-> intf]
    [] r.optCode = 2  -> next(Tag(r, "idb-name"), [intf EXCEPT !.name = v])
    [] r.optCode = 1  -> next(Tag(r, "idb-comment"), [intf EXCEPT !.cmt = v])
    [] r.optCode = 3  -> next(Tag(r, "idb-description"), [intf EXCEPT !.descr = v])
    [] r.optCode = 11 -> IF n > 0 THEN next(Tag(r, "idb-filter"), [intf EXCEPT !.filter = <<v[1] + 1, n - 1>>])
                         ELSE IF CheckOptLen THEN next(Tag(r, "idb-filter-empty"), intf)
                         ELSE stop(Panic(r, "slice-bounds-filter").rd, "panic")
    [] r.optCode = 12 -> next(Tag(r, "idb-os"), [intf EXCEPT !.os = v])
    [] r.optCode = 14 -> IF n < 8 THEN IF CheckOptLen THEN stop(Tag(r, "idb-tsoffset-short"), "short-opt")
                                       ELSE next(Tag([r EXCEPT !.unsup = TRUE], "idb-tsoffset-stale"), intf)     \* value[:8] of the reused buffer
                         ELSE next(Tag(r, "idb-tsoffset"), [intf EXCEPT !.off = G64(r, v[1])])
    [] r.optCode = 9  -> IF n < 1 THEN IF CheckOptLen THEN stop(Tag(r, "idb-tsresol-short"), "short-opt")
                                       ELSE stop(Panic(r, "index-tsresol").rd, "panic")
                         ELSE next(Tag(r, "idb-tsresol"), [intf EXCEPT !.res = B(v[1])])
    [] OTHER          -> next(Tag(r, "idb-option-ignored"), intf)
\* the part of readInterfaceDescriptor behind the option loop: default resolution, divisor, scale factors
FinishIface(r, intf0) ==
  LET intf1 == IF intf0.res = 0 THEN [intf0 EXCEPT !.res = 6] ELSE intf0
      e == ResExp(intf1.res)
      bad == (ResBinary(intf1.res) /\ e > 63) \/ (~ResBinary(intf1.res) /\ e > 19)
  IN IF bad /\ CheckOptLen THEN E(Tag(r, "idb-resolution-unsupported"), "tsresol")
     ELSE LET intf2 == [intf1 EXCEPT !.mask0 = bad /\ ResBinary(intf1.res),                  \* 1 << e with e >= 64 is 0
                                     !.unsup = (bad /\ ~ResBinary(intf1.res)) \/ (~bad /\ ResBinary(intf1.res) /\ e > 31),
                                     !.sec = r.nsec]
          IN R(Tag([r EXCEPT !.ifaces = Append(@, intf2)],
                   IF intf0.res = 0 THEN "idb-resolution-default" ELSE IF ResBinary(intf1.res) THEN "idb-resolution-binary" ELSE "idb-resolution-decimal"))
ReadInterfaceDescriptor(r0) ==
  Bind(ReadN(r0, 8), "idb-ueof-in-header", "", LAMBDA ra :
  LET r1 == [ra EXCEPT !.cbLen = SubU32(@, 8)]
      l == IdbOptLoop(r1, [NewIface EXCEPT !.link = G16(r1, r1.at), !.snap = G32(r1, r1.at + 4)])
  IN IF l.err # "" THEN E(l.rd, l.err)
     ELSE Bind(Discard(l.rd, l.rd.cbLen), "idb-ueof-in-rest", "", LAMBDA rb : FinishIface(rb, l.intf)))

(* convertTime: ngread.go:490-493; returns <<seconds (clipped), nanoseconds>> as time.Unix(sec, nsec) normalises them,
   or <<-1, -1>> (panic: divide by zero) *)
TimeOf(ts, res, off, mask0, unsup) ==
  LET e == ResExp(res)
      qr == IF ResBinary(res) THEN Div2(ts, e)
            ELSE IF e <= 9 THEN Div10(ts, e) ELSE Div10(Quot10(ts, e - 9), 9)
      \* ts % secondMask * scaleUp / scaleDown
      frac == IF ResBinary(res)
              THEN IF e < 30 THEN qr[2] * (1000000000 \div Pow2(e)) ELSE qr[2] \div (IF e = 30 THEN 1 ELSE 2)
              ELSE IF e <= 9 THEN qr[2] * Pow10(9 - e) ELSE qr[2]
      sec == U64Add(qr[1], off)
      carry == frac >= 1000000000                                  \* time.Unix normalises
  IN IF mask0 THEN <<-1, -1>>                                     \* integer divide by zero
     ELSE IF unsup THEN <<ClipMark, 0>>
     ELSE <<U64Clip(IF carry THEN U64Add(sec, U64FromInt(1)) ELSE sec), IF carry THEN frac - 1000000000 ELSE frac>>
ConvertTime(r, ifc, ts) == LET f == r.ifaces[ifc + 1] IN TimeOf(ts, f.res, f.off, f.mask0, f.unsup)

(* readInterfaceStatistics: ngread.go:496-551 *)
RECURSIVE IsbOptLoop(_, _)
IsbOptLoop(r0, ifc) ==
  Bind(ReadOption(r0), "", "", LAMBDA r :
  LET n == r.optVal[2] IN
  CASE r.optCode = 0 -> R(r)
    [] r.optCode = 1 -> IsbOptLoop(Tag(r, "isb-comment"), ifc)
    [] r.optCode \in {2, 3} -> IF n < 8 /\ CheckOptLen THEN E(Tag(r, "isb-time-short"), "short-opt")
                               ELSE IF r.ifaces[ifc + 1].mask0 THEN Panic(r, "divide-by-zero")
                               ELSE IsbOptLoop(Tag(r, "isb-time"), ifc)
    [] r.optCode \in {4, 5} -> IF n < 8 /\ CheckOptLen THEN E(Tag(r, "isb-counter-short"), "short-opt")
                               ELSE IsbOptLoop(Tag(r, "isb-counter"), ifc)
    [] OTHER -> IsbOptLoop(Tag(r, "isb-option-ignored"), ifc))
ReadInterfaceStatistics(r0) ==
  Bind(ReadN(r0, 12), "isb-ueof-in-header", "", LAMBDA ra :
  LET r1 == [ra EXCEPT !.cbLen = SubU32(@, 12)]
      ifc == G32(r1, r1.at)
  IN IF ifc >= Len(r1.ifaces) THEN E(Tag(r1, "isb-interface-unknown"), "ifid")
     ELSE IF r1.ifaces[ifc + 1].mask0 THEN Panic(r1, "divide-by-zero")                        \* stats.LastUpdate = convertTime(...)
     ELSE Bind(IsbOptLoop(r1, ifc), "", "", LAMBDA rb :
          Bind(Discard(rb, rb.cbLen), "isb-ueof-in-rest", "", LAMBDA rc :
          R(Emit(Tag([rc EXCEPT !.ifaces[ifc + 1].nstat = @ + 1], "isb-callback"), [op |-> "cb", what |-> "stats", n |-> ifc])))))

-----------------------------------------------------------------------------
(* readSectionHeader, skipSection, firstInterface: ngread.go:275-410 *)
RECURSIVE ShbOptLoop(_, _)
ShbOptLoop(r0, sec) ==
  LET o == ReadOption(r0) IN
  IF o.err # "" THEN [rd |-> o.rd, err |-> o.err, sec |-> sec]
  ELSE LET r == o.rd IN
       CASE r.optCode = 0 -> [rd |-> r, err |-> "", sec |-> sec]
         [] r.optCode = 1 -> ShbOptLoop(Tag(r, "shb-comment"), [sec EXCEPT !.cmt = r.optVal])
         [] r.optCode = 2 -> ShbOptLoop(Tag(r, "shb-hardware"), [sec EXCEPT !.hw = r.optVal])
         [] r.optCode = 3 -> ShbOptLoop(Tag(r, "shb-os"), [sec EXCEPT !.os = r.optVal])
         [] r.optCode = 4 -> ShbOptLoop(Tag(r, "shb-application"), [sec EXCEPT !.app = r.optVal])
         [] OTHER -> ShbOptLoop(Tag(r, "shb-option-ignored"), sec)

RECURSIVE SkipSection(_)
SkipSection(r0) ==
  Bind(ReadBlock(r0), "", "", LAMBDA r :
  IF r.cbTyp = ShbType THEN R(Tag(r, "skip-found-section"))
  ELSE Bind(Discard(r, r.cbLen), "skip-ueof-in-block", "", LAMBDA rb : SkipSection(Tag(rb, "skip-block"))))

RECURSIVE FirstInterface(_)
FirstInterface(r0) ==
  Bind(ReadBlock(r0), "", "", LAMBDA r :
  LET rest(a) == Bind(a, "", "", LAMBDA rb : Bind(Discard(rb, rb.cbLen), "first-ueof-in-block", "", LAMBDA rc : FirstInterface(rc))) IN
  CASE r.cbTyp = 1 ->
         Bind(ReadInterfaceDescriptor(r), "", "", LAMBDA rb :
         IF ~rb.firstFound THEN R(Tag([rb EXCEPT !.linkType = rb.ifaces[1].link, !.firstFound = TRUE], "first-interface-sets-link-type"))
         ELSE IF rb.linkType # rb.ifaces[1].link
              THEN IF conf.errmis THEN E(Tag(rb, "first-interface-mismatch-error"), "linktype")
                   ELSE FirstInterface(Tag(rb, "first-interface-mismatch-continue"))
         ELSE R(Tag(rb, "first-interface-matches")))
    [] r.cbTyp \in {2, 6, 3, 5} -> E(Tag(r, "packet-before-interface"), "no-iface")
    [] r.cbTyp = 10 -> rest(ReadDsb(r))
    [] r.cbTyp = 4  -> rest(ReadNrb(r))
    [] OTHER -> rest(R(Tag(r, "first-block-skipped"))))

RECURSIVE SecRestart(_)
SecRestart(r0) ==
  Bind(ReadN(r0, 12), "shb-ueof-in-header", "", LAMBDA ra :
  LET r1 == [ra EXCEPT !.cbLen = SubU32(@, 12)]
      vMajor == G16(r1, r1.at)
      vMinor == G16(r1, r1.at + 2)
  IN
  IF vMajor # 1 \/ vMinor # 0
  THEN IF ~conf.skipver THEN E(Tag(r1, "shb-version-error"), "version")
       ELSE Bind(Discard(r1, r1.cbLen), "shb-ueof-in-skipped-header", "", LAMBDA rb :
            Bind(SkipSection(rb), "", "", LAMBDA rc : SecRestart(Tag(rc, "shb-version-skipped"))))
  ELSE LET l == ShbOptLoop(r1, NewSection) IN
       IF l.err # "" THEN E(l.rd, l.err)
       ELSE Bind(Discard(l.rd, l.rd.cbLen), "shb-ueof-in-rest", "", LAMBDA rb :
            LET r3 == [rb EXCEPT !.active = TRUE, !.sect = l.sec, !.nsec = @ + 1] IN
            IF ~conf.mixed THEN FirstInterface(Tag(r3, "section-needs-first-interface")) ELSE R(Tag(r3, "section-mixed"))))
ReadSectionHeader(r0) ==
  LET r1 == IF r0.active THEN Emit(Tag(r0, "section-end-callback"), [op |-> "cb", what |-> "secend", n |-> Len(r0.ifaces)]) ELSE r0
  IN SecRestart([r1 EXCEPT !.ifaces = <<>>, !.secrets = 0, !.names = 0, !.active = FALSE])

-----------------------------------------------------------------------------
(* readPacketHeader: ngread.go:556-642 *)
RECURSIVE ReadPacketHeader(_)
AfterFind(r) ==                                                    \* behind FIND_PACKET
  IF ~conf.mixed
  THEN IF r.ifaces[r.ci.ifc + 1].link # r.linkType
       THEN Bind(Discard(r, r.cbLen), "mismatch-ueof-in-block", "", LAMBDA rb :
            IF conf.errmis THEN E(Tag(rb, "packet-link-type-mismatch-error"), "linktype")
            ELSE ReadPacketHeader(Tag(rb, "packet-link-type-mismatch-skipped")))
       ELSE R(Tag(r, "packet-link-type-matches"))
  ELSE R(Tag([r EXCEPT !.ancil = r.ifaces[r.ci.ifc + 1].link], "packet-link-type-ancillary"))
LongPacket(r0, wide) ==                                            \* enhanced packet block (wide) / packet block
  Bind(ReadN(r0, 20), "packet-ueof-in-header", "", LAMBDA ra :
  LET r1 == [ra EXCEPT !.cbLen = SubU32(@, 20)]
      ifc == IF wide THEN G32(r1, r1.at) ELSE G16(r1, r1.at)
  IN IF ifc >= Len(r1.ifaces) THEN E(Tag([r1 EXCEPT !.ci.ifc = ifc], "packet-interface-unknown"), "ifid")
     ELSE LET t == ConvertTime(r1, ifc, HiLo(r1, r1.at + 4)) IN
          IF t[1] = -1 THEN Panic(r1, "divide-by-zero")
          ELSE AfterFind(Tag([r1 EXCEPT !.ci = [ifc |-> ifc, s |-> t[1], ns |-> t[2], cap |-> G32(r1, r1.at + 12), len |-> G32(r1, r1.at + 16)],
                                        !.unsup = @ \/ r1.ifaces[ifc + 1].unsup],
                             IF wide THEN "enhanced-packet" ELSE "obsolete-packet")))
ReadPacketHeader(r0) ==
  Bind(ReadBlock(r0), "", "", LAMBDA r :
  CASE r.cbTyp = 6 -> LongPacket(r, TRUE)
    [] r.cbTyp = 3 ->
         Bind(ReadN(r, 4), "simple-ueof-in-header", "", LAMBDA ra :
         LET r1 == [ra EXCEPT !.cbLen = SubU32(@, 4)]
             len == G32(r1, r1.at)
         IN IF Len(r1.ifaces) = 0 THEN E(Tag(r1, "simple-without-interface"), "no-iface-spb")
            ELSE LET snap == r1.ifaces[1].snap
                     clip == snap # 0 /\ len > snap
                 IN AfterFind(Tag([r1 EXCEPT !.ci = [ifc |-> 0, s |-> ClipMark, ns |-> 0, cap |-> IF clip THEN snap ELSE len, len |-> len]],
                                  IF clip THEN "simple-packet-clipped-to-snaplen" ELSE "simple-packet")))
    [] r.cbTyp = 1 -> Bind(ReadInterfaceDescriptor(r), "", "", LAMBDA rb : ReadPacketHeader(Tag(rb, "interface-added")))
    [] r.cbTyp = 5 -> Bind(ReadInterfaceStatistics(r), "", "", LAMBDA rb : ReadPacketHeader(rb))
    [] r.cbTyp = ShbType -> Bind(ReadSectionHeader(r), "", "", LAMBDA rb : ReadPacketHeader(Tag(rb, "section-changed")))
    [] r.cbTyp = 2 -> LongPacket(r, FALSE)
    [] r.cbTyp = 4 -> Bind(ReadNrb(r), "", "", LAMBDA rb : ReadPacketHeader(rb))
    [] OTHER -> Bind(Discard(r, r.cbLen), "skipped-ueof-in-block", "", LAMBDA rb :
                     ReadPacketHeader(Tag(rb, IF r.cbTyp = 10 THEN "secrets-skipped" ELSE "unknown-block-skipped"))))

(* readPacketOptions: ngread.go:644-705 *)
NoOpts == [cm |-> <<>>, fl |-> -1, hs |-> <<>>, dc |-> -1, pid |-> -1, q |-> -1, vd |-> <<>>]
ClipLE(p, w) ==                                  \* little-endian value of w bytes at p, clipped as the driver clips
  IF \E i \in 4..(w - 1) : B(p + i) # 0 THEN ClipMark
  ELSE IF B(p + 3) >= 128 THEN ClipMark ELSE B(p) + 256 * B(p + 1) + 65536 * B(p + 2) + 16777216 * B(p + 3)
RECURSIVE PktOptLoop(_, _)
PktOptLoop(r0, opts) ==
  LET o == ReadOption(r0) IN
  IF o.err # "" THEN [rd |-> o.rd, err |-> o.err, opts |-> opts]
  ELSE
  LET r == o.rd
      v == r.optVal
      n == v[2]
      short(tg) == IF CheckOptLen THEN [rd |-> Tag(r, tg), err |-> "short-opt", opts |-> opts]
                   ELSE [rd |-> Panic(r, "index-" \o tg).rd, err |-> "panic", opts |-> opts]
  IN
  CASE r.optCode = 0 -> [rd |-> r, err |-> "", opts |-> opts]
    [] r.optCode = 1 -> PktOptLoop(Tag(r, IF n = 0 THEN "epb-comment-empty" ELSE "epb-comment"), [opts EXCEPT !.cm = Append(@, v)])
    [] r.optCode = 2 -> IF n < 4 THEN short("epb-flags-short")
                        \* NgEpbFlags.FromUint32 keeps bits 0-9 and 16-31
                        ELSE PktOptLoop(Tag(r, "epb-flags"),
                                        [opts EXCEPT !.fl = IF B(v[1] + 3) >= 128 THEN ClipMark
                                                            ELSE B(v[1]) + 256 * (B(v[1] + 1) % 4) + 65536 * B(v[1] + 2) + 16777216 * B(v[1] + 3)])
    [] r.optCode = 3 -> IF n < 1 THEN short("epb-hash-empty") ELSE PktOptLoop(Tag(r, "epb-hash"), [opts EXCEPT !.hs = Append(@, v)])
    [] r.optCode = 4 -> IF n < 8 THEN short("epb-dropcount-short") ELSE PktOptLoop(Tag(r, "epb-dropcount"), [opts EXCEPT !.dc = ClipLE(v[1], 8)])
    [] r.optCode = 5 -> IF n < 8 THEN short("epb-packetid-short") ELSE PktOptLoop(Tag(r, "epb-packetid"), [opts EXCEPT !.pid = ClipLE(v[1], 8)])
    [] r.optCode = 6 -> IF n < 4 THEN short("epb-queue-short") ELSE PktOptLoop(Tag(r, "epb-queue"), [opts EXCEPT !.q = ClipLE(v[1], 4)])
    [] r.optCode = 7 -> IF n < 1 THEN short("epb-verdict-empty") ELSE PktOptLoop(Tag(r, "epb-verdict"), [opts EXCEPT !.vd = Append(@, v)])
    [] OTHER -> PktOptLoop(Tag(r, "epb-option-ignored"), opts)

(* checkPacketLengths: ngread.go:708-716 *)
CheckPacketLengths(r) ==
  IF ~CheckPktLen THEN R(r)
  ELSE IF r.ci.cap > r.ci.len THEN E(Tag(r, "caplen-exceeds-length"), "cap-len")
  ELSE IF r.ci.cap > r.cbLen THEN E(Tag(r, "caplen-exceeds-block"), "cap-block")
  ELSE R(r)

\* the packet event: what the driver records of a returned packet
OptHash(opts) == HashBytes(SX!FlattenSeq([i \in 1..Len(opts.hs) |-> Bytes(opts.hs[i]) \o <<256>>])
                           \o <<257>> \o SX!FlattenSeq([i \in 1..Len(opts.vd) |-> Bytes(opts.vd[i]) \o <<256>>]))
PktEvent(r, ref, opts, lt, bufid, ancid) ==
  [op |-> "pkt", ifc |-> r.ci.ifc, lt |-> lt, s |-> r.ci.s, ns |-> r.ci.ns, cap |-> r.ci.cap, len |-> r.ci.len,
   dl |-> ref[2], dh |-> HashBytes(Bytes(ref)), doff |-> ref[1], boff |-> r.cbOff,
   cm |-> [i \in 1..Len(opts.cm) |-> Bytes(opts.cm[i])], fl |-> opts.fl,
   hs |-> [i \in 1..Len(opts.hs) |-> opts.hs[i][2] - 1], dc |-> opts.dc, pid |-> opts.pid, q |-> opts.q,
   vd |-> [i \in 1..Len(opts.vd) |-> opts.vd[i][2] - 1], oh |-> OptHash(opts), buf |-> bufid, anc |-> ancid]
\* the rest of a read call behind the packet data: padding, options (enhanced packets only), rest of the block
Finish(r0, ref, lt, bufid, ancid) ==
  LET r1 == [r0 EXCEPT !.cbLen = SubU32(@, r0.ci.cap)]
      padding == (4 - (r1.ci.cap % 4)) % 4
  IN Bind(IF padding > 0 THEN Discard(Tag(r1, "data-padded"), padding) ELSE R(Tag(r1, "data-aligned")), "data-ueof-in-padding", "", LAMBDA ra :
     LET l == IF ra.cbTyp = 6 THEN PktOptLoop(ra, NoOpts) ELSE [rd |-> Tag(ra, "no-packet-options"), err |-> "", opts |-> NoOpts] IN
     IF l.err # "" THEN E(l.rd, l.err)
     ELSE Bind(Discard(l.rd, l.rd.cbLen), "packet-ueof-in-rest", "", LAMBDA rb :
          R(Emit([rb EXCEPT !.ret = Append(@, [buf |-> bufid, anc |-> ancid])], PktEvent(rb, ref, l.opts, lt, bufid, ancid)))))

(* ReadPacketDataWithOptions: ngread.go:727-757 *)
ReadCopy(r0) ==
  Bind(ReadPacketHeader(r0), "", "", LAMBDA r :
  LET r1 == IF conf.mixed THEN Alloc(r, 16) ELSE r                              \* ci.AncillaryData = make([]interface{}, 1)
      ancid == IF conf.mixed THEN r1.nalloc ELSE -1
      lt == IF conf.mixed THEN r1.ancil ELSE -1
  IN Bind(CheckPacketLengths(r1), "", "", LAMBDA r2 :
     LET d == ReadData(IF CheckPktLen THEN r2 ELSE Alloc(r2, r2.ci.cap), NilBuf, r2.ci.cap) IN       \* before the fix: make([]byte, caplen)
     IF d.err # "" THEN E(d.rd, d.err)
     ELSE Finish(d.rd, d.ref, lt, d.buf.id, ancid)))

(* ZeroCopyReadPacketDataWithOptions: ngread.go:776-810 *)
ReadZero(r0) ==
  Bind(ReadPacketHeader(r0), "", "", LAMBDA r :
  LET lt == IF conf.mixed THEN r.ancil ELSE -1
      ancid == IF conf.mixed THEN 0 ELSE -1                                     \* ci.AncillaryData = r.ancil[:]
  IN Bind(CheckPacketLengths(r), "", "", LAMBDA r2 :
     LET snaplen == r2.ifaces[r2.ci.ifc + 1].snap
         big == IF CheckPktLen THEN r2.pbCap < snaplen /\ r2.ci.cap <= snaplen
                ELSE r2.pbCap < r2.ci.cap
         size == IF CheckPktLen THEN snaplen ELSE Max(snaplen, r2.ci.cap)
         r3 == IF big THEN LET x == Alloc(r2, size) IN Tag([x EXCEPT !.pbCap = size, !.pbLen = size, !.pbId = x.nalloc], "zero-buffer-sized-by-snaplen")
               ELSE Tag(r2, "zero-buffer-kept")
         d == ReadData(r3, [cap |-> r3.pbCap, len |-> r3.pbLen, id |-> r3.pbId], r3.ci.cap)
         r4 == [d.rd EXCEPT !.pbCap = d.buf.cap, !.pbLen = d.buf.len, !.pbId = d.buf.id]
     IN IF d.err # "" THEN E(r4, d.err)
        ELSE Finish(r4, d.ref, lt, d.buf.id, ancid)))

(* NewNgReader: ngread.go:64-107 *)
NewReader ==
  LET r0 == Alloc(NewRd, 1024) IN                                                \* currentOption.value = make([]byte, 1024)
  IF Len(img) < 2 THEN IF Len(img) > 0 THEN E(Tag(r0, "open-partial-magic"), "ueof") ELSE E(Tag(r0, "open-empty"), "eof")
  ELSE IF B(0) = 31 /\ B(1) = 139 THEN E(Tag([r0 EXCEPT !.unsup = TRUE], "open-gzip"), "gzip")
  ELSE Bind(ReadBlock(r0), "", "", LAMBDA r :
       IF r.cbTyp # ShbType THEN E(Tag(r, "open-not-a-section-header"), "magic")
       ELSE ReadSectionHeader(r))

-----------------------------------------------------------------------------
(* the machine: choose a stream, a configuration and a truncation; open; read until the first error *)
CutsOf(X, n) ==
   IF CutDeltas = {-1} THEN 0..n
     ELSE IF CutDeltas = {-2} THEN {n}
     ELSE {n} \cup (UNION {{X[i][2]} \cup {X[i][2] + d : d \in CutDeltas} \cup {X[i][2] + X[i][3] - d : d \in CutDeltas} : i \in 1..Len(X)} \cap (0..n))

\* the final observation: what the harness reads off the reader when the run is over
MetaEvent(r) ==
  [op |-> "meta", link |-> r.linkType, nif |-> Len(r.ifaces),
   ifs |-> [i \in 1..Len(r.ifaces) |-> LET f == r.ifaces[i] IN
              [link |-> f.link, snap |-> f.snap, res |-> f.res, off |-> U64Clip(f.off), name |-> Bytes(f.name), cmt |-> Bytes(f.cmt),
               descr |-> Bytes(f.descr), filter |-> Bytes(f.filter), os |-> Bytes(f.os)]],
   shb |-> <<Bytes(r.sect.app), Bytes(r.sect.cmt), Bytes(r.sect.hw), Bytes(r.sect.os)>>]
EndEvent(kind) == [op |-> "end", kind |-> kind]

Init == /\ stream = <<>> /\ conf = [mixed |-> FALSE, errmis |-> FALSE, skipver |-> FALSE, zero |-> FALSE]
        /\ cut = 0 /\ img = <<>> /\ full = <<>> /\ ext = <<>> /\ rd = NewRd /\ phase = "gen" /\ pred = <<>>

AddBlock == /\ phase = "gen" /\ Len(stream) < (IF Script = <<>> THEN MaxBlocks ELSE Len(Script))
            /\ \E b \in (IF Script # <<>> THEN {Script[Len(stream) + 1]} ELSE IF stream = <<>> THEN Heads ELSE Alphabet) : stream' = Append(stream, b)
            /\ UNCHANGED <<conf, cut, img, full, ext, rd, phase, pred>>
Start == /\ phase = "gen" /\ stream # <<>>
         /\ Script = <<>> \/ Len(stream) = Len(Script)
         /\ (FullOnly /\ Script = <<>>) => Len(stream) = MaxBlocks
         /\ LET im == Image(stream)
                x == Extents(stream)
            IN \E c \in (IF RandomStart THEN {RandomElement(Cfgs)} ELSE Cfgs),
                  k \in (IF RandomStart THEN {RandomElement(CutsOf(x, Len(im)))} ELSE CutsOf(x, Len(im))) :
                 /\ conf' = c /\ cut' = k /\ img' = SubSeq(im, 1, k) /\ full' = im /\ ext' = x
         /\ phase' = "open"
         /\ UNCHANGED <<stream, rd, pred>>
\* one call of the reader; a = its result
After(a) ==
  \* NewNgReader returns no reader with an error: there is nothing to read the interface table off
  LET evs == a.rd.evs \o (IF a.err = "" THEN <<>> ELSE <<EndEvent(a.err), MetaEvent(IF phase = "open" THEN NewRd ELSE a.rd)>>)
  IN /\ rd' = [a.rd EXCEPT !.evs = <<>>, !.tags = {}, !.alloc = 0, !.maxalloc = Max(@, a.rd.alloc)]
     /\ phase' = IF a.err = "" THEN "read" ELSE "done"
     /\ pred' = Append(pred, evs)
     /\ UNCHANGED <<stream, conf, cut, img, full, ext>>
Open == phase = "open" /\ After(LET a == NewReader IN IF a.err = "" THEN E(Emit(a.rd, [op |-> "open"]), "") ELSE a)
Call == phase = "read" /\ After(IF conf.zero THEN ReadZero(rd) ELSE ReadCopy(rd))
Next == AddBlock \/ Start \/ Open \/ Call
Spec == Init /\ [][Next]_ivars

-----------------------------------------------------------------------------
(* what the run looks like to the properties *)
AllEvents == SX!FlattenSeq(pred)
PktEvents == SelectSeq(AllEvents, LAMBDA e : e.op = "pkt")
EndKind == LET es == SelectSeq(AllEvents, LAMBDA e : e.op = "end") IN IF es = <<>> THEN "none" ELSE es[1].kind
\* the three-way classification of the C14 driver (cmd/pcapio ekind) plus panic
EndClass == CASE EndKind \in {"eof", "ueof", "panic", "none"} -> EndKind [] OTHER -> "other"
Meta == LET es == SelectSeq(AllEvents, LAMBDA e : e.op = "meta") IN es[1]

(* C14: PcapFile!Judge on the runs over streams the NgWriter produces *)
JudgeApplies == JudgeWF(stream)
Scn == ScenOf(stream)
DD(i) == "d" \o ToString(i)
OD(i) == "o" \o ToString(i)
\* block index of the i-th packet of the scenario, offset of its data, checksum of its binary options
PktBlocks == SelectSeq([i \in 1..Len(stream) |-> i], LAMBDA i : stream[i].k = "epb")
DataOffOf(i) == ext[PktBlocks[i]][2] + 28
SrcOptHash(b) ==
  LET hs == SelectSeq(b.opts, LAMBDA o : o.c = 3)
      vd == SelectSeq(b.opts, LAMBDA o : o.c = 7)
  IN HashBytes(SX!FlattenSeq([i \in 1..Len(hs) |-> OptVal("epb", hs[i], FALSE) \o <<256>>]) \o <<257>>
               \o SX!FlattenSeq([i \in 1..Len(vd) |-> OptVal("epb", vd[i], FALSE) \o <<256>>]))
\* the j-th returned packet as an event of cmd/pcapio, attributed to packet i of the scenario
AsPk(e, i) ==
  LET dd == IF e.doff = DataOffOf(i) /\ e.dl = stream[PktBlocks[i]].dn THEN DD(i) ELSE "x"
  IN [cap |-> e.cap, len |-> e.len, dl |-> e.dl, dd |-> dd, td |-> <<e.cap, e.len, e.dl, e.ifc, e.s, e.ns, e.lt, dd>>,
      od |-> IF e.oh = SrcOptHash(stream[PktBlocks[i]]) THEN OD(i) ELSE "x",
      s |-> e.s, ns |-> e.ns, ifc |-> e.ifc, lt |-> e.lt, cm |-> [k \in 1..Len(e.cm) |-> ToStr(e.cm[k])], fl |-> e.fl, hs |-> e.hs,
      dc |-> e.dc, pid |-> e.pid, q |-> e.q, vd |-> e.vd]
IdealTd(sc, mix, i) == LET it == Packets(sc)[i] IN
                       <<it.cap, it.len, it.cap, it.ifc, it.s, it.ns, IF mix THEN LinkOf(sc, it) ELSE -1, DD(i)>>
JudgeState(sc) == [NewState EXCEPT !.sc = sc, !.B = Blocks(sc), !.filed = TRUE,
                                   !.wdd = [i \in 1..Len(Packets(sc)) |-> DD(i)], !.wod = [i \in 1..Len(Packets(sc)) |-> OD(i)]]
Mode == IF conf.zero THEN "optz" ELSE "optc"
C14Verdicts ==
  IF ~JudgeApplies THEN <<>>
  ELSE
  LET sc == Scn
      st0 == JudgeState(sc)
      idx == Expected(sc, conf.mixed)
      P == PktEvents
      pk == [j \in 1..Len(P) |-> AsPk(P[j], IF j <= Len(idx) THEN idx[j] ELSE 1)]
      layout == IF FileLenB(st0.B) # Len(full) \/ [i \in 1..Len(st0.B) |-> <<st0.B[i].off, st0.B[i].len>>] # [i \in 1..Len(stream) |-> <<ext[i][2], ext[i][3]>>]
                THEN <<<<"layout-differs-from-PcapFile", "layout">>>> ELSE <<>>
  IN layout \o
  (IF cut = Len(full)
   THEN \* the full read; with ErrorOnMismatchingLinkType the skipped packets are an error by configuration
        IF conf.errmis /\ ~conf.mixed /\ sc.mixed THEN <<>>
        ELSE LET a == JudgeRead(st0, [op |-> "read", mode |-> Mode, mix |-> conf.mixed, pk |-> pk, end |-> EndClass, link |-> Meta.link])
                 b == JudgeMeta(st0, [op |-> "meta", shb |-> [i \in 1..4 |-> ToStr(Meta.shb[i])],
                                      ifs |-> [i \in 1..Len(Meta.ifs) |-> LET f == Meta.ifs[i] IN
                                                 [link |-> f.link, snap |-> f.snap, name |-> ToStr(f.name), cmt |-> ToStr(f.cmt), descr |-> ToStr(f.descr),
                                                  filter |-> ToStr(f.filter), os |-> ToStr(f.os), tsoff |-> f.off, res |-> f.res]]])
             IN (IF a[1] = "ok" THEN <<>> ELSE <<<<a[1], "read">>>>) \o (IF b[1] = "ok" THEN <<>> ELSE <<<<b[1], "meta">>>>)
   ELSE \* a truncated read: judged when no packet is dropped by configuration
        IF sc.mixed /\ ~conf.mixed THEN <<>>
        ELSE LET st1 == [st0 EXCEPT !.td = [i \in 1..Len(Packets(sc)) |-> IdealTd(sc, conf.mixed, i)],
                                    !.next = [m \in CutModes |-> cut]]
                 a == JudgeCuts(st1, [op |-> "cuts", mode |-> IF conf.zero THEN "zero" ELSE "copy", lo |-> cut, hi |-> cut + 1,
                                      k |-> Len(pk), end |-> EndClass, tds |-> [j \in 1..Len(pk) |-> pk[j].td]])
             IN IF a[1] = "ok" THEN <<>> ELSE <<<<a[1], "cuts">>>>)

(* C15: the envelope NgReader!JudgeR on every run *)
Halves(v) == <<v \div 65536, v % 65536>>
EnvelopeCalls == [j \in 1..Len(PktEvents) |-> LET e == PktEvents[j] IN
                    Halves(e.cap) \o Halves(e.len) \o Halves(e.dl) \o <<ToString(j)>>]
SnapKB == LET m == IF rd.ifaces = <<>> THEN 0 ELSE CHOOSE x \in {rd.ifaces[i].snap : i \in 1..Len(rd.ifaces)} : \A i \in 1..Len(rd.ifaces) : rd.ifaces[i].snap <= x
          IN KB(m)
C15Verdicts ==
  LET grp == [shapes |-> <<[k |-> "whole", n |-> 1], [k |-> "one", n |-> 1], [k |-> "chk", n |-> 1]>>, calls |-> EnvelopeCalls,
              end |-> EndClass, fired |-> FALSE, makb |-> KB(rd.maxalloc), runkb |-> 0, site |-> ""]
      a == JudgeR([present |-> Len(img), open |-> TRUE], [op |-> "mode", rd |-> Mode, snapkb |-> SnapKB, groups |-> <<grp>>])
  IN IF a[1] = "ok" THEN <<>> ELSE <<<<a[1], "envelope">>>>

Verdicts == IF phase = "done" THEN C14Verdicts \o C15Verdicts ELSE <<>>

-----------------------------------------------------------------------------
(* what TLC checks *)
ExpBlock(b) == IF "ts" \in DOMAIN b THEN [b EXCEPT !.ts = TsTab[b.ts]] ELSE b
ExpStream == [i \in 1..Len(stream) |-> ExpBlock(stream[i])]
ExportRecord(name) ==
  [cfg |-> conf, stream |-> ExpStream, cut |-> cut, size |-> Len(full),
   sum |-> (IF Len(full) <= 8192 THEN HashBytes(full) ELSE -1), ext |-> ext,
   wf |-> JudgeApplies /\ full # <<>>, scen |-> (IF JudgeApplies /\ full # <<>> THEN Scn ELSE NoScenario),
   pred |-> pred, verdicts |-> Verdicts, sig |-> rd.atags, inv |-> name]
ExportLine(kind) == PrintT(kind \o ToJson(ExportRecord("")))
Note(name) == PrintT("CEX " \o ToJson(ExportRecord(name))) /\ FALSE

\* the design-level statement: what the code's algorithm returns satisfies C14 (where it applies) and C15
ImplSatisfiesProp == Verdicts = <<>> \/ Note("ImplSatisfiesProp")

Running == phase \in {"read", "done"}
LastEvents == IF pred = <<>> THEN <<>> ELSE pred[Len(pred)]
\* a section change resets the interface table: every interface in it was described in the section being read, and ids are
\* dense (the table is indexed by the id a packet names)
InterfacesOfCurrentSection ==
  (Running => \A i \in 1..Len(rd.ifaces) : rd.ifaces[i].sec = rd.nsec) \/ Note("InterfacesOfCurrentSection")
\* without WantMixedLinkType every returned packet belongs to an interface of the reader's link type
LinkTypeFiltered ==
  ((Running /\ ~conf.mixed) => \A j \in 1..Len(LastEvents) : LastEvents[j].op = "pkt" => rd.ifaces[LastEvents[j].ifc + 1].link = rd.linkType)
  \/ Note("LinkTypeFiltered")
\* what a copying call returns is the caller's: no two returned packets share their data or AncillaryData array with each
\* other or with the reader; what a zero-copy call returns is the reader's packet buffer
ReturnedBuffers ==
  (Running =>
     IF conf.zero THEN (rd.ret # <<>> /\ phase = "read") => rd.ret[Len(rd.ret)].buf = rd.pbId /\ rd.ret[Len(rd.ret)].anc \in {0, -1}
     ELSE \A i \in 1..Len(rd.ret) :
            /\ rd.ret[i].buf # 0 => (rd.ret[i].buf # rd.pbId /\ \A j \in 1..Len(rd.ret) : j # i => rd.ret[j].buf # rd.ret[i].buf)
            /\ conf.mixed => (rd.ret[i].anc > 0 /\ \A j \in 1..Len(rd.ret) : j # i => rd.ret[j].anc # rd.ret[i].anc))
  \/ Note("ReturnedBuffers")
NoPanic == rd.panic = "" \/ Note("NoPanic")
ModelCoversInput == ~rd.unsup \/ Note("ModelCoversInput")

\* An independent reading of the abstract stream (no reader state): for a stream whose framing is intact, every returned
\* packet is the packet block at that position, attributed to the interface with that id OF ITS OWN SECTION, with the
\* timestamp computed with that interface's resolution and offset, the lengths of the block (a simple packet clipped to
\* the first interface's snap length), its data and its options; and the reader is at a block boundary after every call.
Intact(b) == /\ b.dl = 0 /\ b.al < 0 /\ b.eoo # 3
             /\ b.k \in {"epb", "pb"} => b.cap = b.dn
             /\ b.k = "spb" => b.len = b.dn
             /\ b.k = "dsb" => b.sl = b.dn
             /\ b.k = "nrb" => (WfNrb(b) \/ b.recs = <<>>)
             /\ b.k = "unk" => b.typ \notin {1, 2, 3, 4, 5, 6, 10, ShbType}
FramingIntact == \A i \in 1..Len(stream) : Intact(stream[i])
RECURSIVE SectionStart(_)
SectionStart(i) == IF i <= 1 \/ stream[i].k = "shb" THEN i ELSE SectionStart(i - 1)
OwnerOf(i, ifc) == LET s0 == SectionStart(i)
                       idbs == SelectSeq([j \in 1..(i - s0) |-> s0 + j], LAMBDA j : stream[j].k = "idb")
                   IN stream[idbs[ifc + 1]]
IdbRes(b) == LET v == IF Has(b.opts, 9) THEN OptOf(b.opts, 9).v % 256 ELSE 0 IN IF v = 0 THEN 6 ELSE v
IdbOff(b, be) == IF Has(b.opts, 14) THEN Rev(Num(OptOf(b.opts, 14).v, 8, TRUE)) ELSE U64Zero
SourceOf(e) ==                                  \* block index of the block that starts at e.boff
  CHOOSE i \in 1..Len(stream) : ext[i][2] = e.boff
MatchesSource(e) ==
  LET i == SourceOf(e)
      b == stream[i]
      ifc == IF b.k = "spb" THEN 0 ELSE b.ifc
      own == OwnerOf(i, ifc)
      first == OwnerOf(i, 0)
      t == IF b.k = "spb" THEN <<ClipMark, 0>> ELSE TimeOf(U64FromBE(TsTab[b.ts]), IdbRes(own), IdbOff(own, FALSE), FALSE, FALSE)
      cap == IF b.k = "spb" THEN (IF first.snap # 0 /\ b.len > first.snap THEN first.snap ELSE b.len) ELSE b.cap
      cms == IF b.k = "epb" THEN SelectSeq(b.opts, LAMBDA o : o.c = 1) ELSE <<>>
  IN /\ \E j \in 1..Len(stream) : ext[j][2] = e.boff
     /\ b.k \in {"epb", "pb", "spb"}
     /\ e.ifc = ifc /\ e.lt = (IF conf.mixed THEN own.link ELSE -1)
     /\ <<e.s, e.ns>> = t
     /\ e.cap = cap /\ e.len = b.len /\ e.dl = cap
     /\ e.doff = ext[i][2] + (IF b.k = "spb" THEN 12 ELSE 28)
     /\ e.cm = [k \in 1..Len(cms) |-> OptVal("epb", cms[k], FALSE)]
     /\ (b.k = "epb" => e.oh = SrcOptHash(b))
     \* NgEpbFlags keeps bits 0-9 and 16-31 of the flags word
     /\ e.fl = (IF b.k = "epb" /\ Has(b.opts, 2) THEN LET v == OptOf(b.opts, 2).v IN v - ((v \div 1024) % 64) * 1024 ELSE -1)
PacketsMatchSource ==
  ((Running /\ FramingIntact) =>
      /\ \A j \in 1..Len(LastEvents) : LastEvents[j].op = "pkt" => MatchesSource(LastEvents[j])
      /\ (phase = "read" /\ Len(pred) > 1) => (rd.cbLen = 0 /\ \E j \in 1..Len(stream) : ext[j][2] + ext[j][3] = rd.pos))
  \/ Note("PacketsMatchSource")

\* behaviour export (model -> implementation)
CfgCode == (IF conf.mixed THEN 1 ELSE 0) + (IF conf.errmis THEN 2 ELSE 0) + (IF conf.skipver THEN 4 ELSE 0) + (IF conf.zero THEN 8 ELSE 0)
BehHash == IF ExportMod = 1 THEN 0 ELSE (HashBytes(img) * 31 + cut * 7 + CfgCode) % ExportMod
\* besides the hash-selected slice: every run that takes a decision of the code no exported run (of this TLC worker) has taken
Export ==
  phase = "done" =>
    IF BehHash = ExportRem THEN ExportLine("BEH ")
    ELSE IF ExportSig /\ ~(rd.atags \subseteq TLCGet(1)) THEN TLCSet(1, TLCGet(1) \cup rd.atags) /\ ExportLine("SIG ")
    ELSE TRUE
=============================================================================
