SPECIFICATION TSpec
INVARIANT Done
CHECK_DEADLOCK FALSE
