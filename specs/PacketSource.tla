---------------------------- MODULE PacketSource ----------------------------
(***************************************************************************)
(* gopacket.PacketSource, channel interface (packet.go: packetsToChannel,  *)
(* PacketsCtx).  C16.                                                      *)
(*                                                                         *)
(* Impl layer: the background goroutine as a pc-machine with one action    *)
(* per blocking point of the code: loop test `ctx.Err() == nil`, the       *)
(* source read, the select {send | ctx.Done}, the 5 ms sleep after a       *)
(* timeout / temporary error, the deferred close.  The consumer receives,  *)
(* a canceller cancels at any moment.                                      *)
(* Prop layer: delivered packets are a prefix of the packets the source    *)
(* produced (order, no duplicates, nothing lost across transient errors);  *)
(* after an EOF-class error the channel is closed with everything          *)
(* delivered; after cancel at most one further read starts and the         *)
(* channel is eventually closed.                                           *)
(***************************************************************************)
EXTENDS Integers, Sequences, FiniteSets, TLC

CONSTANTS Scripts,   \* set of source scripts: sequences over {"pkt","timeout","temp","eof"}
          K          \* channel capacity (1000 in the code; small here)

VARIABLES src, pos, pc, cur, chan, closed, cancelled, delivered, readsAfterCancel, nextId, produced, ops
vars == <<src, pos, pc, cur, chan, closed, cancelled, delivered, readsAfterCancel, nextId, produced, ops>>

Item(i) == IF i <= Len(src) THEN src[i] ELSE "eof"

Init == /\ src \in Scripts /\ pos = 1 /\ pc = "check" /\ cur = 0 /\ chan = <<>> /\ closed = FALSE
        /\ cancelled = FALSE /\ delivered = <<>> /\ readsAfterCancel = 0 /\ nextId = 1 /\ produced = <<>>
        /\ ops = <<>>

\* for ctx.Err() == nil {
Check == /\ pc = "check"
         /\ pc' = IF cancelled THEN "closing" ELSE "callread"
         /\ UNCHANGED <<src, pos, cur, chan, closed, cancelled, delivered, readsAfterCancel, nextId, produced, ops>>

\* the call into the data source begins (a cancel may have slipped in after the loop test)
ReadStart == /\ pc = "callread" /\ pc' = "reading"
             /\ readsAfterCancel' = IF cancelled THEN readsAfterCancel + 1 ELSE readsAfterCancel
             /\ UNCHANGED <<src, pos, cur, chan, closed, cancelled, delivered, nextId, produced, ops>>

\* packet, err := p.NextPacket() returns
ReadReturn ==
  /\ pc = "reading"
  /\ LET it == Item(pos) IN
     /\ pos' = pos + 1
     /\ ops' = Append(ops, <<"read", it>>)
     /\ CASE it = "pkt" -> /\ pc' = "send" /\ cur' = nextId /\ nextId' = nextId + 1
                           /\ produced' = Append(produced, nextId)
          [] it \in {"timeout", "temp"} -> pc' = "sleep" /\ UNCHANGED <<cur, nextId, produced>>
          [] OTHER -> pc' = "closing" /\ UNCHANGED <<cur, nextId, produced>>
  /\ UNCHANGED <<src, chan, closed, cancelled, delivered, readsAfterCancel>>

\* select { case p.c <- packet: continue; case <-ctx.Done(): return }
Send == /\ pc = "send" /\ Len(chan) < K
        /\ chan' = Append(chan, cur) /\ pc' = "check"
        /\ UNCHANGED <<src, pos, cur, closed, cancelled, delivered, readsAfterCancel, nextId, produced, ops>>
SendCancelled == /\ pc = "send" /\ cancelled
                 /\ pc' = "closing"
                 /\ UNCHANGED <<src, pos, cur, chan, closed, cancelled, delivered, readsAfterCancel, nextId, produced, ops>>
Sleep == /\ pc = "sleep" /\ pc' = "check"
         /\ UNCHANGED <<src, pos, cur, chan, closed, cancelled, delivered, readsAfterCancel, nextId, produced, ops>>
\* defer close(p.c)
Close == /\ pc = "closing" /\ closed' = TRUE /\ pc' = "exited"
         /\ UNCHANGED <<src, pos, cur, chan, cancelled, delivered, readsAfterCancel, nextId, produced, ops>>

Recv == /\ chan # <<>>
        /\ delivered' = Append(delivered, Head(chan)) /\ chan' = Tail(chan)
        /\ ops' = Append(ops, <<"recv">>)
        /\ UNCHANGED <<src, pos, pc, cur, closed, cancelled, readsAfterCancel, nextId, produced>>

Cancel == /\ ~cancelled /\ cancelled' = TRUE
          /\ ops' = Append(ops, <<"cancel">>)
          \* a read that begins after this point counts; the one in progress does not
          /\ UNCHANGED <<src, pos, pc, cur, chan, closed, delivered, readsAfterCancel, nextId, produced>>

Done == pc = "exited" /\ chan = <<>> /\ UNCHANGED vars

Next == Check \/ ReadStart \/ ReadReturn \/ Send \/ SendCancelled \/ Sleep \/ Close \/ Recv \/ Cancel \/ Done
Fairness == WF_vars(Check) /\ WF_vars(ReadStart) /\ WF_vars(ReadReturn) /\ WF_vars(Send) /\ WF_vars(SendCancelled)
            /\ WF_vars(Sleep) /\ WF_vars(Close) /\ WF_vars(Recv)
Spec == Init /\ [][Next]_vars /\ Fairness

-----------------------------------------------------------------------------
IsPrefix(s, t) == Len(s) <= Len(t) /\ \A i \in 1..Len(s) : s[i] = t[i]

\* order, exactly once, nothing skipped: what left the producer is a prefix of what the source produced
InOrderOnce == IsPrefix(delivered \o chan, produced)
\* a packet is lost only to a cancellation
NothingLost == (pc \in {"check", "callread", "reading", "sleep"} /\ ~cancelled) => delivered \o chan = produced
ClosedMeansDone == (closed /\ ~cancelled) => delivered \o chan = produced
NoSendAfterClose == closed => pc = "exited"
TypeOK == Len(chan) <= K
\* cancelling stops the background reader as soon as its current read returns: at most one read begins afterwards
AtMostOneReadAfterCancel == readsAfterCancel <= 1

\* liveness: once the source reports end of input, or the context is cancelled, the channel gets closed
EofCloses == (\E i \in 1..Len(src) : src[i] = "eof") ~> closed
CancelCloses == cancelled ~> closed
AllDelivered == <>[](closed => chan = <<>>)
=============================================================================
