-------------------------- MODULE DnsNameTraceStrict --------------------------
(* The trace validator of X23DNS with the RFC 1035 2.3.4 clause switched on   *)
(* (DnsNameTraceStrict.cfg sets StrictLen = TRUE): a name whose expansion is   *)
(* longer than 255 octets must be refused.  Used with X23_STRICT_LEN=1 to      *)
(* measure the decoder against that clause (the registered check treats such   *)
(* names as `may`).                                                            *)
EXTENDS DnsNameTrace
=============================================================================
