------------------------------ MODULE ParserMC ------------------------------
EXTENDS Parser, Json
\* every kind succeeding; truncating successes; errors (plain and truncating); layers that report an
\* empty payload although bytes follow (plain and truncating); a terminal layer (NextLayerType = Zero)
MC_Steps == {0, 16, 32, 48} \cup {1, 33} \cup {4, 20, 37} \cup {144, 176, 129} \cup {34}
\* quick tier: one representative of every class
MC_StepsQuick == {0, 16, 32, 48} \cup {1} \cup {4, 37} \cup {144} \cup {34}

\* behaviour export (model -> implementation): one line per (script, container set), printed where the loop returns
SetSeq(S) == LET RECURSIVE F(_, _)
                 F(t, acc) == IF t > 4 THEN acc ELSE F(t + 1, IF t \in S THEN Append(acc, t) ELSE acc)
             IN F(1, <<>>)
Export == ps.pc = "ret" => PrintT("BEH " \o ToJson([script |-> script, s |-> SetSeq(cset)]))
=============================================================================
