SPECIFICATION Spec
CONSTANTS
  Steps <- MC_Steps
  MaxScript = 3
  MaxProg = 1
INVARIANTS LazyEqualsEager Export
CHECK_DEADLOCK FALSE
