-------------------------------- MODULE Pool --------------------------------
(***************************************************************************)
(* The packet pool protocol of NewPacket(Pool: true) / PooledPacket.Dispose *)
(* (C04 c).                                                                *)
(*                                                                         *)
(* PROPERTY (PoolProp.tla, PJudge(st, e) returns <<reason, st'>>): the     *)
(* caller-visible events are                                               *)
(*   got(pkt, block, same)      logged AFTER NewPacket returned; block     *)
(*                              names the backing array of Data(); same =  *)
(*                              Data() equals the input                    *)
(*   disposing(pkt, canary)     logged BEFORE Dispose is called; canary =  *)
(*                              Data() still equals the input              *)
(*   release(pkt, canary)       the caller lets go of a packet that is not *)
(*                              a PooledPacket (input larger than a block) *)
(* Between got and disposing/release the packet is certainly undisposed    *)
(* (conservative live interval).  NoAlias: no two such packets name the    *)
(* same block; and their content never changes.                            *)
(*                                                                         *)
(* PROTOCOL MODEL (Impl): T threads x P packets.  `free` is the set of     *)
(* blocks in the pool.  Get may return ANY free block or a fresh one -     *)
(* that is all sync.Pool promises (it may also drop blocks, which only     *)
(* removes choices).  CopyIn writes the input into the block.  Dispose     *)
(* puts the block back.  A packet longer than a block gets private memory  *)
(* and is never returned.  Each thread performs its operations in one of   *)
(* the valid orders (Dispose(p) after New(p)); TLC explores every          *)
(* interleaving of the sub-steps, including the two log points, checks     *)
(* NoAlias / FreeDisjoint / ContentOK on the real live intervals and that  *)
(* PJudge accepts the logged events of this ideal pool.                    *)
(* Double Dispose is caller misuse and outside the model.                  *)
(***************************************************************************)
EXTENDS PoolProp

----------------------------------------------------------------------------
\* Protocol model
CONSTANTS T, P,
          MaxBig,    \* how many packets may exceed the pool block size
          LateWrite, \* TRUE: the ERRONEOUS protocol "Dispose = Put; then write to the block once more" (a mutant,
                     \* used only to show that NoAlias / ContentOK / PJudge catch it; FALSE everywhere else)
          SplitLog   \* TRUE: the two log points are separate steps (log skew explored); FALSE: logged atomically
VARIABLES order,    \* thread -> sequence of <<"N"|"D", i>>
          big,      \* packet -> BOOLEAN (input longer than a pool block)
          pos,      \* thread -> index of the current operation in order[t]
          sub,      \* thread -> sub-step inside the current operation
          free,     \* blocks in the pool
          nblk,     \* blocks created so far (fresh ids are nblk + 1)
          hold,     \* packet -> block, from Get until the block is put back / the packet is released
          content,  \* block -> packet whose bytes were copied in last (0 = none)
          jst, verdicts
pvars == <<order, big, pos, sub, free, nblk, hold, content, jst, verdicts>>

Pkts == (1..T) \X (1..P)
Pid(t, i) == (t - 1) * P + i                \* packet id in events

\* valid per-thread orders: every N(i) and D(i) once, D(i) after N(i), N(1) before N(2) (packets are interchangeable)
Ops == {<<"N", i>> : i \in 1..P} \cup {<<"D", i>> : i \in 1..P}
Perms == {s \in [1..(2 * P) -> Ops] : \A o \in Ops : \E k \in 1..(2 * P) : s[k] = o}
Idx(s, o) == CHOOSE k \in 1..(2 * P) : s[k] = o
ValidOrder(s) == /\ \A i \in 1..P : Idx(s, <<"N", i>>) < Idx(s, <<"D", i>>)
                 /\ \A i \in 1..(P - 1) : Idx(s, <<"N", i>>) < Idx(s, <<"N", i + 1>>)
Orders == {s \in Perms : ValidOrder(s)}
RECURSIVE SetToSeq(_)
SetToSeq(S) == IF S = {} THEN <<>> ELSE LET a == CHOOSE x \in S : TRUE IN <<a>> \o SetToSeq(S \ {a})
OrderSeq == SetToSeq(Orders)

\* threads are interchangeable: only non-decreasing assignments of orders to threads are explored
PInit ==
  /\ \E oi \in [1..T -> 1..Len(OrderSeq)] :
        /\ \A t \in 1..(T - 1) : oi[t] <= oi[t + 1]
        /\ order = [t \in 1..T |-> OrderSeq[oi[t]]]
  /\ big \in [Pkts -> BOOLEAN]
  /\ Cardinality({p \in Pkts : big[p]}) <= MaxBig
  /\ pos = [t \in 1..T |-> 1] /\ sub = [t \in 1..T |-> 0]
  /\ free = {} /\ nblk = 0 /\ hold = <<>> /\ content = <<>>
  /\ jst = PNew /\ verdicts = <<>>

Cur(t) == order[t][pos[t]]
Busy(t) == pos[t] <= 2 * P
Advance(t) == pos' = [pos EXCEPT ![t] = @ + 1] /\ sub' = [sub EXCEPT ![t] = 0]
SubStep(t) == sub' = [sub EXCEPT ![t] = @ + 1] /\ UNCHANGED pos
Feed(ev) == LET r == PJudge(jst, ev) IN
            /\ jst' = r[2]
            /\ verdicts' = IF r[1] = "ok" THEN verdicts ELSE Append(verdicts, <<r[1], ev>>)

\* NewPacket, step 1: take a block.  Any free block, or a fresh one; private memory for a big packet.
Get(t) ==
  /\ Busy(t) /\ Cur(t)[1] = "N" /\ sub[t] = 0
  /\ LET p == <<t, Cur(t)[2]>> IN
     \/ /\ ~big[p]
        /\ \E b \in free : free' = free \ {b} /\ hold' = PPut(hold, p, b) /\ UNCHANGED nblk
     \/ /\ hold' = PPut(hold, p, nblk + 1) /\ nblk' = nblk + 1 /\ UNCHANGED free
  /\ SubStep(t) /\ UNCHANGED <<order, big, content, jst, verdicts>>

\* NewPacket, step 2: copy the input into the block
CopyIn(t) ==
  /\ Busy(t) /\ Cur(t)[1] = "N" /\ sub[t] = 1
  /\ LET p == <<t, Cur(t)[2]>> IN
     /\ content' = PPut(content, hold[p], Pid(p[1], p[2]))
     /\ IF SplitLog THEN SubStep(t) /\ UNCHANGED <<jst, verdicts>>
        ELSE Advance(t) /\ Feed([op |-> "got", pkt |-> Pid(p[1], p[2]), block |-> hold[p], same |-> TRUE])
  /\ UNCHANGED <<order, big, free, nblk, hold>>

\* after NewPacket returned: the harness logs Got
LogGot(t) ==
  /\ Busy(t) /\ Cur(t)[1] = "N" /\ sub[t] = 2
  /\ LET p == <<t, Cur(t)[2]>> IN
     Feed([op |-> "got", pkt |-> Pid(p[1], p[2]), block |-> hold[p], same |-> content[hold[p]] = Pid(p[1], p[2])])
  /\ Advance(t) /\ UNCHANGED <<order, big, free, nblk, hold, content>>

\* before Dispose is called: the harness logs Disposing (release for a packet that is not pooled)
LogDisposing(t) ==
  /\ Busy(t) /\ Cur(t)[1] = "D" /\ sub[t] = 0
  /\ LET p == <<t, Cur(t)[2]>> IN
     Feed([op |-> IF big[p] THEN "release" ELSE "disposing", pkt |-> Pid(p[1], p[2]),
           canary |-> content[hold[p]] = Pid(p[1], p[2])])
  /\ SubStep(t) /\ UNCHANGED <<order, big, free, nblk, hold, content>>
  /\ SplitLog

\* Dispose: the block goes back to the pool (private memory just goes away).  In the erroneous variant the
\* disposing packet still uses the block after the Put (it stays in `hold` until its late write is done).
Put(t) ==
  /\ Busy(t) /\ Cur(t)[1] = "D" /\ sub[t] = (IF SplitLog THEN 1 ELSE 0)
  /\ LET p == <<t, Cur(t)[2]>> IN
     /\ free' = IF big[p] THEN free ELSE free \cup {hold[p]}
     /\ IF LateWrite /\ ~big[p]
        THEN UNCHANGED <<content, hold>> /\ sub' = [sub EXCEPT ![t] = 9] /\ UNCHANGED pos
        ELSE content' = PPut(content, hold[p], 0) /\ hold' = PDel(hold, p) /\ Advance(t)
     /\ IF SplitLog THEN UNCHANGED <<jst, verdicts>>
        ELSE Feed([op |-> IF big[p] THEN "release" ELSE "disposing", pkt |-> Pid(p[1], p[2]),
                   canary |-> content[hold[p]] = Pid(p[1], p[2])])
  /\ UNCHANGED <<order, big, nblk>>

\* erroneous variant only: the second write, after the block is already back in the pool
LateWriteStep(t) ==
  /\ LateWrite /\ Busy(t) /\ Cur(t)[1] = "D" /\ sub[t] = 9
  /\ LET p == <<t, Cur(t)[2]>> IN
     /\ content' = PPut(content, hold[p], 0)
     /\ hold' = PDel(hold, p)
  /\ Advance(t) /\ UNCHANGED <<order, big, free, nblk, jst, verdicts>>

PNext == \E t \in 1..T : Get(t) \/ CopyIn(t) \/ LogGot(t) \/ LogDisposing(t) \/ Put(t) \/ LateWriteStep(t)
PSpec == PInit /\ [][PNext]_pvars

----------------------------------------------------------------------------
NoAlias == \A p, q \in DOMAIN hold : p # q => hold[p] # hold[q]
FreeDisjoint == \A p \in DOMAIN hold : hold[p] \notin free
\* once copied in (sub-step >= 2 of its New, or later), a held packet's block carries its bytes
Copied(p) == \/ \E k \in 1..(2 * P) : order[p[1]][k] = <<"N", p[2]>> /\ (k < pos[p[1]] \/ (k = pos[p[1]] /\ sub[p[1]] >= 2))
Disposed(p) == sub[p[1]] = 9 /\ Cur(p[1]) = <<"D", p[2]>>      \* erroneous variant: already put back, late write pending
ContentOK == \A p \in DOMAIN hold : (Copied(p) /\ ~Disposed(p)) => content[hold[p]] = Pid(p[1], p[2])
PropAcceptsIdeal == verdicts = <<>>
AllDone == \A t \in 1..T : ~Busy(t)

=============================================================================
