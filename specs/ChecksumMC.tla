----------------------------- MODULE ChecksumMC -----------------------------
(***************************************************************************)
(* Model side of C08: TLC enumerates small packets of every protocol /     *)
(* IP version, steered so that the computed checksum takes the values      *)
(* 0x0000 (UDP: sent as 0xffff), 0x0001, 0xfffe and ICMPv4's 0xffff, and   *)
(* every single-bit flip of every non-framing byte.  An IDEAL sender (the  *)
(* Go algorithm transcribed: plain accumulator, pseudo-header as in        *)
(* layers/tcpip.go, fold loop) and an IDEAL receiver (the RFC 1071         *)
(* receiver test: the sum over the region INCLUDING the stored field is    *)
(* -0) produce the events, and Checksum!Judge judges them:                 *)
(*   PropAcceptsIdeal  the property is satisfiable and not over-strict     *)
(*   FlipsDetected     the reference rejects every single-bit corruption   *)
(*                     unless it yields a "no checksum" encoding           *)
(*   RejectsCorrupt    an ideal event with one wrong field is rejected     *)
(***************************************************************************)
EXTENDS Checksum, FiniteSets, TLC

CONSTANTS MaxPay,        \* payload lengths 0..MaxPay
          Bits           \* bit positions flipped in every non-framing byte

-----------------------------------------------------------------------------
\* ideal implementation: gopacket.ComputeChecksum / FoldChecksum / pseudoheaderChecksum transcribed
RECURSIVE ImplSum(_, _, _, _)
ImplSum(p, o, hi, csum) ==
  IF o + 1 < hi THEN ImplSum(p, o + 2, hi, csum + 256 * B(p, o) + B(p, o + 1))
  ELSE IF o < hi THEN csum + 256 * B(p, o) ELSE csum
RECURSIVE ImplFold(_)
ImplFold(c) == IF FoldCond(c) THEN ImplFold(FoldBody(c)) ELSE 65535 - c
ImplPseudo(v, p, n, proto) ==
  (IF v = 4 THEN (B(p, 12) + B(p, 14)) * 256 + B(p, 13) + B(p, 15) + (B(p, 16) + B(p, 18)) * 256 + B(p, 17) + B(p, 19)
   ELSE ImplSum(p, 8, 40, 0)) + ProtoNum(proto) + (n % 65536) + (n \div 65536)

\* (SubSeq and \o yield concrete tuples; a [i \in ... |-> ...] function would be re-evaluated lazily on every access)
SetW(p, o, w) == SubSeq(p, 1, o) \o <<w \div 256, w % 256>> \o SubSeq(p, o + 3, Len(p))
RegLo(proto, off) == IF proto = "ip4" THEN 0 ELSE off
RegHi(proto, v, p, off) == IF proto = "ip4" THEN IHL(p) ELSE off + L4Len(v, p, off)
\* raw 32-bit sum over the region as it stands (stored field included)
ImplRaw(proto, v, p, off) ==
  ImplSum(p, RegLo(proto, off), RegHi(proto, v, p, off),
          IF UsesPseudo(proto) THEN ImplPseudo(v, p, L4Len(v, p, off), proto) ELSE 0)
IdealValue(proto, v, p, off) ==         \* what the sender writes (field zeroed first)
  LET c == ImplFold(ImplRaw(proto, v, SetW(p, FieldOff(proto, off), 0), off))
  IN IF proto = "udp" /\ c = 0 THEN 65535 ELSE c
IdealSer(proto, v, p, off) ==
  IF HasField(proto, p, off) THEN SetW(p, FieldOff(proto, off), IdealValue(proto, v, p, off)) ELSE p
IdealValid(proto, v, p, off) ==         \* RFC 1071 receiver test
  IF proto = "gre" /\ ~HasField(proto, p, off) THEN TRUE
  ELSE IF proto = "udp" /\ Stored(proto, p, off) = 0 THEN v = 4
  ELSE ImplFold(ImplRaw(proto, v, p, off)) = 0

-----------------------------------------------------------------------------
\* packets
Bytes(n, x) == <<>> \o [i \in 1..n |-> (x * i * 37 + 11 * i * i) % 256]
IP4(proto, src, dst, n, opt) ==
  LET ihl == 5 + (IF opt THEN 1 ELSE 0)
      tot == ihl * 4 + n
  IN <<64 + ihl, 0, tot \div 256, tot % 256, 18, 52, 0, 0, 64, ProtoNum(proto), 0, 0>> \o src \o dst
     \o (IF opt THEN <<148, 4, 0, 0>> ELSE <<>>)        \* router alert
IP6(proto, src, dst, n) == <<96, 0, 0, 0, n \div 256, n % 256, ProtoNum(proto), 64>> \o src \o dst
A4 == << <<1, 2, 3, 4>>, <<5, 6, 7, 8>>, <<255, 255, 255, 255>>, <<0, 0, 0, 0>> >>
A6(x) == <<>> \o [i \in 1..16 |-> IF x = 0 THEN 0 ELSE IF x = 1 THEN 255 ELSE (i * 17 + x) % 256]
\* (rt: GRE with the C and R bits and one source route entry of ONE octet - a 17-octet header, so that the payload
\* starts at an odd offset of the checksummed region; a sender or receiver that sums header and payload as two
\* separately padded chunks is wrong exactly there)
L4Hdr(proto, n, alt, rt) ==   \* header of the checksummed layer, checksum field zero; n = payload length
  CASE proto = "tcp"   -> <<0, 1, 0, 2, 255, 255, 255, 255, 0, 0, 0, 0, 80, 16, 1, 0, 0, 0, 0, 0>>
    [] proto = "udp"   -> <<0, 1, 0, 2, (8 + n) \div 256, (8 + n) % 256, 0, 0>>
    [] proto = "icmp4" -> IF alt THEN <<0, 0, 0, 0, 0, 0, 0, 0>> ELSE <<8, 0, 0, 0, 18, 52, 0, 1>>
    [] proto = "icmp6" -> <<128, 0, 0, 0>>
    [] proto = "gre"   -> IF alt THEN <<0, 0, 136, 181>>
                          ELSE IF rt THEN <<192, 0, 136, 181, 0, 0, 0, 0, 8, 0, 0, 1, 17, 0, 0, 0, 0>>
                          ELSE <<128, 0, 136, 181, 0, 0, 0, 0>>
    [] OTHER           -> <<>>
Raw(proto, v, n, alt, a, rt) ==
  LET l4 == L4Hdr(proto, n, alt, rt) \o (IF alt /\ proto = "icmp4" THEN [i \in 1..n |-> 0] ELSE Bytes(n, a + 1))
  IN IF proto = "ip4" THEN IP4("udp", A4[1], A4[2], 0, alt) \o <<>>
     ELSE IF v = 4 THEN IP4(proto, A4[1 + a], A4[2 + a], Len(l4), FALSE) \o l4
     ELSE IP6(proto, A6(a), A6(a + 2), Len(l4)) \o l4
Combos == {<<"ip4", 4>>, <<"tcp", 4>>, <<"tcp", 6>>, <<"udp", 4>>, <<"udp", 6>>, <<"icmp4", 4>>,
           <<"icmp6", 6>>, <<"gre", 4>>, <<"gre", 6>>}
Targets == {-1, 0, 1, 65534}     \* -1: unsteered
\* steer the last aligned full word of the region so that the computed checksum becomes T (when possible)
SteerPos(proto, v, p, off) ==
  IF proto = "ip4" THEN 4
  ELSE LET n == L4Len(v, p, off) IN off + n - 2 - (n % 2)
Steer(proto, v, p, off, T) ==
  IF T < 0 THEN p
  ELSE LET o == SteerPos(proto, v, p, off)
           p0 == SetW(p, o, 0)
           c0 == Computed(proto, v, p0, off)
       IN IF proto # "ip4" /\ (o = FieldOff(proto, off) \/ o < off + MinHdr(proto)) THEN p
          ELSE SetW(p0, o, (c0 - T + 65535) % 65535)
Specs == {<<c, n, alt, a, T, rt>> \in Combos \X (0..MaxPay) \X BOOLEAN \X {0, 2} \X Targets \X BOOLEAN :
             /\ (rt => c[1] = "gre" /\ ~alt)
             /\ (alt => c[1] \in {"icmp4", "gre", "ip4"})
             /\ (c[1] = "ip4" => n = 0 /\ a = 0)
             /\ (alt /\ c[1] = "icmp4" => T = -1 /\ a = 0)
             /\ (T >= 0 /\ c[1] # "ip4" => n >= 2)}
Off(c, alt) == IF c[1] = "ip4" THEN 0 ELSE IF c[2] = 4 THEN 20 ELSE 40
\* (built in stages through set comprehensions: a bound variable holds a concrete value, whereas an operator
\* argument is re-evaluated by TLC on every use)
Raws == {[proto |-> s[1][1], v |-> s[1][2], off |-> Off(s[1], s[3]), T |-> s[5],
          p |-> Raw(s[1][1], s[1][2], s[2], s[3], s[4], s[6])] : s \in Specs}
Steered == {[r EXCEPT !.p = Steer(r.proto, r.v, r.p, r.off, r.T)] : r \in Raws}
Sent == {[proto |-> r.proto, v |-> r.v, off |-> r.off, p |-> IdealSer(r.proto, r.v, r.p, r.off)] : r \in Steered}
Pkts == {IF r.v = 4 THEN [r EXCEPT !.p = IdealSer("ip4", 4, r.p, 0)] ELSE r : r \in Sent}

\* byte offsets whose bits may be flipped without touching framing (version, lengths, protocol, fragmentation,
\* header-length and flag fields), and whether the checksum of the layer covers them
Flippable(proto, v, p, off) ==
  LET n == Len(p)
      addr == IF v = 4 THEN 12..19 ELSE 8..39
  IN IF proto = "ip4" THEN {1, 4, 5, 8, 10, 11} \cup addr
     ELSE addr \cup
       (CASE proto = "tcp"   -> ((off..(off + 11)) \cup ((off + 14)..(n - 1)))
          [] proto = "udp"   -> ((off..(off + 3)) \cup ((off + 6)..(n - 1)))
          [] proto = "gre"   -> ((off + 4)..(n - 1))
          [] OTHER           -> ((off + 2)..(n - 1)))
Covered(proto, v, p, off, o) == proto = "ip4" \/ o >= off \/ UsesPseudo(proto)
FlipAt(p, o, b) == SubSeq(p, 1, o) \o <<FlipBit(p[o + 1], b)>> \o SubSeq(p, o + 2, Len(p))

VARIABLES pkt, k, Cur       \* Cur: the packet as the receiver sees it (pkt.p, or pkt.p with bit k flipped)
mvars == <<pkt, k, Cur>>
Init == pkt \in Pkts /\ k = <<>> /\ Cur = pkt.p
Next == /\ k = <<>>
        /\ \E o \in Flippable(pkt.proto, pkt.v, pkt.p, pkt.off), b \in Bits :
              k' = <<o, b>> /\ Cur' = FlipAt(pkt.p, o, b)
        /\ UNCHANGED pkt
Spec == Init /\ [][Next]_mvars
St == [p |-> pkt.p, proto |-> pkt.proto, v |-> pkt.v, off |-> pkt.off, ok |-> TRUE]
SerEv == [op |-> "ser", proto |-> pkt.proto, v |-> pkt.v, off |-> pkt.off, bytes |-> pkt.p]
VerEv(proto, off) ==
  [op |-> "verify", proto |-> proto, v |-> pkt.v, off |-> off, bytes |-> Cur, flip |-> k, err |-> "",
   valid |-> IdealValid(proto, pkt.v, Cur, off), correct |-> IdealValue(proto, pkt.v, Cur, off),
   actual |-> IF HasField(proto, Cur, off) THEN Stored(proto, Cur, off) ELSE 0]
IdealMism ==
  LET one(proto, off) == IF IdealValid(proto, pkt.v, Cur, off) THEN <<>>
                         ELSE <<[layer |-> proto, correct |-> IdealValue(proto, pkt.v, Cur, off),
                                 actual |-> Stored(proto, Cur, off)]>>
  IN (IF pkt.v = 4 THEN one("ip4", 0) ELSE <<>>) \o one(pkt.proto, pkt.off)
PVerEv == [op |-> "pverify", proto |-> pkt.proto, v |-> pkt.v, off |-> pkt.off, bytes |-> Cur, flip |-> k,
           err |-> "", mism |-> IdealMism]

PropAcceptsIdeal ==
  /\ Judge(NewState, SerEv)[1] = "ok"
  /\ Judge(St, VerEv(pkt.proto, pkt.off))[1] = "ok"
  /\ pkt.proto # "ip4" => Judge(St, PVerEv)[1] = "ok"

FlipsDetected ==
  k # <<>> =>
    LET covered == Covered(pkt.proto, pkt.v, pkt.p, pkt.off, k[1])
        nock == NoChecksum(pkt.proto, pkt.v, Cur, pkt.off)
    IN /\ (covered /\ ~nock) => ~VerifyOK(pkt.proto, pkt.v, Cur, pkt.off)
       /\ ~covered => VerifyOK(pkt.proto, pkt.v, Cur, pkt.off)
       /\ VerifyOK(pkt.proto, pkt.v, Cur, pkt.off) = IdealValid(pkt.proto, pkt.v, Cur, pkt.off)

Bump(x) == (x + 1) % 65536
RejectsCorrupt ==
  LET ve == VerEv(pkt.proto, pkt.off)
      has == HasField(pkt.proto, pkt.p, pkt.off)
  IN /\ has => Judge(NewState, [SerEv EXCEPT !.bytes = SetW(pkt.p, FieldOff(pkt.proto, pkt.off),
                                        Bump(Stored(pkt.proto, pkt.p, pkt.off)))])[1] = "written-differs"
     /\ Judge(St, [ve EXCEPT !.valid = ~ve.valid])[1] \notin {"ok", "harness-malformed"}
     /\ (has /\ ~NoChecksum(pkt.proto, pkt.v, Cur, pkt.off)) =>
           /\ Judge(St, [ve EXCEPT !.correct = Bump(ve.correct)])[1] = "verify-correct-differs"
           /\ Judge(St, [ve EXCEPT !.actual = Bump(ve.actual)])[1] = "verify-actual-differs"
     /\ Judge(St, [ve EXCEPT !.bytes = FlipAt(Cur, Len(Cur) - 1, 0)])[1] = "harness-malformed" \/ Len(Cur) = 0

\* special outcomes are really reached inside the model (checked once, on the initial states' set)
ASSUME \E q \in Pkts : q.proto = "udp" /\ q.v = 4 /\ Stored("udp", q.p, q.off) = 65535
ASSUME \E q \in Pkts : q.proto = "udp" /\ q.v = 6 /\ Stored("udp", q.p, q.off) = 65535
ASSUME \E q \in Pkts : q.proto = "tcp" /\ Stored("tcp", q.p, q.off) = 0
ASSUME \E q \in Pkts : q.proto = "icmp4" /\ Stored("icmp4", q.p, q.off) = 65535
ASSUME \E q \in Pkts : q.proto = "gre" /\ ~HasField("gre", q.p, q.off)
ASSUME \E q \in Pkts : q.proto = "gre" /\ B(q.p, q.off) = 192 /\ L4Len(q.v, q.p, q.off) = 19

\* fold / sum: the transcribed Go loop agrees with the reference on boundary accumulators below 2^31
\* (Apalache covers all 2^32) and on all short byte strings over a boundary alphabet
FB == {0, 1, 2, 255, 256, 32767, 32768, 65534, 65535}
ASSUME \A hi \in {x \in FB : x < 32768}, lo \in FB :
         JudgeFold([op |-> "fold", chi |-> hi, clo |-> lo, out |-> ImplFold(hi * 65536 + lo)]) = "ok"
SB == {0, 1, 128, 255}
Strs == UNION {[1..n -> SB] : n \in 0..4}
ASSUME \A s \in Strs, hi \in {0, 1, 32000}, lo \in {0, 65535} :
         LET r == ImplSum(s, 0, Len(s), hi * 65536 + lo)
         IN /\ JudgeSum([op |-> "sum", bytes |-> s, ihi |-> hi, ilo |-> lo, ohi |-> r \div 65536, olo |-> r % 65536]) = "ok"
            /\ JudgeSum([op |-> "sum", bytes |-> s, ihi |-> hi, ilo |-> lo, ohi |-> (r + 1) \div 65536,
                         olo |-> (r + 1) % 65536]) = "sum-differs"
=============================================================================
