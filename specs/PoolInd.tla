------------------------------ MODULE PoolInd ------------------------------
(***************************************************************************)
(* X22IND (a): the packet pool protocol of Pool.tla (C04 c) with the       *)
(* thread programs abstracted away, in a form that TLC, Apalache and TLAPS *)
(* all accept.  Used to lift NoAlias / FreeDisjoint / ContentOK from the   *)
(* bounded TLC result (T threads x P packets) to ANY set of packets, any   *)
(* number of threads and any number of blocks.                             *)
(*                                                                         *)
(* Pool.tla: thread t runs a valid order of N(i) / D(i) operations; the    *)
(* only thing the order contributes to the safety of the pool is that      *)
(* every packet runs Get, CopyIn, Put (, LateWriteStep) once, in this      *)
(* order.  Here every packet is its own little pc-machine                  *)
(*    new -Get-> got -CopyIn-> live -Put-> done      (LateWrite = FALSE)   *)
(*    new -Get-> got -CopyIn-> live -Put-> late -LateWriteStep-> done      *)
(* and packets interleave arbitrarily: every interleaving Pool.tla allows  *)
(* for any T, P, order assignment is an interleaving of this module (the   *)
(* log-only sub-steps stutter).  PoolIndRef.tla lets TLC check exactly     *)
(* that (refinement mapping, bounded constants); PoolIndProof.tla is the   *)
(* TLAPS proof of the invariant for an arbitrary (even infinite) set Pkt;  *)
(* PoolIndApa.tla is the Apalache induction check for |Pkt| <= 4 and the   *)
(* negative control (LateWrite = TRUE: the step fails, with a concrete     *)
(* counterexample to induction).                                           *)
(*                                                                         *)
(* Differences in representation (none in behaviour):                      *)
(*   hold    total function Pkt -> Int, 0 = holds no block (Pool.tla: a    *)
(*           function whose domain grows and shrinks)                      *)
(*   content set of pairs <<block, packet>>, at most one per block         *)
(*           (Pool.tla: block -> packet id, 0 = none)                      *)
(***************************************************************************)
EXTENDS Integers

CONSTANTS
  \* @type: Set(PKT);
  Pkt,
  \* @type: Bool;
  LateWrite     \* TRUE: the ERRONEOUS protocol "Dispose = Put; then write to the block once more" (negative control)

VARIABLES
  \* @type: PKT -> Str;
  st,
  \* @type: PKT -> Bool;
  big,
  \* @type: Set(Int);
  free,
  \* @type: Int;
  nblk,
  \* @type: PKT -> Int;
  hold,
  \* @type: Set(<<Int, PKT>>);
  content

vars == <<st, big, free, nblk, hold, content>>

LStates == {"new", "got", "live", "late", "done"}

Init ==
  /\ st = [p \in Pkt |-> "new"]
  /\ big \in [Pkt -> BOOLEAN]
  /\ free = {}
  /\ nblk = 0
  /\ hold = [p \in Pkt |-> 0]
  /\ content = {}

\* NewPacket, step 1: any free block or a fresh one; private memory (a fresh id, never returned) for a big packet
Get(p) ==
  /\ st[p] = "new"
  /\ \/ /\ ~big[p]
        /\ \E b \in free : free' = free \ {b} /\ hold' = [hold EXCEPT ![p] = b]
        /\ UNCHANGED nblk
     \/ /\ hold' = [hold EXCEPT ![p] = nblk + 1]
        /\ nblk' = nblk + 1
        /\ UNCHANGED free
  /\ st' = [st EXCEPT ![p] = "got"]
  /\ UNCHANGED <<big, content>>

\* NewPacket, step 2: copy the input into the block
CopyIn(p) ==
  /\ st[p] = "got"
  /\ content' = {x \in content : x[1] # hold[p]} \cup {<<hold[p], p>>}
  /\ st' = [st EXCEPT ![p] = "live"]
  /\ UNCHANGED <<big, free, nblk, hold>>

\* Dispose: the block goes back to the pool
Put(p) ==
  /\ st[p] = "live"
  /\ free' = IF big[p] THEN free ELSE free \cup {hold[p]}
  /\ IF LateWrite /\ ~big[p]
     THEN /\ st' = [st EXCEPT ![p] = "late"]
          /\ UNCHANGED <<content, hold>>
     ELSE /\ content' = {x \in content : x[1] # hold[p]}
          /\ hold' = [hold EXCEPT ![p] = 0]
          /\ st' = [st EXCEPT ![p] = "done"]
  /\ UNCHANGED <<big, nblk>>

\* erroneous variant only: the second write, after the block is already back in the pool
LateWriteStep(p) ==
  /\ LateWrite
  /\ st[p] = "late"
  /\ content' = {x \in content : x[1] # hold[p]}
  /\ hold' = [hold EXCEPT ![p] = 0]
  /\ st' = [st EXCEPT ![p] = "done"]
  /\ UNCHANGED <<big, free, nblk>>

Next == \E p \in Pkt : Get(p) \/ CopyIn(p) \/ Put(p) \/ LateWriteStep(p)
Spec == Init /\ [][Next]_vars

----------------------------------------------------------------------------
\* the properties (Pool.tla: NoAlias, FreeDisjoint, ContentOK)
Holds(p) == hold[p] # 0
NoAlias == \A p \in Pkt : \A q \in Pkt : (p # q /\ Holds(p) /\ Holds(q)) => hold[p] # hold[q]
FreeDisjoint == \A p \in Pkt : Holds(p) => hold[p] \notin free
ContentOK == \A p \in Pkt : st[p] = "live" => <<hold[p], p>> \in content
Safe == NoAlias /\ FreeDisjoint /\ ContentOK

\* the inductive invariant: constrains every variable
TypeOK ==
  /\ DOMAIN st = Pkt /\ \A p \in Pkt : st[p] \in LStates
  /\ DOMAIN big = Pkt /\ \A p \in Pkt : big[p] \in BOOLEAN
  /\ nblk \in Int /\ nblk >= 0
  /\ DOMAIN hold = Pkt /\ \A p \in Pkt : hold[p] \in Int /\ 0 <= hold[p] /\ hold[p] <= nblk
  /\ \A b \in free : b \in Int /\ 1 <= b /\ b <= nblk
  /\ \A x \in content : x[1] \in Int /\ 1 <= x[1] /\ x[1] <= nblk /\ x[2] \in Pkt

HoldsIffBetween == \A p \in Pkt : Holds(p) <=> st[p] \in {"got", "live", "late"}

IndInv == TypeOK /\ HoldsIffBetween /\ NoAlias /\ FreeDisjoint /\ ContentOK
=============================================================================
