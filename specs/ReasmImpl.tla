------------------------------ MODULE ReasmImpl ------------------------------
(***************************************************************************)
(* Implementation-shaped model of gopacket/reassembly (C09, C11): a        *)
(* transcription of /repo/reassembly/tcpassembly.go (and the parts of      *)
(* memory.go it relies on) for ONE connection with its two half            *)
(* connections, driven by the operation alphabet of ReasmGen.tla and by    *)
(* the stream/factory callbacks of the conformance harness                 *)
(* (harness/cmd/reasm_impl).                                               *)
(*                                                                         *)
(* What is transcribed, function by function (Go name -> operator):        *)
(*   Sequence.Difference / Add            Diff, Add  (modulus M, the       *)
(*                                        literal "+ uint32Max + 1" is the *)
(*                                        constant WRAP)                   *)
(*   pageCache.next / replace             Alloc, Replace (pageCache.used)  *)
(*   livePacket.convertToPages            LPConvert (pages of P bytes)     *)
(*   page.convertToPages                  PGConvert                        *)
(*   Assembler.AssembleWithContext        AssembleOp / Assemble2           *)
(*   Assembler.checkOverlap               CheckOverlap / CO (cases 1..6)   *)
(*   Assembler.overlapExisting            OverlapExisting                  *)
(*   Assembler.handleBytes                HandleBytes (both page limits)   *)
(*   Assembler.buildSG/addPending/addContiguous   BuildSG/AddPending/...   *)
(*   reassemblyObject.Lengths/Fetch/Info/KeepFrom  inside Callback         *)
(*   Assembler.cleanSG                    CleanSG (CSFind/CSRelease/CSKeep)*)
(*   Assembler.sendToConnection           SendToConnection                 *)
(*   Assembler.skipFlush/addNextFromConn  SkipFlush / AddNextFromConn      *)
(*   Assembler.closeHalfConnection        CloseHalf                        *)
(*   Assembler.flushClose/FlushWithOptions/FlushCloseOlderThan/FlushAll    *)
(*                                        FlushClose/FlushOlderOp/FlushAllOp*)
(*   StreamPool.getConnection/remove, connection.reset   inside AssembleOp *)
(* The heap of pages is explicit: a page is a record with prev/next        *)
(* "pointers" (page ids, 0 = nil), so that the doubly linked list          *)
(* manipulations are the code's own, not an abstraction of them.           *)
(* Page contents are the stream offsets of the bytes they hold.            *)
(*                                                                         *)
(* Not transcribed: statistics counters (queuedBytes, overlapBytes, ...),  *)
(* ackSeq, debug logging, locking (one assembler).  Slices follow Go:      *)
(* a page's byte slice has length and capacity; an out-of-range slice      *)
(* expression is a panic (event "panic", the scenario ends there).         *)
(*                                                                         *)
(* The model emits exactly the events the harness records from the real    *)
(* code (new, seg, sg, complete, flushb, flushe, api); they are fed to     *)
(* Reasm!Judge.  ImplSatisfiesProp: Judge accepts every one of them.       *)
(* Constants switch the shapes the code had before its fix: commits on     *)
(* (WRAP, FinOnlyClosed, ReleaseSaved, CleanSkipFixed) and a proposed      *)
(* repair (PagesFix).  Every decision of the code is tagged (Tag): the     *)
(* export prints, besides a hash-selected slice of all complete paths,     *)
(* one behaviour per distinct set of decisions taken in the last           *)
(* operation.  Script runs one given scenario instead of all of them.      *)
(***************************************************************************)
EXTENDS Reasm, Json

CONSTANTS
  M,               \* size of the sequence space (2^32 in the code); a power of two
  WRAP,            \* what Difference adds to the wrapped side: M in today's code, M - 1 before fix 1e6977b
  P,               \* pageBytes
  L,               \* stream length (units = bytes of the model)
  Dirs,            \* directions that carry packets: {0} or {0, 1}
  MaxOps,          \* scenario length
  MaxSegLen,       \* longest segment
  Cfgs,            \* set of configurations [limit, keep, force, isn, remove]
  TotalLimit,      \* MaxBufferedPagesTotal (0 = unlimited)
  FinOnlyClosed,   \* TRUE: "if t.FIN && half.closed" (today); FALSE: "if t.FIN" (before fix b39eea8)
  ReleaseSaved,    \* TRUE: closeHalfConnection releases the saved list (today); FALSE: before fix 82c8ff2
  CleanSkipFixed,  \* TRUE: cleanSG "skip = 0" (today); FALSE: the delta computation before fix ea98ddb
  PagesFix,        \* FALSE: today's code; TRUE: proposed repair of the half.pages bookkeeping (cleanSG counts the pages
                   \* a kept live packet is converted into, addPending uncounts the saved pages it drops)
  Script,          \* <<>>: every scenario within the bounds; otherwise the one scenario to run (sequence of operations)
  ExportMod, ExportRem,  \* behaviours whose hash % ExportMod = ExportRem are exported
  ExportSig              \* TRUE: also one behaviour per distinct set of code decisions (branch tags)

ASSUME TLCSet(1, {})

VARIABLES ops,       \* scenario so far (same format as ReasmGen)
          conf,      \* configuration of this behaviour (element of Cfgs)
          a,         \* assembler + pool + harness state
          st,        \* Reasm (property) state fed with the model's events
          verdicts,  \* <<reason, event>> for every event Judge rejected
          pred       \* per operation: the events the model predicts
ivars == <<ops, conf, a, st, verdicts, pred>>

Roles == {"c2s", "s2c"}
Fuel == 4 * (MaxOps + 2) * (MaxSegLen + 2)      \* bound on list walks / flush loops (never reached unless a list is cyclic)

Take(s, n) == SubSeq(s, 1, n)
Drop(s, n) == SubSeq(s, n + 1, Len(s))
MinI(x, y) == IF x < y THEN x ELSE y
\* Go slice semantics on a page's byte slice (len <= cap): s[:n] with len < n <= cap exposes whatever the buffer holds
\* beyond len (modelled as the impossible offset -7); copy() into s[lo:hi] beyond len writes bytes nobody sees
Garbage == -7
Reslice(s, n) == IF n <= Len(s) THEN SubSeq(s, 1, n) ELSE s \o [i \in 1..(n - Len(s)) |-> Garbage]
CopyInto(s, lo, src) == [i \in 1..Len(s) |-> IF i > lo /\ i <= lo + Len(src) THEN src[i - lo] ELSE s[i]]

-----------------------------------------------------------------------------
(* Sequence arithmetic: tcpassembly.go:66-78 *)
UMax == M - 1
Q == UMax \div 4
Diff(s, t) ==
  IF s > UMax - Q /\ t < Q THEN (t + WRAP) - s
  ELSE IF t > UMax - Q /\ s < Q THEN t - (s + WRAP)
  ELSE t - s
Add(s, n) == (s + n) % M

-----------------------------------------------------------------------------
(* state *)
NewHalfC(ts) == [pages |-> 0, saved |-> 0, first |-> 0, last |-> 0, nextSeq |-> -1, lastSeen |-> ts, closed |-> FALSE]
NewLP == [b |-> <<>>, seq |-> 0, start |-> FALSE, end |-> FALSE, ts |-> 0]
NewSG == [all |-> <<>>, skip |-> 0, saved |-> 0, toKeep |-> -1]
NewAsm == [heap |-> <<>>, used |-> 0, exists |-> FALSE, firstDir |-> 0,
           h |-> [r \in Roles |-> NewHalfC(0)],
           ret |-> <<>>, lp |-> NewLP, sg |-> NewSG, rvNext |-> -1,
           evs |-> <<>>, panic |-> FALSE, flags |-> {}, tags |-> {}, ltags |-> {},
           live |-> FALSE, seen |-> [d \in Dirs |-> FALSE], flip |-> FALSE]

Emit(x, e) == IF x.panic THEN x ELSE [x EXCEPT !.evs = Append(@, e)]
Panic(x, why) == [x EXCEPT !.panic = TRUE, !.flags = @ \cup {why}]
Flag(x, f) == [x EXCEPT !.flags = @ \cup {f}]
\* branch coverage of the transcription: which decisions of the code an operation went through (drives the export:
\* one behaviour per distinct set of decisions in its last operation, "one implementation test per transition")
Tag(x, t) == [x EXCEPT !.tags = @ \cup {t}]

\* containers of a.ret / cacheSG.all: 0 = &a.cacheLP, id > 0 = page
CLen(x, c)   == IF c = 0 THEN Len(x.lp.b) ELSE Len(x.heap[c].b)
CSeq(x, c)   == IF c = 0 THEN x.lp.seq ELSE x.heap[c].seq
CBytes(x, c) == IF c = 0 THEN x.lp.b ELSE x.heap[c].b
CIsEnd(x, c) == IF c = 0 THEN x.lp.end ELSE x.heap[c].end
CIsStart(x, c) == IF c = 0 THEN x.lp.start ELSE FALSE      \* page.start is never assigned anywhere

-----------------------------------------------------------------------------
(* memory.go: pageCache.next / replace.  A recycled page keeps its old ac/end/links unless the caller
   overwrites them; endSet tells whether `end` was assigned since allocation. *)
Alloc(x, ts) ==
  [x EXCEPT !.heap = Append(@, [seq |-> 0, b |-> <<>>, prev |-> 0, next |-> 0, pkt |-> FALSE, seen |-> ts,
                                 end |-> FALSE, endSet |-> FALSE, live |-> TRUE, cap |-> P]),
            !.used = @ + 1]
Replace(x, id) ==
  [x EXCEPT !.used = @ - 1, !.heap[id].prev = 0, !.heap[id].next = 0, !.heap[id].live = FALSE,
            !.flags = IF x.heap[id].live THEN @ ELSE @ \cup {"page-released-twice"}]

(* livePacket.convertToPages: tcpassembly.go:320-347 *)
RECURSIVE LPConvLoop(_, _, _, _, _, _)
LPConvLoop(x, cur, bytes, seq, first, n) ==
  LET len == MinI(Len(bytes), P)
      x1 == [x EXCEPT !.heap[cur].b = Take(bytes, len), !.heap[cur].seq = seq, !.heap[cur].cap = P]   \* current.buf[:length]
      rest == Drop(bytes, len)
  IN IF Len(rest) = 0
     THEN [a |-> [x1 EXCEPT !.heap[cur].end = x.lp.end, !.heap[cur].endSet = TRUE, !.heap[cur].next = 0],
           first |-> first, last |-> cur, n |-> n]
     ELSE LET x2 == Alloc(x1, x.lp.ts)
              nid == Len(x2.heap)
              x3 == [x2 EXCEPT !.heap[cur].next = nid, !.heap[nid].prev = cur, !.heap[nid].pkt = FALSE]
          IN LPConvLoop(x3, nid, rest, Add(seq, len), first, n + 1)
LPConvert(x, skip) ==
  IF skip < 0 \/ skip > Len(x.lp.b) THEN [a |-> Panic(x, "slice-bounds-livepacket"), first |-> 0, last |-> 0, n |-> 0]
  ELSE LET x1 == Alloc(x, x.lp.ts)
           f == Len(x1.heap)
           x2 == [x1 EXCEPT !.heap[f].prev = 0, !.heap[f].pkt = TRUE]
           r == LPConvLoop(x2, f, Drop(x.lp.b, skip), Add(x.lp.seq, skip), f, 1)
       IN [r EXCEPT !.a = Tag(r.a, IF r.n > 1 THEN "convert-multi-page" ELSE IF Len(x.lp.b) - skip = 0 THEN "convert-empty" ELSE "convert-one-page")]

(* page.convertToPages: tcpassembly.go:253-260 *)
PGConvert(x, id, skip) ==
  IF skip < 0 \/ skip > Len(x.heap[id].b) THEN [a |-> Panic(x, "slice-bounds-page"), first |-> 0, last |-> 0, n |-> 0]
  ELSE LET x1 == IF skip # 0 THEN [x EXCEPT !.heap[id].b = Drop(@, skip), !.heap[id].seq = Add(@, skip), !.heap[id].cap = @ - skip] ELSE x
       IN [a |-> [x1 EXCEPT !.heap[id].prev = 0, !.heap[id].next = 0], first |-> id, last |-> id, n |-> 1]

-----------------------------------------------------------------------------
(* addNextFromConn: tcpassembly.go:1229-1243 *)
AddNextFromConn(x, hr) ==
  LET f == x.h[hr].first IN
  IF f = 0 THEN x
  ELSE LET nx == x.heap[f].next
           x1 == [x EXCEPT !.ret = Append(@, f), !.h[hr].first = nx]
       IN IF nx # 0 THEN [x1 EXCEPT !.heap[nx].prev = 0] ELSE [x1 EXCEPT !.h[hr].last = 0]

(* checkOverlap: tcpassembly.go:755-890.  The loop as a recursive operator over the locals
   (cur, next, bytes); start and end are fixed before the loop. *)
RECURSIVE CO(_, _, _, _, _, _, _, _)
CO(x, hr, cur, next, bytes, start, end, fuel) ==
  IF cur = 0 \/ x.panic THEN [a |-> x, cur |-> cur, next |-> next, bytes |-> bytes]
  ELSE IF fuel = 0 THEN [a |-> Panic(x, "cyclic-page-list"), cur |-> cur, next |-> next, bytes |-> bytes]
  ELSE
  LET c == x.heap[cur] IN
  IF Diff(end, c.seq) > 0                                          \* (5) end < cur.start: continue
  THEN CO(Tag(x, "ov5"), hr, c.prev, cur, bytes, start, end, fuel - 1)
  ELSE
  LET curEnd == Add(c.seq, Len(c.b)) IN
  IF Diff(start, curEnd) <= 0                                      \* (1) start > cur.end: stop
  THEN [a |-> Tag(x, "ov1"), cur |-> cur, next |-> next, bytes |-> bytes]
  ELSE
  LET diffStart == Diff(start, c.seq)
      diffEnd == Diff(end, curEnd)
  IN
  IF diffEnd <= 0 /\ diffStart >= 0                                \* (3) cur inside the new packet: drop cur
  THEN LET x1 == IF c.prev # 0 THEN [x EXCEPT !.heap[c.prev].next = c.next] ELSE [x EXCEPT !.h[hr].first = c.next]
           x2 == IF c.next # 0 THEN [x1 EXCEPT !.heap[c.next].prev = c.prev] ELSE [x1 EXCEPT !.h[hr].last = c.prev]
           x3 == [Replace(x2, cur) EXCEPT !.h[hr].pages = @ - 1]
       IN CO(Tag(x3, "ov3"), hr, c.prev, next, bytes, start, end, fuel - 1)
  ELSE IF diffEnd < 0 /\ Diff(start, curEnd) > 0                   \* (2) drop cur's end, stop
  THEN LET n == -Diff(start, c.seq) IN
       IF n < 0 \/ n > c.cap THEN [a |-> Panic(x, "slice-bounds-case2"), cur |-> cur, next |-> next, bytes |-> bytes]
       ELSE [a |-> Tag([x EXCEPT !.heap[cur].b = Reslice(@, n)], "ov2"), cur |-> cur, next |-> next, bytes |-> bytes]
  ELSE IF diffStart > 0 /\ Diff(end, c.seq) < 0                    \* (4) drop cur's start
  THEN LET k == -Diff(end, c.seq) IN
       IF k < 0 \/ k > Len(c.b) THEN [a |-> Panic(x, "slice-bounds-case4"), cur |-> cur, next |-> next, bytes |-> bytes]
       ELSE CO(Tag([x EXCEPT !.heap[cur].b = Drop(@, k), !.heap[cur].seq = Add(@, k), !.heap[cur].cap = @ - k], "ov4"), hr, c.prev, cur, bytes, start, end, fuel - 1)
  ELSE IF diffEnd >= 0 /\ diffStart <= 0                           \* (6) new packet inside cur: copy, nothing left to queue
  THEN LET lo == -diffStart
           hi == -diffStart + Len(bytes)
       IN IF lo < 0 \/ hi > c.cap THEN [a |-> Panic(x, "slice-bounds-case6"), cur |-> cur, next |-> next, bytes |-> bytes]
          ELSE CO(Tag([x EXCEPT !.heap[cur].b = CopyInto(c.b, lo, bytes)], IF Len(bytes) = 0 THEN "ov6-empty" ELSE "ov6"), hr, c.prev, next, <<>>, start, end, fuel - 1)
  ELSE CO(Tag(x, "ov0"), hr, c.prev, cur, bytes, start, end, fuel - 1)         \* "no overlap"

CheckOverlap(x, hr, queue) ==
  LET start == x.lp.seq
      end == Add(start, Len(x.lp.b))
      r == CO(x, hr, x.h[hr].last, 0, x.lp.b, start, end, Fuel)
      x1 == [r.a EXCEPT !.lp.b = r.bytes, !.lp.seq = start]
  IN IF x1.panic \/ ~(Len(r.bytes) > 0 /\ queue) THEN x1
     ELSE LET cv == LPConvert(x1, 0)                \* p = cv.first, p2 = cv.last
              x2 == [cv.a EXCEPT !.h[hr].pages = @ + cv.n]
              x3 == IF r.cur # 0 THEN Tag([x2 EXCEPT !.heap[r.cur].next = cv.first, !.heap[cv.first].prev = r.cur], "ins-after-page")
                    ELSE Tag([x2 EXCEPT !.h[hr].first = cv.first], "ins-as-first")
          IN IF r.next # 0 THEN Tag([x3 EXCEPT !.heap[cv.last].next = r.next, !.heap[r.next].prev = cv.last],
                                    IF cv.n > 1 THEN "ins-multi-before-page" ELSE "ins-before-page")
             ELSE Tag([x3 EXCEPT !.h[hr].last = cv.last], "ins-as-last")

(* overlapExisting: tcpassembly.go:933-959; returns <<bytes, seq, panicked>> *)
OverlapExisting(x, hr, start, bytes) ==
  LET ns == x.h[hr].nextSeq IN
  IF ns = -1 THEN <<bytes, start, FALSE>>
  ELSE LET diff == Diff(start, ns) IN
       IF diff = 0 THEN <<bytes, start, FALSE>>
       ELSE LET e == Len(bytes)
                s == IF diff >= e THEN e ELSE diff
            IN IF s < 0 THEN <<bytes, ns, TRUE>> ELSE <<Drop(bytes, s), ns, FALSE>>

(* handleBytes: tcpassembly.go:962-989 *)
HandleBytes(x, hr, bytes, seq, start, end, queue, ts) ==
  LET x1 == [x EXCEPT !.lp = [b |-> bytes, seq |-> seq, start |-> start, end |-> end, ts |-> ts]] IN
  IF queue
  THEN LET x2 == CheckOverlap(x1, hr, TRUE) IN
       IF (conf.limit > 0 /\ x2.h[hr].pages >= conf.limit) \/ (TotalLimit > 0 /\ x2.used >= TotalLimit)
       THEN Tag(AddNextFromConn(x2, hr), IF x2.h[hr].first = 0 THEN "limit-hit-nothing-queued" ELSE "limit-hit") ELSE x2
  ELSE LET oe == OverlapExisting(x1, hr, seq, x1.lp.b)
           x2 == Tag([x1 EXCEPT !.lp.b = oe[1], !.lp.seq = oe[2]],
                     IF Len(oe[1]) = Len(bytes) THEN "oe-none" ELSE IF Len(oe[1]) = 0 THEN "oe-all" ELSE "oe-part")
           x3 == IF oe[3] THEN Panic(x2, "slice-bounds-overlapExisting") ELSE CheckOverlap(x2, hr, FALSE)
       IN IF Len(x3.lp.b) # 0 \/ end \/ start THEN [x3 EXCEPT !.ret = Append(@, 0)] ELSE Tag(x3, "nothing-to-send")

-----------------------------------------------------------------------------
(* addPending: tcpassembly.go:1119-1146; returns [a, s] *)
RECURSIVE ListIds(_, _, _, _)
ListIds(x, p, acc, fuel) == IF p = 0 \/ fuel = 0 THEN acc ELSE ListIds(x, x.heap[p].next, Append(acc, p), fuel - 1)
RECURSIVE SumLen(_, _, _)
SumLen(x, ids, i) == IF i > Len(ids) THEN 0 ELSE Len(x.heap[ids[i]].b) + SumLen(x, ids, i + 1)
RECURSIVE ReleaseOnly(_, _, _)
ReleaseOnly(x, ids, i) == IF i > Len(ids) THEN x ELSE ReleaseOnly(Replace(x, ids[i]), ids, i + 1)

AddPending(x, hr, firstSeq) ==
  LET sv == x.h[hr].saved IN
  IF sv = 0 THEN [a |-> x, s |-> 0]
  ELSE LET ids == ListIds(x, sv, <<>>, Fuel)
           s == SumLen(x, ids, 1)
       IN IF Add(x.heap[sv].seq, s) # firstSeq
          THEN \* non-continuous saved: drop them (p.release: pageCache.used only; half.pages is NOT adjusted)
               [a |-> Tag([ReleaseOnly(x, ids, 1) EXCEPT !.h[hr].saved = 0, !.h[hr].pages = IF PagesFix THEN @ - Len(ids) ELSE @], "saved-dropped"), s |-> 0]
          ELSE [a |-> Tag([x EXCEPT !.ret = ids \o @], IF Len(ids) > 1 THEN "saved-prepended-multi" ELSE "saved-prepended"), s |-> s]

(* addContiguous: tcpassembly.go:1149-1176; returns [a, last] *)
RECURSIVE ACLoop(_, _, _, _, _)
ACLoop(x, hr, page, lastSeq, fuel) ==
  IF page = 0 \/ fuel = 0 \/ Diff(lastSeq, x.heap[page].seq) # 0 THEN [a |-> x, last |-> lastSeq]
  ELSE LET nx == x.heap[page].next
           x1 == [x EXCEPT !.ret = Append(@, page), !.h[hr].first = nx]
           x2 == IF nx = 0 THEN [x1 EXCEPT !.h[hr].last = 0] ELSE [x1 EXCEPT !.heap[nx].prev = 0]
       IN ACLoop(x2, hr, nx, Add(lastSeq, Len(x.heap[page].b)), fuel - 1)
AddContiguous(x, hr, lastSeq) ==
  LET page == x.h[hr].first IN
  IF page = 0 THEN [a |-> x, last |-> lastSeq]
  ELSE ACLoop(x, hr, page, IF lastSeq = -1 THEN x.heap[page].seq ELSE lastSeq, Fuel)

(* buildSG: tcpassembly.go:1004-1023; returns [a, end, next] *)
BuildSG(x, hr) ==
  LET c1 == x.ret[1]
      ns == x.h[hr].nextSeq
      skip == IF ns # -1 THEN Diff(ns, CSeq(x, c1)) ELSE -1
      last == Add(CSeq(x, c1), CLen(x, c1))
      p == AddPending(x, hr, CSeq(x, c1))
      q == AddContiguous(p.a, hr, last)
      x1 == [q.a EXCEPT !.sg = [all |-> q.a.ret, skip |-> skip, saved |-> p.s, toKeep |-> -1]]
      lc == x1.ret[Len(x1.ret)]
      x2 == IF lc # 0 /\ ~x1.heap[lc].endSet THEN Flag(x1, "stale-end-flag-read") ELSE x1
      nc == Len(q.a.ret) - Len(p.a.ret)
      x3 == Tag(Tag(x2, IF skip < 0 THEN "sg-skip-unknown" ELSE IF skip = 0 THEN "sg-skip0" ELSE "sg-skip+"),
                IF nc = 0 THEN "contig0" ELSE IF nc = 1 THEN "contig1" ELSE "contig2+")
  IN [a |-> x3, end |-> CIsEnd(x3, lc), next |-> q.last]

-----------------------------------------------------------------------------
(* The stream's ReassembledSG as implemented by the harness: Lengths, Fetch(total), Info, then the
   scripted KeepFrom.  Delivered bytes are reported as maximal runs of stream offsets. *)
RECURSIVE RunsR(_, _, _)
RunsR(b, i, acc) ==
  IF i > Len(b) THEN acc
  ELSE LET n == Len(acc) IN
       IF n > 0 /\ acc[n][2] = b[i] THEN RunsR(b, i + 1, [acc EXCEPT ![n] = <<acc[n][1], b[i] + 1>>])
       ELSE RunsR(b, i + 1, Append(acc, <<b[i], b[i] + 1>>))
Runs(b) == RunsR(b, 1, <<>>)
RECURSIVE Concat(_, _, _)
Concat(x, all, i) == IF i > Len(all) THEN <<>> ELSE CBytes(x, all[i]) \o Concat(x, all, i + 1)

DirOf(x, hr) == IF hr = "c2s" THEN x.firstDir ELSE 1 - x.firstDir

Callback(x, hr) ==
  LET all == x.sg.all
      bytes == Concat(x, all, 1)
      total == Len(bytes)
      sv == MinI(x.sg.saved, total)
      flip2 == IF conf.keep = 3 THEN ~x.flip ELSE x.flip
      keep0 == CASE conf.keep = 0 -> 0
                 [] conf.keep = 2 -> total \div 2
                 [] conf.keep = 3 -> (IF flip2 THEN 0 ELSE -1)
                 [] OTHER -> -1
      keep == MinI(keep0, total)
      ev == [op |-> "sg", c |-> 1, d |-> DirOf(x, hr), srun |-> Runs(Take(bytes, sv)), nrun |-> Runs(Drop(bytes, sv)),
             skip |-> x.sg.skip, start |-> CIsStart(x, all[1]), end |-> CIsEnd(x, all[Len(all)]),
             keep |-> keep, total |-> total]
  IN [Emit(x, ev) EXCEPT !.flip = flip2, !.sg.toKeep = IF keep >= 0 THEN keep ELSE @]

(* cleanSG: tcpassembly.go:1025-1099 *)
RECURSIVE CSFind(_, _, _, _, _)
CSFind(x, all, i, cur, skip) ==      \* returns [ndx, skip] (ndx = Go's 0-based index after the search)
  IF i > Len(all) THEN [ndx |-> Len(all), skip |-> skip]
  ELSE LET len == CLen(x, all[i]) IN
       IF x.sg.toKeep < cur + len THEN [ndx |-> i - 1, skip |-> skip]
       ELSE CSFind(x, all, i + 1, cur + len, IF skip >= len THEN skip - len ELSE skip)

RECURSIVE CSRelease(_, _, _, _, _)
CSRelease(x, hr, all, j, ndx) ==
  IF j > ndx THEN x
  ELSE LET c == all[j]
           hf == x.h[hr]
           x1 == IF c # 0 /\ c = hf.saved
                 THEN LET nx == x.heap[c].next
                          x0 == IF nx # 0 THEN [x EXCEPT !.heap[nx].prev = 0] ELSE x
                      IN [x0 EXCEPT !.h[hr].saved = nx]
                 ELSE IF c # 0 /\ c = hf.first
                 THEN LET nx == x.heap[c].next
                          x0 == IF nx # 0 THEN [x EXCEPT !.heap[nx].prev = 0] ELSE x
                      IN IF hf.first = hf.last THEN [x0 EXCEPT !.h[hr].first = 0, !.h[hr].last = 0]
                         ELSE [x0 EXCEPT !.h[hr].first = nx]
                 ELSE x
           x2 == IF c = 0 THEN x1 ELSE [Replace(x1, c) EXCEPT !.h[hr].pages = @ - 1]
       IN CSRelease(x2, hr, all, j + 1, ndx)

RECURSIVE CSKeep(_, _, _, _, _, _)
CSKeep(x, hr, all, j, skip, savedLast) ==
  IF j > Len(all) \/ x.panic THEN x
  ELSE LET c == all[j]
           r == IF c = 0 THEN LPConvert(x, skip) ELSE PGConvert(x, c, skip)
           \* today: skip = 0.  Before ea98ddb: delta = preConvertLen - r.length() (skip for a page, 0 for the
           \* live packet); if delta > skip { skip = 0 } else { skip -= delta }
           nskip == IF CleanSkipFixed THEN 0 ELSE (IF c = 0 THEN skip ELSE 0)
       IN IF r.a.panic THEN r.a
          ELSE LET x1 == IF PagesFix /\ c = 0 THEN [r.a EXCEPT !.h[hr].pages = @ + r.n] ELSE r.a
                   x2 == IF x1.h[hr].saved = 0 THEN [x1 EXCEPT !.h[hr].saved = r.first]
                         ELSE [x1 EXCEPT !.heap[savedLast].next = r.first, !.heap[r.first].prev = savedLast]
               IN CSKeep(x2, hr, all, j + 1, nskip, r.last)

CleanSG(x, hr) ==
  LET all == x.sg.all
      f == IF x.sg.toKeep < 0 THEN [ndx |-> Len(all), skip |-> 0] ELSE CSFind(x, all, 1, 0, x.sg.toKeep)
      x1 == CSRelease(x, hr, all, 1, f.ndx)
      x2 == [x1 EXCEPT !.h[hr].saved = 0]
      kc == IF f.ndx >= Len(all) THEN "keep-nothing"
            ELSE IF all[f.ndx + 1] = 0 THEN (IF f.ndx + 1 < Len(all) THEN "keep-from-live-then-pages" ELSE "keep-from-live")
            ELSE IF f.ndx + 1 <= x.sg.saved /\ x.sg.saved > 0 /\ x.h[hr].saved # 0 THEN "keep-from-saved" ELSE "keep-from-page"
      x3 == Tag(Tag(x2, kc), IF f.skip > 0 THEN "keep-inside-container" ELSE "keep-at-boundary")
  IN CSKeep(x3, hr, all, f.ndx + 1, f.skip, 0)

(* closeHalfConnection: tcpassembly.go:1199-1225 *)
RECURSIVE ReleaseCounted(_, _, _, _)
ReleaseCounted(x, hr, ids, i) ==
  IF i > Len(ids) THEN x ELSE ReleaseCounted([Replace(x, ids[i]) EXCEPT !.h[hr].pages = @ - 1], hr, ids, i + 1)
CloseHalf(x, hr) ==
  LET nq == Len(ListIds(x, x.h[hr].first, <<>>, Fuel))
      nsv == Len(ListIds(x, x.h[hr].saved, <<>>, Fuel))
      x1 == Tag(Tag([x EXCEPT !.h[hr].closed = TRUE], IF nq = 0 THEN "close-q0" ELSE IF nq = 1 THEN "close-q1" ELSE "close-q2+"),
                IF nsv = 0 THEN "close-s0" ELSE IF nsv = 1 THEN "close-s1" ELSE "close-s2+")
      x2 == ReleaseCounted(x1, hr, ListIds(x1, x1.h[hr].first, <<>>, Fuel), 1)      \* first/last keep their stale values
      x3 == IF ReleaseSaved THEN [ReleaseCounted(x2, hr, ListIds(x2, x2.h[hr].saved, <<>>, Fuel), 1) EXCEPT !.h[hr].saved = 0]
            ELSE x2
  IN IF x3.h["c2s"].closed /\ x3.h["s2c"].closed
     THEN LET x4 == Emit(Tag(x3, "complete"), [op |-> "complete", c |-> 1, remove |-> conf.remove])     \* ReassemblyComplete
          IN IF conf.remove THEN [x4 EXCEPT !.exists = FALSE, !.live = FALSE] ELSE x4  \* connPool.remove
     ELSE x3

(* sendToConnection: tcpassembly.go:1103-1117; the returned nextSeq is left in rvNext *)
SendToConnection(x, hr) ==
  LET b == BuildSG(x, hr)
      x2 == Callback(b.a, hr)
      x3 == CleanSG(x2, hr)
      x4 == IF b.end THEN CloseHalf(x3, hr) ELSE x3
  IN [x4 EXCEPT !.rvNext = b.next]

(* skipFlush: tcpassembly.go:1181-1197 *)
SkipFlush(x, hr) ==
  IF x.h[hr].first = 0 THEN CloseHalf(Tag(x, "skipflush-close"), hr)
  ELSE LET x1 == AddNextFromConn(Tag([x EXCEPT !.ret = <<>>], "skipflush-send"), hr)
           x2 == SendToConnection(x1, hr)
       IN IF x2.rvNext # -1 THEN [x2 EXCEPT !.h[hr].nextSeq = x2.rvNext] ELSE x2

-----------------------------------------------------------------------------
(* AssembleWithContext: tcpassembly.go:640-742 (after getConnection / Accept) *)
Assemble2(x, hr, seq0, bytes, syn, fin, rst, start, ts) ==
  LET ns == x.h[hr].nextSeq
      dec == IF ns = -1
             THEN (IF syn THEN [seq |-> Add(seq0, 1), set |-> TRUE, queue |-> FALSE]
                   ELSE IF start THEN [seq |-> seq0, set |-> TRUE, queue |-> FALSE]
                   ELSE [seq |-> seq0, set |-> FALSE, queue |-> TRUE])
             ELSE [seq |-> seq0, set |-> FALSE, queue |-> (Diff(ns, seq0) > 0)]
      dt == IF ns = -1 THEN (IF syn THEN "start-syn" ELSE IF start THEN "start-forced" ELSE "wait-for-start")
            ELSE IF dec.queue THEN "gap-queue" ELSE IF syn THEN "syn-again" ELSE "contiguous"
      x1 == Tag(IF dec.set THEN [x EXCEPT !.h[hr].nextSeq = dec.seq] ELSE x, dt)
      x2 == HandleBytes([x1 EXCEPT !.ret = <<>>], hr, bytes, dec.seq, syn, rst \/ fin, dec.queue, ts)
      x3 == IF Len(x2.ret) > 0 /\ ~x2.panic THEN SendToConnection(x2, hr) ELSE [x2 EXCEPT !.rvNext = -1]
  IN IF x3.rvNext # -1
     THEN LET n1 == x3.rvNext
              n2 == IF fin /\ (~FinOnlyClosed \/ x3.h[hr].closed) THEN Add(n1, 1) ELSE n1
          IN Tag([x3 EXCEPT !.h[hr].nextSeq = n2], IF n2 # n1 THEN "fin-counted" ELSE IF fin THEN "fin-not-counted" ELSE "next-updated")
     ELSE x3

\* initial sequence numbers: direction 0 uses conf.isn, direction 1 an unrelated one
IsnOf(d) == IF d = 0 THEN conf.isn ELSE (conf.isn + (M \div 2) + 3) % M

\* scalars the harness reads through the verif hooks after every API call
RECURSIVE MaxOf(_, _)
MaxOf(S, m) == IF S = {} THEN m ELSE LET v == CHOOSE v \in S : TRUE IN MaxOf(S \ {v}, IF v > m THEN v ELSE m)
Api(x, call, t, pktpages) ==
  LET hs == IF x.exists THEN {r \in Roles : ~x.h[r].closed} ELSE {}
      maxq == MaxOf({Len(ListIds(x, x.h[r].first, <<>>, Fuel)) : r \in hs}, 0)
      heads == {x.heap[x.h[r].first].seen : r \in {q \in hs : x.h[q].first # 0}}
      oldest == IF heads = {} THEN -1 ELSE CHOOSE v \in heads : \A w \in heads : v <= w
  IN Emit(x, [op |-> "api", call |-> call, t |-> t, pages |-> x.used, conns |-> (IF x.exists THEN 1 ELSE 0),
              maxq |-> maxq, oldest |-> oldest, pktpages |-> pktpages])

AssembleOp(x0, d, lo, hi, syn, fin, rst, ts) ==
  LET force == conf.force /\ ~syn /\ (~x0.live \/ ~x0.seen[d])       \* harness policy (Accept sets *start)
      segEv == [op |-> "seg", c |-> 1, d |-> d, lo |-> (IF syn THEN 0 ELSE lo), hi |-> (IF syn THEN 0 ELSE hi),
                syn |-> syn, fin |-> fin, rst |-> rst, force |-> force, ts |-> ts]
      \* StreamPool.getConnection (end = false: always creates) + connection.reset + StreamFactory.New
      x1 == IF x0.exists THEN x0
            ELSE Emit(Tag([x0 EXCEPT !.exists = TRUE, !.firstDir = d, !.h = [r \in Roles |-> NewHalfC(ts)],
                                     !.live = TRUE, !.seen = [q \in Dirs |-> FALSE]], IF x0.live \/ x0.used > 0 \/ Len(x0.heap) > 0 THEN "new-again" ELSE "new"),
                      [op |-> "new", c |-> 1])
      x2 == Emit(x1, segEv)
      hr == IF d = x2.firstDir THEN "c2s" ELSE "s2c"
      x3 == IF x2.h[hr].lastSeen < ts THEN [x2 EXCEPT !.h[hr].lastSeen = ts] ELSE x2
      start == (x3.h[hr].nextSeq = -1 /\ syn) \/ force
      seq0 == IF syn THEN IsnOf(d) ELSE Add(IsnOf(d), 1 + lo)
      bytes == IF syn THEN <<>> ELSE [i \in 1..(hi - lo) |-> lo + i - 1]
      x4 == IF x3.h[hr].closed THEN Tag(x3, "packet-on-closed-half") ELSE Assemble2(x3, hr, seq0, bytes, syn, fin, rst, start, ts)
      x5 == [x4 EXCEPT !.seen[d] = TRUE]
      n == IF syn THEN 0 ELSE hi - lo
  IN Api(x5, "assemble", 0, (n + P - 1) \div P)

(* FlushAll: tcpassembly.go:1329-1346 *)
RECURSIVE FlushAllHalf(_, _, _)
FlushAllHalf(x, hr, fuel) ==
  IF x.h[hr].closed \/ x.panic THEN x
  ELSE IF fuel = 0 THEN Panic(x, "flushall-does-not-terminate")
  ELSE FlushAllHalf(SkipFlush(x, hr), hr, fuel - 1)
FlushAllOp(x) ==
  LET x1 == Emit(x, [op |-> "flushb", kind |-> "all", t |-> 0])
      x2 == IF x1.exists THEN FlushAllHalf(FlushAllHalf(x1, "s2c", Fuel), "c2s", Fuel) ELSE x1
      x3 == Emit(x2, [op |-> "flushe", kind |-> "all", t |-> 0])
  IN Api(x3, "flushall", 0, 0)

(* flushClose / FlushWithOptions{T: t, TC: t}: tcpassembly.go:1272-1324 *)
RECURSIVE FCLoop(_, _, _, _)
FCLoop(x, hr, t, fuel) ==
  IF x.panic \/ fuel = 0 \/ x.h[hr].closed THEN x
  ELSE IF x.h[hr].first # 0 /\ x.heap[x.h[hr].first].seen < t THEN FCLoop(SkipFlush(x, hr), hr, t, fuel - 1)
  ELSE x
ConnLastSeen(x) == IF x.h["c2s"].lastSeen < x.h["s2c"].lastSeen THEN x.h["s2c"].lastSeen ELSE x.h["c2s"].lastSeen
FlushClose(x, hr, t, tc) ==
  IF x.h[hr].closed THEN x
  ELSE LET x1 == FCLoop(x, hr, t, Fuel) IN
       IF ~x1.h[hr].closed /\ x1.h[hr].first = 0 /\ ConnLastSeen(x1) < tc THEN CloseHalf(Tag(x1, "age-close"), hr)
       ELSE Tag(x1, IF x1.h[hr].closed THEN "age-flush-closed" ELSE IF x1.h[hr].first # 0 THEN "age-keeps-newer-data" ELSE "age-keeps-recent-conn")
FlushOlderOp(x, t) ==
  LET x1 == Emit(x, [op |-> "flushb", kind |-> "older", t |-> t])
      x2 == IF x1.exists
            THEN LET y1 == FlushClose(x1, "s2c", t, t)
                     y2 == FlushClose(y1, "c2s", t, t)
                 IN IF y2.h["s2c"].closed /\ y2.h["c2s"].closed /\ y2.h["s2c"].lastSeen < t /\ y2.h["c2s"].lastSeen < t
                    THEN Tag([y2 EXCEPT !.exists = FALSE], IF y2.exists THEN "age-remove" ELSE "age-remove-gone") ELSE y2
            ELSE x1
      x3 == Emit(x2, [op |-> "flushe", kind |-> "older", t |-> t])
  IN Api(x3, "flusholder", t, 0)

-----------------------------------------------------------------------------
(* the scenario machine *)
RECURSIVE Feed(_, _, _, _)
Feed(s, evs, i, bad) ==
  IF i > Len(evs) THEN <<s, bad>>
  ELSE LET r == Judge(s, evs[i])
       IN Feed(r[2], evs, i + 1, IF r[1] = "ok" THEN bad ELSE Append(bad, <<r[1], evs[i]>>))

CfgEv == [op |-> "cfg", asm |-> "reassembly", limit |-> conf.limit]

Init == /\ ops = <<>>
        /\ conf \in Cfgs
        /\ a = NewAsm
        /\ st = Judge(NewState, [op |-> "cfg", asm |-> "reassembly", limit |-> conf.limit])[2]
        /\ verdicts = <<>>
        /\ pred = <<>>

Do(op, x) ==
  LET evs == IF x.panic THEN Append(x.evs, [op |-> "panic"]) ELSE x.evs
      f == Feed(st, evs, 1, verdicts)
  IN /\ Script = <<>> \/ (Len(ops) < Len(Script) /\ Script[Len(ops) + 1] = op)
     /\ ops' = Append(ops, op)
     /\ a' = [x EXCEPT !.evs = <<>>, !.ret = <<>>, !.lp = NewLP, !.sg = NewSG, !.rvNext = -1, !.tags = {},
                       !.ltags = x.tags]
     /\ st' = f[1] /\ verdicts' = f[2]
     /\ pred' = Append(pred, evs)
     /\ UNCHANGED conf

Next ==
  /\ Len(ops) < MaxOps
  /\ ~a.panic
  /\ LET ts == Len(ops) + 1 IN
     \/ \E d \in Dirs, lo \in 0..(L - 1), hi \in 1..L :
           /\ lo < hi /\ hi - lo <= MaxSegLen
           /\ \E fin \in {FALSE, TRUE} : (fin => hi = L)
                 /\ Do(<<"seg", d, lo, hi, FALSE, fin>>, AssembleOp(a, d, lo, hi, FALSE, fin, FALSE, ts))
     \/ \E d \in Dirs, p \in 0..L : Do(<<"rst", d, p>>, AssembleOp(a, d, p, p, FALSE, FALSE, TRUE, ts))
     \/ \E d \in Dirs : Do(<<"seg", d, 0, 0, TRUE, FALSE>>, AssembleOp(a, d, 0, 0, TRUE, FALSE, FALSE, ts))
     \/ Do(<<"flushall">>, FlushAllOp(a))
     \/ \E t \in {Len(ops), Len(ops) + 1} : t >= 2 /\ Do(<<"flusholder", t>>, FlushOlderOp(a, t))

Spec == Init /\ [][Next]_ivars

-----------------------------------------------------------------------------
(* what TLC checks *)

\* the design-level statement: the code's algorithm satisfies the property
ImplSatisfiesProp ==
  verdicts = <<>> \/ (PrintT("CEX " \o ToJson([cfg |-> conf, ops |-> ops, verdicts |-> verdicts, flags |-> a.flags])) /\ FALSE)

\* structure of the page lists of every open half of a pooled connection (the code's own invariants)
RECURSIVE WalkOK(_, _, _, _)
WalkOK(x, p, prev, fuel) ==      \* forward walk: live pages, prev links mirror next links
  IF p = 0 THEN TRUE
  ELSE fuel > 0 /\ x.heap[p].live /\ x.heap[p].prev = prev /\ WalkOK(x, x.heap[p].next, p, fuel - 1)
LastOf(x, ids) == IF Len(ids) = 0 THEN 0 ELSE ids[Len(ids)]
OpenHalves == IF a.exists THEN {r \in Roles : ~a.h[r].closed} ELSE {}
HeapSane ==
  \A r \in OpenHalves :
    LET hf == a.h[r]
        q == ListIds(a, hf.first, <<>>, Fuel)
        s == ListIds(a, hf.saved, <<>>, Fuel)
    IN /\ WalkOK(a, hf.first, 0, Fuel) /\ WalkOK(a, hf.saved, 0, Fuel)
       /\ hf.last = LastOf(a, q)
       /\ \A i \in 1..Len(q) : Len(a.heap[q[i]].b) > 0
       \* queued pages are ordered, disjoint and lie after nextSeq; saved pages are contiguous and end at nextSeq
       /\ \A i \in 1..(Len(q) - 1) : Diff(Add(a.heap[q[i]].seq, Len(a.heap[q[i]].b)), a.heap[q[i + 1]].seq) >= 0
       /\ (hf.nextSeq # -1 /\ Len(q) > 0) => Diff(hf.nextSeq, a.heap[q[1]].seq) > 0
       /\ \A i \in 1..(Len(s) - 1) : Add(a.heap[s[i]].seq, Len(a.heap[s[i]].b)) = a.heap[s[i + 1]].seq
       /\ \A i \in 1..Len(q) : \A j \in 1..Len(s) : q[i] # s[j]

\* a page's content is the stream bytes its sequence number says (offset = seq - isn - 1)
ContentMatchesSeq ==
  \A r \in OpenHalves :
    LET ids == ListIds(a, a.h[r].first, <<>>, Fuel) \o ListIds(a, a.h[r].saved, <<>>, Fuel) IN
    \A i \in 1..Len(ids) : \A k \in 1..Len(a.heap[ids[i]].b) :
       Add(IsnOf(DirOf(a, r)), 1 + a.heap[ids[i]].b[k]) = Add(a.heap[ids[i]].seq, k - 1)

\* pageCache.used counts exactly the pages that are linked somewhere (no leak, no double release)
LivePages == {i \in 1..Len(a.heap) : a.heap[i].live}
SeqSet(s) == {s[i] : i \in 1..Len(s)}
Linked == UNION {SeqSet(ListIds(a, a.h[r].first, <<>>, Fuel)) \cup SeqSet(ListIds(a, a.h[r].saved, <<>>, Fuel)) : r \in OpenHalves}
UsedExact == a.used = Cardinality(LivePages) /\ LivePages = Linked
\* half.pages ("Number of pages used (both in first/last and saved)") is what the per-connection limit compares
HalfPagesExact ==
  \A r \in OpenHalves :
    a.h[r].pages = Len(ListIds(a, a.h[r].first, <<>>, Fuel)) + Len(ListIds(a, a.h[r].saved, <<>>, Fuel))
NoFlags == a.flags = {}

\* behaviour export (model -> implementation): configuration, operations, predicted events per operation
RECURSIVE OpsHash(_, _, _)
OpsHash(o, i, acc) ==
  IF i > Len(o) THEN acc
  ELSE LET e == o[i]
           c == IF e[1] = "seg" THEN 1 + e[2] + 2 * e[3] + 16 * e[4] + (IF e[5] THEN 128 ELSE 0) + (IF e[6] THEN 256 ELSE 0)
                ELSE IF e[1] = "rst" THEN 513 + e[2] + 2 * e[3]
                ELSE IF e[1] = "flushall" THEN 601 ELSE 611 + e[2]
       IN OpsHash(o, i + 1, (acc * 131 + c) % 1000003)
BehHash == (OpsHash(ops, 1, 7) + 17 * conf.isn + 5 * conf.limit + 3 * (conf.keep + 1) + (IF conf.force THEN 1 ELSE 0)
            + (IF conf.remove THEN 2 ELSE 0)) % ExportMod
Complete == Len(ops) = (IF Script = <<>> THEN MaxOps ELSE Len(Script)) \/ a.panic
\* signature-directed export: one behaviour per distinct set of decisions taken in its last operation (per TLC worker:
\* the registers are thread local) and configuration class, besides the hash-selected slice
Sig == <<a.ltags, conf.limit > 0, conf.keep>>
ExportLine(kind) == PrintT(kind \o ToJson([cfg |-> conf, ops |-> ops, pred |-> pred, flags |-> a.flags, verdicts |-> verdicts, sig |-> Sig]))
Export ==
  Complete => IF BehHash = ExportRem THEN ExportLine("BEH ")
              ELSE IF ExportSig /\ Sig \notin TLCGet(1) THEN TLCSet(1, TLCGet(1) \cup {Sig}) /\ ExportLine("SIG ")
              ELSE TRUE
=============================================================================
