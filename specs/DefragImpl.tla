------------------------------ MODULE DefragImpl ------------------------------
(***************************************************************************)
(* Implementation-shaped model of gopacket/ip4defrag (C13): a              *)
(* transcription of /repo/ip4defrag/defrag.go, driven by the operation     *)
(* alphabet of DefragGen.tla (fragments of one datagram cut at given       *)
(* positions with either MF value, the two halves of a second datagram,    *)
(* DiscardOlderThan) as replayed by harness/cmd/defrag_impl.               *)
(*                                                                         *)
(* What is transcribed, function by function (Go name -> operator):        *)
(*   newIPv4 (map key: NetworkFlow + Id)        KeyOf                      *)
(*   IPv4Defragmenter.dontDefrag                first test of DefragOp     *)
(*   IPv4Defragmenter.securityChecks            SecurityChecks             *)
(*   IPv4Defragmenter.DefragIPv4WithTimestamp   DefragOp (map lookup /     *)
(*                                              creation, list-length cap, *)
(*                                              flush after a datagram)    *)
(*   fragmentList.insert                        Insert / InsLoop           *)
(*   fragmentList.build                         Build / BuildLoop          *)
(*   IPv4Defragmenter.DiscardOlderThan, flush   DiscardOp, DelFlow         *)
(* All arithmetic of the code is uint16: it is kept modulo W (65536 in the *)
(* code; a small W puts the wrap inside the exhaustive bound, as M does    *)
(* for the sequence space of ReasmImpl.tla).  IPv4.FragOffset is in units  *)
(* of 8 bytes, IPv4.Length in bytes, as in the code.                       *)
(*                                                                         *)
(* Bytes are abstracted by provenance: a fragment's Payload is the run     *)
(* [fi, lo, lo+n) ("fragment fi placed bytes lo..lo+n"), `final` is a      *)
(* sequence of runs [fi, lo, hi, pos]; frag.Payload[startAt:] is the run   *)
(* [fi, lo+startAt, lo+n) and is a PANIC when startAt > n (Go slice        *)
(* bounds).  This is exactly what the harness decodes from the content of  *)
(* the returned payload.                                                   *)
(*                                                                         *)
(* Constant Empties adds final fragments without payload to the alphabet   *)
(* (the only inputs that get past the duplicate test of insert: they are   *)
(* appended whenever fragOffset >= Highest).                               *)
(*                                                                         *)
(* Not transcribed: debug logging, locking (one goroutine), the DF flag    *)
(* (never set by the generator), header fields copied verbatim (TOS, TTL,  *)
(* Protocol, addresses, Options, Padding).                                 *)
(*                                                                         *)
(* The model emits exactly the events harness/cmd/defrag(_impl) records    *)
(* from the real code (frag, discard); they are fed to Defrag!Judge.       *)
(* ImplSatisfiesProp: Judge accepts every one of them.  Constants switch   *)
(* the shapes the code had before its fix: commits on (LengthWithHeader    *)
(* 8495df6, OverlapAdvance bb3a8a3, IhlAware 81c191c, StoreTail 71be4e0)   *)
(* and a proposed repair (OverrunFix: the oversize test of securityChecks  *)
(* is computed in uint16 and can never fire).  Every decision of the code  *)
(* is tagged (Tag); the export prints, besides a hash-selected slice of    *)
(* all complete paths, one behaviour per distinct set of decisions taken   *)
(* in the last operation.  Script runs one given scenario.                 *)
(***************************************************************************)
EXTENDS Defrag, Json

CONSTANTS
  W,                 \* modulus of uint16 arithmetic: 65536 in the code
  MaxFO,             \* IPv4MaximumFragmentOffset: 8183 in the code
  MaxList,           \* IPv4MaximumFragmentListLen: 8192 in the code
  Cuts,              \* byte positions at which the datagram of key 1 may be cut (fragment = [lo, hi) with lo, hi in Cuts)
  MaxFragBytes,      \* longest fragment payload offered
  K2,                \* fragments offered for key 2: set of <<lo, hi, mf>>
  Empties,           \* TRUE: final fragments without payload ([p, p), MF = 0) are offered too (not part of DefragGen.tla)
  MaxOps,            \* scenario length
  Cfgs,              \* set of configurations [ihl, kd] (header length in words; how key 2 differs from key 1)
  LengthWithHeader,  \* TRUE: out.Length = IHL*4 + Highest (today); FALSE: Highest (before fix 8495df6)
  OverlapAdvance,    \* TRUE: build advances by the bytes appended (today); FALSE: by frag.FragOffset*8 (before fix bb3a8a3)
  IhlAware,          \* TRUE: payload length = Length - IHL*4 (today); FALSE: Length - 20 (before fix 81c191c)
  StoreTail,         \* TRUE: a fragment behind every listed offset but below Highest is appended (today); FALSE: counted
                     \* but not stored (before fix 71be4e0)
  OverrunFix,        \* FALSE: today's code (fragOffset+ip.Length is a uint16 sum compared with 65535: never true);
                     \* TRUE: proposed repair (the sum is computed without wrapping)
  Script,            \* <<>>: every scenario within the bounds; otherwise the one scenario to run
  ExportMod, ExportRem,   \* behaviours whose hash % ExportMod = ExportRem are exported
  ExportSig               \* TRUE: also one behaviour per distinct set of code decisions (branch tags)

ASSUME TLCSet(1, {})

VARIABLES ops,       \* scenario so far: <<"frag", key, lo, hi, mf>> (bytes) | <<"discard", t>>
          conf,      \* configuration of this behaviour (element of Cfgs)
          df,        \* the IPv4Defragmenter + what the harness needs (events of the current operation, tags)
          st,        \* Defrag (property) state fed with the model's events
          verdicts,  \* <<reason, event>> for every event Judge rejected
          pred       \* per operation: the events the model predicts
ivars == <<ops, conf, df, st, verdicts, pred>>

-----------------------------------------------------------------------------
(* uint16 arithmetic and the package constants: defrag.go:35-40 *)
MinFrag == 8                       \* IPv4MinimumFragmentSize
MaxSize == W - 1                   \* IPv4MaximumSize
U16(n) == n % W
Sub16(m, n) == (m + W - n) % W     \* m, n in 0..W-1

-----------------------------------------------------------------------------
(* state *)
NewList == [list |-> <<>>, highest |-> 0, current |-> 0, final |-> FALSE, lastSeen |-> 0,
            key |-> 0]             \* ghost: the generator's key (for the invariants only)
NewDf == [flows |-> <<>>, evs |-> <<>>, panic |-> FALSE, tags |-> {}, ltags |-> {}]

Emit(d, ev) == [d EXCEPT !.evs = Append(@, ev)]
\* branch coverage of the transcription: which decisions of the code an operation went through
Tag(d, tg) == [d EXCEPT !.tags = @ \cup {tg}]
PutFlow(d, mk, fl) == [d EXCEPT !.flows = [q \in DOMAIN d.flows \cup {mk} |-> IF q = mk THEN fl ELSE d.flows[q]]]
DelFlow(d, mk) == [d EXCEPT !.flows = [q \in DOMAIN d.flows \ {mk} |-> d.flows[q]]]        \* flush / delete(d.ipFlows, k)

(* newIPv4: defrag.go:342-347.  The map key is (NetworkFlow = ordered (src, dst), Id).  conf.kd selects the ONE component in
   which the second datagram differs from the first (harness/cmd/defrag rotates through the same four ways). *)
KeyOf(k) ==
  CASE conf.kd = 1 -> <<1, 99, 100 + k>>                                      \* same addresses, another id
    [] conf.kd = 2 -> <<k, 99, 101>>                                          \* same id and destination, another source
    [] conf.kd = 3 -> IF k = 1 THEN <<1, 99, 101>> ELSE <<99, k - 1, 101>>    \* same id, opposite direction
    [] OTHER       -> <<k, 99, 100 + k>>

\* a *layers.IPv4 as far as the code reads it: FragOffset (units of 8), Length (bytes), IHL (words), MF;
\* Payload = the run [fi, lo, lo + n)
Hdr(f) == f.ihl * 4                                                            \* uint16(in.IHL)*4
FragLen(f) == IF IhlAware THEN Sub16(f.length, Hdr(f)) ELSE Sub16(f.length, 20)
Off8(f) == U16(f.fo * 8)                                                       \* in.FragOffset * 8

-----------------------------------------------------------------------------
(* securityChecks: defrag.go:173-196; returns "ok" or the error *)
SecurityChecks(in) ==
  LET fragSize == Sub16(in.length, Hdr(in))
      fragOffset == Off8(in)
      sum == IF OverrunFix THEN fragOffset + in.length ELSE U16(fragOffset + in.length)
  IN IF in.mf /\ fragSize < MinFrag THEN "too-small"
     ELSE IF in.fo > MaxFO THEN "offset-too-big"
     ELSE IF sum > MaxSize THEN "overrun"
     ELSE "ok"

-----------------------------------------------------------------------------
(* build: defrag.go:283-333.  The loop over f.List with the locals (final, currentOffset). *)
RECURSIVE RunsTotal(_, _)
RunsTotal(rs, i) == IF i > Len(rs) THEN 0 ELSE (rs[i].hi - rs[i].lo) + RunsTotal(rs, i + 1)
\* final = append(final, frag.Payload[startAt:]...)
AppendPayload(rs, f, startAt) ==
  IF startAt >= f.n THEN rs
  ELSE Append(rs, [fi |-> f.fi, lo |-> f.lo + startAt, hi |-> f.lo + f.n, pos |-> RunsTotal(rs, 1)])

RECURSIVE BuildLoop(_, _, _, _, _)
BuildLoop(l, i, rs, cur, tgs) ==
  IF i > Len(l) THEN [res |-> "ok", why |-> "", runs |-> rs, tags |-> tgs]
  ELSE
  LET f == l[i]
      o == Off8(f)
      flen == FragLen(f)
  IN
  IF o = cur                                                     \* frag.FragOffset*8 == currentOffset
  THEN BuildLoop(l, i + 1, AppendPayload(rs, f, 0), U16(cur + flen), tgs \cup {"build-adjacent"})
  ELSE IF o < cur                                                \* overlapping fragment
  THEN LET startAt == cur - o IN
       IF startAt > flen THEN [res |-> "err", why |-> "invalid-fragment", runs |-> <<>>, tags |-> tgs \cup {"build-invalid-fragment"}]
       ELSE IF startAt > f.n THEN [res |-> "panic", why |-> "slice-bounds-payload", runs |-> <<>>, tags |-> tgs \cup {"build-panic"}]
       ELSE BuildLoop(l, i + 1, AppendPayload(rs, f, startAt),
                      IF OverlapAdvance THEN U16(cur + Sub16(flen, startAt)) ELSE U16(cur + o),
                      tgs \cup {IF startAt = f.n THEN "build-overlap-nothing-new" ELSE "build-overlap-tail"})
  ELSE [res |-> "err", why |-> "hole", runs |-> <<>>, tags |-> tgs \cup {"build-hole"}]

Build(fl, in) ==
  LET b == BuildLoop(fl.list, 1, <<>>, 0, {}) IN
  IF b.res # "ok" THEN [res |-> b.res, why |-> b.why, out |-> <<>>, tags |-> b.tags]
  ELSE [res |-> "dgram", why |-> "",
        out |-> [ihl |-> in.ihl, runs |-> b.runs, plen |-> RunsTotal(b.runs, 1),
                 length |-> IF LengthWithHeader THEN U16(Hdr(in) + fl.highest) ELSE fl.highest],
        tags |-> b.tags \cup {"build-done"}]

-----------------------------------------------------------------------------
(* insert: defrag.go:214-278; returns [fl, res, why, out, tags] *)
RECURSIVE InsLoop(_, _, _)
InsLoop(l, in, i) ==                       \* the for loop over f.List
  IF i > Len(l) THEN <<"end", 0>>
  ELSE IF in.fo = l[i].fo THEN <<"dup", i>>
  ELSE IF in.fo < l[i].fo THEN <<"before", i>>
  ELSE InsLoop(l, in, i + 1)
InsertAt(l, i, f) == SubSeq(l, 1, i - 1) \o <<f>> \o SubSeq(l, i, Len(l))

Insert(fl, in, t) ==
  LET fragOffset == Off8(in)
      where == IF fragOffset >= fl.highest THEN <<"back", 0>> ELSE InsLoop(fl.list, in, 1)
  IN
  IF where[1] = "dup" THEN [fl |-> fl, res |-> "nil", why |-> "", out |-> <<>>, tags |-> {"ins-duplicate-offset"}]   \* return nil, nil
  ELSE
  LET l2 == CASE where[1] = "back"   -> Append(fl.list, in)
              [] where[1] = "before" -> InsertAt(fl.list, where[2], in)
              [] OTHER               -> IF StoreTail THEN Append(fl.list, in) ELSE fl.list
      t1 == CASE where[1] = "back"   -> IF Len(fl.list) = 0 THEN "ins-first" ELSE "ins-back"
              [] where[1] = "before" -> IF where[2] = 1 THEN "ins-before-front" ELSE "ins-before-middle"
              [] OTHER               -> "ins-back-inside-seen-data"
      fragLength == FragLen(in)
      end == U16(fragOffset + fragLength)
      hi2 == IF fl.highest < end THEN end ELSE fl.highest
      cur2 == U16(fl.current + fragLength)
      fin2 == fl.final \/ ~in.mf
      fl2 == [fl EXCEPT !.list = l2, !.highest = hi2, !.current = cur2, !.final = fin2, !.lastSeen = t]
      t2 == {t1, IF fl.highest < end THEN "highest-raised" ELSE "highest-kept", IF in.mf THEN "more-fragments" ELSE "final-fragment"}
  IN
  IF fin2 /\ hi2 = cur2
  THEN LET b == Build(fl2, in) IN [fl |-> fl2, res |-> b.res, why |-> b.why, out |-> b.out, tags |-> t2 \cup b.tags]
  ELSE [fl |-> fl2, res |-> "nil", why |-> "", out |-> <<>>,
        tags |-> t2 \cup {IF ~fin2 THEN "wait-no-final-yet" ELSE IF cur2 < hi2 THEN "wait-bytes-missing" ELSE "wait-counted-more-than-highest"}]

-----------------------------------------------------------------------------
(* DefragIPv4WithTimestamp: defrag.go:84-133 *)
\* the harness's own classification of its input (read by Judge for the error clause only)
Sane(in) == ~(in.mf /\ in.n < 8) /\ in.lo \div 8 <= MaxFO /\ in.lo + in.ihl * 4 + in.n <= MaxSize

DefragOp(d, k, lo, hi, mf, t) ==
  LET in == [fi |-> t, fo |-> lo \div 8, length |-> conf.ihl * 4 + (hi - lo), ihl |-> conf.ihl, mf |-> mf, lo |-> lo, n |-> hi - lo]
      base == [op |-> "frag", key |-> k, fi |-> t, lo |-> lo, hi |-> hi, mf |-> mf, ts |-> t, res |-> "nil", runs |-> <<>>,
               plen |-> 0, length |-> 0, flags |-> 0, fragoff |-> 0, ihl |-> conf.ihl, sane |-> Sane(in), why |-> ""]
  IN
  IF ~mf /\ in.fo = 0                                                   \* dontDefrag: return in, nil
  THEN Emit(Tag(d, "pass-through"), [base EXCEPT !.res = "same"])
  ELSE
  LET sc == SecurityChecks(in) IN
  IF sc # "ok" THEN Emit(Tag(d, "sec-" \o sc), [base EXCEPT !.res = "err", !.why = sc])
  ELSE
  LET mk == KeyOf(k)
      exist == mk \in DOMAIN d.flows
      fl == IF exist THEN d.flows[mk] ELSE [NewList EXCEPT !.key = k]       \* fl = new(fragmentList); d.ipFlows[ipf] = fl
      r == Insert(fl, in, t)
      d1 == [d EXCEPT !.tags = @ \cup r.tags \cup {IF exist THEN "flow-known" ELSE "flow-new"}]
  IN
  IF r.res = "panic"
  THEN [Emit(PutFlow(d1, mk, r.fl), [base EXCEPT !.res = "panic", !.why = r.why]) EXCEPT !.panic = TRUE]
  ELSE IF r.res # "dgram" /\ Len(r.fl.list) + 1 > MaxList               \* out == nil && fl.List.Len()+1 > IPv4MaximumFragmentListLen
  THEN Emit(Tag(DelFlow(d1, mk), "list-full"), [base EXCEPT !.res = "err", !.why = "list-full"])
  ELSE IF r.res = "dgram"                                               \* d.flush(ipf); return out, nil
  THEN Emit(Tag(DelFlow(d1, mk), "flush-after-datagram"),
            [base EXCEPT !.res = "dgram", !.runs = r.out.runs, !.plen = r.out.plen, !.length = r.out.length, !.ihl = r.out.ihl])
  ELSE Emit(PutFlow(d1, mk, r.fl), [base EXCEPT !.res = r.res, !.why = r.why])      \* return nil, err2

(* DiscardOlderThan: defrag.go:138-149 *)
DiscardOp(d, t) ==
  LET old == {mk \in DOMAIN d.flows : d.flows[mk].lastSeen < t}         \* v.LastSeen.Before(t)
      d1 == [d EXCEPT !.flows = [q \in DOMAIN d.flows \ old |-> d.flows[q]]]
      tg == IF DOMAIN d.flows = {} THEN "discard-empty-map" ELSE IF old = {} THEN "discard-none"
            ELSE IF old = DOMAIN d.flows THEN "discard-all" ELSE "discard-some"
  IN Emit(Tag(d1, tg), [op |-> "discard", t |-> t, n |-> Cardinality(old)])

-----------------------------------------------------------------------------
(* the scenario machine *)
RECURSIVE Feed(_, _, _, _)
Feed(s, evs, i, bad) ==
  IF i > Len(evs) THEN <<s, bad>>
  ELSE LET r == Judge(s, evs[i])
       IN Feed(r[2], evs, i + 1, IF r[1] = "ok" THEN bad ELSE Append(bad, <<r[1], evs[i]>>))

Init == /\ ops = <<>>
        /\ conf \in Cfgs
        /\ df = NewDf
        /\ st = Judge(NewState, [op |-> "cfg", ihl |-> conf.ihl, v |-> 4])[2]
        /\ verdicts = <<>>
        /\ pred = <<>>

Do(op, d) ==
  LET f == Feed(st, d.evs, 1, verdicts)
  IN /\ Script = <<>> \/ (Len(ops) < Len(Script) /\ Script[Len(ops) + 1] = op)
     /\ ops' = Append(ops, op)
     /\ df' = [d EXCEPT !.evs = <<>>, !.tags = {}, !.ltags = d.tags]
     /\ st' = f[1] /\ verdicts' = f[2]
     /\ pred' = Append(pred, d.evs)
     /\ UNCHANGED conf

\* a fragment the harness can put on the wire: FragOffset*8 = lo, Length = IHL*4 + n fits its 16-bit field.  Positions that
\* are not multiples of 8 occur only as the end of the datagram (provenance is decoded in groups of 8 bytes).
TopCut == CHOOSE c \in Cuts : \A c2 \in Cuts : c2 <= c
Offerable(lo, hi) == /\ lo < hi /\ hi - lo <= MaxFragBytes
                     /\ lo % 8 = 0 /\ (hi % 8 = 0 \/ hi = TopCut)
                     /\ lo < W /\ conf.ihl * 4 + (hi - lo) < W

Next ==
  /\ Len(ops) < MaxOps
  /\ ~df.panic
  /\ LET ts == Len(ops) + 1 IN
     \/ \E lo \in Cuts, hi \in Cuts, mf \in BOOLEAN :
           Offerable(lo, hi) /\ Do(<<"frag", 1, lo, hi, mf>>, DefragOp(df, 1, lo, hi, mf, ts))
     \/ Empties /\ \E p \in Cuts : p > 0 /\ p % 8 = 0 /\ p < W /\ Do(<<"frag", 1, p, p, FALSE>>, DefragOp(df, 1, p, p, FALSE, ts))
     \/ \E f \in K2 : Do(<<"frag", 2, f[1], f[2], f[3]>>, DefragOp(df, 2, f[1], f[2], f[3], ts))
     \/ \E t \in {Len(ops), Len(ops) + 1} : t >= 2 /\ Do(<<"discard", t>>, DiscardOp(df, t))

Spec == Init /\ [][Next]_ivars

-----------------------------------------------------------------------------
(* what TLC checks *)

\* the design-level statement: the code's algorithm satisfies the property
ImplSatisfiesProp ==
  verdicts = <<>> \/ (PrintT("CEX " \o ToJson([cfg |-> conf, ops |-> ops, verdicts |-> verdicts, inv |-> "ImplSatisfiesProp"])) /\ FALSE)

\* the code's own bookkeeping, read off the source
Lists == {df.flows[mk] : mk \in DOMAIN df.flows}
RECURSIVE SumLen(_, _)
SumLen(l, i) == IF i > Len(l) THEN 0 ELSE FragLen(l[i]) + SumLen(l, i + 1)
RECURSIVE MaxEnd(_, _, _)
MaxEnd(l, i, m) == IF i > Len(l) THEN m
                   ELSE LET en == U16(Off8(l[i]) + FragLen(l[i])) IN MaxEnd(l, i + 1, IF en > m THEN en ELSE m)
Note(name) == PrintT("CEX " \o ToJson([cfg |-> conf, ops |-> ops, verdicts |-> verdicts, inv |-> name])) /\ FALSE

\* "we are inserting fragment based on their offset": the list is ordered by offset, no offset twice - except behind a
\* fragment without payload (the append-at-the-end path does not look for duplicates: fragOffset >= Highest)
ListSorted == (\A fl \in Lists : \A i \in 1..(Len(fl.list) - 1) :
                  \/ fl.list[i].fo < fl.list[i + 1].fo
                  \/ fl.list[i].fo = fl.list[i + 1].fo /\ fl.list[i].n = 0) \/ Note("ListSorted")
\* Current is "the current length it has received": the sum of the lengths of the listed fragments
CurrentIsSum == (\A fl \in Lists : fl.current = U16(SumLen(fl.list, 1))) \/ Note("CurrentIsSum")
\* Highest is the highest end of a listed fragment
HighestIsMax == (\A fl \in Lists : fl.highest = MaxEnd(fl.list, 1, 0)) \/ Note("HighestIsMax")
\* FinalReceived iff a fragment without MF is listed; LastSeen is the time of the newest listed fragment; no empty entry
FinalIffListed == (\A fl \in Lists : fl.final <=> \E i \in 1..Len(fl.list) : ~fl.list[i].mf) \/ Note("FinalIffListed")
LastSeenIsNewest == (\A fl \in Lists : /\ Len(fl.list) > 0
                                       /\ (\E i \in 1..Len(fl.list) : fl.list[i].fi = fl.lastSeen)
                                       /\ (\A j \in 1..Len(fl.list) : fl.list[j].fi <= fl.lastSeen)) \/ Note("LastSeenIsNewest")
\* distinct datagrams have distinct map entries, and an entry holds fragments of its own datagram only, each of them one
\* the property state has recorded as received (the code never holds more than it was given)
KeysSeparate == (\A mk \in DOMAIN df.flows : KeyOf(df.flows[mk].key) = mk) \/ Note("KeysSeparate")
ListedWereReceived ==
  (\A fl \in Lists : \A i \in 1..Len(fl.list) :
      \E g \in GetK(st, fl.key).frags : g.fi = fl.list[i].fi /\ g.lo = fl.list[i].lo /\ g.hi = fl.list[i].lo + fl.list[i].n /\ g.mf = fl.list[i].mf)
  \/ Note("ListedWereReceived")
\* an entry that is left in the map is not ready (a ready one was built and flushed), unless build refused it
ReadyWasBuilt ==
  (\A fl \in Lists : (fl.final /\ fl.highest = fl.current) => GetK(st, fl.key).tainted) \/ Note("ReadyWasBuilt")
NoPanic == ~df.panic \/ Note("NoPanic")
Structure == ListSorted /\ CurrentIsSum /\ HighestIsMax /\ FinalIffListed /\ LastSeenIsNewest /\ KeysSeparate
             /\ ListedWereReceived /\ ReadyWasBuilt /\ NoPanic

\* behaviour export (model -> implementation): configuration, operations, predicted events per operation
RECURSIVE OpsHash(_, _, _)
OpsHash(o, i, acc) ==
  IF i > Len(o) THEN acc
  ELSE LET x == o[i]
           c == IF x[1] = "frag" THEN 1 + x[2] + 3 * (x[3] % 9973) + 7 * (x[4] % 9973) + (IF x[5] THEN 5 ELSE 0) ELSE 100003 + x[2]
       IN OpsHash(o, i + 1, (acc * 131 + c) % 1000003)
BehHash == (OpsHash(ops, 1, 7) + 17 * conf.ihl + 5 * conf.kd) % ExportMod
Finished == Len(ops) = (IF Script = <<>> THEN MaxOps ELSE Len(Script)) \/ df.panic
\* signature-directed export: one behaviour per distinct set of decisions taken in its last operation (per TLC worker:
\* the registers are thread local) and header length, besides the hash-selected slice
Sig == <<df.ltags, conf.ihl>>
ExportLine(kind) == PrintT(kind \o ToJson([cfg |-> conf, ops |-> ops, pred |-> pred, verdicts |-> verdicts, sig |-> Sig]))
Export ==
  Finished => IF BehHash = ExportRem THEN ExportLine("BEH ")
              ELSE IF ExportSig /\ Sig \notin TLCGet(1) THEN TLCSet(1, TLCGet(1) \cup {Sig}) /\ ExportLine("SIG ")
              ELSE TRUE
=============================================================================
