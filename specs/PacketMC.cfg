SPECIFICATION Spec
CONSTANTS
  Steps <- MC_Steps
  MaxScript = 4
  MaxProg = 5
INVARIANTS LazyEqualsEager PrefixInv ErrorLayerLaws
VIEW MCView
CHECK_DEADLOCK FALSE
