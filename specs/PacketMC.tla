------------------------------ MODULE PacketMC ------------------------------
EXTENDS Packet, Json
\* 5 kinds x out=next, every out on a plain layer, AddLayer-then-fail on pointer layers, truncating variants
MC_Steps == {0, 16, 32, 48, 64} \cup {2, 4, 6, 8, 10, 12} \cup {34, 38, 42, 44, 54, 70} \cup {1, 5, 33}

\* exhaustive design check: the accessor history is irrelevant for the next state
MCView == <<script, lazy, lastRes>>

\* behaviour export (model -> implementation): one line per complete accessor program
Export == Len(prog) = MaxProg => PrintT("BEH " \o ToJson([script |-> script, prog |-> prog]))
=============================================================================
