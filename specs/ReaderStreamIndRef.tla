-------------------------- MODULE ReaderStreamIndRef --------------------------
(***************************************************************************)
(* X22IND (c): binds ReaderStreamInd.tla (operator constants, proved with  *)
(* TLAPS) to ReaderStream.tla (recursive operators, model-checked and      *)
(* replayed by C20).  TLC checks on the C20 bounds: every behaviour of the *)
(* original is a behaviour of the copy instantiated with the original's    *)
(* recursive operators (RRefines), the copy's IndInv holds (RInd), and the *)
(* hand-written enabledness predicate is the real one (StuckIsEnabled).    *)
(***************************************************************************)
EXTENDS ReaderStreamMC
R == INSTANCE ReaderStreamInd WITH Ranges <- Ranges, BatchLen <- BatchLen, StripEmpty <- StripEmpty
RRefines == R!Spec
RInd == AckInClose => R!IndInv
StuckIsEnabled == R!NotStuck <=> ENABLED Next
ASSUME R!HistOK
=============================================================================
