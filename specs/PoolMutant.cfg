SPECIFICATION PSpec
CONSTANTS
  T = 2
  P = 1
  MaxBig = 0
  SplitLog = FALSE
  LateWrite = TRUE
INVARIANTS NoAlias
CHECK_DEADLOCK FALSE
