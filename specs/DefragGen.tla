------------------------------ MODULE DefragGen ------------------------------
(***************************************************************************)
(* Scenario generator for the defragmenters plus an IDEAL defragmenter.    *)
(* A scenario is a bounded sequence of                                     *)
(*   <<"frag", key, lo, hi, mf>>   fragment carrying bytes [lo,hi) (units) *)
(*   <<"discard", t>>                                                      *)
(* Operation i has timestamp i.  Key 1 offers every interval of [0,U) with *)
(* either MF value (so benign partitions in every order, duplicates,       *)
(* overlapping and conflicting sets are all enumerated); key 2 offers the  *)
(* two halves of a small datagram for interleaving.  The ideal             *)
(* defragmenter's answers are judged by Defrag!Judge inside the model.     *)
(***************************************************************************)
EXTENDS Defrag, Json

CONSTANTS U, MaxOps
VARIABLES ops, st, verdicts, ideal
gvars == <<ops, st, verdicts, ideal>>

Init == ops = <<>> /\ st = NewState /\ verdicts = <<>> /\ ideal = <<>>

IGet(key) == IF key \in DOMAIN ideal THEN ideal[key] ELSE [frags |-> {}, last |-> 0]

\* output runs of a complete benign set, in offset order
RECURSIVE RunsOf(_, _, _)
RunsOf(p, T, S) == IF p >= T THEN <<>>
                   ELSE LET a == CHOOSE x \in S : x.lo = p /\ x.hi > p
                        IN <<[fi |-> a.fi, lo |-> a.lo, hi |-> a.hi, pos |-> p]>> \o RunsOf(a.hi, T, S)

Frag(key, lo, hi, mf) ==
  LET ts == Len(ops) + 1
      fi == ts
      f  == [fi |-> fi, lo |-> lo, hi |-> hi, mf |-> mf]
      ik == IGet(key)
      dup == \E a \in ik.frags : Same(a, f)
      S  == ik.frags \cup {f}
      pass == lo = 0 /\ ~mf
      done == ~pass /\ ~dup /\ Complete(S)
      ev == [op |-> "frag", key |-> key, fi |-> fi, lo |-> lo, hi |-> hi, mf |-> mf, ts |-> ts,
             res |-> (IF pass THEN "same" ELSE IF done THEN "dgram" ELSE "nil"),
             runs |-> (IF done THEN RunsOf(0, Top(S), S) ELSE <<>>),
             plen |-> (IF done THEN Top(S) ELSE 0), length |-> (IF done THEN 20 + Top(S) ELSE 0),
             flags |-> 0, fragoff |-> 0, ihl |-> 5, sane |-> TRUE]
      r == Judge(st, ev)
  IN /\ ops' = Append(ops, <<"frag", key, lo, hi, mf>>)
     /\ st' = r[2]
     /\ verdicts' = IF r[1] = "ok" THEN verdicts ELSE Append(verdicts, <<r[1], ev>>)
     /\ ideal' = IF pass THEN ideal
                 ELSE IF done THEN [x \in DOMAIN ideal \ {key} |-> ideal[x]]
                 ELSE [x \in DOMAIN ideal \cup {key} |-> IF x = key THEN [frags |-> S, last |-> ts] ELSE ideal[x]]

Discard(t) ==
  LET old == {key \in DOMAIN ideal : ideal[key].last < t}
      r == Judge(st, [op |-> "discard", t |-> t, n |-> Cardinality(old)])
  IN /\ ops' = Append(ops, <<"discard", t>>)
     /\ st' = r[2]
     /\ verdicts' = IF r[1] = "ok" THEN verdicts ELSE Append(verdicts, <<r[1], t>>)
     /\ ideal' = [x \in DOMAIN ideal \ old |-> ideal[x]]

Next == /\ Len(ops) < MaxOps
        /\ \/ \E lo \in 0..(U - 1), hi \in 1..U, mf \in BOOLEAN : lo < hi /\ Frag(1, lo, hi, mf)
           \/ Frag(2, 0, 1, TRUE) \/ Frag(2, 1, 2, FALSE)
           \/ \E t \in {Len(ops), Len(ops) + 1} : t >= 2 /\ Discard(t)
Spec == Init /\ [][Next]_gvars

PropAcceptsIdeal == verdicts = <<>>
Export == Len(ops) = MaxOps => PrintT("BEH " \o ToJson(ops))
=============================================================================
