------------------------- MODULE PacketSourceTrace -------------------------
(* Implementation -> model for gopacket.PacketSource (C16): validates the     *)
(* harness-observed events (data-source reads, channel receives, cancel,     *)
(* close) against the Prop layer of PacketSource.tla.                        *)
EXTENDS Integers, Sequences, FiniteSets, TLC, Json

VARIABLES l, st, bad, skip, nbad
tvars == <<l, st, bad, skip, nbad>>
Trace == ndJsonDeserialize("trace.ndjson")

New(e) == [produced |-> <<>>, received |-> 0, cancelled |-> FALSE, eof |-> FALSE, closedSeen |-> FALSE,
           readsAfterCancel |-> 0, mode |-> e.mode, mustRefuse |-> (e.zerocopy /\ e.nocopy /\ e.mode = "chan"),
           refused |-> FALSE, pulls |-> 0]

Judge(s, e) ==
  CASE e.op = "rstart" ->
         IF s.closedSeen THEN <<"read-after-channel-closed", s>>
         ELSE IF s.cancelled /\ s.readsAfterCancel >= 1 THEN <<"reads-continue-after-cancel", s>>
         ELSE <<"ok", [s EXCEPT !.readsAfterCancel = IF s.cancelled THEN @ + 1 ELSE @]>>
    [] e.op = "rend" ->
         IF e.kind = "pkt" THEN <<"ok", [s EXCEPT !.produced = Append(@, e.id)]>>
         ELSE IF e.kind = "eof" THEN <<"ok", [s EXCEPT !.eof = TRUE]>>
         ELSE <<"ok", s>>
    [] e.op = "recv" ->
         IF s.mustRefuse THEN <<"zero-copy-nocopy-not-refused", s>>
         ELSE IF s.received >= Len(s.produced) THEN <<"packet-invented-or-duplicated", s>>
         ELSE IF e.id # s.produced[s.received + 1] THEN
              (IF \E i \in 1..s.received : s.produced[i] = e.id THEN <<"duplicate-packet", s>> ELSE <<"packet-lost-or-reordered", s>>)
         ELSE IF ~e.meta THEN <<"metadata-or-content-wrong", s>>
         ELSE <<"ok", [s EXCEPT !.received = @ + 1]>>
    [] e.op = "rclosed" ->
         IF ~(s.eof \/ s.cancelled) THEN <<"closed-without-end-of-input", s>>
         ELSE IF ~s.cancelled /\ s.received # Len(s.produced) THEN <<"closed-with-undelivered-packets", s>>
         ELSE <<"ok", [s EXCEPT !.closedSeen = TRUE]>>
    [] e.op = "rempty" -> <<"ok", s>>
    [] e.op = "cancel" -> <<"ok", [s EXCEPT !.cancelled = TRUE]>>
    [] e.op = "refused" -> IF s.mustRefuse THEN <<"ok", [s EXCEPT !.refused = TRUE]>> ELSE <<"unexpected-panic", s>>
    [] e.op = "pull" ->
         IF e.want # e.got THEN <<"pull-result-differs-from-source", s>>
         ELSE IF ~e.meta THEN <<"metadata-or-content-wrong", s>>
         ELSE <<"ok", [s EXCEPT !.pulls = @ + 1]>>
    [] e.op = "intact" -> IF e.ok THEN <<"ok", s>> ELSE <<"delivered-packet-altered-by-later-reads", s>>
    [] e.op = "end" ->
         IF s.mustRefuse THEN (IF s.refused THEN <<"ok", s>> ELSE <<"zero-copy-nocopy-not-refused", s>>)
         ELSE IF s.mode = "chan" /\ (s.eof \/ s.cancelled) /\ ~s.closedSeen THEN <<"channel-not-closed", s>>
         ELSE IF s.mode = "chan" /\ ~s.cancelled /\ s.received # Len(s.produced) THEN <<"packets-not-delivered", s>>
         ELSE <<"ok", s>>
    [] e.op = "panic" -> <<"panic", s>>
    [] OTHER -> <<"unknown-event", s>>

Note(b, r) == IF \E i \in 1..Len(b) : b[i].reason = r.reason /\ b[i].op = r.op THEN b
              ELSE IF Len(b) < 100 THEN Append(b, r) ELSE b

TInit == l = 1 /\ st = New([mode |-> "chan", zerocopy |-> FALSE, nocopy |-> FALSE]) /\ bad = <<>> /\ skip = FALSE /\ nbad = 0
Step ==
  /\ l <= Len(Trace)
  /\ l' = l + 1
  /\ LET e == Trace[l] IN
     IF e.op = "reset" THEN st' = New(e) /\ skip' = FALSE /\ UNCHANGED <<bad, nbad>>
     ELSE IF skip THEN UNCHANGED <<st, bad, skip, nbad>>
     ELSE LET r == Judge(st, e) IN
          IF r[1] = "ok" THEN st' = r[2] /\ UNCHANGED <<bad, skip, nbad>>
          ELSE /\ bad' = Note(bad, [sc |-> e.sc, line |-> l, op |-> e.op, reason |-> r[1]])
               /\ nbad' = nbad + 1 /\ skip' = TRUE /\ UNCHANGED st
TSpec == TInit /\ [][Step]_tvars
Done == l = Len(Trace) + 1 => PrintT("VERDICT " \o ToJson([lines |-> Len(Trace), bad |-> bad, nbad |-> nbad]))
=============================================================================
