------------------------ MODULE SerializeBufferExport ------------------------
(* Behaviour export for model -> implementation replay: every complete path *)
(* of SerializeBuffer (length MaxDepth) is printed once as JSON.            *)
EXTENDS SerializeBuffer, Json

MC_Hints == {<<0,0>>, <<1,0>>, <<0,2>>, <<3,3>>}
MC_Stacks == { << <<1,2,0>> >>, << <<1,2,0>>, <<2,1,1>> >>, << <<1,0,0>>, <<2,3,0>>, <<3,1,2>> >> }

Export == Len(hist) = MaxDepth => PrintT("BEH " \o ToJson(hist))
=============================================================================
