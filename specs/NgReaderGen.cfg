SPECIFICATION Spec
INVARIANTS PropAcceptsIdeal PropRejectsChunkDependent Export
CHECK_DEADLOCK FALSE
