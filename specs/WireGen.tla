------------------------------ MODULE WireGen ------------------------------
(***************************************************************************)
(* C06 generator.  TLC enumerates                                          *)
(*  (b) every list-valued SHAPE of the core layers within the bound: for   *)
(*      IPv4 options, TCP options, IPv6 hop-by-hop / destination TLVs,     *)
(*      NDP options of the five neighbour-discovery messages and GRE       *)
(*      source routes (with every combination of the optional GRE fields)  *)
(*      all sequences of 0..MaxList entries over a small alphabet of       *)
(*      (type, length[, alignment]) entries, times the payload classes;    *)
(*  (c) every STACK of the stacking relation Wire!Over from a link layer   *)
(*      down to a terminal layer, with list-bearing layers carrying        *)
(*      0 or 2 entries and GRE used at most once.                          *)
(* For each of them an ideal RFC encoder (the Enc operators of Wire.tla) builds the bytes in   *)
(* the model and the layout laws are evaluated on them (LawsAcceptIdeal:   *)
(* the laws are satisfiable and not over-strict).  Every scenario is       *)
(* printed as "BEH <json>" and instantiated with concrete field values by  *)
(* the Go driver, written by the REAL serializers and judged by Codec.tla. *)
(***************************************************************************)
EXTENDS Wire, Json

CONSTANTS MaxList,      \* list lengths 0..MaxList for IPv4 / TCP options and IPv6 TLVs
          MaxList2,     \* list lengths 0..MaxList2 for NDP options and GRE source routes
          Payloads,     \* payload lengths for the shapes
          StackPayloads \* payload lengths for the stacks
VARIABLES g
NoF == [c |-> FALSE, r |-> FALSE, k |-> FALSE, s |-> FALSE, a |-> FALSE,
        keyb |-> <<0, 0, 0, 1>>, seqb |-> <<0, 0, 0, 2>>, ackb |-> <<0, 0, 0, 3>>, jumbo |-> FALSE, padzero |-> TRUE]

A4   == {<<1, 1>>, <<148, 4>>, <<7, 7>>, <<130, 3>>, <<68, 6>>}
ATCP == {<<1, 1>>, <<2, 4>>, <<3, 3>>, <<4, 2>>, <<8, 10>>}
ATLV == {<<5, 2, 2, 0>>, <<30, 0, 0, 0>>, <<62, 1, 0, 0>>, <<38, 4, 4, 2>>, <<201, 16, 8, 6>>}
ANDP == {<<1, 6>>, <<2, 6>>, <<5, 6>>, <<3, 30>>, <<25, 22>>}
ASRE == {<<2048, 4>>, <<2048, 8>>, <<65534, 2>>, <<5, 0>>}

Seqs(A, n) == UNION {[1..m -> A] : m \in 0..n}
WithEOL(S) == S \cup {Append(s, <<0, 1>>) : s \in S}
KLLen(l) == SumSeq([i \in 1..Len(l) |-> l[i][2]], 1)

NDPKinds == {"ICMPv6RouterSolicitation", "ICMPv6RouterAdvertisement", "ICMPv6NeighborSolicitation",
             "ICMPv6NeighborAdvertisement", "ICMPv6Redirect"}
Flags == {[NoF EXCEPT !.c = c, !.r = r, !.k = k, !.s = s, !.a = a] : c, r, k, s, a \in BOOLEAN}

Shapes ==
  {[kind |-> "IPv4", list |-> l, f |-> NoF] : l \in {x \in WithEOL(Seqs(A4, MaxList)) : KLLen(x) <= 40}}
  \cup {[kind |-> "TCP", list |-> l, f |-> NoF] : l \in {x \in WithEOL(Seqs(ATCP, MaxList)) : KLLen(x) <= 40}}
  \cup {[kind |-> "IPv6HopByHop", list |-> l, f |-> NoF] : l \in Seqs(ATLV, MaxList)}
  \cup {[kind |-> "IPv6Destination", list |-> l, f |-> NoF] : l \in Seqs(ATLV, MaxList)}
  \cup {[kind |-> k, list |-> l, f |-> NoF] : k \in NDPKinds, l \in Seqs(ANDP, MaxList2)}
  \cup UNION {{[kind |-> "GRE", list |-> l, f |-> f] : l \in {x \in Seqs(ASRE, MaxList2) : x = <<>> \/ f.r}} : f \in Flags}

\* the ideal encoding of a shape over a payload of `after` bytes, and the law that judges it
IdealShape(s, after) ==
  CASE s.kind = "IPv4" -> EncIPv4(s.list, after, 6)
    [] s.kind = "TCP" -> EncTCP(s.list)
    [] s.kind \in {"IPv6HopByHop", "IPv6Destination"} -> EncTLV(6, s.list)
    [] s.kind = "GRE" -> EncGRE(s.f, s.list, 2048)
    [] OTHER -> EncNDP(s.kind, s.list)
AsLayer(s, h, after) == [t |-> s.kind, hdr |-> h, after |-> after, trailer |-> 0, list |-> s.list, f |-> s.f]

-----------------------------------------------------------------------------
(* stacks: sequences of [t, list, hbh, f]; grown by Next along Wire!Over    *)
C4   == << <<148, 4>>, <<7, 7>> >>
CTCP == << <<2, 4>>, <<3, 3>> >>
CTLV == << <<5, 2, 2, 0>>, <<62, 1, 0, 0>> >>
CNDP == << <<1, 6>>, <<5, 6>> >>
CSRE == << <<2048, 4>>, <<65534, 2>> >>
L(t, list, hbh, f) == [t |-> t, list |-> list, hbh |-> hbh, f |-> f]
Variants(t) ==
  CASE t = "IPv4" -> {L(t, <<>>, FALSE, NoF), L(t, C4, FALSE, NoF)}
    [] t = "TCP" -> {L(t, <<>>, FALSE, NoF), L(t, CTCP, FALSE, NoF)}
    [] t = "IPv6" -> {L(t, <<>>, FALSE, NoF), L(t, CTLV, TRUE, NoF)}
    [] t = "IPv6Destination" -> {L(t, CTLV, FALSE, NoF)}
    [] IsNDP(t) -> {L(t, <<>>, FALSE, NoF), L(t, CNDP, FALSE, NoF)}
    [] t = "GRE" -> {L(t, <<>>, FALSE, [NoF EXCEPT !.k = TRUE]),
                     L(t, CSRE, FALSE, [NoF EXCEPT !.r = TRUE, !.a = TRUE, !.c = TRUE])}
    [] OTHER -> {L(t, <<>>, FALSE, NoF)}
HasGRE(st) == \E i \in 1..Len(st) : st[i].t = "GRE"
Last(st) == st[Len(st)]
Complete(st) == Len(st) > 0 /\ (Last(st).t = "Payload" \/ Terminal(Last(st).t))

\* what the header of layer i must name as its content
CodeAt(st, i) == IF i = Len(st) \/ st[i + 1].t = "Payload" THEN -1 ELSE ExpectedNext(st[i].t, st[i + 1].t)

\* ideal encoding of the whole stack, innermost first: returns the packet bytes from layer i on
RECURSIVE EncFrom(_, _, _)
HdrOf(st, i, after) ==
  LET x == st[i]
      c == IF CodeAt(st, i) < 0 THEN 253 ELSE CodeAt(st, i) IN
  CASE x.t = "Ethernet" -> <<2, 0, 0, 0, 0, 1, 2, 0, 0, 0, 0, 2, Hi(c), Lo(c)>>
    [] x.t = "Dot1Q" -> <<0, 5, Hi(c), Lo(c)>>
    [] x.t = "IPv4" -> EncIPv4(x.list, after, c)
    [] x.t = "IPv6" -> IF x.hbh THEN LET e == EncTLV(c, x.list) IN EncIPv6(Len(e) + after, 0) \o e
                       ELSE EncIPv6(after, c)
    [] x.t = "IPv6Destination" -> EncTLV(c, x.list)
    [] x.t = "IPv6Routing" -> <<c, 2, 0, 1, 0, 0, 0, 0>> \o Fill(16, 9)
    [] x.t = "IPv6Fragment" -> <<c, 0, 0, 0, 0, 0, 0, 7>>
    [] x.t = "TCP" -> EncTCP(x.list)
    [] x.t = "UDP" -> EncUDP(after)
    [] x.t = "ICMPv4" -> <<8, 0, 0, 0, 0, 1, 0, 1>>
    [] x.t = "ICMPv6" -> <<c, 0, 0, 0>>
    [] x.t = "ICMPv6Echo" -> <<0, 1, 0, 1>>
    [] x.t = "GRE" -> EncGRE(x.f, x.list, c)
    [] IsNDP(x.t) -> EncNDP(x.t, x.list)
    [] OTHER -> <<>>
EncFrom(st, i, pl) ==
  IF i > Len(st) THEN <<>>
  ELSE IF st[i].t = "Payload" THEN Fill(pl, 170)
  ELSE LET inner == EncFrom(st, i + 1, pl)
           h == HdrOf(st, i, Len(inner))
           tr == IF st[i].t = "Ethernet" /\ 14 + Len(inner) < 60 THEN Zeros(60 - 14 - Len(inner)) ELSE <<>> IN
       h \o inner \o tr

StackLaws(st, pl) ==
  \A i \in 1..Len(st) :
     st[i].t = "Payload" \/
     LET inner == EncFrom(st, i + 1, pl)
         h == HdrOf(st, i, Len(inner))
         tr == IF st[i].t = "Ethernet" /\ 14 + Len(inner) < 60 THEN 60 - 14 - Len(inner) ELSE 0 IN
     /\ LayerLaw([t |-> st[i].t, hdr |-> h, after |-> Len(inner), trailer |-> tr, list |-> st[i].list,
                  f |-> st[i].f]) = "ok"
     /\ CodeAt(st, i) >= 0 => NextField(st[i].t, h) = CodeAt(st, i)

-----------------------------------------------------------------------------
(* stacks at the 16-bit length limits: the largest payload that still fits a length field and the first that   *)
(* does not (UDP length and IPv6 payload length 65535, IPv4 total length 65535; for UDP over IPv6 the whole     *)
(* window in which an off-by-header-size jumbo decision would wrap the UDP length)                              *)
Lim == 65535
HbhLen == Len(EncTLV(0, CTLV))
PL == L("Payload", <<>>, FALSE, NoF)
S4(t) == << L("Ethernet", <<>>, FALSE, NoF), L("IPv4", <<>>, FALSE, NoF), L(t, <<>>, FALSE, NoF), PL >>
S6(t, h) == << L("Ethernet", <<>>, FALSE, NoF),
               IF h THEN L("IPv6", CTLV, TRUE, NoF) ELSE L("IPv6", <<>>, FALSE, NoF), L(t, <<>>, FALSE, NoF), PL >>
BoundStacks ==
  {<<S6("UDP", FALSE), Lim - 8 + d>> : d \in {0, 1, 2, 4, 8, 9}}
  \cup {<<S6("UDP", TRUE), Lim - HbhLen - 8 + d>> : d \in {0, 1}}
  \cup {<<S6("TCP", FALSE), Lim - 20 + d>> : d \in {0, 1}}
  \cup {<<S6("TCP", TRUE), Lim - HbhLen - 20 + d>> : d \in {0, 1}}
  \cup {<<S4("UDP"), Lim - 20 - 8 + d>> : d \in {0, 1}}
  \cup {<<S4("TCP"), Lim - 20 - 20 + d>> : d \in {0, 1}}
\* the ideal encoders know no jumbograms: they are consulted only for what fits the length fields
Fits(st, pl) ==
  pl < 60000 \/
  LET inner == Len(EncFrom(st, 3, pl)) IN
  IF st[2].t = "IPv6" THEN inner + (IF st[2].hbh THEN HbhLen ELSE 0) <= Lim ELSE 20 + inner <= Lim

\* neighbour-discovery messages carry options, not a payload
PayloadsOf(s) == IF IsNDP(s.kind) THEN {0} ELSE Payloads
Init == \/ \E s \in Shapes : \E p \in PayloadsOf(s) : g = [kind |-> "shape", shape |-> s, pl |-> p, stack |-> <<>>]
        \/ \E t \in LinkLayers : \E v \in Variants(t) : g = [kind |-> "stack", shape |-> <<>>, pl |-> 0, stack |-> <<v>>]
        \/ \E b \in BoundStacks : g = [kind |-> "stack", shape |-> <<>>, pl |-> b[2], stack |-> b[1]]
Grow == /\ g.kind = "stack" /\ ~Complete(g.stack) /\ Len(g.stack) < 9
        /\ \E t \in Over(Last(g.stack).t) :
             /\ t = "GRE" => ~HasGRE(g.stack)
             /\ IF t = "Payload"
                THEN \E p \in StackPayloads : g' = [g EXCEPT !.stack = Append(@, L("Payload", <<>>, FALSE, NoF)), !.pl = p]
                ELSE \E v \in Variants(t) : g' = [g EXCEPT !.stack = Append(@, v)]
Next == Grow
Spec == Init /\ [][Next]_g

LawsAcceptIdeal ==
  /\ g.kind = "shape" =>
       LayerLaw(AsLayer(g.shape, IdealShape(g.shape, g.pl), g.pl)) = "ok"
  /\ (g.kind = "stack" /\ Complete(g.stack) /\ Fits(g.stack, g.pl)) => StackLaws(g.stack, g.pl)

\* a wrong encoding is rejected: the same shape with the list reversed / one byte of padding set (non-vacuity)
Rev(s) == [i \in 1..Len(s) |-> s[Len(s) + 1 - i]]
LawsRejectWrong ==
  g.kind = "shape" /\ Len(g.shape.list) >= 2 /\ Rev(g.shape.list) # g.shape.list
     /\ g.shape.list[Len(g.shape.list)][1] # 0 /\ g.shape.list[1][1] # 0 =>
       LayerLaw(AsLayer(g.shape, IdealShape([g.shape EXCEPT !.list = Rev(@)], g.pl), g.pl)) # "ok"

StackOut(st) == [i \in 1..Len(st) |-> [t |-> st[i].t, list |-> st[i].list, hbh |-> st[i].hbh,
                                       gf |-> <<st[i].f.c, st[i].f.r, st[i].f.k, st[i].f.s, st[i].f.a>>,
                                       code |-> CodeAt(st, i)]]
Export ==
  /\ g.kind = "shape" => PrintT("BEH " \o ToJson([kind |-> "shape", t |-> g.shape.kind, list |-> g.shape.list,
         gf |-> <<g.shape.f.c, g.shape.f.r, g.shape.f.k, g.shape.f.s, g.shape.f.a>>, pl |-> g.pl]))
  /\ (g.kind = "stack" /\ Complete(g.stack)) =>
         PrintT("BEH " \o ToJson([kind |-> "stack", layers |-> StackOut(g.stack), pl |-> g.pl]))
=============================================================================
