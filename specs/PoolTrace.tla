----------------------------- MODULE PoolTrace -----------------------------
(* Implementation -> model: validates the events recorded around the real     *)
(* NewPacket(Pool: true) / Dispose (driver harness/cmd/pool), merged in the   *)
(* order of their atomic sequence numbers, against the property part of       *)
(* Pool.tla (PoolProp!PJudge): NoAlias on the conservative live intervals, content     *)
(* canaries, and no race / panic / hang / crash event.  Total; every line is  *)
(* consumed; a rejected scenario is skipped up to the next "pstart".          *)
EXTENDS PoolProp, Json
VARIABLES l, st, bad, skip, nbad, lastseq
tvars == <<l, st, bad, skip, nbad, lastseq>>
Trace == ndJsonDeserialize("trace.ndjson")
Note(b, r) == IF \E i \in 1..Len(b) : b[i].reason = r.reason /\ b[i].sig = r.sig THEN b
              ELSE IF Len(b) < 100 THEN Append(b, r) ELSE b
TInit == l = 1 /\ st = PNew /\ bad = <<>> /\ skip = FALSE /\ nbad = 0 /\ lastseq = 0
Step ==
  /\ l <= Len(Trace)
  /\ l' = l + 1
  /\ LET e == Trace[l] IN
     IF e.op = "pstart" THEN st' = PJudge(st, e)[2] /\ skip' = FALSE /\ lastseq' = 0 /\ UNCHANGED <<bad, nbad>>
     ELSE IF skip THEN UNCHANGED <<st, bad, skip, nbad, lastseq>>
     ELSE LET ordered == e.op \in {"got", "disposing", "release"}
              r == IF ordered /\ e.seq <= lastseq THEN <<"events-not-in-sequence-order", st>> ELSE PJudge(st, e)
          IN /\ lastseq' = IF ordered THEN e.seq ELSE lastseq
             /\ IF r[1] = "ok" THEN st' = r[2] /\ UNCHANGED <<bad, skip, nbad>>
                ELSE /\ bad' = Note(bad, [sc |-> e.sc, line |-> l, op |-> e.op, reason |-> r[1], sig |-> e.sig])
                     /\ nbad' = nbad + 1 /\ skip' = TRUE /\ UNCHANGED st
TSpec == TInit /\ [][Step]_tvars
Done == l = Len(Trace) + 1 => PrintT("VERDICT " \o ToJson([lines |-> Len(Trace), bad |-> bad, nbad |-> nbad]))
=============================================================================
