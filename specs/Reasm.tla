------------------------------- MODULE Reasm -------------------------------
(***************************************************************************)
(* Property-level specification of TCP stream reassembly as seen through   *)
(* the public API of gopacket/reassembly and gopacket/tcpassembly          *)
(* (C09, C10, C11).  All positions are stream offsets relative to the      *)
(* first data byte after the SYN, so the specification is independent of   *)
(* where the sequence numbers lie in the 32-bit space: a wrap-around bug   *)
(* in the code shows up here as a wrong skip or a lost byte.               *)
(*                                                                         *)
(* The state is a record                                                   *)
(*   h : [half key -> half record]      one per (connection, direction)    *)
(*   c : [connection -> conn record]                                       *)
(*   cfg, flush : configuration / the flush call in progress               *)
(* and `Judge(st, e)` is the transition relation in functional form: it    *)
(* returns <<reason, st'>>; reason = "ok" iff the observed event e is a    *)
(* step the property allows in state st.                                   *)
(*                                                                         *)
(* Events (produced by the conformance harness, or by the ideal assembler  *)
(* of ReasmGen.tla):                                                       *)
(*  cfg      asm, limit              start of a scenario                   *)
(*  new      c                       StreamFactory.New                     *)
(*  seg      c,d,lo,hi,syn,fin,rst,force,ts   a TCP segment handed in      *)
(*  sg       c,d,srun,nrun,skip,end,keep      one delivery to the stream   *)
(*  complete c,remove                ReassemblyComplete (and its answer)   *)
(*  flushb / flushe  kind,t          begin / end of a Flush* call          *)
(*  api      pages,conns,maxq,oldest,pktpages   scalars after an API call  *)
(***************************************************************************)
EXTENDS Integers, Sequences, FiniteSets, TLC

Max2(a, b) == IF a > b THEN a ELSE b

NewHalf == [started |-> FALSE, next |-> 0, segs |-> {}, kept |-> 0, ended |-> FALSE, anchor |-> FALSE, pending |-> {},
            maybe |-> {}, synflight |-> FALSE]
NewConn == [news |-> 0, completes |-> 0, removed |-> FALSE, incarnation |-> 0]
NewState == [h |-> <<>>, c |-> <<>>, cfg |-> [asm |-> "reassembly", limit |-> 0],
             flush |-> [kind |-> "none", t |-> 0], maxpkt |-> 0]

HKey(e) == <<e.c, e.d>>
GetH(st, k) == IF k \in DOMAIN st.h THEN st.h[k] ELSE NewHalf
GetC(st, c) == IF c \in DOMAIN st.c THEN st.c[c] ELSE NewConn
PutH(st, k, v) == [st EXCEPT !.h = [x \in DOMAIN st.h \cup {k} |-> IF x = k THEN v ELSE st.h[x]]]
PutC(st, c, v) == [st EXCEPT !.c = [x \in DOMAIN st.c \cup {c} |-> IF x = c THEN v ELSE st.c[x]]]

\* segments are records [lo, hi, ts, fin]
Overlaps(s, a, b) == s.lo < b /\ a < s.hi /\ s.lo < s.hi

\* is [a, b) covered by the union of the segments?
RECURSIVE Covered(_, _, _)
Covered(a, b, segs) ==
  IF a >= b THEN TRUE
  ELSE LET cov == {s \in segs : s.lo <= a /\ a < s.hi}
       IN IF cov = {} THEN FALSE
          ELSE LET m == CHOOSE x \in {s.hi : s \in cov} : \A y \in {s.hi : s \in cov} : y <= x
               IN Covered(m, b, segs)

RunLen(r) == IF Len(r) = 0 THEN 0 ELSE r[1][2] - r[1][1]

-----------------------------------------------------------------------------
\* A concurrent driver that cannot observe the moment a packet is processed logs it twice: phase "begin" before
\* the Assemble call (from then on its bytes MAY be delivered) and phase "end" after the call returned (from then
\* on they HAVE arrived: skipping them or never delivering them is a violation).  Sequential drivers log once.
JudgeSeg(st, e) ==
  LET k == HKey(e)
      h == GetH(st, k)
      s == [lo |-> e.lo, hi |-> e.hi, ts |-> e.ts, fin |-> (e.fin \/ e.rst), syn |-> e.syn]
      phase == IF "phase" \in DOMAIN e THEN e.phase ELSE "both"
  IN IF phase = "begin"
     THEN <<"ok", PutH(st, k, [h EXCEPT !.maybe = @ \cup {s}, !.synflight = (@ \/ e.syn)])>>
     ELSE IF GetC(st, e.c).completes > 0
     THEN \* a segment handed in after the stream completed is ignored by a closed connection - or it opens the
          \* next incarnation, whose (lazily logged) "new" has not been seen yet: in that case it stays in flight
          <<"ok", IF phase = "end" THEN st ELSE PutH(st, k, [h EXCEPT !.maybe = @ \ {s}])>>
     ELSE LET h1 == [h EXCEPT !.segs = @ \cup {s}, !.maybe = @ \ {s}]
              h2 == IF ~h.started /\ e.syn THEN [h1 EXCEPT !.started = TRUE, !.next = 0, !.kept = 0]
                    ELSE IF ~h.started /\ e.force THEN [h1 EXCEPT !.started = TRUE, !.next = e.lo, !.kept = e.lo]
                    ELSE h1
          IN <<"ok", PutH(st, k, h2)>>

\* one delivery.  srun / nrun: maximal runs [lo,hi) of stream offsets of the saved prefix / the new data
JudgeSG(st, e) ==
  LET k  == HKey(e)
      h0 == GetH(st, k)
      \* a SYN that is being processed concurrently may already have started the stream
      h  == IF ~h0.started /\ h0.synflight /\ e.skip >= 0 THEN [h0 EXCEPT !.started = TRUE, !.next = 0, !.kept = 0] ELSE h0
      c  == GetC(st, e.c)
      n  == RunLen(e.nrun)
      sv == RunLen(e.srun)
      lim == st.cfg.limit > 0
      inflush == st.flush.kind # "none"
      a  == IF n > 0 THEN e.nrun[1][1] ELSE (IF h.started THEN h.next + Max2(e.skip, 0) ELSE 0)
      b  == a + n
      \* where the assembler stood before this delivery (an unstarted stream that was anchored by an
      \* empty delivery, e.g. a lone RST, has a position the harness cannot see)
      base == IF h.started THEN h.next ELSE a - Max2(e.skip, 0)
      total == sv + n
      sgStart == IF sv > 0 THEN e.srun[1][1] ELSE a
      kept2 == IF e.keep < 0 \/ e.keep >= total THEN b ELSE sgStart + e.keep
      h2 == [h EXCEPT !.started = (h.started \/ n > 0), !.next = (IF h.started \/ n > 0 THEN b ELSE h.next),
                      !.kept = kept2, !.ended = (h.ended \/ e.end),
                      !.anchor = (h.anchor \/ (n = 0 /\ ~h.started))]
      reason ==
        IF c.completes > 0 THEN "data-after-complete"
        ELSE IF Len(e.nrun) > 1 THEN "not-contiguous-or-altered"
        ELSE IF Len(e.srun) > 1 THEN "saved-not-contiguous-or-altered"
        ELSE IF h.started /\ e.skip < 0 THEN "skip-unknown-on-started-stream"
        ELSE IF ~h.started /\ ~h.anchor /\ e.skip # -1 /\ n > 0 THEN "skip-known-on-unstarted-stream"
        ELSE IF h.started /\ n > 0 /\ a # h.next + e.skip THEN
                (IF a < h.next THEN "duplicate-or-reordered" ELSE "wrong-skip")
        ELSE IF e.skip > 0 /\ ~(inflush \/ lim) THEN "gap-released-without-flush-or-limit"
        ELSE IF (h.started \/ h.anchor) /\ e.skip > 0 /\ \E s \in h.segs : Overlaps(s, base, base + e.skip) THEN "arrived-bytes-skipped"
        ELSE IF ~Covered(a, b, h.segs \cup h.maybe) THEN "invented-bytes"
        ELSE IF sv > 0 /\ ~(e.srun[1][1] = h.kept /\ e.srun[1][2] = h.next) THEN "wrong-saved-bytes"
        ELSE IF sv = 0 /\ h.kept < h.next /\ h.started /\ e.skip <= 0 THEN "kept-bytes-not-presented"
        ELSE IF e.end /\ ~(\E s \in h.segs \cup h.maybe : s.fin /\ (s.hi <= b \/ (n = 0 /\ ~h.started))) THEN "end-without-fin"
        ELSE IF st.flush.kind = "older" /\ e.skip > 0 /\ n > 0
                /\ ~(\E s \in h.segs : s.lo <= a /\ a < s.hi /\ s.ts < st.flush.t) THEN "age-flush-released-newer-data"
        ELSE "ok"
  IN <<reason, PutH(st, k, h2)>>

JudgeNew(st, e) ==
  LET c == GetC(st, e.c)
      fresh == [NewConn EXCEPT !.news = 1, !.incarnation = c.incarnation + 1]
      \* a new incarnation forgets both directions
      \* (segments logged before the very first "new" of a connection are kept: concurrent drivers log
      \* the segment before the call that creates the stream)
      \* a later incarnation inherits the segments that are still in flight (phase "begin" seen, "end" not yet)
      \* (a concurrent flush may close a connection between a packet's lookup and its processing)
      \* (what the closed predecessor had queued died with it).  The in-flight segments stay in flight - they
      \* become arrived data of whichever incarnation is live when their "end" is logged: a concurrent flush can
      \* open and close an incarnation (through a recycled connection object) before the packet is processed
      Carry(h) == [NewHalf EXCEPT !.maybe = h.maybe, !.synflight = (\E x \in h.maybe : x.syn)]
      st2 == IF c.news = 0 THEN st
             ELSE [st EXCEPT !.h = [x \in DOMAIN st.h |-> IF x[1] = e.c THEN Carry(st.h[x]) ELSE st.h[x]]]
  IN IF c.news > 0 /\ c.completes = 0      \* the previous stream of this connection was never completed
     THEN <<"second-stream-for-live-connection", PutC(st2, e.c, fresh)>>
     ELSE <<"ok", PutC(st2, e.c, fresh)>>

JudgeComplete(st, e) ==
  LET c == GetC(st, e.c)
      c2 == [c EXCEPT !.completes = @ + 1, !.removed = e.remove]
  IN <<IF c.completes > 0 THEN "completed-twice"
       ELSE IF c.news = 0 THEN "complete-without-new" ELSE "ok", PutC(st, e.c, c2)>>

\* state after a Flush* call returned
JudgeFlushEnd(st, e) ==
  LET st2 == [st EXCEPT !.flush = [kind |-> "none", t |-> 0]]
      undelivered == \E k \in DOMAIN st.h :
                        LET h == st.h[k] IN
                        ~h.ended /\ \E s \in h.segs : s.lo < s.hi /\ (~h.started \/ s.hi > h.next)
      uncompleted == \E c \in DOMAIN st.c : st.c[c].news > 0 /\ st.c[c].completes # 1
  IN IF e.kind = "all" /\ undelivered THEN <<"arrived-bytes-never-delivered", st2>>
     ELSE IF e.kind = "all" /\ uncompleted THEN <<"stream-not-completed-by-flushall", st2>>
     ELSE <<"ok", st2>>

\* scalars reported by the read-only hooks after an API call
JudgeApi(st, e) ==
  LET live == Cardinality({c \in DOMAIN st.c : st.c[c].news > 0 /\ ~(st.c[c].completes > 0 /\ st.c[c].removed)})
      \* a connection may keep limit + (pages of the largest packet processed so far) queued
      mp  == Max2(st.maxpkt, e.pktpages)
      st2 == [st EXCEPT !.maxpkt = mp]
  IN IF e.call = "flushall" /\ e.pages # 0 THEN <<"pages-in-use-after-flushall", st>>
     ELSE IF e.call = "flushall" /\ e.conns > live THEN <<"connections-left-after-flushall", st>>
     ELSE IF st.cfg.limit > 0 /\ e.maxq > st.cfg.limit + mp THEN <<"page-limit-exceeded", st2>>
     ELSE IF e.call = "flusholder" /\ e.oldest >= 0 /\ e.oldest < e.t THEN <<"age-flush-left-older-data", st>>
     ELSE IF e.pages < 0 THEN <<"negative-page-count", st2>>
     ELSE <<"ok", st2>>

Judge(st, e) ==
  CASE e.op = "cfg"      -> <<"ok", [NewState EXCEPT !.cfg = [asm |-> e.asm, limit |-> e.limit]]>>
    [] e.op = "seg"      -> JudgeSeg(st, e)
    [] e.op = "sg"       -> JudgeSG(st, e)
    [] e.op = "new"      -> JudgeNew(st, e)
    [] e.op = "complete" -> JudgeComplete(st, e)
    [] e.op = "flushb"   -> <<"ok", [st EXCEPT !.flush = [kind |-> e.kind, t |-> e.t]]>>
    [] e.op = "flushe"   -> JudgeFlushEnd(st, e)
    [] e.op = "api"      -> JudgeApi(st, e)
    [] e.op = "misdelivery" -> <<"packet-handed-to-another-connections-stream", st>>
    [] e.op = "misdirection" -> <<"packet-handed-to-the-wrong-half-of-its-connection", st>>
    [] e.op = "orphancomplete" -> <<"stream-of-a-recycled-connection-object-completed", st>>
    [] e.op = "overlap"  -> <<"concurrent-callbacks-on-one-stream", st>>
    [] e.op = "stuck"    -> <<"deadlock-or-stall", st>>
    [] e.op = "race"     -> <<"data-race", st>>
    [] e.op = "panic"    -> <<"panic", st>>
    [] e.op = "hang"     -> <<"hang", st>>
    [] OTHER             -> <<"unknown-event", st>>
=============================================================================
