----------------------------- MODULE NgReaderGen -----------------------------
(***************************************************************************)
(* Enumeration of hostile inputs for the capture-file readers (C15).       *)
(* A state is (base scenario, field of its layout map); for every value     *)
(* class of that field the state exports one case: the bytes to be written *)
(* over that field of the really written file.  The                        *)
(* value classes are the boundary values of a length / count field: 0, 1,  *)
(* 3, true-1, true+1, true-4, true+4, a value that is not a multiple of 4, *)
(* 0x7fffffff, 0xfffffff0, 0xffffffff; every option code 0..16; the        *)
(* timestamp resolutions around the overflow of the divisor; the other     *)
(* block types and magics.  Chunkings of the stream (sequences of read     *)
(* sizes) are enumerated as well.  An ideal (strict) reader is judged by   *)
(* NgReader!JudgeR inside the model: the envelope is satisfiable.          *)
(***************************************************************************)
EXTENDS NgReader, Json

VARIABLES b, f, fd, nblk
gvars == <<b, f, fd, nblk>>

Idb0(link, snap, name, cmt, descr, filter, os, tsoff) ==
  [t |-> "idb", link |-> link, snap |-> snap, name |-> name, cmt |-> cmt, descr |-> descr, filter |-> filter, os |-> os, tsoff |-> tsoff]
Epb(ifc, cap, len, cm, fl, hs, dc, pid, q, vd) ==
  [t |-> "pkt", ifc |-> ifc, cap |-> cap, len |-> len, s |-> 1700000000, ns |-> 123456789, cm |-> cm, fl |-> fl, hs |-> hs,
   dc |-> dc, pid |-> pid, q |-> q, vd |-> vd]
NoStr == [app |-> "", cmt |-> "", hw |-> "", os |-> ""]

Bases == <<
  \* 1: pcapng with every block kind and every option the writer can produce
  [fmt |-> "ng", mixed |-> FALSE, shb |-> [app |-> "verif", cmt |-> "abc", hw |-> "", os |-> "a"],
   items |-> <<Idb0(1, 4096, "eth0", "c", "", "tcp", "", 0),
               Idb0(1, 0, "", "", "abcde", "", "linux", 5),
               Epb(0, 5, 5, <<"abc">>, 65, <<4>>, -1, -1, -1, <<>>),
               [t |-> "dsb", n |-> 5],
               [t |-> "nrb", recs |-> <<[rt |-> 1, al |-> 4, nl |-> 4], [rt |-> 2, al |-> 16, nl |-> 3]>>],
               Epb(1, 4, 1004, <<"">>, -1, <<>>, 7, 9, 2, <<8>>),
               [t |-> "spb", cap |-> 3],
               [t |-> "isb", ifc |-> 0, st |-> 1700000000, en |-> 1700000009, dr |-> 1, rc |-> 2],
               Epb(0, 0, 0, <<>>, -1, <<>>, -1, -1, -1, <<>>)>>],
  \* 2: minimal pcapng
  [fmt |-> "ng", mixed |-> FALSE, shb |-> NoStr,
   items |-> <<Idb0(1, 0, "", "", "", "", "", 0), Epb(0, 17, 17, <<>>, -1, <<>>, -1, -1, -1, <<>>), Epb(0, 1, 2, <<"a">>, -1, <<>>, -1, -1, -1, <<>>)>>],
  \* 3: two link types
  [fmt |-> "ng", mixed |-> TRUE, shb |-> NoStr,
   items |-> <<Idb0(1, 17, "a", "", "", "", "", 0), Epb(0, 3, 3, <<>>, -1, <<>>, -1, -1, -1, <<>>), Idb0(113, 1500, "", "", "", "x", "", 0),
               Epb(1, 2, 2, <<"abcd">>, -1, <<>>, -1, -1, -1, <<>>), Epb(0, 4, 4, <<>>, 2, <<>>, -1, -1, -1, <<>>)>>],
  \* 4, 5: classic pcap
  [fmt |-> "pcap", nano |-> FALSE, snap |-> 4096, link |-> 1,
   items |-> <<[t |-> "pkt", cap |-> 5, len |-> 5, s |-> 1700000000, ns |-> 1000], [t |-> "pkt", cap |-> 0, len |-> 9, s |-> 1, ns |-> 0],
               [t |-> "pkt", cap |-> 17, len |-> 1017, s |-> 2, ns |-> 999999000]>>],
  [fmt |-> "pcap", nano |-> TRUE, snap |-> 17, link |-> 113,
   items |-> <<[t |-> "pkt", cap |-> 17, len |-> 17, s |-> 1700000000, ns |-> 999999999], [t |-> "pkt", cap |-> 4, len |-> 4, s |-> 1, ns |-> 1]>>],
  \* 6: snoop (RFC 1761), one packet truncated by the capture (cap < len)
  [fmt |-> "snoop", link |-> 4,
   items |-> <<[t |-> "pkt", cap |-> 5, len |-> 5, pad |-> 3, s |-> 1700000000, ns |-> 5000],
               [t |-> "pkt", cap |-> 4, len |-> 4, pad |-> 0, s |-> 1, ns |-> 0],
               [t |-> "pkt", cap |-> 3, len |-> 100, pad |-> 1, s |-> 2, ns |-> 999999000]>>]
>>

B32(v) == <<v % 256, (v \div 256) % 256, (v \div 65536) % 256, (v \div 16777216) % 256>>
B16(v) == <<v % 256, (v \div 256) % 256>>
Rev(s) == [i \in 1..Len(s) |-> s[Len(s) + 1 - i]]
Cls(n, bs) == [c |-> n, bytes |-> bs]
IntCls(w, vs) == {Cls(ToString(v), IF w = 4 THEN B32(v) ELSE IF w = 2 THEN B16(v) ELSE <<v>>) : v \in vs}
NM4(t) == 4 * (t \div 4) + 5           \* above the true value and not a multiple of 4

\* value classes of a field (little-endian byte strings; reversed for big-endian files)
Classes(fl) ==
  LET t == fl.v
      rel == {x \in {t - 1, t + 1, t - 4, t + 4, NM4(t)} : t >= 0 /\ x >= 0}
  IN
  CASE fl.t = "len32" -> IntCls(4, ({0, 1, 3} \cup rel) \ {t})
                         \cup {Cls("7fffffff", <<255, 255, 255, 127>>), Cls("fffffff0", <<240, 255, 255, 255>>), Cls("ffffffff", <<255, 255, 255, 255>>)}
    [] fl.t = "num32" -> IntCls(4, ({0, 1, 3} \cup {x \in {t - 1, t + 1} : t >= 0 /\ x >= 0}) \ {t})
                         \cup {Cls("7fffffff", <<255, 255, 255, 127>>), Cls("ffffffff", <<255, 255, 255, 255>>)}
    [] fl.t = "num16" -> IntCls(2, ({0, 1, 3, 32767, 65520, 65535} \cup {x \in rel : x < 65536}) \ {t})
    [] fl.t = "code"  -> IntCls(2, ((0..16) \cup {32767, 32768, 65535}) \ {t})
    [] fl.t = "res"   -> IntCls(1, {0, 3, 6, 19, 20, 63, 64, 127, 128, 158, 191, 192, 255} \ {t})
    [] fl.t = "type"  -> IntCls(4, {0, 1, 2, 3, 4, 5, 6, 10} \ {t}) \cup {Cls("shb", <<10, 13, 13, 10>>), Cls("ffffffff", <<255, 255, 255, 255>>)}
    [] fl.t = "bom"   -> {Cls("bigendian", <<26, 43, 60, 77>>), Cls("0", <<0, 0, 0, 0>>), Cls("ffffffff", <<255, 255, 255, 255>>)}
    [] fl.t = "magic" -> {Cls("micro-le", <<212, 195, 178, 161>>), Cls("nano-le", <<77, 60, 178, 161>>), Cls("micro-be", <<161, 178, 195, 212>>),
                          Cls("nano-be", <<161, 178, 60, 77>>), Cls("gzip", <<31, 139, 8, 0>>), Cls("0", <<0, 0, 0, 0>>),
                          Cls("ffffffff", <<255, 255, 255, 255>>)}
    [] fl.t = "raw"   -> {Cls("0", <<0, 0, 0, 0>>), Cls("ffffffff", <<255, 255, 255, 255>>)}
Enc(sc, fl, bs) == IF sc.fmt = "snoop" /\ fl.t # "raw" THEN Rev(bs) ELSE bs

\* f = 0: the uncorrupted file
NoField == Fld("none", 0, 0, -1, "raw")
\* fd = the field record (computed once per state), nblk = the block layout of the base
Init == /\ b \in 1..Len(Bases)
        /\ nblk = Blocks(Bases[b])
        /\ LET F == Fields(Bases[b]) IN
           \E i \in 0..Len(F) : f = i /\ fd = (IF i = 0 THEN [NoField EXCEPT !.off = FileLenB(nblk)] ELSE F[i])
Next == UNCHANGED gvars
Spec == Init /\ [][Next]_gvars

\* chunkings: the sizes of successive Reads, cycled
ChunkSizes == {1, 2, 3, 5, 8, 13}
Chunkings == {<<x>> : x \in ChunkSizes \ {1}} \cup {<<x, y>> : x, y \in ChunkSizes}

(* ------------------------------ ideal reader ------------------------------ *)
\* A strict reader returns the packets of the blocks that end before the corrupted field and then an error; its
\* answer does not depend on the chunking, it allocates a few KiB, and an injected error is handed through.
IdealEvents(B, off) ==
  LET dummy == 0
      k == Cardinality({i \in 1..Len(B) : B[i].pkt > 0 /\ EndOf(B[i]) <= off})
      calls(n) == [i \in 1..n |-> <<0, 5, 0, 9, 0, 5, ToString(i)>>]
      shape(x) == [k |-> x, n |-> 1]
  IN <<[op |-> "case", present |-> FileLenB(B)],
       [op |-> "mode", rd |-> "copy", snapkb |-> 64,
        groups |-> <<[shapes |-> <<shape("whole"), shape("one"), shape("chk"), shape("inj")>>, calls |-> calls(k), end |-> "other",
                      fired |-> FALSE, makb |-> 70, runkb |-> 90, site |-> ""],
                     [shapes |-> <<shape("inj")>>, calls |-> calls(IF k > 0 THEN k - 1 ELSE 0), end |-> "inj", fired |-> TRUE, makb |-> 6, runkb |-> 0, site |-> ""],
                     [shapes |-> <<shape("gz"), shape("gzone")>>, calls |-> calls(k), end |-> "other", fired |-> FALSE, makb |-> 120, runkb |-> 300, site |-> ""]>>]>>
RECURSIVE JudgeAll(_, _, _)
JudgeAll(st, evs, i) == IF i > Len(evs) THEN "ok"
                        ELSE LET r == JudgeR(st, evs[i]) IN IF r[1] = "ok" THEN JudgeAll(r[2], evs, i + 1) ELSE r[1]
PropAcceptsIdeal == JudgeAll(NewCase, IdealEvents(nblk, fd.off), 1) = "ok"
\* and the envelope is not vacuous: a reader whose result depends on the chunking is rejected
PropRejectsChunkDependent ==
  LET g1 == [shapes |-> <<[k |-> "whole", n |-> 1]>>, calls |-> <<>>, end |-> "eof", fired |-> FALSE, makb |-> 1, runkb |-> 0, site |-> ""]
      g2 == [shapes |-> <<[k |-> "one", n |-> 1]>>, calls |-> <<>>, end |-> "ueof", fired |-> FALSE, makb |-> 1, runkb |-> 0, site |-> ""]
  IN JudgeR([present |-> 100, open |-> TRUE], [op |-> "mode", rd |-> "copy", snapkb |-> 0, groups |-> <<g1, g2>>])[1] = "result-depends-on-chunking"

Export ==
  /\ (f = 0) => LET F == Fields(Bases[b]) IN
                PrintT("BASE " \o ToJson([id |-> b, scen |-> Bases[b], size |-> FileLenB(nblk),
                                          fields |-> [i \in 1..Len(F) |-> <<F[i].n, F[i].off, F[i].w>>]]))
  /\ LET cs == IF f = 0 THEN {Cls("none", <<>>)} ELSE Classes(fd) IN
     \A c \in cs :
       PrintT("CASE " \o ToJson([base |-> b, loc |-> fd.n, cls |-> c.c, off |-> fd.off,
                                 bytes |-> (IF f = 0 THEN <<>> ELSE Enc(Bases[b], fd, c.bytes))]))
  /\ (b = 1 /\ f = 0) => \A x \in Chunkings : PrintT("CHK " \o ToJson([sizes |-> x]))
=============================================================================
