SPECIFICATION PSpec
CONSTANTS
  T = 2
  P = 2
  MaxBig = 1
  SplitLog = TRUE
  LateWrite = FALSE
INVARIANTS AInd SameVerdicts NoAlias FreeDisjoint ContentOK
PROPERTIES ARefines
CHECK_DEADLOCK FALSE
