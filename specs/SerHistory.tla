----------------------------- MODULE SerHistory -----------------------------
(***************************************************************************)
(* C07: the HISTORY quantifier of "serialization output depends only on    *)
(* layer, payload and options".  A history is what happened to a           *)
(* gopacket.SerializeBuffer before the serializer under test is called:    *)
(*                                                                         *)
(*   fresh                         NewSerializeBuffer()                    *)
(*   new(p, a)                     NewSerializeBufferExpectedSize(p, a)    *)
(*   ... then up to MaxFill operations that WRITE THE FILL BYTE f into     *)
(*   every byte they obtain (PrependBytes n, AppendBytes n, or a whole     *)
(*   SerializeLayers call over a stack of other layers - "reused k times"  *)
(*   is the same stack k times), and a final Clear.                        *)
(*                                                                         *)
(* The module EXTENDS SerializeBuffer.tla and drives its Impl layer (the   *)
(* transcription of writer.go): the model therefore PREDICTS, for every    *)
(* history, the geometry of the buffer the serializer will see - how much  *)
(* room lies before and after the (empty) contents and how many of those   *)
(* bytes still hold f.  TLC enumerates all histories within the bound and  *)
(* prints one BEH line per complete history; the Go driver replays them on *)
(* the real buffer, probes the stale bytes (event "hist", judged in        *)
(* SerPure.tla against this prediction) and serializes real layers into    *)
(* them.                                                                   *)
(*                                                                         *)
(* A history also leaves the RECORDED LAYER LIST behind (Layers()): every  *)
(* SerializeLayers call pushes the types of the layers it wrote, Clear     *)
(* empties the list (prop.layers, the Prop layer of SerializeBuffer.tla).  *)
(* Serializers read it - IPv6.SerializeTo skips its own hop-by-hop header  *)
(* when Layers() already names an IPv6HopByHop layer - so the stacks that  *)
(* used the buffer before carry the real layer types, including            *)
(* stand-alone IPv6 extension headers.  Type codes: 1 Ethernet, 2 IPv4,    *)
(* 3 TCP, 4 Payload, 5 IPv6, 6 UDP, 7 IPv6HopByHop, 8 IPv6Destination,     *)
(* 9 IPv6Fragment (the driver maps them to gopacket layer types).          *)
(***************************************************************************)
EXTENDS SerializeBuffer, Json

CONSTANTS FillBytes,   \* e.g. {170, 255}
          MaxFill      \* number of filling operations before the final Clear (depth)

VARIABLES ph,          \* "open" | "done"
          fb,          \* fill byte of this history (0 while nothing has been written)
          seen         \* layer types any SerializeLayers call of this history recorded
hvars == <<prop, impl, hist, ph, fb, seen>>

FillSeq(f, n) == [i \in 1..n |-> f]

\* one layer <<type, npre, napp>> of another packet, every byte = f
HLayer(s, l, f) == IAppend(IPrepend(s, l[2], FillSeq(f, l[2])), l[3], FillSeq(f, l[3]))
RECURSIVE HStack(_, _, _, _)
HStack(s, ls, i, f) == IF i = 0 THEN s ELSE HStack(HLayer(s, ls[i], f), ls, i - 1, f)
HSerLayers(s, ls, f) == HStack(IClear(s), ls, Len(ls), f)      \* SerializeLayers clears first
\* ... and records the layer types, innermost first
PushedBy(ls) == [i \in 1..Len(ls) |-> ls[Len(ls) + 1 - i][1]]

NFill == Len(hist) - 1

HInit == /\ prop = PInit /\ ph = "open" /\ fb = 0 /\ seen = {}
         /\ \/ impl = IInit(<<0, 0>>) /\ hist = << <<"fresh">> >>
            \/ \E h \in Hints : impl = IInit(h) /\ hist = << <<"new", h[1], h[2]>> >>

ChooseFill(f) == IF fb = 0 THEN f \in FillBytes ELSE f = fb

HPrepend(n, f) == /\ impl' = IPrepend(impl, n, FillSeq(f, n))
                  /\ hist' = Append(hist, <<"prepend", n>>)
                  /\ UNCHANGED <<prop, seen>>
HAppend(n, f)  == /\ impl' = IAppend(impl, n, FillSeq(f, n))
                  /\ hist' = Append(hist, <<"append", n>>)
                  /\ UNCHANGED <<prop, seen>>
HSer(ls, f)    == /\ impl' = HSerLayers(impl, ls, f)
                  /\ hist' = Append(hist, <<"serlayers", ls>>)
                  /\ prop' = [prop EXCEPT !.layers = PushedBy(ls)]
                  /\ seen' = seen \cup {ls[i][1] : i \in 1..Len(ls)}

HFill == /\ ph = "open" /\ NFill < MaxFill
         /\ \E f \in FillBytes :
              /\ ChooseFill(f) /\ fb' = f
              /\ \/ \E n \in Sizes : HPrepend(n, f) \/ HAppend(n, f)
                 \/ \E ls \in Stacks : HSer(ls, f)
         /\ UNCHANGED ph

\* a history that wrote anything ends with Clear; fresh / new(p,a) are complete as they are
HClear == /\ ph = "open" /\ NFill > 0
          /\ impl' = IClear(impl) /\ hist' = Append(hist, <<"clear">>)
          /\ prop' = [prop EXCEPT !.layers = PClear(prop).layers]
          /\ ph' = "done" /\ UNCHANGED <<fb, seen>>
HStop  == /\ ph = "open" /\ NFill = 0
          /\ ph' = "done" /\ UNCHANGED <<prop, impl, hist, fb, seen>>

HNext == HFill \/ HClear \/ HStop
HSpec == HInit /\ [][HNext]_hvars

-----------------------------------------------------------------------------
(* what the serializer will see                                            *)
RoomBefore(s) == s.start                   \* PrependBytes up to this many bytes does not reallocate
RoomAfter(s)  == Cap(s) - s.dlen           \* AppendBytes up to this many bytes does not reallocate
StaleBefore(s) == Cardinality({i \in 1..s.start : s.data[i] # 0})
StaleAfter(s)  == Cardinality({i \in (s.dlen + 1)..Cap(s) : s.data[i] # 0})
\* number of stale bytes in the N bytes immediately before / after the contents
StaleNear(s, N) == Cardinality({i \in 1..s.start : i > s.start - N /\ s.data[i] # 0})

\* the abstract buffer is empty in every complete history (C18's Clear law, re-checked here)
DoneIsEmpty == ph = "done" => (IBytes(impl) = <<>> /\ impl.start <= impl.dlen /\ impl.dlen <= Cap(impl)
                               /\ prop.layers = <<>>)
\* only the fill byte or zero is ever in the array
OnlyFill == \A i \in 1..Cap(impl) : impl.data[i] \in {0, fb}

HExport == ph = "done" =>
  PrintT("BEH " \o ToJson([ops |-> hist, f |-> fb,
                           before |-> RoomBefore(impl), after |-> RoomAfter(impl),
                           staleBefore |-> StaleBefore(impl), staleAfter |-> StaleAfter(impl),
                           stale64 |-> StaleNear(impl, 64),
                           layersLeft |-> Len(prop.layers), pushed |-> seen]))

MC_Hints == {<<p, a>> : p \in {0, 1, 64, 4096}, a \in {0, 1, 64, 4096}}
\* other packets that used the buffer before: header sizes of Ethernet/IPv4/TCP over 1000 bytes, a padded
\* 60-byte Ethernet frame (14 + 8 + 1 + 37 bytes of trailer) around a stand-alone IPv6 fragment header, UDP
\* behind stand-alone IPv6 hop-by-hop and destination headers over 4096 bytes
MC_Stacks == { << <<1, 14, 0>>, <<2, 20, 0>>, <<3, 20, 0>>, <<4, 1000, 0>> >>,
               << <<1, 14, 37>>, <<9, 8, 0>>, <<4, 1, 0>> >>,
               << <<5, 40, 0>>, <<7, 8, 0>>, <<8, 16, 0>>, <<6, 8, 0>>, <<4, 4096, 0>> >> }
=============================================================================
