------------------------------ MODULE PcapFile ------------------------------
(***************************************************************************)
(* Framing of capture files (classic pcap, pcapng, snoop) as functions,    *)
(* the layout map of every field, and the truncation law (C14, C15).       *)
(*                                                                         *)
(* A scenario is a record                                                  *)
(*   [fmt |-> "pcap", nano, snap, link, items]   item = [t |-> "pkt", cap, len, s, ns]              *)
(*   [fmt |-> "ng", mixed, shb |-> [app, cmt, hw, os], items]                                       *)
(*        item = [t |-> "idb", link, snap, name, cmt, descr, filter, os, tsoff]                     *)
(*             | [t |-> "pkt", ifc, cap, len, s, ns, cm, fl, hs, dc, pid, q, vd]                    *)
(*             | [t |-> "isb", ifc, st, en, dr, rc]  | [t |-> "dsb", n]                             *)
(*             | [t |-> "nrb", recs |-> <<[rt, al, nl]>>]  | [t |-> "spb", cap]                     *)
(*   [fmt |-> "snoop", link, items]              item = [t |-> "pkt", cap, len, pad, s, ns]         *)
(* Strings are the strings written; cm is the sequence of per-packet       *)
(* comments, hs / vd the payload lengths of hash / verdict options, and    *)
(* fl, dc, pid, q are -1 when the option is absent.                        *)
(*                                                                         *)
(* Judge(st, e) returns <<reason, st'>> for the events of the pcapio       *)
(* driver: the written file must have exactly the predicted size and block *)
(* boundaries, a full read must return every packet unaltered and then     *)
(* EOF, and for EVERY cut offset the reader must return exactly the        *)
(* packets wholly inside the prefix and then EOF (at a block boundary) or  *)
(* EOF / unexpected EOF (elsewhere).                                       *)
(***************************************************************************)
EXTENDS Integers, Sequences, FiniteSets, TLC

Pad4(n) == ((n + 3) \div 4) * 4
RECURSIVE SumSeq(_, _)
SumSeq(s, i) == IF i > Len(s) THEN 0 ELSE s[i] + SumSeq(s, i + 1)

(* ------------------------------ classic pcap ---------------------------- *)
PcapHdrLen == 24
PcapRecLen(cap) == 16 + cap
(* -------------------------------- snoop --------------------------------- *)
SnoopHdrLen == 16
SnoopRecLen(cap, pad) == 24 + cap + pad
(* -------------------------------- pcapng -------------------------------- *)
\* an option is <<code, value length>>; zero-length string options of SHB / IDB are not written
OptLen(l) == 4 + Pad4(l)
OptsLen(os) == IF Len(os) = 0 THEN 0
               ELSE SumSeq([i \in 1..Len(os) |-> OptLen(os[i][2])], 1) + 4     \* end-of-options iff any option
NonEmpty(os) == SelectSeq(os, LAMBDA o : o[2] > 0)

ShbOpts(h) == NonEmpty(<<<<4, Len(h.app)>>, <<1, Len(h.cmt)>>, <<2, Len(h.hw)>>, <<3, Len(h.os)>>>>)
IdbOpts(it) == NonEmpty(<<<<2, Len(it.name)>>, <<1, Len(it.cmt)>>, <<3, Len(it.descr)>>,
                          <<11, IF it.filter = "" THEN 0 ELSE 1 + Len(it.filter)>>, <<12, Len(it.os)>>,
                          <<14, IF it.tsoff = 0 THEN 0 ELSE 8>>, <<9, 1>>>>)
EpbOpts(it) == [i \in 1..Len(it.cm) |-> <<1, Len(it.cm[i])>>]            \* empty comments ARE written
               \o (IF it.fl >= 0 THEN <<<<2, 4>>>> ELSE <<>>)
               \o [i \in 1..Len(it.hs) |-> <<3, 1 + it.hs[i]>>]
               \o (IF it.dc >= 0 THEN <<<<4, 8>>>> ELSE <<>>)
               \o (IF it.pid >= 0 THEN <<<<5, 8>>>> ELSE <<>>)
               \o (IF it.q >= 0 THEN <<<<6, 4>>>> ELSE <<>>)
               \o [i \in 1..Len(it.vd) |-> <<7, 1 + it.vd[i]>>]
IsbOpts(it) == (IF it.st >= 0 THEN <<<<2, 8>>>> ELSE <<>>) \o (IF it.en >= 0 THEN <<<<3, 8>>>> ELSE <<>>)
               \o (IF it.dr >= 0 THEN <<<<5, 8>>>> ELSE <<>>) \o (IF it.rc >= 0 THEN <<<<4, 8>>>> ELSE <<>>)

ShbLen(h)  == 28 + OptsLen(ShbOpts(h))
IdbLen(it) == 20 + OptsLen(IdbOpts(it))
EpbLen(it) == 32 + Pad4(it.cap) + OptsLen(EpbOpts(it))
IsbLen(it) == 24 + OptsLen(IsbOpts(it))
DsbLen(it) == 20 + Pad4(it.n)
SpbLen(it) == 16 + Pad4(it.cap)
\* name resolution record: 4 + Pad4(address length + name length incl. NUL); end record 4
NrbRecLen(r) == 4 + Pad4(r.al + r.nl)
NrbLen(it) == 12 + SumSeq([i \in 1..Len(it.recs) |-> NrbRecLen(it.recs[i])], 1) + 4

NgItemLen(it) == CASE it.t = "idb" -> IdbLen(it) [] it.t = "pkt" -> EpbLen(it) [] it.t = "isb" -> IsbLen(it)
                   [] it.t = "dsb" -> DsbLen(it) [] it.t = "nrb" -> NrbLen(it) [] it.t = "spb" -> SpbLen(it)

(* ------------------------------- layout ---------------------------------- *)
HeadLen(sc) == CASE sc.fmt = "pcap" -> PcapHdrLen [] sc.fmt = "snoop" -> SnoopHdrLen [] sc.fmt = "ng" -> ShbLen(sc.shb)
ItemLen(sc, it) == CASE sc.fmt = "pcap" -> PcapRecLen(it.cap) [] sc.fmt = "snoop" -> SnoopRecLen(it.cap, it.pad)
                     [] sc.fmt = "ng" -> NgItemLen(it)
IsPkt(it) == it.t \in {"pkt", "spb"}

RECURSIVE BlocksFrom(_, _, _, _)
BlocksFrom(sc, i, off, np) ==
  IF i > Len(sc.items) THEN <<>>
  ELSE LET it == sc.items[i]
           l  == ItemLen(sc, it)
       IN <<[k |-> it.t, off |-> off, len |-> l, pkt |-> (IF IsPkt(it) THEN np + 1 ELSE 0), item |-> i]>>
          \o BlocksFrom(sc, i + 1, off + l, IF IsPkt(it) THEN np + 1 ELSE np)
\* every block of the file: [k, off, len, pkt (ordinal of the packet it carries, 0 = none), item]
Blocks(sc) == <<[k |-> "head", off |-> 0, len |-> HeadLen(sc), pkt |-> 0, item |-> 0]>> \o BlocksFrom(sc, 1, HeadLen(sc), 0)
EndOf(b) == b.off + b.len
FileLenB(B) == EndOf(B[Len(B)])
FileLen(sc) == FileLenB(Blocks(sc))
BoundariesB(B) == {0} \cup {EndOf(B[i]) : i \in 1..Len(B)}
Boundaries(sc) == BoundariesB(Blocks(sc))
Packets(sc) == SelectSeq(sc.items, IsPkt)
Idbs(sc) == SelectSeq(sc.items, LAMBDA it : it.t = "idb")

\* The truncation law.  k = number of packets wholly contained in the first `cut` bytes; the read must then
\* end with EOF when the cut is a block boundary, with EOF or unexpected EOF anywhere else.
ReadPrefixB(B, cut) ==
  <<Cardinality({i \in 1..Len(B) : B[i].pkt > 0 /\ EndOf(B[i]) <= cut}),
    IF cut \in BoundariesB(B) THEN {"eof"} ELSE {"eof", "ueof"}>>
ReadPrefix(sc, cut) == ReadPrefixB(Blocks(sc), cut)

(* ------------------------------ layout map -------------------------------- *)
\* Every field of every header, block, option and record: [n (locator), off, w (bytes), v (true value, -1 = opaque),
\* t (value type: len32 num32 num16 code res type bom magic raw)].  Locators name the block kind and the field (options by
\* their code), not the ordinal of the block, so that they are stable across scenarios.
Fld(n, off, w, v, t) == [n |-> n, off |-> off, w |-> w, v |-> v, t |-> t]

RECURSIVE OptFields(_, _, _, _)
OptFields(pre, os, i, p) ==
  IF i > Len(os)
  THEN IF Len(os) = 0 THEN <<>> ELSE <<Fld(pre \o ".eoo.code", p, 2, 0, "code"), Fld(pre \o ".eoo.len", p + 2, 2, 0, "num16")>>
  ELSE LET c == os[i][1]
           l == os[i][2]
           nm == pre \o ".opt" \o ToString(c)
       IN <<Fld(nm \o ".code", p, 2, c, "code"), Fld(nm \o ".len", p + 2, 2, l, "num16")>>
          \o (IF pre = "idb" /\ c = 9 THEN <<Fld(nm \o ".val", p + 4, 1, 9, "res")>>
              ELSE IF pre = "idb" /\ c = 14 THEN <<Fld(nm \o ".val.lo", p + 4, 4, -1, "num32"), Fld(nm \o ".val.hi", p + 8, 4, 0, "num32")>>
              ELSE <<>>)
          \o OptFields(pre, os, i + 1, p + OptLen(l))

RECURSIVE NrbFields(_, _, _)
NrbFields(recs, i, p) ==
  IF i > Len(recs) THEN <<Fld("nrb.end.type", p, 2, 0, "num16"), Fld("nrb.end.len", p + 2, 2, 0, "num16")>>
  ELSE <<Fld("nrb.rec.type", p, 2, recs[i].rt, "num16"), Fld("nrb.rec.len", p + 2, 2, recs[i].al + recs[i].nl, "num16")>>
       \o NrbFields(recs, i + 1, p + NrbRecLen(recs[i]))

NgBlockType(k) == CASE k = "idb" -> 1 [] k = "spb" -> 3 [] k = "nrb" -> 4 [] k = "isb" -> 5 [] k = "pkt" -> 6 [] k = "dsb" -> 10 [] OTHER -> -1
BlockFields(sc, b) ==
  LET o == b.off
      it == IF b.item > 0 THEN sc.items[b.item] ELSE [t |-> "head"]
      kn == IF b.k = "pkt" THEN "epb" ELSE IF b.k = "head" THEN "shb" ELSE b.k
      frame == <<Fld(kn \o ".type", o, 4, NgBlockType(b.k), "type"), Fld(kn \o ".totlen", o + 4, 4, b.len, "len32"),
                 Fld(kn \o ".totlen2", o + b.len - 4, 4, b.len, "len32")>>
  IN
  CASE sc.fmt = "pcap" /\ b.k = "head" ->
         <<Fld("pcap.magic", 0, 4, -1, "magic"), Fld("pcap.vmajor", 4, 2, 2, "num16"), Fld("pcap.vminor", 6, 2, 4, "num16"),
           Fld("pcap.snaplen", 16, 4, sc.snap, "len32"), Fld("pcap.linktype", 20, 4, sc.link, "num32")>>
    [] sc.fmt = "pcap" /\ b.k = "pkt" ->
         <<Fld("rec.sec", o, 4, -1, "num32"), Fld("rec.frac", o + 4, 4, -1, "num32"),
           Fld("rec.caplen", o + 8, 4, it.cap, "len32"), Fld("rec.len", o + 12, 4, it.len, "len32")>>
    [] sc.fmt = "snoop" /\ b.k = "head" ->
         <<Fld("snoop.magic.hi", 0, 4, -1, "raw"), Fld("snoop.magic.lo", 4, 4, -1, "raw"),
           Fld("snoop.version", 8, 4, 2, "num32"), Fld("snoop.linktype", 12, 4, sc.link, "num32")>>
    [] sc.fmt = "snoop" /\ b.k = "pkt" ->
         <<Fld("srec.origlen", o, 4, it.len, "len32"), Fld("srec.incllen", o + 4, 4, it.cap, "len32"),
           Fld("srec.reclen", o + 8, 4, b.len, "len32"), Fld("srec.drops", o + 12, 4, 0, "num32"),
           Fld("srec.sec", o + 16, 4, -1, "num32"), Fld("srec.usec", o + 20, 4, -1, "num32")>>
    [] sc.fmt = "ng" /\ b.k = "head" ->
         frame \o <<Fld("shb.bom", o + 8, 4, -1, "bom"), Fld("shb.vmajor", o + 12, 2, 1, "num16"), Fld("shb.vminor", o + 14, 2, 0, "num16"),
                    Fld("shb.seclen.lo", o + 16, 4, -1, "num32"), Fld("shb.seclen.hi", o + 20, 4, -1, "num32")>>
               \o OptFields("shb", ShbOpts(sc.shb), 1, o + 24)
    [] sc.fmt = "ng" /\ b.k = "idb" ->
         frame \o <<Fld("idb.linktype", o + 8, 2, it.link, "num16"), Fld("idb.snaplen", o + 12, 4, it.snap, "len32")>>
               \o OptFields("idb", IdbOpts(it), 1, o + 16)
    [] sc.fmt = "ng" /\ b.k = "pkt" ->
         frame \o <<Fld("epb.ifid", o + 8, 4, it.ifc, "num32"), Fld("epb.ts.hi", o + 12, 4, -1, "num32"), Fld("epb.ts.lo", o + 16, 4, -1, "num32"),
                    Fld("epb.caplen", o + 20, 4, it.cap, "len32"), Fld("epb.len", o + 24, 4, it.len, "len32")>>
               \o OptFields("epb", EpbOpts(it), 1, o + 28 + Pad4(it.cap))
    [] sc.fmt = "ng" /\ b.k = "isb" ->
         frame \o <<Fld("isb.ifid", o + 8, 4, it.ifc, "num32")>> \o OptFields("isb", IsbOpts(it), 1, o + 20)
    [] sc.fmt = "ng" /\ b.k = "dsb" ->
         frame \o <<Fld("dsb.secrettype", o + 8, 4, -1, "num32"), Fld("dsb.secretlen", o + 12, 4, it.n, "len32")>>
    [] sc.fmt = "ng" /\ b.k = "nrb" -> frame \o NrbFields(it.recs, 1, o + 8)
    [] sc.fmt = "ng" /\ b.k = "spb" -> frame \o <<Fld("spb.origlen", o + 8, 4, it.cap, "len32")>>
RECURSIVE FieldsFrom(_, _, _)
FieldsFrom(sc, B, i) == IF i > Len(B) THEN <<>> ELSE BlockFields(sc, B[i]) \o FieldsFrom(sc, B, i + 1)
Fields(sc) == FieldsFrom(sc, Blocks(sc), 1)

(* ---------------------- what a reader must hand back --------------------- *)
\* timestamps at the resolution of the file: classic microsecond files drop the sub-microsecond part
ExpNs(sc, ns) == IF sc.fmt = "pcap" /\ ~sc.nano THEN (ns \div 1000) * 1000
                 ELSE IF sc.fmt = "snoop" THEN (ns \div 1000) * 1000 ELSE ns
LinkOf(sc, it) == IF sc.fmt = "ng" THEN Idbs(sc)[it.ifc + 1].link ELSE sc.link
FirstLink(sc) == IF sc.fmt = "ng" THEN Idbs(sc)[1].link ELSE sc.link

\* libpcap reads classic files and those pcapng files whose interfaces agree in link type and snap length
LibCompatible(sc) ==
  \/ sc.fmt = "pcap"
  \/ /\ sc.fmt = "ng"
     /\ \A i \in 1..Len(Idbs(sc)) : Idbs(sc)[i].link = Idbs(sc)[1].link /\ Idbs(sc)[i].snap = Idbs(sc)[1].snap
     /\ \A i \in 1..Len(Packets(sc)) : Idbs(sc)[1].snap = 0 \/ Packets(sc)[i].cap <= Idbs(sc)[1].snap

(* -------------------------------- Judge ----------------------------------- *)
Modes == {"copy", "zero", "optc", "optz"}
CutModes == {"copy", "zero"}
NoScen == [fmt |-> "none", items |-> <<>>]
NewState == [sc |-> NoScen, B |-> <<>>, wdd |-> <<>>, wod |-> <<>>, td |-> <<>>, filed |-> FALSE, next |-> [m \in CutModes |-> 0]]

WalkKind(sc, k) == IF k = "head" THEN "head" ELSE k
\* the block walk of the real file: <<kind, off, len, trailing length copy (pcapng) or len>>
WalkMatches(B, w) == /\ Len(w) = Len(B)
                     /\ \A i \in 1..Len(B) : w[i][1] = B[i].k /\ w[i][2] = B[i].off /\ w[i][3] = B[i].len /\ w[i][4] = B[i].len
\* offsets observed after each (flushed) writer call: every block end, except that SHB and the first IDB are one call
CallEnds(sc, B) == IF sc.fmt = "ng" THEN [i \in 1..(Len(B) - 1) |-> EndOf(B[i + 1])] ELSE [i \in 1..Len(B) |-> EndOf(B[i])]

JudgeFile(st, e) ==
  LET B == st.B IN
  IF e.size # FileLenB(B) THEN <<"file-size-differs-from-framing", st>>
  ELSE IF ~WalkMatches(B, e.walk) THEN <<"block-boundary-differs-from-framing", st>>
  ELSE IF e.wofs # CallEnds(st.sc, B) THEN <<"writer-call-does-not-end-at-block-boundary", st>>
  ELSE IF Len(e.wdd) # Len(Packets(st.sc)) \/ Len(e.wod) # Len(e.wdd) THEN <<"bad-event", st>>
  ELSE <<"ok", [st EXCEPT !.wdd = e.wdd, !.wod = e.wod, !.filed = TRUE]>>

\* one packet handed back by a reader against packet i of the scenario
PktReason(sc, wdd, wod, i, p, withopts, mix) ==
  LET it == Packets(sc)[i]
      wo == withopts /\ sc.fmt = "ng" IN
  IF p.cap # it.cap THEN "capture-length-altered"
  ELSE IF p.len # it.len THEN "length-altered"
  ELSE IF p.dl # it.cap THEN "data-length-differs-from-capture-length"
  ELSE IF p.dd # wdd[i] THEN "data-altered"
  ELSE IF p.s # it.s \/ p.ns # ExpNs(sc, it.ns)
       THEN IF sc.fmt = "ng" /\ Idbs(sc)[it.ifc + 1].tsoff # 0 /\ p.s = it.s + Idbs(sc)[it.ifc + 1].tsoff /\ p.ns = it.ns
            THEN "timestamp-shifted-by-interface-offset"      \* the writer stores if_tsoffset but does not subtract it
            ELSE "timestamp-altered"
  ELSE IF sc.fmt = "ng" /\ p.ifc # it.ifc THEN "interface-index-altered"
  \* with WantMixedLinkType the link type of the packet's interface travels in ci.AncillaryData[0] (lt), otherwise none
  ELSE IF sc.fmt = "ng" /\ p.lt # (IF mix THEN LinkOf(sc, it) ELSE -1) THEN "link-type-altered"
  ELSE IF wo /\ p.cm # it.cm THEN "comment-option-altered"
  ELSE IF wo /\ p.fl # it.fl THEN "flags-option-altered"
  ELSE IF wo /\ (p.dc # it.dc \/ p.pid # it.pid \/ p.q # it.q) THEN "numeric-option-altered"
  ELSE IF wo /\ (p.hs # it.hs \/ p.vd # it.vd \/ p.od # wod[i]) THEN "hash-or-verdict-option-altered"
  ELSE "ok"
\* the packets a full read must hand back, as indices into Packets(sc): all of them, except that a pcapng reader
\* without WantMixedLinkType skips (as libpcap does) the packets of interfaces whose link type is not the first one's
Expected(sc, mix) ==
  LET P == Packets(sc)
      all == [i \in 1..Len(P) |-> i]
  IN IF sc.fmt = "ng" /\ ~mix THEN SelectSeq(all, LAMBDA i : LinkOf(sc, P[i]) = FirstLink(sc)) ELSE all
RECURSIVE FirstBad(_, _, _, _, _, _, _, _)
FirstBad(sc, wdd, wod, idx, pk, j, withopts, mix) ==
  IF j > Len(pk) THEN "ok"
  ELSE LET r == PktReason(sc, wdd, wod, idx[j], pk[j], withopts, mix)
       IN IF r = "ok" THEN FirstBad(sc, wdd, wod, idx, pk, j + 1, withopts, mix) ELSE r

\* A full read.  The packets of the copying calls are observed only AFTER the reader reached its end (the caller owns
\* what a copying call returns), those of the zero-copy calls at once.  Cut runs are compared with the tuple digests
\* of the configuration the driver uses for them: WantMixedLinkType on iff the scenario has mixed link types.
JudgeRead(st, e) ==
  LET sc == st.sc
      mix == sc.fmt = "ng" /\ e.mix
      idx == Expected(sc, mix)
      tds == [i \in 1..Len(e.pk) |-> e.pk[i].td]
      forcuts == mix = (sc.fmt = "ng" /\ sc.mixed)
  IN
  IF ~st.filed THEN <<"bad-event", st>>
  ELSE IF e.end = "panic" THEN <<"panic", st>>
  ELSE IF Len(e.pk) < Len(idx) THEN <<"packet-lost", st>>
  ELSE IF Len(e.pk) > Len(idx) THEN <<"packet-invented", st>>
  ELSE IF FirstBad(sc, st.wdd, st.wod, idx, e.pk, 1, e.mode \in {"optc", "optz"}, mix) # "ok"
       THEN <<FirstBad(sc, st.wdd, st.wod, idx, e.pk, 1, e.mode \in {"optc", "optz"}, mix), st>>
  ELSE IF e.end # "eof" THEN <<"no-clean-eof-after-last-packet", st>>
  ELSE IF ~mix /\ e.link # FirstLink(sc) THEN <<"link-type-altered", st>>
  ELSE IF forcuts /\ st.td # <<>> /\ st.td # tds THEN <<"read-calls-disagree", st>>
  ELSE <<"ok", IF forcuts THEN [st EXCEPT !.td = tds] ELSE st>>

\* section and interface descriptions read back (pcapng)
JudgeMeta(st, e) ==
  LET sc == st.sc  I == Idbs(sc) IN
  IF e.shb # <<sc.shb.app, sc.shb.cmt, sc.shb.hw, sc.shb.os>> THEN <<"section-option-altered", st>>
  ELSE IF Len(e.ifs) # Len(I) THEN <<"interface-count-altered", st>>
  ELSE IF \E i \in 1..Len(I) : e.ifs[i].link # I[i].link \/ e.ifs[i].snap # I[i].snap THEN <<"interface-header-altered", st>>
  ELSE IF \E i \in 1..Len(I) : \/ e.ifs[i].name # I[i].name \/ e.ifs[i].cmt # I[i].cmt \/ e.ifs[i].descr # I[i].descr
                               \/ e.ifs[i].filter # I[i].filter \/ e.ifs[i].os # I[i].os
       THEN <<"interface-option-altered", st>>
  ELSE IF \E i \in 1..Len(I) : e.ifs[i].tsoff # I[i].tsoff \/ e.ifs[i].res # 9 THEN <<"interface-time-option-altered", st>>
  ELSE <<"ok", st>>

\* libpcap on the same file
JudgeLib(st, e) ==
  LET sc == st.sc  P == Packets(sc) IN
  IF e.status = "skip" \/ ~LibCompatible(sc) THEN <<"ok", st>>
  ELSE IF e.status # "ok" THEN <<"libpcap-rejects-file", st>>
  ELSE IF Len(e.pk) # Len(P) THEN <<"libpcap-packet-count-differs", st>>
  ELSE IF \E i \in 1..Len(P) : \/ e.pk[i].cap # P[i].cap \/ e.pk[i].len # P[i].len \/ e.pk[i].dl # P[i].cap
                               \/ e.pk[i].dd # st.wdd[i]
       THEN <<"libpcap-packet-differs", st>>
  ELSE IF \E i \in 1..Len(P) : e.pk[i].s # P[i].s \/ e.pk[i].ns # ExpNs(sc, P[i].ns) THEN <<"libpcap-timestamp-differs", st>>
  ELSE IF e.link # FirstLink(sc) THEN <<"libpcap-link-type-differs", st>>
  ELSE <<"ok", st>>

\* a run [lo, hi) of cut offsets with one and the same observation (k packets with tuple digests tds, then `end`)
CutReason(B, td, e, c) ==
  LET rp == ReadPrefixB(B, c) IN
  IF e.k > rp[1] THEN "packet-not-wholly-in-prefix-returned"
  ELSE IF e.k < rp[1] THEN "packet-wholly-in-prefix-not-returned"
  ELSE IF e.end = "panic" THEN "panic"
  ELSE IF e.end \notin rp[2] THEN IF e.end = "ueof" THEN "unexpected-eof-at-block-boundary" ELSE "not-eof-or-unexpected-eof"
  ELSE "ok"
\* ReadPrefix is constant between two consecutive boundaries (lemma PropPiecewise, checked by TLC for every generated
\* scenario), so a run is judged at its end points and at every boundary it contains together with both neighbours.
Reps(B, lo, hi) == ({lo, hi - 1} \cup UNION {{b - 1, b, b + 1} : b \in BoundariesB(B)}) \cap (lo..(hi - 1))
JudgeCuts(st, e) ==
  LET B == st.B
      badc == {c \in Reps(B, e.lo, e.hi) : CutReason(B, st.td, e, c) # "ok"}
      st2 == [st EXCEPT !.next[e.mode] = e.hi]
  IN
  IF st.td = <<>> /\ Len(Packets(st.sc)) > 0 THEN <<"bad-event", st>>
  ELSE IF e.mode \notin CutModes \/ e.lo # st.next[e.mode] \/ e.hi <= e.lo \/ e.hi > FileLenB(B) + 1 THEN <<"cut-runs-not-contiguous", st>>
  ELSE IF badc # {} THEN <<CutReason(B, st.td, e, CHOOSE c \in badc : \A d \in badc : c <= d), st2>>
  ELSE IF e.k # Len(e.tds) \/ e.tds # SubSeq(st.td, 1, e.k) THEN <<"packet-in-prefix-altered", st2>>
  ELSE <<"ok", st2>>

JudgeDone(st, e) ==
  IF \E m \in CutModes : st.next[m] # FileLenB(st.B) + 1 THEN <<"cut-offsets-not-all-covered", st>> ELSE <<"ok", st>>

Judge(st, e) ==
  CASE e.op = "scn"   -> <<"ok", [NewState EXCEPT !.sc = e.scen, !.B = Blocks(e.scen)]>>
    [] e.op = "file"  -> JudgeFile(st, e)
    [] e.op = "read"  -> JudgeRead(st, e)
    [] e.op = "meta"  -> JudgeMeta(st, e)
    [] e.op = "lib"   -> JudgeLib(st, e)
    [] e.op = "cuts"  -> JudgeCuts(st, e)
    [] e.op = "done"  -> JudgeDone(st, e)
    [] e.op = "werr"  -> <<"writer-rejects-scenario", st>>
    [] e.op = "hang"  -> <<"hang", st>>
    [] OTHER          -> <<"unknown-event", st>>
=============================================================================
