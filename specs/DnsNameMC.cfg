SPECIFICATION Spec
CONSTANTS
  MaxLevel = 255
  StrictLen = FALSE
  Shape = "head"
  N = 4
  Alphabet = {0, 1, 2, 3, 4, 64, 128, 193}
  Base = 256
  DoExport = FALSE
INVARIANTS IndexInRange NoReadOutside StackBounded Terminates StepsBounded BufferShape PadNeverRead ImplSatisfiesProp MaxRecMeansCycle ErrorsCorrespond BufferIndependent NextIsInside RunIsStep Export
CHECK_DEADLOCK FALSE
