------------------------------ MODULE PureGen ------------------------------
(***************************************************************************)
(* Scenario generator for Pure.tla plus an IDEAL implementation (a pure    *)
(* decoder and a read-only packet) whose events are judged inside the      *)
(* model: PropAcceptsIdeal shows the property is satisfiable and not       *)
(* over-strict.  Three families, selected by `mode`:                       *)
(*                                                                         *)
(*  "hist"  histories over a pool of K input indices: decode A, then B     *)
(*          (and C), then A again - every ordered pair and triple - under  *)
(*          each option set (Lazy x DecodeStreamsAsDatagrams x ownership)  *)
(*  "share" one eager packet, the network layer linked once sequentially,  *)
(*          a sequential baseline of every accessor, then G threads each   *)
(*          running an accessor program (length 1..MaxProg over Acc); TLC  *)
(*          explores every interleaving of the ideal (read-only) packet    *)
(*  "own"   (C04) one input decoded under copy / nocopy / pool in every    *)
(*          order, then one of the packets is held, read, its input        *)
(*          buffer mutated, and read again.  The ideal NoCopy packet DOES  *)
(*          change after the mutation; the ideal copying packets do not.   *)
(***************************************************************************)
EXTENDS Pure, Json

CONSTANTS K, G, Acc, MaxProg
VARIABLES mode, opt, hist, progs, pc, st, verdicts
gvars == <<mode, opt, hist, progs, pc, st, verdicts>>

Programs == UNION {[1..n -> Acc] : n \in 1..MaxProg}
RECURSIVE SetToSeq(_)
SetToSeq(S) == IF S = {} THEN <<>> ELSE LET a == CHOOSE x \in S : TRUE IN <<a>> \o SetToSeq(S \ {a})
ProgSeq == SetToSeq(Programs)
HistOpts == [lazy : BOOLEAN, dsad : BOOLEAN, own : Owns]
OwnOpts  == [lazy : BOOLEAN, dsad : BOOLEAN, own : {"*"}]

\* the ideal implementation: a decode result is a function of the key alone
IdealDigest(i, o) == <<"d", i, o.lazy, o.dsad>>
IdealRead(a, mutatedNoCopy) == <<"r", a, mutatedNoCopy>>

Feed(ev) == LET r == Judge(st, ev) IN
            /\ st' = r[2]
            /\ verdicts' = IF r[1] = "ok" THEN verdicts ELSE Append(verdicts, <<r[1], ev>>)

RECURSIVE FeedAll(_, _, _)
FeedAll(s, v, evs) == IF evs = <<>> THEN <<s, v>>
                      ELSE LET r == Judge(s, Head(evs)) IN
                           FeedAll(r[2], IF r[1] = "ok" THEN v ELSE Append(v, <<r[1], Head(evs)>>), Tail(evs))

Init ==
  /\ verdicts = <<>>
  /\ \/ /\ mode = "hist" /\ opt \in HistOpts /\ hist = <<>> /\ progs = <<>> /\ pc = <<>> /\ st = NewState(FALSE)
     \/ /\ mode = "share" /\ opt \in {[lazy |-> FALSE, dsad |-> FALSE, own |-> "copy"]} /\ hist = <<>>
        /\ \E pi \in [1..G -> 1..Len(ProgSeq)] :          \* threads are interchangeable: non-decreasing choices only
              /\ \A t \in 1..(G - 1) : pi[t] <= pi[t + 1]
              /\ progs = [t \in 1..G |-> ProgSeq[pi[t]]]
        /\ pc = [t \in 1..G |-> -1] /\ st = NewState(FALSE)
     \/ /\ mode = "own" /\ opt \in OwnOpts /\ hist = <<>> /\ progs = <<>> /\ pc = <<>> /\ st = NewState(TRUE)

------------------------------------------------------------------------------
\* "hist": decode input i (sequentially)
Decode(i) ==
  /\ mode = "hist" /\ Len(hist) < 4
  /\ ~(Len(hist) >= 3 /\ hist[Len(hist)] = hist[1])          \* a history ends when A is decoded again
  /\ hist' = Append(hist, i)
  /\ Feed([op |-> "call", in |-> i, first |-> "T", lazy |-> opt.lazy, dsad |-> opt.dsad, own |-> opt.own,
           digest |-> IdealDigest(i, opt), intact |-> TRUE, phase |-> "seq"])
  /\ UNCHANGED <<mode, opt, progs, pc>>

HistComplete == mode = "hist" /\ Len(hist) >= 3 /\ hist[Len(hist)] = hist[1]
                /\ \A j \in 2..(Len(hist) - 1) : hist[j] # hist[1]

------------------------------------------------------------------------------
\* "share": baseline (sequential, includes the one-time SetNetworkLayerForChecksum), then threads
AccSeq == SetToSeq(Acc)
Baseline ==
  /\ mode = "share" /\ \A t \in 1..G : pc[t] = -1
  /\ LET evs == <<[op |-> "pkt", pkt |-> 1, own |-> "copy"]>> \o
                [i \in 1..Cardinality(Acc) |-> [op |-> "read", pkt |-> 1, acc |-> AccSeq[i],
                                                 digest |-> IdealRead(AccSeq[i], FALSE), phase |-> "seq"]]
         r == FeedAll(st, verdicts, evs)
     IN st' = r[1] /\ verdicts' = r[2]
  /\ pc' = [t \in 1..G |-> 0]
  /\ UNCHANGED <<mode, opt, hist, progs>>

ThreadRead(t) ==
  /\ mode = "share" /\ pc[t] >= 0 /\ pc[t] < Len(progs[t])
  /\ LET a == progs[t][pc[t] + 1] IN
     Feed([op |-> "read", pkt |-> 1, acc |-> a, digest |-> IdealRead(a, FALSE), phase |-> "conc"])
  /\ pc' = [pc EXCEPT ![t] = @ + 1]
  /\ UNCHANGED <<mode, opt, hist, progs>>

ShareComplete == mode = "share" /\ \A t \in 1..G : pc[t] = Len(progs[t])

------------------------------------------------------------------------------
\* "own": hist records the steps; first the three ownership options in any order, then hold/read/mutate/read
OwnDone == {hist[i][2] : i \in {j \in 1..Len(hist) : hist[j][1] = "call"}}
OwnCall(o) ==
  /\ mode = "own" /\ o \notin OwnDone /\ \A i \in 1..Len(hist) : hist[i][1] = "call"
  /\ hist' = Append(hist, <<"call", o>>)
  /\ Feed([op |-> "call", in |-> 1, first |-> "T", lazy |-> opt.lazy, dsad |-> opt.dsad, own |-> o,
           digest |-> IdealDigest(1, opt), intact |-> TRUE, phase |-> "seq"])
  /\ UNCHANGED <<mode, opt, progs, pc>>

OwnMutate(o) ==
  /\ mode = "own" /\ OwnDone = Owns /\ Len(hist) = 3
  /\ hist' = Append(hist, <<"mutate", o>>)
  /\ LET evs == << [op |-> "pkt", pkt |-> 1, own |-> o],
                   [op |-> "read", pkt |-> 1, acc |-> "All", digest |-> IdealRead("All", FALSE), phase |-> "seq"],
                   [op |-> "mutate", pkt |-> 1],
                   \* the ideal NoCopy packet reads the caller's (now different) bytes
                   [op |-> "read", pkt |-> 1, acc |-> "All", digest |-> IdealRead("All", o = "nocopy"), phase |-> "seq"] >>
         r == FeedAll(st, verdicts, evs)
     IN st' = r[1] /\ verdicts' = r[2]
  /\ UNCHANGED <<mode, opt, progs, pc>>

OwnComplete == mode = "own" /\ Len(hist) = 4

------------------------------------------------------------------------------
Next == \/ \E i \in 1..K : Decode(i)
        \/ Baseline
        \/ \E t \in 1..G : ThreadRead(t)
        \/ \E o \in Owns : OwnCall(o) \/ OwnMutate(o)
Spec == Init /\ [][Next]_gvars

PropAcceptsIdeal == verdicts = <<>>

\* the monitor is not vacuous: a decoder that remembers the previous input, a packet whose reader writes,
\* and a copying packet that follows its input buffer are all rejected
NotVacuous ==
  LET s0 == NewState(FALSE)
      c(i, d) == [op |-> "call", in |-> i, first |-> "T", lazy |-> FALSE, dsad |-> FALSE, own |-> "copy",
                  digest |-> d, intact |-> TRUE, phase |-> "seq"]
      s1 == Judge(s0, c(1, "x"))[2]
      s2 == Judge(s1, c(2, "y"))[2]
      p1 == Judge(NewState(TRUE), [op |-> "pkt", pkt |-> 1, own |-> "copy"])[2]
      p2 == Judge(p1, [op |-> "read", pkt |-> 1, acc |-> "All", digest |-> "a", phase |-> "seq"])[2]
      p3 == Judge(p2, [op |-> "mutate", pkt |-> 1])[2]
  IN /\ Judge(s2, c(1, "x'"))[1] = "decode-depends-on-history"
     /\ Judge(s2, [c(1, "x") EXCEPT !.intact = FALSE])[1] = "input-buffer-written"
     /\ Judge(s2, [c(1, "x'") EXCEPT !.phase = "conc"])[1] = "decode-differs-under-concurrency"
     /\ Judge(p3, [op |-> "read", pkt |-> 1, acc |-> "All", digest |-> "b", phase |-> "seq"])[1] = "packet-changed-after-input-mutation"
     /\ Judge(p2, [op |-> "read", pkt |-> 1, acc |-> "All", digest |-> "b", phase |-> "conc"])[1] = "shared-read-differs-from-sequential"
     /\ Judge(p2, [op |-> "race", site |-> "s"])[1] = "race"
     /\ Judge(Judge(NewState(TRUE), c(1, "x"))[2], [c(1, "z") EXCEPT !.own = "pool"])[1] = "ownership-option-changes-result"
     /\ Judge(Judge(NewState(FALSE), c(1, "x"))[2], [c(1, "z") EXCEPT !.own = "pool"])[1] = "ok"

ASSUME NotVacuous

Export ==
  /\ HistComplete => PrintT("BEH " \o ToJson([kind |-> "hist", opt |-> opt, h |-> hist]))
  /\ ShareComplete => PrintT("BEH " \o ToJson([kind |-> "share", progs |-> progs]))
  /\ OwnComplete => PrintT("BEH " \o ToJson([kind |-> "own", opt |-> opt, steps |-> hist]))
=============================================================================
