-------------------------- MODULE PacketSourceInd --------------------------
(***************************************************************************)
(* X22IND (c): an inductive invariant for PacketSource.tla (C16) - the     *)
(* ORIGINAL module, extended, not copied.  It implies the six safety       *)
(* invariants of PacketSourceMC.cfg (InOrderOnce, NothingLost,             *)
(* ClosedMeansDone, NoSendAfterClose, TypeOK, AtMostOneReadAfterCancel).   *)
(* PacketSourceProof.tla proves it with TLAPS for ANY set of scripts (any  *)
(* length, any alphabet) and any channel capacity K; PacketSourceIndMC.cfg *)
(* lets TLC confirm on the C16 bounds that IndInv is an invariant at all.  *)
(* (The liveness properties EofCloses / CancelCloses stay bounded.)        *)
(*                                                                         *)
(* Shape: packet ids are handed out consecutively, so the three sequences  *)
(* are determined by their lengths: produced = 1..nextId-1, delivered =    *)
(* 1..D, chan = D+1..D+C; the pc says whether D + C is nextId-1 (nothing   *)
(* in flight), nextId-2 (one packet in the goroutine's hand, pc = "send"), *)
(* or, after the goroutine has left the loop, either (the packet in hand   *)
(* is dropped only when the context was cancelled).                        *)
(***************************************************************************)
EXTENDS PacketSource

PcSet == {"check", "callread", "reading", "send", "sleep", "closing", "exited"}

ITypeOK ==
  /\ pc \in PcSet
  /\ chan \in Seq(Nat) /\ delivered \in Seq(Nat) /\ produced \in Seq(Nat)
  /\ nextId \in Nat /\ nextId >= 1
  /\ cur \in Nat
  /\ closed \in BOOLEAN /\ cancelled \in BOOLEAN
  /\ readsAfterCancel \in Nat

Shape ==
  /\ Len(produced) = nextId - 1
  /\ \A i \in 1..Len(produced) : produced[i] = i
  /\ \A i \in 1..Len(delivered) : delivered[i] = i
  /\ \A i \in 1..Len(chan) : chan[i] = Len(delivered) + i

InFlight ==
  /\ pc = "send" => (cur = nextId - 1 /\ Len(delivered) + Len(chan) = nextId - 2)
  /\ pc \in {"check", "callread", "reading", "sleep"} => Len(delivered) + Len(chan) = nextId - 1
  /\ pc \in {"closing", "exited"} => \/ Len(delivered) + Len(chan) = nextId - 1
                                     \/ cancelled /\ Len(delivered) + Len(chan) = nextId - 2

ClosedIff == closed <=> pc = "exited"

CancelReads ==
  /\ readsAfterCancel <= 1
  /\ readsAfterCancel = 1 => (cancelled /\ pc # "callread")
  /\ ~cancelled => readsAfterCancel = 0

IndInv == ITypeOK /\ Len(chan) <= K /\ Shape /\ InFlight /\ ClosedIff /\ CancelReads

Safe == /\ InOrderOnce /\ NothingLost /\ ClosedMeansDone /\ NoSendAfterClose /\ TypeOK /\ AtMostOneReadAfterCancel
=============================================================================
