SPECIFICATION Spec
CONSTANTS
  Progs <- MC_W1
  Bidir = TRUE
  PanicOnRace = FALSE
  KeyCheck = TRUE
  NConn = 4
INVARIANTS NoPanic NoMisdelivery CompletedAtMostOnce SingleEntry NoSharedObject
VIEW MCView
CHECK_DEADLOCK TRUE
