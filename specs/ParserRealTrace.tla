-------------------------- MODULE ParserRealTrace --------------------------
(* Implementation -> model for DecodingLayerParser over the real layers of the common     *)
(* stack (C05 part 2).  One event per (input bytes, subset S of the core stack):          *)
(*   pkt : what gopacket.NewPacket(DecodeStreamsAsDatagrams) produced - per layer its     *)
(*         type, digest of exported fields, contents and payload (length:digest), and     *)
(*         `emb` (1: this IPv6HopByHop layer is the very object held in the preceding     *)
(*         IPv6 layer's HopByHop field - decodeIPv6 lists it a second time; 2: the same   *)
(*         in a jumbogram, IPv6 length 0; else 0), the decode                             *)
(*         failure's error text digest (plain and as the parser wraps a panic), Truncated *)
(*   res : what DecodeLayers reported through 4 containers x IgnoreUnsupported with the   *)
(*         container filled by Put and installed by SetDecodingLayerContainer (who =      *)
(*         container + 4*ignore), with an empty container installed and the layers added  *)
(*         by AddDecodingLayer in the order `plan.order` - the decoder of the parser's    *)
(*         first type first / in the middle / last - (who = 8 + container), and with the  *)
(*         layers behind `plan.cut` added after a first decode (who = 12 + container;     *)
(*         that first decode is in `mid` and judged against the smaller set); identical   *)
(*         observations are merged.  Per observation: decoded types, every                *)
(*         DecodeFromBytes call the parser made (type, ok, NextLayerType, payload empty,  *)
(*         digests), error kind, unsupported type, error text digest, Truncated           *)
(* Parser!LeadingRun decides.  What eager packet decoding did is reconstructed from the   *)
(* packet: one successful step per layer; a trailing DecodeFailure is a failed step of    *)
(* the type the parser was told comes next (hypothesis A), or the layer before the        *)
(* failure is the failed step - decodeIPv4/IPv6/TCP/UDP add their layer before they       *)
(* return the error (hypothesis B).  A layer type outside S goes by the name the          *)
(* preceding layer's NextLayerType gave it (the parser cannot know another).              *)
(* Verdict reasons: not-leading-run, fields-differ, contents-differ, payload-differ,      *)
(* error-differs, truncated-differs, parser-bookkeeping, panic.                           *)
EXTENDS Integers, Sequences, FiniteSets, TLC, Json

CONSTANTS Steps, MaxScript
VARIABLES script, cset, ps
INSTANCE Parser

VARIABLES l, bad, cnt, self
tvars == <<script, cset, ps, l, bad, cnt, self>>

Trace == ndJsonDeserialize("trace.ndjson")
Reasons == {"not-leading-run", "fields-differ", "contents-differ", "payload-differ", "error-differs",
            "truncated-differs", "parser-bookkeeping", "panic", "hang", "incomplete-event"}
Note(b, r) == IF \E i \in 1..Len(b) : b[i].reason = r.reason /\ b[i].where = r.where /\ b[i].after = r.after THEN b
              ELSE IF Len(b) < 200 THEN Append(b, r) ELSE b

Range(s) == {s[i] : i \in DOMAIN s}
ZeroName == "Unknown"            \* gopacket.LayerTypeZero.String()
Min(a, b) == IF a < b THEN a ELSE b

\* the parser's own bookkeeping: `decoded` lists exactly the successful DecodeFromBytes calls, only the
\* last call may fail, its error is returned unchanged, the unsupported type is the last NextLayerType
Bookkeeping(e, r, S) ==
  LET k == Len(r.types)
      m == Len(r.calls)
      nextT == IF k = 0 THEN e.first ELSE r.calls[k].n
  IN /\ m \in {k, k + 1}
     /\ \A i \in 1..k : r.calls[i].ok /\ r.calls[i].t = r.types[i] /\ r.calls[i].t \in S
     /\ m = k + 1 => /\ ~r.calls[m].ok /\ r.err = "error" /\ r.calls[m].t = nextT /\ nextT \in S
                     /\ (r.calls[m].ce = "panic" \/ r.calls[m].ce = r.et)
     /\ r.err = "error" => m = k + 1
     /\ r.err = "unsup" => r.ut = nextT /\ nextT \notin S
     /\ r.err \in {"none", "unsup", "error"}
     /\ r.err # "unsup" => r.ut = ZeroName

\* <<reason, where, after>> for one observation r under IgnoreUnsupported = ig
JudgeRun(e, S, r, ig) ==
  LET P == SelectSeq(e.pkt.ls, LAMBDA x : x.emb = 0)
      n == Len(P)
      failed == e.pkt.fail
      k == Len(r.types)
      nextT == IF k = 0 THEN e.first ELSE r.calls[k].n
      after == IF k = 0 THEN "start" ELSE r.types[k]
      here  == IF k < n THEN P[k + 1].t ELSE "end"
      NameAt(j) == IF j = k + 1 /\ (P[j].t \notin S \/ (j = n /\ failed)) THEN nextT ELSE P[j].t
      stepsA == [j \in 1..n |-> [t |-> NameAt(j), ok |-> ~(j = n /\ failed)]]
      stepsB == [j \in 1..(n - 1) |-> [t |-> P[j].t, ok |-> j < n - 1]]
      lrA == LeadingRun(stepsA, S, ig, ZeroName)
      lrB == LeadingRun(stepsB, S, ig, ZeroName)
      RunOK(lr) == r.types = lr.types /\ r.err = lr.err /\ r.ut = lr.ut
      TruncOK(lr) == IF lr.cover THEN r.trunc = e.pkt.trunc ELSE (r.trunc => e.pkt.trunc)
      useB == ~RunOK(lrA) /\ failed /\ n >= 2 /\ RunOK(lrB)
      lr == IF useB THEN lrB ELSE lrA
      kk == Min(k, n)
      \* the first layer of the run that differs, and in what (contents, then payload, then fields)
      Same(i) == r.calls[i].c = P[i].c /\ r.calls[i].p = P[i].p /\ r.calls[i].d = P[i].d
      fb == IF \A i \in 1..kk : Same(i) THEN 0 ELSE CHOOSE i \in 1..kk : ~Same(i) /\ \A j \in 1..(i - 1) : Same(j)
      \* context for the signature: the packet holds a hop-by-hop header inside its IPv6 layer
      hbh == IF \E i \in 1..Len(e.pkt.ls) : e.pkt.ls[i].emb = 2 THEN "IPv6+HopByHop(jumbogram)"
             ELSE IF \E i \in 1..Len(e.pkt.ls) : e.pkt.ls[i].emb = 1 THEN "IPv6+HopByHop"
             ELSE ""
      ctx(dflt) == IF hbh # "" THEN hbh ELSE dflt
  IN IF r.err = "escaped-panic" THEN <<"panic", nextT, ctx(after)>>
     ELSE IF ~Bookkeeping(e, r, S) THEN <<"parser-bookkeeping", here, ctx(after)>>
     ELSE IF ~RunOK(lr) THEN <<"not-leading-run", here, ctx(after)>>
     ELSE IF fb # 0 THEN <<IF r.calls[fb].c # P[fb].c THEN "contents-differ"
                            ELSE IF r.calls[fb].p # P[fb].p THEN "payload-differ" ELSE "fields-differ",
                           r.types[fb], ctx(IF fb = 1 THEN "start" ELSE r.types[fb - 1])>>
     ELSE IF r.err = "error" /\ r.et \notin {e.pkt.ft, e.pkt.fpt} THEN <<"error-differs", nextT, ctx(after)>>
     ELSE IF ~TruncOK(lr) THEN <<"truncated-differs", here, ctx(after)>>
     ELSE <<"ok", "", "">>

Judge(e) ==
  IF e.op = "hang" THEN <<"hang", "", "">>
  ELSE IF e.op # "rl" THEN <<"incomplete-event", "", "">>
  ELSE IF e.pkt.panic # "" THEN <<"panic", "NewPacket", "">>
  ELSE IF UNION {Range(r.who) : r \in Range(e.res)} # 0..15 THEN <<"incomplete-event", "", "">>
  ELSE IF UNION {Range(r.who) : r \in Range(e.mid.res)} # 0..3 THEN <<"incomplete-event", "", "">>
  ELSE LET vs == UNION {{JudgeRun(e, Range(e.s), r, w \in 4..7) : w \in Range(r.who)} : r \in Range(e.res)}
                 \* the decode made when only the first `cut` layers of the plan had been added
                 \cup {JudgeRun(e, Range(e.mid.s), r, FALSE) : r \in Range(e.mid.res)}
           worst == vs \ {<<"ok", "", "">>}
       IN IF worst = {} THEN <<"ok", "", "">>
          ELSE CHOOSE v \in worst : TRUE

TInit == /\ script = <<>> /\ cset = {} /\ ps = PInit
         /\ l = 1 /\ bad = <<>> /\ cnt = [x \in Reasons |-> 0] /\ self = <<>>

Step == /\ l <= Len(Trace)
        /\ l' = l + 1
        /\ UNCHANGED <<script, cset, ps>>
        /\ LET e == Trace[l]
               v == Judge(e)
           IN IF e.sc < 0      \* binding self-test events appended by the check: reported apart, never counted
              THEN self' = Append(self, [line |-> l, sc |-> e.sc, reason |-> v[1]]) /\ UNCHANGED <<bad, cnt>>
              ELSE IF v[1] = "ok" THEN UNCHANGED <<bad, cnt, self>>
              ELSE /\ bad' = Note(bad, [sc |-> e.sc, line |-> l, op |-> e.op, reason |-> v[1], where |-> v[2], after |-> v[3]])
                   /\ cnt' = IF v[1] \in Reasons THEN [cnt EXCEPT ![v[1]] = @ + 1] ELSE cnt
                   /\ UNCHANGED self

TSpec == TInit /\ [][Step]_tvars
Done == l = Len(Trace) + 1 => PrintT("VERDICT " \o ToJson([lines |-> Len(Trace), bad |-> bad, cnt |-> cnt, self |-> self]))
=============================================================================
