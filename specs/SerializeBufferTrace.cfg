SPECIFICATION TSpec
CONSTANTS
  Sizes = {0}
  Hints = {0}
  MaxDepth = 0
  LTypes = {0}
  Stacks = {0}
INVARIANT Done
CHECK_DEADLOCK FALSE
