SPECIFICATION Spec
CONSTANTS
  U = 3
  MaxOps = 4
INVARIANTS PropAcceptsIdeal Export
CHECK_DEADLOCK FALSE
