SPECIFICATION TSpec
CONSTANTS
  N = 0
  M = 0
INVARIANT Done
CHECK_DEADLOCK FALSE
