-------------------------- MODULE PacketRealTrace --------------------------
(* Implementation -> model for real layer decoders (C01, C03, C19).          *)
(* The specification side is the outcome alphabet of Packet.tla: a decode    *)
(* step ends in `ok` or `error` -- there is no Panic, Hang or Crash          *)
(* transition -- plus the error-layer laws, plus lazy = eager.               *)
(*   "dec" : NewPacket (recovery on) and all read-only accessors             *)
(*   "lz"  : an accessor program on a lazy and an eager packet               *)
(*   "raw" : DecodeFromBytes / SkipDecodeRecovery / parser with IgnorePanic  *)
(* Distinct rejection signatures are collected (at most 400).                *)
EXTENDS Integers, Sequences, TLC, Json

VARIABLES l, bad
tvars == <<l, bad>>

Trace == ndJsonDeserialize("trace.ndjson")

Note(b, r) == IF \E i \in 1..Len(b) : b[i].sig = r.sig /\ b[i].reason = r.reason THEN b
              ELSE IF Len(b) < 400 THEN Append(b, r) ELSE b

\* C01: error layer non-nil => it is the last layer and the only decode failure; nil => no failure layer
ErrorLaws(e) ==
  \/ e.failIdx = 0 /\ e.failPos = <<>>
  \/ e.failIdx = e.nl /\ e.nl > 0 /\ e.failPos = <<e.nl>>

Judge(e) ==
  CASE e.op = "dec" -> IF e.panics # <<>> THEN "panic"
                       ELSE IF ~ErrorLaws(e) THEN "error-laws"
                       ELSE IF e.errFirst # -1 /\ (e.errFirst = 1) # (e.failIdx # 0) THEN "error-layer-depends-on-first-accessor"
                       ELSE IF ~e.inputIntact THEN "input-modified"
                       ELSE "ok"
    [] e.op = "lz"  -> IF e.same THEN "ok" ELSE "lazy-ne-eager"
    [] e.op = "raw" -> IF e.outcome \in {"ok", "err"} THEN "ok" ELSE "panic-no-recovery"
    [] e.op = "hang" -> "hang"
    [] e.op = "crash" -> "crash"
    [] OTHER -> "unknown-event"

TInit == l = 1 /\ bad = <<>>
Step == /\ l <= Len(Trace)
        /\ l' = l + 1
        /\ LET e == Trace[l]
               r == Judge(e)
           IN bad' = IF r = "ok" THEN bad
                     ELSE Note(bad, [sc |-> e.sc, line |-> l, op |-> e.op, reason |-> r, sig |-> e.sig])
TSpec == TInit /\ [][Step]_tvars
Done == l = Len(Trace) + 1 => PrintT("VERDICT " \o ToJson([lines |-> Len(Trace), bad |-> bad]))
=============================================================================
