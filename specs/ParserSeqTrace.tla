---------------------------- MODULE ParserSeqTrace ----------------------------
(* Implementation -> model for C05 part 3: validates fresh / reuse events of the real      *)
(* layers against the memo of ParserSeq.tla.  For a rejected reuse event `where` names     *)
(* the first component that differs: "result" (decoded types, error, truncation) or the    *)
(* layer type and exported fields of every DecodeFromBytes call whose digest differs.      *)
EXTENDS Json
CONSTANTS N, M
VARIABLES seq, verdictIdeal, verdictSticky
INSTANCE ParserSeq

VARIABLES l, memo, bad, cnt, self
tvars == <<seq, verdictIdeal, verdictSticky, l, memo, bad, cnt, self>>
Trace == ndJsonDeserialize("trace.ndjson")
Reasons == {"stale-state", "fresh-not-deterministic", "no-fresh-reference", "hang", "panic"}
Note(b, r) == IF \E i \in 1..Len(b) : b[i].reason = r.reason /\ b[i].fields = r.fields THEN b
              ELSE IF Len(b) < 100 THEN Append(b, r) ELSE b

\* what differs between the fresh and the reused result: {"result"} if decoded types / error / truncation /
\* the calls made differ, else "Type.Field" for every exported field that differs in some DecodeFromBytes
\* call ("Type.?" if a call's digests differ but no exported field does)
Where(a, b) ==
  IF a.types # b.types \/ a.err # b.err \/ a.ut # b.ut \/ a.et # b.et \/ a.trunc # b.trunc
     \/ Len(a.ds) # Len(b.ds) \/ a.dt # b.dt THEN {"result"}
  ELSE UNION {LET fa == a.df[i]
                  fb == b.df[i]
                  fs == {f \in DOMAIN fa \cap DOMAIN fb : fa[f] # fb[f]}
                        \cup ((DOMAIN fa \cup DOMAIN fb) \ (DOMAIN fa \cap DOMAIN fb))
              IN IF a.ds[i] = b.ds[i] THEN {}
                 ELSE IF fs = {} THEN {a.dt[i] \o ".?"}
                 ELSE {a.dt[i] \o "." \o f : f \in fs} : i \in 1..Len(a.ds)}

TInit == /\ seq = <<>> /\ verdictIdeal = "ok" /\ verdictSticky = "ok"
         /\ l = 1 /\ memo = EmptyMemo /\ bad = <<>> /\ cnt = [x \in Reasons |-> 0] /\ self = <<>>
Step ==
  /\ l <= Len(Trace)
  /\ l' = l + 1
  /\ UNCHANGED <<seq, verdictIdeal, verdictSticky>>
  /\ LET e == Trace[l]
         r == Judge(memo, e)
     IN IF e.sc < 0       \* binding self-test events appended by the check: reported apart, never counted
        THEN /\ self' = Append(self, [line |-> l, sc |-> e.sc, reason |-> r[1]])
             /\ UNCHANGED <<memo, bad, cnt>>
        ELSE
        /\ memo' = r[2]
        /\ UNCHANGED self
        /\ IF r[1] = "ok" THEN UNCHANGED <<bad, cnt>>
           ELSE /\ bad' = Note(bad, [sc |-> e.sc, line |-> l, op |-> e.op, reason |-> r[1],
                                     fields |-> IF r[1] \in {"stale-state", "fresh-not-deterministic"}
                                                THEN Where(memo[e.key], e.val) ELSE {}])
                /\ cnt' = IF r[1] \in Reasons THEN [cnt EXCEPT ![r[1]] = @ + 1] ELSE cnt
TSpec == TInit /\ [][Step]_tvars
Done == l = Len(Trace) + 1 => PrintT("VERDICT " \o ToJson([lines |-> Len(Trace), bad |-> bad, cnt |-> cnt, self |-> self]))
=============================================================================
