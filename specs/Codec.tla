------------------------------- MODULE Codec -------------------------------
(***************************************************************************)
(* C06 - "serialize then decode returns the same layers and payload" - as  *)
(* a judge over the events of one round trip:                              *)
(*                                                                         *)
(*   Ser (layers with key, header bytes, list projection; payload; digest  *)
(*        of the bytes | err)      written with FixLengths+ComputeChecksums*)
(*   Dec (digest of the bytes decoded -> layers' with key', err, truncated,*)
(*        payload')                                                        *)
(*   Ser2(digest of the bytes obtained by writing the decoded layers)      *)
(*                                                                         *)
(* Laws:  Dec(Ser(x)) = x : same layer types, key' = key for every layer   *)
(*        (key = digest of the exported fields AFTER serialization, since  *)
(*        FixLengths/ComputeChecksums mutate the layer; lists in order;    *)
(*        nil == empty), list' = list in order up to padding entries,      *)
(*        payload' = payload, no error, not truncated;                     *)
(*        Ser(Dec(Ser(x))) = Ser(x) : bytes' = bytes;                      *)
(*        and for the core stack the layout laws of Wire.tla hold on the   *)
(*        serialized header bytes themselves (and, for stacks, every       *)
(*        header names the layer that follows it).                         *)
(* A serialization error is outside the property: the case is vacuous and  *)
(* counted (CodecTrace).  Digests are computed in Go for equality only.    *)
(***************************************************************************)
EXTENDS Wire

None == [op |-> "none", sc |-> 0]
NewState == [cur |-> None]

HasHdr(x) == x.t \in CoreTypes /\ Len(x.hdr) > 0
RECURSIVE LawScan(_, _)
LawScan(lay, i) ==
  IF i > Len(lay) THEN "ok"
  ELSE LET r == IF HasHdr(lay[i]) THEN LayerLaw(lay[i]) ELSE "ok" IN
       IF r = "ok" THEN LawScan(lay, i + 1) ELSE "layout:" \o lay[i].t \o ":" \o r
RECURSIVE DemuxScan(_, _)
DemuxScan(lay, i) ==
  IF i >= Len(lay) THEN "ok"
  ELSE IF HasHdr(lay[i]) /\ ExpectedNext(lay[i].t, lay[i + 1].t) >= 0
          /\ NextField(lay[i].t, lay[i].hdr) # ExpectedNext(lay[i].t, lay[i + 1].t)
       THEN "layout:" \o lay[i].t \o ":next-layer-code"
       ELSE DemuxScan(lay, i + 1)

\* list projection with padding entries removed: what must survive the round trip in order
StripList(t, l) ==
  IF t \in {"IPv4", "TCP"} THEN BeforeEOL(l, 1)
  ELSE IF t \in {"IPv6", "IPv6HopByHop", "IPv6Destination"} THEN TL(NoPads(l))
  ELSE TL(l)
SameBag(a, b) == Len(a) = Len(b) /\ \A x \in {a[i] : i \in 1..Len(a)} :
                   Cardinality({i \in 1..Len(a) : a[i] = x}) = Cardinality({i \in 1..Len(b) : b[i] = x})

JudgeSer(st, e) ==
  IF e.err # "" THEN <<"ok", [cur |-> None]>>                     \* vacuous
  ELSE LET r == LawScan(e.lay, 1)
           d == IF e.src = "stack" THEN DemuxScan(e.lay, 1) ELSE "ok" IN
       IF r # "ok" THEN <<r, [cur |-> e]>>
       ELSE IF d # "ok" THEN <<d, [cur |-> e]>>
       ELSE <<"ok", [cur |-> e]>>

RECURSIVE FirstDiff(_, _, _)
\* first layer whose type / list / key differs: <<reason, type>> or <<"ok", "">>
FirstDiff(a, b, i) ==
  IF i > Len(a) THEN <<"ok", "">>
  ELSE IF a[i].t # b[i].t THEN <<"layers-differ", a[i].t>>
  ELSE LET la == StripList(a[i].t, a[i].list)
           lb == StripList(a[i].t, b[i].list) IN
       IF la # lb THEN <<IF SameBag(la, lb) THEN "list-reordered" ELSE "list-differs", a[i].t>>
       ELSE IF a[i].key # b[i].key THEN <<"fields-differ", a[i].t>>
       ELSE FirstDiff(a, b, i + 1)

\* payload' = payload.  A single layer that appended a trailer behind the payload (Ethernet pads short frames to
\* 60 bytes) cannot always tell it from payload when it is decoded on its own: there payload' = payload followed
\* by at most that trailer, all zero.  In a stack the enclosed IP header delimits the payload: exact equality.
\* (e.ppd = digest of the first c.plen bytes of payload', e.restZero = the bytes behind them are all zero.)
PayloadSame(c, e) ==
  LET tr == IF c.src = "stack" THEN 0 ELSE c.lay[Len(c.lay)].trailer IN
  /\ e.plen >= c.plen /\ e.plen <= c.plen + tr
  /\ e.ppd = c.pd
  /\ (e.plen > c.plen => e.restZero)

JudgeDec(st, e) ==
  LET c == st.cur IN
  IF c.op = "none" THEN <<"dec-without-ser", st>>
  ELSE IF e.sc # c.sc \/ e.d # c.d THEN <<"dec-of-other-bytes", st>>
  ELSE IF e.err # "" THEN
       <<"decode-error:" \o c.lay[IF Len(e.lay) < Len(c.lay) THEN Len(e.lay) + 1 ELSE Len(c.lay)].t, st>>
  ELSE IF e.trunc THEN <<"truncated:" \o c.lay[1].t, st>>
  ELSE IF Len(e.lay) # Len(c.lay) THEN
       <<"layers-differ:" \o c.lay[IF Len(e.lay) < Len(c.lay) THEN Len(e.lay) + 1 ELSE Len(c.lay)].t, st>>
  ELSE LET fd == FirstDiff(c.lay, e.lay, 1) IN
       IF fd[1] # "ok" THEN <<fd[1] \o ":" \o fd[2], st>>
       ELSE IF ~PayloadSame(c, e) THEN <<"payload-differs:" \o c.lay[Len(c.lay)].t, st>>
       ELSE <<"ok", st>>

JudgeSer2(st, e) ==
  LET c == st.cur IN
  IF c.op = "none" THEN <<"ser2-without-ser", st>>
  ELSE IF e.sc # c.sc THEN <<"ser2-of-other-case", st>>
  ELSE IF e.err # "" THEN <<"reserialize-error:" \o c.lay[1].t, st>>
  ELSE IF e.d # c.d THEN <<"reserialized-bytes-differ:" \o c.lay[1].t, st>>
  ELSE <<"ok", st>>

Judge(st, e) ==
  CASE e.op = "ser"  -> JudgeSer(st, e)
    [] e.op = "dec"  -> JudgeDec(st, e)
    [] e.op = "ser2" -> JudgeSer2(st, e)
    [] e.op = "panic" -> <<"panic", st>>
    [] e.op = "hang" -> <<"hang", st>>
    [] OTHER         -> <<"unknown-event", st>>
=============================================================================
