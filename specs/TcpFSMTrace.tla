----------------------------- MODULE TcpFSMTrace -----------------------------
(***************************************************************************)
(* Implementation -> model for X21FSM.  Reads trace.ndjson recorded by      *)
(* harness/cmd/tcpfsm from the real reassembly.TCPSimpleFSM and            *)
(* reassembly.TCPOptionCheck, one scenario (fresh object) per line:        *)
(*   {"op":"fsm","sc":n,"sme":b,"ev":[{"k","d","res":"acc|rej|panic",      *)
(*      "state":name after the call,"dir":0|1|2 (2 = not observable),      *)
(*      "det":b (a second fresh instance fed the same packets answered the *)
(*      same)}, ...]}                                                      *)
(*   {"op":"opt","sc":n,"ev":[{"d","syn","mss","ws","win","len","has",     *)
(*      "diff","res","det"}, ...]}                                         *)
(* Two judgements per observation:                                         *)
(*  - Prop layer (FsmJudge / OptJudge): the only source of verdicts.  The  *)
(*    first observation of a scenario that Prop rejects is recorded (one   *)
(*    example per distinct signature in `bad`, capped; all counted in      *)
(*    nbad) and the rest of that scenario is not judged.                   *)
(*  - Impl layer (FsmImplStep / OptImplStep): the transcription must       *)
(*    predict answer, state name (and direction where visible) of every    *)
(*    observation exactly; the first miss of a scenario is recorded in     *)
(*    `drift` and the rest of it not compared.  Drift is reported, never a *)
(*    verdict.                                                             *)
(***************************************************************************)
EXTENDS TcpFSM, Json, TLC
VARIABLES l, bad, nbad, drift, ndrift, cnt
tvars == <<l, bad, nbad, drift, ndrift, cnt>>
Trace == ndJsonDeserialize("trace.ndjson")

Note(b, rs) == IF rs = <<>> THEN b
               ELSE IF \E i \in 1..Len(b) : b[i].sig = rs[1].sig THEN b
               ELSE IF Len(b) < 60 THEN Append(b, rs[1]) ELSE b

\* one observation e (the i-th of its scenario) against accumulator a; r = the Impl layer's prediction,
\* j = the Prop layer's judgement (both passed in as values: TLC re-evaluates LET definitions at every use)
Body(fsm, e, i, a, r, j, cl) ==
  LET agree == /\ e.res = (IF r[1] THEN "acc" ELSE "rej")
               /\ e.det
               /\ (fsm => (e.state = r[2].st /\ (e.dir = 2 \/ e.dir = r[2].dir)))
      dr == [sig |-> <<(IF fsm THEN "fsm" ELSE "opt"), (IF fsm THEN a.impl.st ELSE "-"), (IF fsm THEN e.k ELSE "op"), e.res>>,
             at |-> i, want |-> (IF r[1] THEN "acc" ELSE "rej"), wantstate |-> (IF fsm THEN r[2].st ELSE ""), got |-> e.res]
      sig == IF fsm THEN <<"fsm", j[1], a.prop.ph, e.k, FsmRel(a.prop, e.d), a.prop.sme>>
             ELSE <<"opt", j[1], OptCase(a.prop, e), (IF e.syn THEN "syn" ELSE "seg"), "", FALSE>>
      br == [sig |-> sig, at |-> i, what |-> sig[1], reason |-> sig[2], ph |-> sig[3], k |-> sig[4], rel |-> sig[5],
             sme |-> sig[6], res |-> e.res]
      a1 == IF a.iskip THEN a
            ELSE IF agree THEN [a EXCEPT !.impl = r[2]]
            ELSE [a EXCEPT !.iskip = TRUE, !.drift = <<dr>>]
  IN IF a.skip THEN a1
     ELSE IF j[1] = "ok" THEN [a1 EXCEPT !.prop = j[2], ![cl] = @ + 1]
     ELSE [a1 EXCEPT !.skip = TRUE, !.bad = <<br>>, ![cl] = @ + 1]

One(fsm, e, i, a) ==
  CHOOSE x \in {Body(fsm, e, i, a, r, j, cl) :
                   r \in {IF fsm THEN FsmImplStep(a.impl, e.k, e.d, a.prop.sme) ELSE OptImplStep(a.impl, e)},
                   j \in {IF fsm THEN FsmJudge(a.prop, e) ELSE OptJudge(a.prop, e)},
                   cl \in {IF fsm THEN FsmClass(a.prop, e.k, e.d) ELSE OptClass(a.prop, e)}} : TRUE

RECURSIVE Run(_, _, _, _)
Run(fsm, ev, i, a) == IF i > Len(ev) THEN a ELSE Run(fsm, ev, i + 1, One(fsm, ev[i], i, a))

Start(e) == [impl |-> (IF e.op = "fsm" THEN FsmImplInit ELSE OptImplInit),
             prop |-> (IF e.op = "fsm" THEN FsmPropInit(e.sme) ELSE OptPropInit),
             skip |-> FALSE, iskip |-> FALSE, bad |-> <<>>, drift |-> <<>>, must |-> 0, never |-> 0, may |-> 0]

TInit == l = 1 /\ bad = <<>> /\ nbad = 0 /\ drift = <<>> /\ ndrift = 0 /\ cnt = [must |-> 0, never |-> 0, may |-> 0, obs |-> 0]

With(rs, e) == IF rs = <<>> THEN rs ELSE <<[rs[1] EXCEPT !.at = <<e.sc, l, @>>]>>    \* scenario, line, index in it

Step ==
  /\ l <= Len(Trace)
  /\ l' = l + 1
  /\ \E e \in {Trace[l]} : \E a \in {Run(e.op = "fsm", e.ev, 1, Start(e))} :
        /\ bad' = Note(bad, With(a.bad, e))
        /\ nbad' = nbad + Len(a.bad)
        /\ drift' = Note(drift, With(a.drift, e))
        /\ ndrift' = ndrift + Len(a.drift)
        /\ cnt' = [must |-> cnt.must + a.must, never |-> cnt.never + a.never, may |-> cnt.may + a.may,
                   obs |-> cnt.obs + Len(e.ev)]
TSpec == TInit /\ [][Step]_tvars
Done == l = Len(Trace) + 1 =>
          PrintT("VERDICT " \o ToJson([lines |-> Len(Trace), bad |-> bad, nbad |-> nbad, drift |-> drift,
                                       ndrift |-> ndrift, cnt |-> cnt]))
=============================================================================
