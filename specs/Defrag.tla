------------------------------- MODULE Defrag -------------------------------
(***************************************************************************)
(* IP defragmentation as seen through DefragIPv4 / DefragIPv6 /            *)
(* DiscardOlderThan (C13), in functional form: Judge(st, e) returns        *)
(* <<reason, st'>>.  Offsets and lengths are in bytes.                     *)
(*                                                                         *)
(* Per key (src, dst, id) the state keeps every fragment received since    *)
(* the key was last forgotten.  A set of fragments is BENIGN when, after   *)
(* dropping exact duplicates, the fragments are pairwise disjoint, every   *)
(* one except the highest has MF set, and none lies beyond a fragment      *)
(* without MF; it is COMPLETE when in addition it covers [0, T) and the    *)
(* highest has no MF.  For benign sets the result is fully determined      *)
(* (nothing, then exactly the datagram); for any other set the only        *)
(* obligation is: nothing, an error, or a datagram every byte of which     *)
(* some received fragment placed at that offset.                           *)
(***************************************************************************)
EXTENDS Integers, Sequences, FiniteSets, TLC

NewKey == [frags |-> {}, tainted |-> FALSE, last |-> 0, first |-> 0]
NewState == [k |-> <<>>, ihl |-> 5, v |-> 4]
GetK(st, key) == IF key \in DOMAIN st.k THEN st.k[key] ELSE NewKey
PutK(st, key, v) == [st EXCEPT !.k = [x \in DOMAIN st.k \cup {key} |-> IF x = key THEN v ELSE st.k[x]]]
DelK(st, key) == [st EXCEPT !.k = [x \in DOMAIN st.k \ {key} |-> st.k[x]]]

\* fragments: [fi, lo, hi, mf]; "same" = same interval and flag (an exact duplicate)
Same(a, b) == a.lo = b.lo /\ a.hi = b.hi /\ a.mf = b.mf
Disjoint(a, b) == a.hi <= b.lo \/ b.hi <= a.lo
Benign(S) ==
  /\ \A a, b \in S : a.fi # b.fi => (Same(a, b) \/ Disjoint(a, b))
  /\ \A a \in S : ~a.mf => \A b \in S : b.hi <= a.hi          \* nothing beyond the final fragment
  /\ \A a, b \in S : (~a.mf /\ ~b.mf) => Same(a, b)           \* one final fragment
  /\ \A a \in S : a.lo < a.hi \/ ~a.mf
Top(S) == CHOOSE x \in {a.hi : a \in S} : \A y \in {a.hi : a \in S} : y <= x
RECURSIVE CoveredFrom(_, _, _)
CoveredFrom(p, T, S) ==
  IF p >= T THEN TRUE
  ELSE IF \E a \in S : a.lo = p /\ a.hi > p
       THEN CoveredFrom((CHOOSE a \in S : a.lo = p /\ a.hi > p).hi, T, S)
       ELSE FALSE
Complete(S) == S # {} /\ Benign(S) /\ (\E a \in S : ~a.mf) /\ CoveredFrom(0, Top(S), S)

\* every output run [pos, pos+len) must come from a received fragment that placed those bytes there
RunsCovered(runs, S) ==
  \A i \in 1..Len(runs) :
     LET r == runs[i] IN
     /\ r.fi >= 0
     /\ \E a \in S : a.fi = r.fi /\ a.lo <= r.lo /\ r.hi <= a.hi
     /\ r.pos = r.lo
RECURSIVE RunsLen(_, _)
RunsLen(runs, i) == IF i > Len(runs) THEN 0 ELSE (runs[i].hi - runs[i].lo) + RunsLen(runs, i + 1)
\* the runs tile the output without holes
RECURSIVE Tiled(_, _, _)
Tiled(runs, i, p) == IF i > Len(runs) THEN TRUE
                     ELSE runs[i].pos = p /\ Tiled(runs, i + 1, p + (runs[i].hi - runs[i].lo))

JudgeFrag(st, e) ==
  LET ks == GetK(st, e.key)
      f  == [fi |-> e.fi, lo |-> e.lo, hi |-> e.hi, mf |-> e.mf]
      dup == \E a \in ks.frags : Same(a, f)
      S  == ks.frags \cup {f}
      k2 == [ks EXCEPT !.frags = S, !.last = e.ts, !.first = (IF ks.frags = {} THEN e.ts ELSE ks.first)]
      benign == ~ks.tainted /\ Benign(S)
      consistent == /\ e.flags = 0 /\ e.fragoff = 0
                    /\ e.length = 4 * e.ihl + e.plen
                    /\ e.ihl \in (IF st.ihl = 65 THEN {5, 6} ELSE {st.ihl})   \* 65: options in the offset-0 fragment only
  IN
  IF e.res = "same" THEN
       \* pass-through is for unfragmented packets only
       IF e.lo = 0 /\ ~e.mf THEN <<"ok", st>> ELSE <<"fragment-passed-through", st>>
  ELSE IF e.lo = 0 /\ ~e.mf THEN <<"unfragmented-not-passed-through", st>>
  ELSE IF e.res = "dgram" THEN
       IF ~Tiled(e.runs, 1, 0) \/ RunsLen(e.runs, 1) # e.plen THEN <<"output-not-tiled", DelK(st, e.key)>>
       ELSE IF ~RunsCovered(e.runs, S) THEN <<"byte-not-placed-by-any-fragment", DelK(st, e.key)>>
       ELSE IF st.v = 4 /\ ~consistent THEN <<"inconsistent-header-fields", DelK(st, e.key)>>
       ELSE IF benign /\ ~Complete(S) THEN <<"datagram-before-last-fragment", DelK(st, e.key)>>
       ELSE IF benign /\ e.plen # Top(S) THEN <<"wrong-datagram-length", DelK(st, e.key)>>
       ELSE IF benign /\ dup THEN <<"datagram-returned-twice", DelK(st, e.key)>>
       ELSE <<"ok", DelK(st, e.key)>>                      \* the key is forgotten after a datagram
  ELSE IF e.res = "nil" THEN
       IF benign /\ Complete(S) /\ ~dup THEN <<"complete-datagram-not-returned", PutK(st, e.key, k2)>>
       ELSE <<"ok", PutK(st, e.key, k2)>>
  ELSE IF e.res = "err" THEN
       \* errors are for sets the defragmenter cannot reassemble; afterwards exactness is no longer demanded
       IF benign /\ e.sane THEN <<"error-on-benign-fragment", PutK(st, e.key, [k2 EXCEPT !.tainted = TRUE])>>
       ELSE <<"ok", PutK(st, e.key, [k2 EXCEPT !.tainted = TRUE])>>
  ELSE IF e.res = "panic" THEN <<"panic", st>>
  ELSE <<"unknown-result", st>>

\* DiscardOlderThan(t): every key whose fragments are all older than t is forgotten (the model
\* forgets; if the code does not, a later fragment completes a datagram the model says cannot be
\* complete).  Whether a duplicate fragment refreshes a key's age is not specified: keys that saw
\* fragments both before and after t may or may not be forgotten, so exactness is waived for them.
JudgeDiscard(st, e) ==
  LET old == {key \in DOMAIN st.k : st.k[key].last < e.t}
      amb == {key \in DOMAIN st.k : st.k[key].first < e.t /\ st.k[key].last >= e.t}
  IN <<"ok",   \* the returned count is not judged (it depends on the unspecified refresh rule above)
       [st EXCEPT !.k = [x \in DOMAIN st.k \ old |->
                           IF x \in amb THEN [st.k[x] EXCEPT !.tainted = TRUE] ELSE st.k[x]]]>>

Judge(st, e) ==
  CASE e.op = "cfg"     -> <<"ok", [NewState EXCEPT !.ihl = e.ihl, !.v = e.v]>>
    [] e.op = "frag"    -> JudgeFrag(st, e)
    [] e.op = "discard" -> JudgeDiscard(st, e)
    [] e.op = "panic"   -> <<"panic", st>>
    [] OTHER            -> <<"unknown-event", st>>
=============================================================================
