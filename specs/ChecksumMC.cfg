SPECIFICATION Spec
CONSTANTS
  MaxPay = 2
  Bits = {0, 1, 2, 3, 4, 5, 6, 7}
INVARIANTS PropAcceptsIdeal FlipsDetected RejectsCorrupt
CHECK_DEADLOCK FALSE
