SPECIFICATION FsmSpec
CONSTANTS
  MaxLen = 7
  Kinds = {"S", "SA", "A", "AD", "FA", "R"}
  Smes = {TRUE, FALSE}
  ExportEvery = TRUE
  OMss <- MC_None
  OWs <- MC_None
  OWin = {0}
  OLen = {0}
  ODiff = {0}
VIEW View
INVARIANTS FsmImplSane FsmExport FsmReport
CHECK_DEADLOCK FALSE
