---------------------------- MODULE PoolIndApa ----------------------------
(***************************************************************************)
(* X22IND (a): Apalache instance of PoolInd.tla.  Second engine for the    *)
(* induction (independent of TLAPS) and the source of a concrete           *)
(* counterexample to induction for the negative control.                   *)
(*   apalache-mc check --cinit=CInitOK  --init=Init    --inv=IndInv --length=0   (Init => IndInv)            *)
(*   apalache-mc check --cinit=CInitOK  --init=IndInit --inv=IndInv --length=1   (IndInv /\ Next => IndInv') *)
(*   apalache-mc check --cinit=CInitOK  --init=IndInit --inv=Safe   --length=0   (IndInv => Safe)            *)
(*   apalache-mc check --cinit=CInitMut --init=IndInit --inv=IndInv --length=1   (must FAIL: LateWrite)      *)
(* Bounds here (TLAPS has none): Pkt ranges over every subset of four      *)
(* packet names; the pre-state is ANY state satisfying IndInv with at most *)
(* MaxSet free blocks / content pairs; block ids are unbounded integers.   *)
(***************************************************************************)
EXTENDS PoolInd, Apalache

AllPkt == {"p1_OF_PKT", "p2_OF_PKT", "p3_OF_PKT", "p4_OF_PKT"}

CInitOK == Pkt \in SUBSET AllPkt /\ LateWrite = FALSE
CInitMut == Pkt \in SUBSET AllPkt /\ LateWrite = TRUE

IndInit ==
  /\ st \in [Pkt -> LStates]
  /\ big \in [Pkt -> BOOLEAN]
  /\ nblk \in Int
  /\ hold \in [Pkt -> Int]
  /\ free = Gen(6)
  /\ content = Gen(6)
  /\ IndInv
=============================================================================
