SPECIFICATION Spec
CONSTANTS
  M = 32
  WRAP = 32
  P = 2
  L = 3
  MaxOps = 4
  MaxSegLen = 3
  Cfgs <- MC_CfgsQuick
  Seed = 1
  TotalLimit = 0
  SkipReset = TRUE
  ExportMod = 48
  ExportRem = 1
  ExportSig = TRUE
INVARIANTS ImplSatisfiesProp HeapSane NoLeak NoFlags Export
CHECK_DEADLOCK FALSE
