----------------------------- MODULE ParserSeqGen -----------------------------
EXTENDS ParserSeq, Json
Export == Len(seq) >= 2 => PrintT("BEH " \o ToJson([seq |-> seq]))
=============================================================================
