---------------------------- MODULE ReasmImplMC ----------------------------
(* Model-checking instances of ReasmImpl.tla: configuration grids (cfg files cannot hold records). *)
EXTENDS ReasmImpl

CONSTANT Seed      \* rotates the quick grid (VERIF_SEED)

\* initial sequence numbers: 0 (far from the wrap) and every position that puts the wrap inside the stream
\* (M - 1: the SYN itself is the last number before the wrap; M - 1 - k: stream unit k starts at sequence 0)
WrapIsns == {M - 1 - k : k \in 0..(L + 1)}
IsnSeq == <<0>> \o [k \in 1..(L + 2) |-> M - k]

\* quick grid: every (limit, KeepFrom policy) pair once; forced start, ISN and the ReassemblyComplete answer
\* rotate with the seed
Combos == << <<0, -1>>, <<1, -1>>, <<2, -1>>, <<0, 0>>, <<1, 0>>, <<2, 0>>, <<0, 2>>, <<1, 2>>, <<2, 2>>,
             <<0, 3>>, <<1, 3>>, <<2, 3>> >>
MC_CfgsQuick == {[limit |-> Combos[i][1], keep |-> Combos[i][2], force |-> ((i + Seed) % 2 = 0),
                  isn |-> IsnSeq[((i + Seed) % Len(IsnSeq)) + 1], remove |-> ((i + Seed) % 4 # 0)] : i \in 1..Len(Combos)}
MC_CfgsSmall == {c \in MC_CfgsQuick : c.keep \in {-1, 2} /\ c.limit \in {0, 1}}
\* thorough grid: the full product with ReassemblyComplete answering true, plus the quick grid answering false
MC_CfgsThorough == [limit : {0, 1, 2}, keep : {-1, 0, 2, 3}, force : BOOLEAN, isn : {0} \cup WrapIsns, remove : {TRUE}]
                   \cup {[c EXCEPT !.remove = FALSE] : c \in MC_CfgsQuick}
MC_CfgsSmoke == [limit : {0, 1}, keep : {-1, 2}, force : {FALSE, TRUE}, isn : {M - 2}, remove : {TRUE}]

\* configurations for the defect-finding runs (pre-fix shapes of the code switched on through constants)
MC_CfgsWrap == [limit : {0}, keep : {-1}, force : BOOLEAN, isn : WrapIsns, remove : {TRUE}]
MC_CfgsKeep == [limit : {0, 2}, keep : {0, 2}, force : BOOLEAN, isn : {0}, remove : {TRUE}]
MC_CfgsFin == [limit : {1, 2}, keep : {-1}, force : BOOLEAN, isn : {0}, remove : {TRUE}]
=============================================================================
