---------------------------- MODULE ReasmImplMC ----------------------------
(* Model-checking instances of ReasmImpl.tla: configuration grids (cfg files cannot hold records). *)
EXTENDS ReasmImpl

\* initial sequence numbers: 0 (far from the wrap) and every position that puts the wrap inside the stream
\* (M - 1: the SYN itself is the last number before the wrap; M - 1 - k: stream unit k starts at sequence 0)
WrapIsns == {M - 1 - k : k \in 0..(L + 1)}

MC_CfgsSmoke == [limit : {0, 1}, keep : {-1, 2}, force : {FALSE, TRUE}, isn : {M - 2}, remove : {TRUE}]
MC_CfgsQuick == [limit : {0, 1, 2}, keep : {-1, 0, 2}, force : BOOLEAN, isn : {0, M - 1, M - 2, M - 3}, remove : {TRUE}]
                \cup [limit : {1}, keep : {3}, force : {FALSE}, isn : {M - 4}, remove : {FALSE}]
MC_CfgsThorough == [limit : {0, 1, 2}, keep : {-1, 0, 2, 3}, force : BOOLEAN, isn : {0} \cup WrapIsns, remove : BOOLEAN]
\* configurations for the defect-finding runs (pre-fix shapes switched on)
MC_CfgsWrap == [limit : {0}, keep : {-1}, force : BOOLEAN, isn : WrapIsns, remove : {TRUE}]
MC_CfgsKeep == [limit : {0, 2}, keep : {0, 2}, force : BOOLEAN, isn : {0}, remove : {TRUE}]
=============================================================================
