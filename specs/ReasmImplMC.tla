---------------------------- MODULE ReasmImplMC ----------------------------
(* Model-checking instances of ReasmImpl.tla: configuration grids (cfg files cannot hold records). *)
EXTENDS ReasmImpl

CONSTANT Seed      \* rotates the quick grid (VERIF_SEED)

\* initial sequence numbers: 0 (far from the wrap) and every position that puts the wrap inside the stream
\* (M - 1: the SYN itself is the last number before the wrap; M - 1 - k: stream unit k starts at sequence 0)
WrapIsns == {M - 1 - k : k \in 0..(L + 1)}
IsnSeq == <<0>> \o [k \in 1..(L + 2) |-> M - k]

\* quick grid: every (limit, KeepFrom policy) pair once; forced start, ISN and the ReassemblyComplete answer
\* rotate with the seed
Combos == << <<0, -1>>, <<1, -1>>, <<2, -1>>, <<0, 0>>, <<1, 0>>, <<2, 0>>, <<0, 2>>, <<1, 2>>, <<2, 2>>,
             <<0, 3>>, <<1, 3>>, <<2, 3>> >>
MC_CfgsAll12 == {[limit |-> Combos[i][1], keep |-> Combos[i][2], force |-> ((i + Seed) % 2 = 0),
                  isn |-> IsnSeq[((i + Seed) % Len(IsnSeq)) + 1], remove |-> ((i + Seed) % 4 # 0)] : i \in 1..Len(Combos)}
\* the quick tier takes 4 of the 12 (which ones rotates with the seed)
MC_CfgsQuick == {[limit |-> Combos[i][1], keep |-> Combos[i][2], force |-> ((i + Seed) % 2 = 0),
                  isn |-> IsnSeq[((i + Seed) % Len(IsnSeq)) + 1], remove |-> ((i + Seed) % 4 # 0)] :
                 i \in {j \in 1..Len(Combos) : (j + Seed) % 3 = 0}}
\* thorough grid: the full product of limits, KeepFrom policies and forced start over ISN 0 and three seed-rotated wrap
\* positions with ReassemblyComplete answering true, plus the twelve seed-rotated configurations answering false
ThoroughIsns == {0} \cup {M - 1 - ((Seed + j) % (L + 2)) : j \in {0, 2, 4}}
MC_CfgsThorough == [limit : {0, 1, 2}, keep : {-1, 0, 2, 3}, force : BOOLEAN, isn : ThoroughIsns, remove : {TRUE}]
                   \cup {[c EXCEPT !.remove = FALSE] : c \in MC_CfgsAll12}
\* simulation: every ISN position
MC_CfgsEverything == [limit : {0, 1, 2}, keep : {-1, 0, 2, 3}, force : BOOLEAN, isn : {0} \cup WrapIsns, remove : BOOLEAN]
MC_CfgsSmoke == [limit : {0, 1}, keep : {-1, 2}, force : {FALSE, TRUE}, isn : {M - 2}, remove : {TRUE}]

\* configurations for the defect-finding runs (pre-fix shapes of the code switched on through constants)
MC_CfgsWrap == [limit : {0}, keep : {-1}, force : BOOLEAN, isn : WrapIsns, remove : {TRUE}]
MC_CfgsKeep == [limit : {0, 2}, keep : {0, 2}, force : BOOLEAN, isn : {0}, remove : {TRUE}]
MC_CfgsClean == [limit : {0}, keep : {2}, force : {FALSE}, isn : {0}, remove : {TRUE}]
MC_CfgsFin == [limit : {1, 2}, keep : {-1}, force : BOOLEAN, isn : {0}, remove : {TRUE}]

\* scripted scenarios (escalations of design-level findings beyond the exhaustive bound)
MC_NoScript == <<>>
\* half.pages drifts below the pages really held (HalfPagesExact): with KeepFrom(half) every in-order packet is kept
\* uncounted and released counted, so after four of them three out-of-order pages fit under a limit of one
MC_ScriptPageLimit == << <<"seg", 0, 0, 1, FALSE, FALSE>>, <<"seg", 0, 1, 2, FALSE, FALSE>>, <<"seg", 0, 2, 3, FALSE, FALSE>>,
                         <<"seg", 0, 3, 4, FALSE, FALSE>>, <<"seg", 0, 5, 6, FALSE, FALSE>>, <<"seg", 0, 7, 8, FALSE, FALSE>>,
                         <<"seg", 0, 9, 10, FALSE, FALSE>>, <<"flushall">> >>
MC_CfgsScript == {[limit |-> 1, keep |-> 2, force |-> TRUE, isn |-> 0, remove |-> TRUE]}
=============================================================================
