---------------------------- MODULE NgReaderImplMC ----------------------------
(* Model-checking instances of NgReaderImpl.tla: block alphabets, first blocks, configuration grids, timestamp table and
   scripted streams (cfg files cannot hold records or tuples). *)
EXTENDS NgReaderImpl

CONSTANT Seed      \* rotates the configuration grid (VERIF_SEED)

\* 8-byte timestamps, most significant byte first:  1: 0   2: 1.999999999 s   3: 1700000000.000001000 s   4: 2147483647.999999000 s
\* (all at resolution 10^-9, as the NgWriter writes them)   5: hi = 1, lo = 5   6: 2^64 - 1   7: hi = 0, lo = 2^32 - 1   8: 1600000000.123456789 s
MC_TsTab == << <<0, 0, 0, 0, 0, 0, 0, 0>>, <<0, 0, 0, 0, 119, 53, 147, 255>>, <<23, 151, 156, 254, 54, 42, 3, 232>>,
               <<29, 205, 100, 255, 255, 255, 252, 24>>, <<0, 0, 0, 1, 0, 0, 0, 5>>, <<255, 255, 255, 255, 255, 255, 255, 255>>,
               <<0, 0, 0, 0, 255, 255, 255, 255>>, <<22, 52, 87, 133, 223, 251, 205, 21>> >>

O(c, n, v) == [c |-> c, n |-> n, v |-> v]
Res9 == O(9, 1, 9)
Shb(be, vmaj, opts) == [k |-> "shb", be |-> be, bom |-> 0, vmaj |-> vmaj, vmin |-> 0, opts |-> opts, dl |-> 0, al |-> -1, dt |-> 0, eoo |-> 0]
Idb(link, snap, opts) == [k |-> "idb", link |-> link, snap |-> snap, opts |-> opts, dl |-> 0, al |-> -1, dt |-> 0, eoo |-> 0]
Epb(ifc, ts, cap, len, opts) == [k |-> "epb", ifc |-> ifc, ts |-> ts, cap |-> cap, len |-> len, dn |-> cap, opts |-> opts, dl |-> 0, al |-> -1, dt |-> 0, eoo |-> 0]
Pb(ifc, ts, cap, len, opts) == [Epb(ifc, ts, cap, len, opts) EXCEPT !.k = "pb"]
Spb(len, dn) == [k |-> "spb", len |-> len, dn |-> dn, dl |-> 0, al |-> -1, dt |-> 0, eoo |-> 0]
Isb(ifc, ts, opts) == [k |-> "isb", ifc |-> ifc, ts |-> ts, opts |-> opts, dl |-> 0, al |-> -1, dt |-> 0, eoo |-> 0]
Dsb(sl, dn) == [k |-> "dsb", st |-> 1414288203, sl |-> sl, dn |-> dn, dl |-> 0, al |-> -1, dt |-> 0, eoo |-> 0]
Rec(rt, rl, al, nl) == [rt |-> rt, rl |-> rl, al |-> al, nl |-> nl]
EndRec == Rec(0, 0, 0, 0)
Nrb(recs) == [k |-> "nrb", recs |-> recs, dl |-> 0, al |-> -1, dt |-> 0, eoo |-> 0]
Unk(typ, dn) == [k |-> "unk", typ |-> typ, dn |-> dn, dl |-> 0, al |-> -1, dt |-> 0, eoo |-> 0]

(* --------------------- what the NgWriter produces (C14) ------------------- *)
WShb == Shb(FALSE, 1, <<O(4, 2, 0), O(3, 1, 0)>>)
WShbBare == Shb(FALSE, 1, <<>>)
WIdbA == Idb(1, 0, <<O(2, 3, 0), Res9>>)
WIdbB == Idb(113, 4, <<O(1, 1, 0), O(11, 4, 0), O(12, 5, 0), Res9>>)
WIdbC == Idb(1, 17, <<O(3, 2, 0), Res9>>)
\* empty comment + flags; no options, nothing captured; comment + hash + packet id + verdict; two comments, drop count, queue
WEpb1 == Epb(0, 3, 5, 5, <<O(1, 0, 0), O(2, 4, 65601)>>)
WEpb2 == Epb(1, 2, 0, 7, <<>>)
WEpb3 == Epb(0, 4, 3, 1003, <<O(1, 3, 0), O(3, 5, 0), O(5, 8, 2147483647), O(7, 9, 0)>>)
WEpb4 == Epb(1, 8, 4, 4, <<O(1, 1, 0), O(1, 0, 0), O(4, 8, 7), O(6, 4, 0)>>)
WEpb5 == Epb(0, 1, 17, 17, <<O(3, 1, 0), O(3, 4, 1)>>)
WIsb == Isb(0, 3, <<O(2, 8, 1700000000), O(3, 8, 1700000009), O(5, 8, 1), O(4, 8, 2)>>)
WDsb == Dsb(5, 5)
WNrb == Nrb(<<Rec(1, 8, 4, 4), Rec(2, 19, 16, 3), EndRec>>)
MC_HeadsW == {WShb}
MC_AlphaW == {WIdbA, WIdbB, WEpb1, WEpb2, WEpb3, WEpb4, WDsb, WIsb}
MC_AlphaW2 == {WIdbA, WIdbB, WIdbC, WEpb1, WEpb2, WEpb3, WEpb4, WEpb5, WDsb, WIsb, WNrb}
MC_AlphaWSmall == {WIdbA, WIdbB, WEpb1, WEpb2, WEpb3}
\* two interfaces of different link types with packets on both (what WantMixedLinkType / ErrorOnMismatchingLinkType are about)
MC_AlphaMix == {WIdbA, WIdbB, WEpb1, WEpb2}

(* ---------------- sections, byte orders, resolutions, block kinds ---------- *)
BShb == Shb(TRUE, 1, <<O(1, 3, 0), O(2, 2, 0)>>)
VShb == Shb(FALSE, 2, <<O(2, 2, 0)>>)                      \* unknown major version
VShbBE == Shb(TRUE, 2, <<>>)
SIdbMicro == Idb(1, 0, <<>>)                                 \* default resolution 10^-6
SIdbOff == Idb(1, 0, <<O(14, 8, 5), O(9, 1, 3)>>)            \* milliseconds, offset 5 s
SIdbBin == Idb(113, 3, <<O(9, 1, 138), O(2, 2, 0)>>)         \* 2^-10, snap length 3
SIdbPico == Idb(113, 0, <<O(8, 8, 0), O(9, 1, 12)>>)          \* 10^-12 (and an option the reader ignores)
SIdbBin30 == Idb(1, 0, <<O(9, 1, 158)>>)                     \* 2^-30: the fraction exceeds 10^9 - 1
SEpbHi == Epb(0, 5, 2, 2, <<>>)
SEpbMax == Epb(1, 6, 1, 9, <<O(1, 2, 0)>>)
SEpbLo == Epb(0, 7, 4, 4, <<O(2, 4, 64512 + 3)>>)            \* flags with the bits FromUint32 drops
SPb == Pb(0, 2, 3, 3, <<O(1, 1, 0)>>)
SSpb == Spb(5, 5)
SUnk == Unk(2989, 6)
SIsb == Isb(1, 5, <<O(1, 2, 0), O(6, 8, 1)>>)                \* statistics of the second interface: comment, an option the reader ignores
MC_HeadsS == {WShbBare, BShb, VShb}
MC_AlphaS == {WShbBare, BShb, VShb, SIdbMicro, SIdbBin, SEpbHi, SEpbMax, SSpb, WIsb}
MC_AlphaS2 == {WShbBare, BShb, VShbBE, SIdbOff, SIdbPico, SIdbBin30, WIdbB, SEpbLo, SEpbMax, SPb, SSpb, SUnk, SIsb, WDsb, WNrb}
MC_AlphaSSmall == {BShb, VShb, SIdbMicro, SIdbBin, SEpbHi, SEpbMax, SSpb}

(* ------------------------ corruptions (C15 envelope) ----------------------- *)
With(b, f, v) == [b EXCEPT ![f] = v]
HShbBadMagic == [WShbBare EXCEPT !.bom = 1]
HShbShort == [WShbBare EXCEPT !.al = 12]
HIdbTsresol255 == Idb(1, 0, <<O(9, 1, 255)>>)               \* 2^-127
HIdbTsresol20 == Idb(1, 0, <<O(9, 1, 20)>>)                 \* 10^-20
HIdbTsresolEmpty == Idb(1, 0, <<O(9, 0, 0)>>)
HIdbFilterEmpty == Idb(1, 0, <<O(11, 0, 0), Res9>>)
HIdbTsoffShort == Idb(1, 0, <<O(14, 4, 1), Res9>>)
HIdbEooLen == [WIdbA EXCEPT !.eoo = 3]
HIdbNoEoo == [WIdbA EXCEPT !.eoo = 1]
HEpbIfc == Epb(7, 3, 2, 2, <<>>)                            \* interface id out of range
HEpbIfcHuge == Epb(-1, 3, 2, 2, <<>>)
HEpbCapLen == [Epb(0, 3, 4, 3, <<>>) EXCEPT !.dn = 4]       \* caplen > len
HEpbCapBlock == [Epb(0, 3, 400, 400, <<>>) EXCEPT !.dn = 4] \* caplen > block
HEpbCapHuge == [Epb(0, 3, -1, -1, <<>>) EXCEPT !.dn = 4]    \* 0xffffffff
HEpbFlagsShort == Epb(0, 3, 1, 1, <<O(2, 2, 1)>>)
HEpbHashEmpty == Epb(0, 3, 1, 1, <<O(1, 2, 0), O(3, 0, 0)>>)
HEpbPidShort == Epb(0, 3, 1, 1, <<O(5, 4, 1)>>)
HEpbTrail == [WEpb1 EXCEPT !.dt = 4]                        \* trailing length differs: the reader never looks
HEpbLenMinus == [WEpb3 EXCEPT !.dl = -4]                    \* total length 4 too small
HEpbLenPlus == [WEpb2 EXCEPT !.dl = 8]                      \* 8 too large: the next block header is read as options
HEpbLenOdd == [WEpb1 EXCEPT !.dl = 1]                       \* not a multiple of 4
HEpbLenTiny == [WEpb2 EXCEPT !.al = 8]                      \* smaller than the block header
HEpbLenHuge == [WEpb2 EXCEPT !.al = -16]                    \* 0xfffffff0: beyond the data
HUnkLenZero == [SUnk EXCEPT !.al = 0]
HSpbShort == Spb(9, 2)                                      \* original length beyond the block
HDsbLen == Dsb(400, 4)
HNrbBad == Nrb(<<Rec(1, 8, 4, 4), Rec(9, 3, 0, 3), Rec(3, 10, 6, 4), Rec(4, 12, 8, 4), EndRec>>)
HNrbNoEnd == Nrb(<<Rec(2, 19, 16, 3)>>)                     \* no end record: the trailing length is read as a record
HIsbIfc == Isb(3, 3, <<>>)
HIsbShort == Isb(0, 3, <<O(4, 4, 1)>>)
HIsbTimeShort == Isb(0, 3, <<O(2, 4, 1)>>)
HEpbDcShort == Epb(0, 3, 1, 1, <<O(4, 4, 1)>>)
HEpbVdEmpty == Epb(0, 3, 1, 1, <<O(7, 0, 0)>>)
MC_HeadsH == {WShbBare, HShbBadMagic, HShbShort, WIdbA}
MC_HeadsOne == {WShbBare}
MC_AlphaH1 == {WIdbA, HIdbTsresol255, HIdbTsresolEmpty, HIdbEooLen, HEpbIfc, HEpbCapLen, HEpbCapBlock, HEpbFlagsShort, HEpbLenMinus, HEpbLenPlus,
               HEpbLenTiny, WEpb1}
MC_AlphaH2 == {WIdbA, WIdbB, HIdbTsresol20, HIdbFilterEmpty, HIdbTsoffShort, HIdbNoEoo, HEpbIfcHuge, HEpbCapHuge, HEpbHashEmpty, HEpbPidShort, HEpbTrail,
               HEpbLenOdd, HEpbLenHuge, HUnkLenZero, HSpbShort, HDsbLen, HNrbBad, HNrbNoEnd, HIsbIfc, HIsbShort, WEpb3, HShbBadMagic}
MC_AlphaHSmall == {WIdbA, HIdbTsresol255, HEpbIfc, HEpbCapLen, HEpbFlagsShort, HEpbLenMinus, HEpbLenPlus, WEpb1}

\* simulation beyond the exhaustive bounds: mostly valid blocks of every kind, both byte orders, a few corruptions
MC_HeadsSim == {WShb, WShbBare, BShb}
MC_AlphaSim == {WIdbA, WIdbB, WIdbC, SIdbOff, SIdbBin, SIdbMicro, WEpb1, WEpb2, WEpb3, WEpb4, WEpb5, SEpbHi, SEpbMax, SEpbLo, SPb, SSpb, WIsb, WDsb, WNrb,
                SUnk, SIsb, BShb, WShbBare, VShb, HEpbLenPlus, HEpbTrail, HIdbNoEoo, HEpbCapLen, HNrbBad, HIsbTimeShort, HEpbDcShort, HEpbVdEmpty}

(* -------------------- the zero-copy buffer and the growing read ------------- *)
GIdb0 == Idb(1, 0, <<Res9>>)
GIdb8 == Idb(1, 8, <<Res9>>)
GEpb(cap) == Epb(0, 3, cap, cap, <<>>)
MC_HeadsG == {WShbBare}
MC_AlphaG == {GIdb0, GIdb8, GEpb(3), GEpb(8), GEpb(11), GEpb(20)}          \* with ReadStep = 8
\* the real step: a packet above 64 KiB behind a small one (and in front of one)
MC_ScriptBig == <<WShbBare, GIdb0, GEpb(60), GEpb(65549), GEpb(61)>>
MC_ScriptBigSnap == <<WShbBare, Idb(1, 262144, <<Res9>>), GEpb(60), GEpb(70001), GEpb(61)>>
MC_NoScript == <<>>

(* ------------------------------- configurations ----------------------------- *)
MC_CfgsAll == [mixed : BOOLEAN, errmis : BOOLEAN, skipver : BOOLEAN, zero : BOOLEAN]
Bit(n, i) == (n \div Pow2(i)) % 2 = 1
CfgOf(n) == [mixed |-> Bit(n, 0), errmis |-> Bit(n, 1), skipver |-> Bit(n, 2), zero |-> Bit(n, 3)]
\* four of the sixteen, rotating with the seed so that four seeds see all; every selection has both read calls and both
\* values of every option
MC_CfgsQuick == {CfgOf((Seed + 0) % 16), CfgOf((Seed + 5) % 16), CfgOf((Seed + 10) % 16), CfgOf((Seed + 15) % 16)}
MC_CfgsPair == {CfgOf(Seed % 16), CfgOf(15 - (Seed % 16))}
MC_CfgsReads == {CfgOf(1), CfgOf(9)}                                        \* mixed: copying and zero-copy
MC_CfgsMix == {CfgOf(1), CfgOf(9), CfgOf(0), CfgOf(2)}                       \* mixed copying / zero-copy, skipping, error on mismatch
MC_CfgsPlain == {CfgOf(0), CfgOf(8), CfgOf(1), CfgOf(9)}

MC_CutsNone == {}
MC_CutsFew == {1, 9}
MC_CutsMore == {1, 4, 8, 9, 12, 13, 20, 21, 28, 29}
MC_CutsAll == {-1}
MC_CutsOff == {-2}
=============================================================================
