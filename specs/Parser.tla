------------------------------- MODULE Parser -------------------------------
(***************************************************************************)
(* gopacket parser.go / layers_decoder.go: DecodingLayerParser.DecodeLayers *)
(* over a container of preallocated DecodingLayers (C05).                   *)
(*                                                                          *)
(* As in Packet.tla a decoder chain is a `script`, one step code per layer, *)
(* which the harness turns into input bytes interpreted by real             *)
(* gopacket.DecodingLayer implementations (one byte per layer):             *)
(*   code = pe*128 + kind*16 + out*2 + trunc                                *)
(*   kind : 0..3, the layer type is kind+1 (CanDecode = {kind+1})           *)
(*   out  : 0 DecodeFromBytes succeeds, NextLayerType = type of next byte   *)
(*          1 succeeds, NextLayerType = LayerTypeZero (terminal layer)      *)
(*          2 DecodeFromBytes returns an error                              *)
(*   trunc: DecodeFromBytes calls df.SetTruncated() first                   *)
(*   pe   : LayerPayload() is empty although bytes follow                   *)
(* code % 128 is the step code of Packet.tla (the equivalent Decoder adds   *)
(* the layer and returns NextDecoder(next) / nil / the error), so full      *)
(* packet decoding of the same bytes is Packet.tla's Eager.                 *)
(*                                                                          *)
(* Impl layer: PStep is one step of the generated loop of LayersDecoder     *)
(* followed by the tail of DecodeLayers; ParserResult is its fixpoint.      *)
(* The model starts from a cold parser and an empty `decoded` slice; the    *)
(* driver also replays with a parser that decoded a truncated packet before *)
(* and with a non-empty slice ("DecodeLayers truncates the 'decoded' slice  *)
(* initially") - the verdict there comes from the real packet, not from     *)
(* this model.                                                              *)
(* Prop layer: LeadingRun(steps, S, ig, zeroT) over what eager decoding did *)
(* (`steps`: type and success of every decoder call it made) is what a      *)
(* parser over the container set S has to report; Conforms compares.        *)
(***************************************************************************)
EXTENDS Integers, Sequences, FiniteSets, TLC

CONSTANTS Steps,       \* set of step codes used to build scripts
          MaxScript    \* max script length

VARIABLES script,      \* the input bytes
          cset,        \* container set S: the types a DecodingLayer was Put for
          ps           \* parser state (pc machine of the code)
vars == <<script, cset, ps>>

\* Packet.tla is used for its operators only (its variables are not part of this module's state)
PK == INSTANCE Packet WITH MaxProg <- 0, lazy <- 0, prog <- <<>>, lastRes <- 0

Types    == 1..4
ZeroType == 0                    \* gopacket.LayerTypeZero
FailType == 6                    \* Packet.tla's DecodeFailure

PE(c)    == c >= 128
PCode(c) == c % 128              \* Packet.tla step code
Kind(c)  == PCode(c) \div 16
Out(c)   == (PCode(c) % 16) \div 2
Trunc(c) == (c % 2) = 1
LType(c) == Kind(c) + 1

-----------------------------------------------------------------------------
(* Full packet decoding of the same bytes (Packet.tla) *)

\* bytes after a layer that reports an empty payload are never looked at
RECURSIVE CutAtPE(_, _)
CutAtPE(scr, i) == IF i > Len(scr) THEN scr
                   ELSE IF PE(scr[i]) THEN SubSeq(scr, 1, i) ELSE CutAtPE(scr, i + 1)
PacketScript(scr) == LET c == CutAtPE(scr, 1) IN [i \in 1..Len(c) |-> PCode(c[i])]

EagerResult(scr) == PK!Eager(PacketScript(scr))      \* [layers, trunc, fail, ...]

\* what eager decoding did, reconstructed from the input and the layers it produced:
\* one record per decoder call, its type and whether it produced its layer
EagerSteps(scr, layers) ==
  [j \in 1..Len(layers) |-> [t |-> LType(scr[j]), ok |-> layers[j] # FailType]]
\* a packet whose layers cannot be the result of these bytes at all
LayersExplained(scr, layers) ==
  /\ Len(layers) <= Len(scr)
  /\ \A j \in 1..Len(layers) : layers[j] = LType(scr[j]) \/ (layers[j] = FailType /\ j = Len(layers))

-----------------------------------------------------------------------------
(* Prop: the leading run *)

\* index of the first step whose type is outside S or that failed (Len+1 if none)
RECURSIVE FirstStop(_, _, _)
FirstStop(steps, S, j) ==
  IF j > Len(steps) THEN j
  ELSE IF steps[j].t \notin S \/ ~steps[j].ok THEN j ELSE FirstStop(steps, S, j + 1)

\* The parser reports the types of the leading run of steps inside S that succeeded.  It stops
\*   - at the end                                     : no error, it ran every decoder eager ran
\*   - at the first type outside S (checked before the decoder is called, so this wins over a
\*     failure of that decoder): UnsupportedLayerType(t) -- nil with IgnoreUnsupported, and nil
\*     for LayerTypeZero ("no next layer", DecodeLayers cannot tell it from success)
\*   - at the first failing decoder inside S           : that decoder's error
\* cover = the parser ran exactly the decoder calls eager ran (Truncated must then be equal)
LeadingRun(steps, S, ig, zeroT) ==
  LET j == FirstStop(steps, S, 1)
      n == Len(steps)
      ts == [i \in 1..(j - 1) |-> steps[i].t]
  IN IF j > n THEN [types |-> ts, err |-> "none", ut |-> zeroT, cover |-> TRUE]
     ELSE IF steps[j].t \notin S
          THEN IF ig \/ steps[j].t = zeroT
               THEN [types |-> ts, err |-> "none", ut |-> zeroT, cover |-> FALSE]
               ELSE [types |-> ts, err |-> "unsup", ut |-> steps[j].t, cover |-> FALSE]
     ELSE [types |-> ts, err |-> "error", ut |-> zeroT, cover |-> TRUE]

\* r: what the parser reported [types, err, ut, trunc]; ptrunc: Truncated of the packet
Conforms(r, lr, ptrunc) ==
  /\ r.types = lr.types
  /\ r.err = lr.err
  /\ r.ut = lr.ut
  /\ IF lr.cover THEN r.trunc = ptrunc ELSE (r.trunc => ptrunc)

-----------------------------------------------------------------------------
(* Impl: LayersDecoder (one of four identical generated loops) + DecodeLayers *)

\* NextLayerType() of the layer decoded from byte i
NextType(scr, i) == IF Out(scr[i]) = 1 \/ i = Len(scr) THEN ZeroType ELSE LType(scr[i + 1])
\* len(LayerPayload()) == 0 of the layer decoded from byte i
PayloadEmpty(scr, i) == PE(scr[i]) \/ i = Len(scr)

PInit == [pc |-> "start", i |-> 1, typ |-> ZeroType, decoded |-> <<>>, trunc |-> FALSE,
          rtyp |-> ZeroType, rerr |-> FALSE, res |-> "none", ut |-> ZeroType]

PStep(p, scr, S, ig) ==
  CASE p.pc = "start" ->      \* l.Truncated = false; firstDec, ok := dl.Decoder(first)
         IF LType(scr[1]) \in S
         THEN [p EXCEPT !.pc = "decode", !.typ = LType(scr[1])]
         ELSE [p EXCEPT !.pc = "ret", !.rtyp = LType(scr[1])]     \* return first, nil
    [] p.pc = "decode" ->     \* if err := decoder.DecodeFromBytes(data, df); err != nil { return LayerTypeZero, err }
         LET c  == scr[p.i]
             p2 == [p EXCEPT !.trunc = p.trunc \/ Trunc(c)]
         IN IF Out(c) = 2 THEN [p2 EXCEPT !.pc = "ret", !.rtyp = ZeroType, !.rerr = TRUE]
            ELSE [p2 EXCEPT !.pc = "append"]
    [] p.pc = "append" ->     \* *decoded = append(*decoded, typ); typ = decoder.NextLayerType()
         [p EXCEPT !.pc = "payload", !.decoded = Append(p.decoded, p.typ), !.typ = NextType(scr, p.i)]
    [] p.pc = "payload" ->    \* if data = decoder.LayerPayload(); len(data) == 0 { break }
         IF PayloadEmpty(scr, p.i) THEN [p EXCEPT !.pc = "ret", !.rtyp = ZeroType]
         ELSE [p EXCEPT !.pc = "lookup", !.i = p.i + 1]
    [] p.pc = "lookup" ->     \* if decoder, ok = dlc.Decoder(typ); !ok { return typ, nil }
         IF p.typ \in S THEN [p EXCEPT !.pc = "decode"]
         ELSE [p EXCEPT !.pc = "ret", !.rtyp = p.typ]
    [] p.pc = "ret" ->        \* DecodeLayers: typ != LayerTypeZero -> IgnoreUnsupported ? nil : UnsupportedLayerType(typ); else err
         IF p.rtyp # ZeroType
         THEN IF ig THEN [p EXCEPT !.pc = "done", !.res = "none"]
              ELSE [p EXCEPT !.pc = "done", !.res = "unsup", !.ut = p.rtyp]
         ELSE [p EXCEPT !.pc = "done", !.res = IF p.rerr THEN "error" ELSE "none"]
    [] OTHER -> p

RECURSIVE PRun(_, _, _, _)
PRun(p, scr, S, ig) == IF p.pc = "done" THEN p ELSE PRun(PStep(p, scr, S, ig), scr, S, ig)

Report(p) == [types |-> p.decoded, err |-> p.res, ut |-> p.ut, trunc |-> p.trunc]
ParserResult(scr, S, ig) == Report(PRun(PInit, scr, S, ig))

-----------------------------------------------------------------------------
\* scenario choice is part of the behaviour (so that TLC's workers share it): the bytes are
\* appended one at a time, then the container set is chosen, then the parser runs
Init == /\ script = <<>>
        /\ cset = {}
        /\ ps = [PInit EXCEPT !.pc = "build"]

AddByte == /\ ps.pc = "build" /\ Len(script) < MaxScript
           /\ \E c \in Steps : script' = Append(script, c)
           /\ UNCHANGED <<cset, ps>>
ChooseSet == /\ ps.pc = "build" /\ Len(script) >= 1
             /\ \E S \in SUBSET Types : cset' = S
             /\ ps' = PInit
             /\ UNCHANGED script
\* IgnoreUnsupported is read only by the last step
Run == /\ ps.pc \notin {"build", "done"}
       /\ \E ig \in (IF ps.pc = "ret" THEN BOOLEAN ELSE {FALSE}) : ps' = PStep(ps, script, cset, ig)
       /\ UNCHANGED <<script, cset>>
Next == AddByte \/ ChooseSet \/ Run
Spec == Init /\ [][Next]_vars

-----------------------------------------------------------------------------
(* design-level invariants *)
IgOf(p) == p.pc = "done" /\ p.res = "none" /\ p.rtyp # ZeroType

\* C05 (1): the parser reports exactly the leading run of what packet decoding produces
ParserEqualsLeadingRun ==
  ps.pc = "done" =>
    LET eg == EagerResult(script)
    IN Conforms(Report(ps), LeadingRun(EagerSteps(script, eg.layers), cset, IgOf(ps), ZeroType), eg.trunc)

\* the packet model's layers are explained by the bytes (binding of the two modules)
EagerExplained == ps.pc = "ret" => LayersExplained(script, EagerResult(script).layers)

\* Truncated is exactly the disjunction over the decoder calls made
RECURSIVE AnyTrunc(_, _)
AnyTrunc(scr, n) == IF n = 0 THEN FALSE ELSE Trunc(scr[n]) \/ AnyTrunc(scr, n - 1)
TruncExact ==
  ps.pc = "done" =>
    ps.trunc = AnyTrunc(script, IF ps.res = "error" THEN Len(ps.decoded) + 1 ELSE Len(ps.decoded))

\* the step machine and its functional fixpoint agree (the trace module uses the fixpoint)
FixpointAgrees == ps.pc = "done" => Report(ps) = ParserResult(script, cset, IgOf(ps))
=============================================================================
