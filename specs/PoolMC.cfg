SPECIFICATION PSpec
CONSTANTS
  T = 3
  P = 2
  MaxBig = 0
  SplitLog = FALSE
  LateWrite = FALSE
INVARIANTS NoAlias FreeDisjoint ContentOK PropAcceptsIdeal Clean Export
CHECK_DEADLOCK FALSE
