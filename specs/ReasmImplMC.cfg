SPECIFICATION Spec
CONSTANTS
  M = 32
  WRAP = 32
  P = 2
  L = 3
  Dirs = {0}
  MaxOps = 3
  MaxSegLen = 3
  Cfgs <- MC_CfgsSmoke
  TotalLimit = 0
  FinOnlyClosed = TRUE
  ReleaseSaved = TRUE
  CleanSkipFixed = TRUE
  ExportMod = 1
  ExportRem = 1
INVARIANTS ImplSatisfiesProp HeapSane ContentMatchesSeq UsedExact NoFlags Export
CHECK_DEADLOCK FALSE
