SPECIFICATION Spec
CONSTANTS
  M = 32
  WRAP = 32
  P = 2
  L = 3
  Dirs = {0}
  MaxOps = 4
  MaxSegLen = 3
  Cfgs <- MC_CfgsQuick
  Seed = 1
  TotalLimit = 0
  FinOnlyClosed = TRUE
  ReleaseSaved = TRUE
  CleanSkipFixed = TRUE
  PagesFix = TRUE
  Script <- MC_NoScript
  ExportMod = 64
  ExportRem = 1
  ExportSig = TRUE
INVARIANTS ImplSatisfiesProp HeapSane ContentMatchesSeq UsedExact NoFlags Export
CHECK_DEADLOCK FALSE
