------------------------------- MODULE PoolMC -------------------------------
(* Model-checking / export instance of Pool.tla: exhaustive over all           *)
(* interleavings; every terminal state prints the per-thread operation orders *)
(* (and which packet, if any, exceeds the pool block size) for replay on the   *)
(* real NewPacket(Pool)/Dispose.                                               *)
EXTENDS Pool, Json
BigIds == {Pid(p[1], p[2]) : p \in {q \in Pkts : big[q]}}
Export == AllDone => PrintT("BEH " \o ToJson([orders |-> order, big |-> SetToSeq(BigIds), t |-> T, p |-> P]))
\* at the end nothing is held, every pooled block is back
Clean == AllDone => (DOMAIN hold = {} /\ jst.live = <<>>)
\* the property is not vacuous (constant-level, checked once)
ASSUME PNotVacuous
=============================================================================
