---------------------------- MODULE PcapFileTrace ----------------------------
(* Implementation -> model: validates traces of the real pcapgo writers and    *)
(* readers (harness/cmd/pcapio -mode rt) against PcapFile.tla.  After a        *)
(* rejection the rest of that scenario is skipped.                             *)
EXTENDS PcapFile, Json
VARIABLES l, st, bad, skip, nbad
tvars == <<l, st, bad, skip, nbad>>
Trace == ndJsonDeserialize("trace.ndjson")
Note(b, r) == IF \E i \in 1..Len(b) : b[i].reason = r.reason /\ b[i].fmt = r.fmt /\ b[i].mode = r.mode THEN b
              ELSE IF Len(b) < 60 THEN Append(b, r) ELSE b
TInit == l = 1 /\ st = NewState /\ bad = <<>> /\ skip = FALSE /\ nbad = 0
Step ==
  /\ l <= Len(Trace)
  /\ l' = l + 1
  /\ LET e == Trace[l] IN
     IF e.op = "scn" THEN st' = Judge(st, e)[2] /\ skip' = FALSE /\ UNCHANGED <<bad, nbad>>
     ELSE IF skip THEN UNCHANGED <<st, bad, skip, nbad>>
     ELSE LET r == Judge(st, e) IN
          IF r[1] = "ok" THEN st' = r[2] /\ UNCHANGED <<bad, skip, nbad>>
          ELSE /\ bad' = Note(bad, [sc |-> e.sc, line |-> l, op |-> e.op, reason |-> r[1], fmt |-> st.sc.fmt,
                                    mode |-> (IF e.op \in {"read", "cuts"} THEN e.mode ELSE "-")])
               /\ nbad' = nbad + 1 /\ skip' = TRUE /\ UNCHANGED st
TSpec == TInit /\ [][Step]_tvars
Done == l = Len(Trace) + 1 => PrintT("VERDICT " \o ToJson([lines |-> Len(Trace), bad |-> bad, nbad |-> nbad]))
=============================================================================
