------------------------------ MODULE FlowTrace ------------------------------
(* Implementation -> model: validates observations of the real gopacket       *)
(* Endpoint / Flow code and of the real layer decoders against Flow.tla.      *)
(* The property has no state, so every line is judged on its own; one example *)
(* per distinct (op, reason, layer type) is kept (at most 100).               *)
EXTENDS Flow, Json
VARIABLES l, bad, nbad
tvars == <<l, bad, nbad>>
Trace == ndJsonDeserialize("trace.ndjson")
Note(b, r) == IF \E i \in 1..Len(b) : b[i].reason = r.reason /\ b[i].op = r.op /\ b[i].lt = r.lt THEN b
              ELSE IF Len(b) < 100 THEN Append(b, r) ELSE b
TInit == l = 1 /\ bad = <<>> /\ nbad = 0
Step ==
  /\ l <= Len(Trace)
  /\ l' = l + 1
  /\ LET e == Trace[l]
         r == Judge(e)
     IN IF r = "ok" THEN UNCHANGED <<bad, nbad>>
        ELSE /\ bad' = Note(bad, [sc |-> e.sc, line |-> l, op |-> e.op, reason |-> r, lt |-> e.lt])
             /\ nbad' = nbad + 1
TSpec == TInit /\ [][Step]_tvars
Done == l = Len(Trace) + 1 => PrintT("VERDICT " \o ToJson([lines |-> Len(Trace), bad |-> bad, nbad |-> nbad]))
=============================================================================
