------------------------------- MODULE NgReader -------------------------------
(***************************************************************************)
(* Safety envelope of the capture-file readers (pcap, pcapng, snoop) on    *)
(* arbitrary input (C15), in functional form: JudgeR(st, e) returns        *)
(* <<reason, st'>>.                                                        *)
(*                                                                         *)
(* A CASE is one byte stream (a really written file with one field of the  *)
(* layout map of PcapFile.tla overwritten, or a seeded random corruption). *)
(* For one reader configuration (event "mode") the stream is read to the   *)
(* end through several SHAPES:                                             *)
(*     whole          one Read returns everything                          *)
(*     one            every Read returns one byte                          *)
(*     chk            Reads return chunks of TLC-chosen sizes              *)
(*     inj            an I/O error is injected at some position            *)
(*     gz, gzone      the stream gzip-wrapped (whole / one byte at a time) *)
(* Shapes with the identical observation are reported as one group         *)
(*     [shapes, calls, end, fired, makb, site]                             *)
(* calls = the packets returned <<capHi, capLo, lenHi, lenLo, dlHi, dlLo,  *)
(* digest>> (32-bit quantities split in 16-bit halves: TLC integers are 32 *)
(* bit), end = how the sequence of calls ended (eof | ueof | other | inj | *)
(* none | panic | hang), fired = the injected error was actually           *)
(* delivered to the reader, makb = largest number of KiB allocated by one  *)
(* call, runkb = KiB allocated by the whole run (MemStats.TotalAlloc; 0 =  *)
(* not measured).                                                          *)
(*                                                                         *)
(* Accepted iff                                                            *)
(*  - no call panics, hangs or aborts the process;                         *)
(*  - every returned packet has datalen = caplen <= len;                   *)
(*  - no call allocates more than C0 + C1 * (bytes present in the stream + *)
(*    declared snap length);                                               *)
(*  - the result is the same for all chunkings of the same stream;         *)
(*  - a delivered I/O error surfaces as a returned error (never as clean   *)
(*    end of file, never as "no error"), and the packets returned before   *)
(*    it are a prefix of those of the undisturbed stream.                  *)
(***************************************************************************)
EXTENDS PcapFile

C0KB == 1024          \* generous constants of the allocation bound, in KiB
C1 == 8
KB(n) == (n + 1023) \div 1024
BoundKB(presentKB, snapKB) == C0KB + C1 * (presentKB + snapKB)

Le32(ahi, alo, bhi, blo) == ahi < bhi \/ (ahi = bhi /\ alo <= blo)
CallReason(c) ==
  IF c[5] # c[1] \/ c[6] # c[2] THEN "data-length-differs-from-capture-length"
  ELSE IF ~Le32(c[1], c[2], c[3], c[4]) THEN "capture-length-exceeds-length"
  ELSE "ok"
Digests(g) == [i \in 1..Len(g.calls) |-> g.calls[i][7]]
IsPrefix(a, b) == Len(a) <= Len(b) /\ a = SubSeq(b, 1, Len(a))

Kinds(g) == {g.shapes[i].k : i \in 1..Len(g.shapes)}
GroupOf(gs, k) == {i \in 1..Len(gs) : k \in Kinds(gs[i])}

GroupReason(g, boundKB) ==
  IF g.end = "panic" THEN "panic"
  ELSE IF g.end = "hang" THEN "hang"
  ELSE IF \E i \in 1..Len(g.calls) : CallReason(g.calls[i]) # "ok"
       THEN CallReason(g.calls[CHOOSE i \in 1..Len(g.calls) : CallReason(g.calls[i]) # "ok"])
  ELSE IF g.makb > boundKB \/ g.runkb > (Len(g.calls) + 2) * boundKB THEN "allocation-out-of-proportion"
  ELSE IF g.end = "none" THEN "no-error-at-end-of-stream"
  ELSE "ok"

\* relations between the groups of one reader configuration
ShapesReason(gs) ==
  LET w == GroupOf(gs, "whole")
      z == GroupOf(gs, "gz")
      W == gs[CHOOSE i \in w : TRUE]
  IN
  IF Cardinality(w) # 1 THEN "bad-event"
  ELSE IF \E i \in 1..Len(gs) : i \notin w /\ Kinds(gs[i]) \cap {"one", "chk"} # {} THEN "result-depends-on-chunking"
  ELSE IF Cardinality(z) > 1 \/ \E i \in 1..Len(gs) : i \notin z /\ "gzone" \in Kinds(gs[i]) THEN "result-depends-on-chunking"
  ELSE IF \E i \in 1..Len(gs) : "inj" \in Kinds(gs[i]) /\ ~gs[i].fired /\ i \notin w THEN "result-depends-on-chunking"
  ELSE IF \E i \in 1..Len(gs) : "inj" \in Kinds(gs[i]) /\ gs[i].fired /\ gs[i].end \in {"eof", "none"} THEN "injected-error-not-surfaced"
  ELSE IF \E i \in 1..Len(gs) : "inj" \in Kinds(gs[i]) /\ gs[i].fired /\ ~IsPrefix(Digests(gs[i]), Digests(W))
       THEN "packets-before-injected-error-differ"
  ELSE "ok"

NewCase == [present |-> 0, open |-> FALSE]

JudgeMode(st, e) ==
  LET bound == BoundKB(KB(st.present), e.snapkb)
      badg == {i \in 1..Len(e.groups) : GroupReason(e.groups[i], bound) # "ok"}
  IN
  IF ~st.open THEN <<"bad-event", st>>
  ELSE IF badg # {} THEN <<GroupReason(e.groups[CHOOSE i \in badg : \A j \in badg : i <= j], bound), st>>
  ELSE <<ShapesReason(e.groups), st>>

\* the process died (out of memory or a fatal runtime error) while reading this case: tolerated only when the
\* allocation that was refused was itself within the bound (the environment's memory cap, not the reader, is small)
JudgeCrash(st, e) ==
  IF e.oom /\ e.reqkb <= BoundKB(KB(st.present), e.snapkb) THEN <<"ok", st>> ELSE
  IF e.oom THEN <<"allocation-out-of-proportion", st>> ELSE <<"process-abort", st>>

JudgeR(st, e) ==
  CASE e.op = "case"  -> <<"ok", [present |-> e.present, open |-> TRUE]>>
    [] e.op = "mode"  -> JudgeMode(st, e)
    [] e.op = "crash" -> JudgeCrash(st, e)
    [] e.op = "hang"  -> <<"hang", st>>
    [] OTHER          -> <<"unknown-event", st>>
=============================================================================
