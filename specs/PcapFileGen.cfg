SPECIFICATION Spec
CONSTANTS
  MaxPk = 2
  MaxPkRot = 3
  VSet = {0, 1, 2, 3, 4}
  HeadSet = {1, 2, 3, 4, 5}
INVARIANTS PropAcceptsIdeal PropPiecewise PropRejectsEager PropRejectsSharedAncillary Export
CHECK_DEADLOCK FALSE
