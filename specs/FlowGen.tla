------------------------------ MODULE FlowGen ------------------------------
(***************************************************************************)
(* Universe generator for C17 plus an IDEAL implementation.                *)
(*                                                                         *)
(* Universe: endpoint types {1,2}; byte strings over {0,1,255} of every    *)
(* length 0..MaxShort, plus four strings each of length 15 and 16 (all 0,  *)
(* all 255, 0..01, 10..0), plus the same of length 17 which no constructor *)
(* may accept.  Strings that differ only by trailing zeros (<<>>, <<0>>,   *)
(* <<0,0>>, 0^15, 0^16) are what a fixed zero-padded array confuses.       *)
(*                                                                         *)
(* A scenario is chosen in the initial state; the step Run lets the ideal  *)
(* implementation (the representation of flows.go transcribed: typ, len,   *)
(* raw[16] zero padded, == is structural equality, bytes.Compare, a        *)
(* symbolic FNV with a commutative sum) produce the observations, which    *)
(* Flow!Judge must accept (PropAcceptsIdeal).  Laws states the algebraic   *)
(* laws over every pair and, for the order, every triple of endpoints.     *)
(* Export prints one line per scenario.                                    *)
(***************************************************************************)
EXTENDS Flow, Json

CONSTANTS MaxShort, FlowLevel
VARIABLES k, x, y, evs, verdicts
gvars == <<k, x, y, evs, verdicts>>

Types == {1, 2}
Alphabet == {0, 1, 255}
RECURSIVE Strs(_)
Strs(n) == IF n = 0 THEN {<<>>} ELSE {Append(s, c) : s \in Strs(n - 1), c \in Alphabet}
Short == UNION {Strs(n) : n \in 0..MaxShort}
RECURSIVE Rep(_, _)
Rep(c, n) == IF n = 0 THEN <<>> ELSE Append(Rep(c, n - 1), c)
Long(n) == {Rep(0, n), Rep(255, n), Append(Rep(0, n - 1), 1), <<1>> \o Rep(0, n - 1)}
ValidBytes == Short \cup Long(15) \cup Long(16)
BadBytes == Long(17)
EPs == {<<t, b>> : t \in Types, b \in ValidBytes}
FlowBytes == {<<>>, <<0>>, <<1>>, <<0, 0>>, Rep(0, 15), Rep(0, 16)}
               \cup (IF FlowLevel >= 2 THEN {<<255>>, <<0, 1>>, <<1, 0>>, Rep(255, 16)} ELSE {})
Flows == {<<t, s, d>> : t \in Types, s \in FlowBytes, d \in FlowBytes}
GoodForBad == {<<>>, Rep(255, 16)}

\* ----- the ideal implementation (flows.go transcribed) ----------------------
Pad(b) == [i \in 1..MaxSize |-> IF i <= Len(b) THEN b[i] ELSE 0]
Panics(b) == Len(b) > MaxSize
INewEndpoint(t, b) == [typ |-> t, len |-> Len(b), raw |-> Pad(b)]
INewFlow(t, s, d) == [typ |-> t, slen |-> Len(s), dlen |-> Len(d), src |-> Pad(s), dst |-> Pad(d)]
IRaw(e) == SubSeq(e.raw, 1, e.len)
IFromEndpoints(a, b) == [typ |-> a.typ, slen |-> a.len, dlen |-> b.len, src |-> a.raw, dst |-> b.raw]
IEndpoints(f) == <<[typ |-> f.typ, len |-> f.slen, raw |-> f.src], [typ |-> f.typ, len |-> f.dlen, raw |-> f.dst]>>
IReverse(f) == [typ |-> f.typ, slen |-> f.dlen, dlen |-> f.slen, src |-> f.dst, dst |-> f.src]
RECURSIVE Cmp(_, _, _)                                   \* bytes.Compare
Cmp(p, q, i) == IF i > Len(p) /\ i > Len(q) THEN 0
                ELSE IF i > Len(p) THEN -1 ELSE IF i > Len(q) THEN 1
                ELSE IF p[i] < q[i] THEN -1 ELSE IF p[i] > q[i] THEN 1 ELSE Cmp(p, q, i + 1)
ILess(a, b) == a.typ < b.typ \/ (a.typ = b.typ /\ Cmp(IRaw(a), IRaw(b), 1) < 0)
\* FNV treated as injective on byte strings, + as commutative: the hash is a symbolic term
IHashE(e) == <<e.typ, IRaw(e)>>
IHashF(f) == <<f.typ, {SubSeq(f.src, 1, f.slen), SubSeq(f.dst, 1, f.dlen)}, f.slen = f.dlen /\ f.src = f.dst>>
MapN(p, q) == IF p = q THEN 1 ELSE 2                   \* Go map keyed by the struct

R(a) == [t |-> a[1], b |-> a[2]]
RF(f) == [t |-> f[1], s |-> f[2], d |-> f[3]]
EOut(e) == [t |-> e.typ, b |-> IRaw(e)]
FOut(f) == [t |-> f.typ, s |-> SubSeq(f.src, 1, f.slen), d |-> SubSeq(f.dst, 1, f.dlen)]

EpEvent(a) ==
  IF Panics(a[2]) THEN [op |-> "ep", t |-> a[1], b |-> a[2], res |-> "panic"]
  ELSE [op |-> "ep", t |-> a[1], b |-> a[2], res |-> "ok", got |-> EOut(INewEndpoint(a[1], a[2]))]
FlEvent(f) ==
  IF Panics(f[2]) \/ Panics(f[3]) THEN [op |-> "fl", t |-> f[1], s |-> f[2], d |-> f[3], res |-> "panic"]
  ELSE [op |-> "fl", t |-> f[1], s |-> f[2], d |-> f[3], res |-> "ok", got |-> FOut(INewFlow(f[1], f[2], f[3]))]
EPairEvent(a, b) ==
  LET ia == INewEndpoint(a[1], a[2])
      \* the second operand is built the other way: as the source of a flow
      ib == IEndpoints(INewFlow(b[1], b[2], <<255, 255>>))[1]
  IN [op |-> "epair", a |-> R(a), b |-> R(b), eq |-> (ia = ib), mapn |-> MapN(ia, ib),
      ltab |-> ILess(ia, ib), ltba |-> ILess(ib, ia), heq |-> (IHashE(ia) = IHashE(ib))]
JoinEvent(a, b) ==
  LET ia == INewEndpoint(a[1], a[2])
      ib == INewEndpoint(b[1], b[2])
  IN IF ia.typ # ib.typ THEN [op |-> "join", a |-> R(a), b |-> R(b), res |-> "err"]
     ELSE LET f == IFromEndpoints(ia, ib)
              sp == IEndpoints(f)
          IN [op |-> "join", a |-> R(a), b |-> R(b), res |-> "ok", f |-> FOut(f),
              src |-> EOut(sp[1]), dst |-> EOut(sp[2]), spliteq |-> (sp[1] = ia /\ sp[2] = ib),
              rejoineq |-> (IFromEndpoints(sp[1], sp[2]) = f),
              neweq |-> (INewFlow(a[1], a[2], b[2]) = f),
              rev |-> FOut(IReverse(f)), revjoineq |-> (IReverse(f) = IFromEndpoints(ib, ia)),
              revreveq |-> (IReverse(IReverse(f)) = f), hrev |-> (IHashF(f) = IHashF(IReverse(f)))]
FPairEvent(f, g) ==
  LET fi == INewFlow(f[1], f[2], f[3])
      ig == IFromEndpoints(INewEndpoint(g[1], g[2]), INewEndpoint(g[1], g[3]))
  IN [op |-> "fpair", f |-> RF(f), g |-> RF(g), eq |-> (fi = ig), mapn |-> MapN(fi, ig),
      heq |-> (IHashF(fi) = IHashF(ig))]

Events ==
  CASE k = "ep2"   -> <<EpEvent(x), EPairEvent(x, y), JoinEvent(x, y)>>
    [] k = "fl2"   -> <<FlEvent(x), FPairEvent(x, y)>>
    [] k = "badep" -> <<EpEvent(x)>>
    [] k = "badfl" -> <<FlEvent(x)>>
    [] OTHER       -> <<>>

Init ==
  /\ evs = <<>> /\ verdicts = <<>>
  /\ \/ k = "ep2" /\ x \in EPs /\ y \in EPs
     \/ k = "fl2" /\ x \in Flows /\ y \in Flows
     \/ k = "badep" /\ x \in {<<t, b>> : t \in Types, b \in BadBytes} /\ y = 0
     \/ k = "badfl" /\ y = 0
        /\ x \in {<<t, s, d>> : t \in Types, s \in BadBytes, d \in GoodForBad}
                 \cup {<<t, s, d>> : t \in Types, s \in GoodForBad, d \in BadBytes}
Run ==
  /\ evs = <<>>
  /\ evs' = Events
  /\ verdicts' = SelectSeq([i \in 1..Len(Events) |-> <<Judge(Events[i]), Events[i]>>], LAMBDA v : v[1] # "ok")
  /\ UNCHANGED <<k, x, y>>
Next == Run
Spec == Init /\ [][Next]_gvars

Laws ==
  /\ k = "ep2" => (JoinLaws(x, y) /\ \A c \in EPs : OrderLaws(x, y, c))     \* every triple
  /\ k = "fl2" => FlowLaws(x, y)
PropAcceptsIdeal == verdicts = <<>>
Export ==
  evs # <<>> =>
    CASE k = "ep2"   -> PrintT("EPAIR " \o ToJson(<<x, y>>))
      [] k = "fl2"   -> PrintT("FPAIR " \o ToJson(<<x, y>>))
      [] k = "badep" -> PrintT("BADEP " \o ToJson(x))
      [] k = "badfl" -> PrintT("BADFL " \o ToJson(x))
      [] OTHER       -> TRUE
=============================================================================
