----------------------------- MODULE ParserBuild -----------------------------
(***************************************************************************)
(* How a DecodingLayerParser comes by its set of layers (parser.go):        *)
(*   NewDecodingLayerParser(first, ds...)  container := Map{ds}; install    *)
(*   SetDecodingLayerContainer(c)          container := c (replaces every   *)
(*                                         decoder); install                *)
(*   AddDecodingLayer(d)                   SetDecodingLayerContainer(       *)
(*                                           container.Put(d))              *)
(* where `install` is decodeFunc := container.LayersDecoder(first, df): the *)
(* decode function closes over the container VALUE it was built from (for   *)
(* DecodingLayerSparse / DecodingLayerArray a slice header, which Put       *)
(* replaces), so it has to be rebuilt after every Put.                      *)
(*                                                                          *)
(* cont = the types Put so far ("the set of layers the parser was given"),  *)
(* fn   = the types the installed decode function can look up.              *)
(* Prop: at every DecodeLayers call fn = cont - whatever the order of the   *)
(* AddDecodingLayer calls, wherever the decoder of the parser's first type  *)
(* comes in that order, and for layers added after packets were decoded.    *)
(* Parser.tla's container set S is this cont.                               *)
(*                                                                          *)
(* A construction plan is: SetDecodingLayerContainer(empty container), then *)
(* AddDecodingLayer for the types of `order` (a permutation of a subset of  *)
(* Types), with one DecodeLayers call after the first `cut` of them and one *)
(* at the end.  TLC enumerates all plans and exports them; the driver       *)
(* applies every plan to each of the four container implementations.        *)
(***************************************************************************)
EXTENDS Integers, Sequences, FiniteSets, TLC

CONSTANT Types
VARIABLES cont, fn, order, cut, pc, seenAt
bvars == <<cont, fn, order, cut, pc, seenAt>>

Range(s) == {s[i] : i \in DOMAIN s}

Init == cont = {} /\ fn = {} /\ order = <<>> /\ cut = -1 /\ pc = "set" /\ seenAt = <<>>

\* p.SetDecodingLayerContainer(<Map|Sparse|Array|custom>(nil))
SetContainer == /\ pc = "set"
                /\ cont' = {} /\ fn' = {}
                /\ pc' = "add"
                /\ UNCHANGED <<order, cut, seenAt>>
\* p.AddDecodingLayer(d): l.SetDecodingLayerContainer(l.dlc.Put(d))
Add(t) == /\ pc = "add" /\ t \notin cont
          /\ cont' = cont \cup {t}
          /\ fn' = cont'                      \* decodeFunc rebuilt from the new container
          /\ order' = Append(order, t)
          /\ UNCHANGED <<cut, pc, seenAt>>
\* a packet is decoded in between (once per plan)
DecodeMid == /\ pc = "add" /\ cut = -1
             /\ cut' = Len(order)
             /\ seenAt' = Append(seenAt, [given |-> cont, visible |-> fn])
             /\ UNCHANGED <<cont, fn, order, pc>>
\* the final decode
DecodeEnd == /\ pc = "add" /\ cut # -1
             /\ pc' = "done"
             /\ seenAt' = Append(seenAt, [given |-> cont, visible |-> fn])
             /\ UNCHANGED <<cont, fn, order, cut>>
Next == SetContainer \/ (\E t \in Types : Add(t)) \/ DecodeMid \/ DecodeEnd
Spec == Init /\ [][Next]_bvars

\* C05: every decode sees exactly the layers the parser was given so far
DecodesSeeWhatWasGiven == \A i \in 1..Len(seenAt) : seenAt[i].visible = seenAt[i].given
=============================================================================
