SPECIFICATION TSpec
CONSTANTS
  MaxLevel = 255
  StrictLen = TRUE
  Shape = "head"
INVARIANT Done
CHECK_DEADLOCK FALSE
