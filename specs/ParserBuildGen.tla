---------------------------- MODULE ParserBuildGen ----------------------------
EXTENDS ParserBuild, Json
MC_Types == 1..4
Export == pc = "done" => PrintT("BEH " \o ToJson([order |-> order, cut |-> cut]))
=============================================================================
