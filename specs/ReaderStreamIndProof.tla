------------------------ MODULE ReaderStreamIndProof ------------------------
(***************************************************************************)
(* X22IND (c): TLAPS proof that IndInv of ReaderStreamInd.tla is an        *)
(* inductive invariant of the repaired ReaderStream handshake (AckInClose  *)
(* = TRUE) and implies NoPanic and NotStuck (no deadlock) - for any set of *)
(* delivery histories, any read sizes, any MaxReads, any interpretation of *)
(* the helper operators.                                                   *)
(*   tlapm --threads N ReaderStreamIndProof.tla                            *)
(***************************************************************************)
EXTENDS ReaderStreamInd, TLAPS

ASSUME Repaired == AckInClose = TRUE
ASSUME HA == HistOK

THEOREM InitInd == Init => IndInv
  BY DEF Init, IndInv, HTypeOK, APcSet, RPcSet, H1, H2, H3, H4, H5, H6, H7, H8

LEMMA ACompleteInd == ASSUME IndInv, AComplete PROVE IndInv'
  BY DEF AComplete, IndInv, HTypeOK, APcSet, RPcSet, H1, H2, H3, H4, H5, H6, H7, H8

LEMMA StartReadInd == ASSUME IndInv, NEW sz \in ReadSizes, StartRead(sz) PROVE IndInv'
  <1> USE DEF IndInv
  <1>a. /\ rpc = "idle" /\ rpc' = "loop"
        /\ UNCHANGED <<hist, apc, bi, first, closed, chClosed>>
    BY DEF StartRead
  <1>1. QED BY <1>a DEF HTypeOK, APcSet, RPcSet, H1, H2, H3, H4, H5, H6, H7, H8

LEMMA LoopTestInd == ASSUME IndInv, LoopTest PROVE IndInv'
  <1> USE DEF IndInv
  <1>a. /\ rpc = "loop"
        /\ IF ~closed /\ Len(current) = 0
           THEN IF first THEN first' = FALSE /\ rpc' = "recv" ELSE first' = first /\ rpc' = "ack"
           ELSE first' = first /\ rpc' = "deliver"
        /\ UNCHANGED <<hist, apc, bi, current, closed, chClosed>>
    BY DEF LoopTest
  <1>1. QED BY <1>a DEF HTypeOK, APcSet, RPcSet, H1, H2, H3, H4, H5, H6, H7, H8

LEMMA RVDoneInd == ASSUME IndInv, NEW nextpc \in {"recv", "crecv"}, RVDone(nextpc),
                          nextpc = "recv" => rpc = "ack"
                   PROVE IndInv'
  <1> USE DEF IndInv
  <1>a. /\ rpc \in {"ack", "cack", "cack0"} /\ apc = "waitdone" /\ ~chClosed
        /\ apc' = "send" /\ bi' = bi + 1 /\ rpc' = nextpc
        /\ UNCHANGED <<hist, current, first, closed, chClosed>>
    BY DEF RVDone
  <1>1. QED BY <1>a DEF HTypeOK, APcSet, RPcSet, H1, H2, H3, H4, H5, H6, H7, H8

LEMMA PanicInd == ASSUME IndInv, PanicSendOnClosed PROVE FALSE
  BY DEF PanicSendOnClosed, IndInv, HTypeOK, APcSet, H1, H2

LEMMA RVRecvReadInd == ASSUME IndInv, RVRecvRead PROVE IndInv'
  <1> USE DEF IndInv
  <1>a. /\ rpc = "recv" /\ apc = "send" /\ ~chClosed
        /\ apc' = "waitdone" /\ rpc' = "loop"
        /\ UNCHANGED <<hist, bi, first, closed, chClosed>>
    BY DEF RVRecvRead
  <1>1. QED BY <1>a DEF HTypeOK, APcSet, RPcSet, H1, H2, H3, H4, H5, H6, H7, H8

LEMMA RecvClosedReadInd == ASSUME IndInv, RecvClosedRead PROVE IndInv'
  BY DEF RecvClosedRead, IndInv, HTypeOK, APcSet, RPcSet, H1, H2, H3, H4, H5, H6, H7, H8

LEMMA DeliverInd == ASSUME IndInv, Deliver PROVE IndInv'
  <1> USE DEF IndInv
  <1>a. /\ rpc = "deliver"
        /\ rpc' = (IF Len(current) = 0 THEN "done" ELSE "idle")
        /\ UNCHANGED <<hist, apc, bi, first, closed, chClosed>>
    BY DEF Deliver
  <1>1. QED BY <1>a DEF HTypeOK, APcSet, RPcSet, H1, H2, H3, H4, H5, H6, H7, H8

LEMMA StartCloseInd == ASSUME IndInv, StartClose PROVE IndInv'
  <1> USE DEF IndInv
  <1>a. /\ rpc = "idle"
        /\ rpc' = (IF AckInClose /\ ~first /\ ~closed THEN "cack0" ELSE "crecv")
        /\ closed' = TRUE
        /\ UNCHANGED <<hist, apc, bi, first, chClosed>>
    BY DEF StartClose
  <1>1. QED BY <1>a, Repaired DEF HTypeOK, APcSet, RPcSet, H1, H2, H3, H4, H5, H6, H7, H8

LEMMA RVRecvCloseInd == ASSUME IndInv, RVRecvClose PROVE IndInv'
  BY DEF RVRecvClose, IndInv, HTypeOK, APcSet, RPcSet, H1, H2, H3, H4, H5, H6, H7, H8

LEMMA RecvClosedCloseInd == ASSUME IndInv, RecvClosedClose PROVE IndInv'
  BY DEF RecvClosedClose, IndInv, HTypeOK, APcSet, RPcSet, H1, H2, H3, H4, H5, H6, H7, H8

THEOREM StepInd == IndInv /\ [Next]_vars => IndInv'
  <1> SUFFICES ASSUME IndInv, [Next]_vars PROVE IndInv' OBVIOUS
  <1>1. CASE UNCHANGED vars
    BY <1>1 DEF vars, IndInv, HTypeOK, H1, H2, H3, H4, H5, H6, H7, H8
  <1>2. CASE Terminated BY <1>1, <1>2 DEF Terminated
  <1>3. CASE \E sz \in ReadSizes : StartRead(sz) BY <1>3, StartReadInd
  <1>4. CASE (rpc = "ack" /\ RVDone("recv")) \/ (rpc = "cack" /\ RVDone("crecv")) \/ (rpc = "cack0" /\ RVDone("crecv"))
    BY <1>4, RVDoneInd
  <1>5. CASE PanicSendOnClosed BY <1>5, PanicInd
  <1>6. QED BY <1>1, <1>2, <1>3, <1>4, <1>5, ACompleteInd, LoopTestInd, RVRecvReadInd, RecvClosedReadInd, DeliverInd,
                StartCloseInd, RVRecvCloseInd, RecvClosedCloseInd DEF Next

THEOREM IndImpliesSafe == IndInv => Safe
  <1> SUFFICES ASSUME IndInv PROVE Safe OBVIOUS
  <1> USE DEF IndInv
  <1>1. NoPanic BY DEF NoPanic, HTypeOK, RPcSet
  <1>2. Len(hist) \in Nat /\ bi \in Nat BY HA DEF HistOK, HTypeOK
  <1>3. NotStuck
    BY <1>2 DEF NotStuck, HTypeOK, APcSet, RPcSet, H1, H2, H3, H6
  <1>4. QED BY <1>1, <1>3 DEF Safe

THEOREM Safety == Spec => []Safe
  <1>1. Spec => []IndInv BY InitInd, StepInd, PTL DEF Spec
  <1>2. QED BY <1>1, IndImpliesSafe, PTL
=============================================================================
