--------------------------- MODULE ReaderStreamInd ---------------------------
(***************************************************************************)
(* tcpassembly/tcpreader.ReaderStream: an assembler goroutine hands        *)
(* batches of reassemblies to a consumer goroutine through two unbuffered  *)
(* channels (`reassembled`, `done`).  C20.                                 *)
(*                                                                         *)
(* Impl layer: one action per channel operation of reader.go.  An          *)
(* unbuffered channel operation is a rendezvous: it is a joint step of the *)
(* two processes, enabled only when both are at the matching operation.    *)
(* AckInClose mirrors the code of Close(): FALSE = the pinned code (drain  *)
(* without acknowledging the batch still held), TRUE = repaired code.      *)
(*                                                                         *)
(* Prop layer: bytes read are exactly the delivered bytes in order, EOF    *)
(* only after completion (or after the consumer closed), one DataLost per  *)
(* gap when LossErrors is set, and no deadlock: if the consumer keeps      *)
(* reading or closes, both processes terminate.                            *)
(***************************************************************************)
EXTENDS Integers, Sequences, FiniteSets, TLC

CONSTANTS Batches,      \* set of delivery histories: sequences of batches; a batch is a sequence of <<len, skip>>
          ReadSizes,    \* buffer sizes the consumer uses
          LossErrors,   \* BOOLEAN
          AckInClose,   \* BOOLEAN (see above)
          MaxReads      \* bound on the number of Read calls (history bound)

VARIABLES hist,         \* the delivery history chosen (sequence of batches)
          apc, bi,      \* assembler: pc and index of the batch being delivered
          rpc,          \* consumer pc
          current,      \* r.current: remaining reassemblies, each <<lo, hi, skip>> (byte ids lo..hi-1)
          first, closed, lossReported,
          chClosed,     \* both channels closed (ReassemblyComplete)
          n,            \* size of the Read in progress
          readNext,     \* id of the next byte the consumer must see (1-based)
          delivered,    \* number of bytes handed to Reassembled so far
          prog,         \* consumer program so far (for export)
          result        \* what the last Read returned: <<k, err>> (err in "", "EOF", "DataLost")
vars == <<hist, apc, bi, rpc, current, first, closed, lossReported, chClosed, n, readNext, delivered, prog, result>>

\* turn batch b (sequence of <<len, skip>>) into id ranges starting after `base` bytes
CONSTANTS Ranges(_, _, _), BatchLen(_, _), StripEmpty(_)     \* X22IND: see the header
Stripped(cur) == Len(StripEmpty(cur)) < Len(cur)

Init == /\ hist \in Batches
        /\ apc = "send" /\ bi = 1
        /\ rpc = "idle" /\ current = <<>> /\ first = TRUE /\ closed = FALSE /\ lossReported = FALSE
        /\ chClosed = FALSE /\ n = 0 /\ readNext = 1 /\ delivered = 0 /\ prog = <<>> /\ result = <<0, "">>

-----------------------------------------------------------------------------
(* assembler side *)
\* Reassembled(): `r.reassembled <- batch` meets a consumer receive
AComplete == /\ apc = "send" /\ bi > Len(hist)
             /\ chClosed' = TRUE /\ apc' = "finished"
             /\ UNCHANGED <<hist, bi, rpc, current, first, closed, lossReported, n, readNext, delivered, prog, result>>

(* consumer side: Read(p) *)
StartRead(sz) == /\ rpc = "idle" /\ Len(prog) < MaxReads
                 /\ n' = sz /\ prog' = Append(prog, <<"read", sz>>)
                 /\ current' = StripEmpty(current)
                 /\ lossReported' = (IF Stripped(current) THEN FALSE ELSE lossReported)
                 /\ rpc' = "loop"
                 /\ UNCHANGED <<hist, apc, bi, first, closed, chClosed, readNext, delivered, result>>

\* for !r.closed && len(r.current) == 0 { if first {first=false} else {done <- true}; recv }
LoopTest == /\ rpc = "loop"
            /\ IF ~closed /\ Len(current) = 0
               THEN IF first THEN first' = FALSE /\ rpc' = "recv" ELSE first' = first /\ rpc' = "ack"
               ELSE first' = first /\ rpc' = "deliver"
            /\ UNCHANGED <<hist, apc, bi, current, closed, lossReported, chClosed, n, readNext, delivered, prog, result>>

\* rendezvous on `done`: consumer `r.done <- true` with assembler `<-r.done`
RVDone(nextpc) == /\ rpc \in {"ack", "cack", "cack0"} /\ apc = "waitdone" /\ ~chClosed
                  /\ apc' = "send" /\ bi' = bi + 1
                  /\ rpc' = nextpc
                  /\ UNCHANGED <<hist, current, first, closed, lossReported, chClosed, n, readNext, delivered, prog, result>>

\* send on a closed channel panics
PanicSendOnClosed == /\ rpc \in {"ack", "cack", "cack0"} /\ chClosed
                     /\ rpc' = "panic"
                     /\ UNCHANGED <<hist, apc, bi, current, first, closed, lossReported, chClosed, n, readNext, delivered, prog, result>>

\* rendezvous on `reassembled` for Read
RVRecvRead == /\ rpc = "recv" /\ apc = "send" /\ bi <= Len(hist) /\ ~chClosed
              /\ LET b == hist[bi] r == Ranges(b, 1, delivered) IN
                 /\ current' = StripEmpty(r)
                 /\ lossReported' = (IF Stripped(r) THEN FALSE ELSE lossReported)
                 /\ delivered' = delivered + BatchLen(b, 1)
              /\ apc' = "waitdone" /\ rpc' = "loop"
              /\ UNCHANGED <<hist, bi, first, closed, chClosed, n, readNext, prog, result>>

RecvClosedRead == /\ rpc = "recv" /\ chClosed
                  /\ closed' = TRUE /\ rpc' = "loop"
                  /\ UNCHANGED <<hist, apc, bi, current, first, lossReported, chClosed, n, readNext, delivered, prog, result>>

Min2(a, b) == IF a < b THEN a ELSE b
Deliver == /\ rpc = "deliver"
           /\ IF Len(current) > 0
              THEN LET c == current[1] IN
                   IF LossErrors /\ ~lossReported /\ c[3] # 0
                   THEN /\ lossReported' = TRUE /\ result' = <<0, "DataLost">>
                        /\ UNCHANGED <<current, readNext>>
                   ELSE LET k == Min2(n, c[2] - c[1]) IN
                        /\ result' = <<k, "">>
                        /\ current' = [current EXCEPT ![1] = <<c[1] + k, c[2], c[3]>>]
                        /\ readNext' = readNext + k
                        /\ UNCHANGED lossReported
              ELSE /\ result' = <<0, "EOF">> /\ UNCHANGED <<current, readNext, lossReported>>
           /\ rpc' = (IF Len(current) = 0 THEN "done" ELSE "idle")      \* after EOF the consumer stops
           /\ UNCHANGED <<hist, apc, bi, first, closed, chClosed, n, delivered, prog>>

(* consumer side: Close() *)
StartClose == /\ rpc = "idle"
              /\ prog' = Append(prog, <<"close">>)
              /\ current' = <<>>
              \* repaired code acknowledges the batch it still holds before draining
              /\ rpc' = (IF AckInClose /\ ~first /\ ~closed THEN "cack0" ELSE "crecv")
              /\ closed' = TRUE
              /\ UNCHANGED <<hist, apc, bi, first, lossReported, chClosed, n, readNext, delivered, result>>

RVRecvClose == /\ rpc = "crecv" /\ apc = "send" /\ bi <= Len(hist) /\ ~chClosed
               /\ delivered' = delivered + BatchLen(hist[bi], 1)
               /\ apc' = "waitdone" /\ rpc' = "cack"
               /\ UNCHANGED <<hist, bi, current, first, closed, lossReported, chClosed, n, readNext, prog, result>>

RecvClosedClose == /\ rpc = "crecv" /\ chClosed
                   /\ rpc' = "done"
                   /\ UNCHANGED <<hist, apc, bi, current, first, closed, lossReported, chClosed, n, readNext, delivered, prog, result>>

Terminated == apc = "finished" /\ rpc = "done" /\ UNCHANGED vars

Next == \/ AComplete
        \/ \E sz \in ReadSizes : StartRead(sz)
        \/ LoopTest
        \/ (rpc = "ack" /\ RVDone("recv")) \/ (rpc = "cack" /\ RVDone("crecv")) \/ (rpc = "cack0" /\ RVDone("crecv"))
        \/ PanicSendOnClosed
        \/ RVRecvRead \/ RecvClosedRead \/ Deliver
        \/ StartClose \/ RVRecvClose \/ RecvClosedClose
        \/ Terminated

Spec == Init /\ [][Next]_vars

-----------------------------------------------------------------------------
(* Prop *)

\* bytes read are a prefix of the bytes delivered, in order (ids are consecutive by construction of Deliver;
\* what can go wrong is reading past what was delivered or not from the front of `current`)
ReadIsPrefix == /\ readNext - 1 <= delivered
                /\ (Len(current) > 0 /\ rpc \in {"idle", "deliver"} /\ ~closed) => current[1][1] = readNext
NoPanic == rpc # "panic"
\* EOF only after completion with everything read, or after the consumer closed
EOFOnlyAtEnd == (result[2] = "EOF") => (closed /\ (chClosed => TRUE))
\* when the MaxReads bound is not what stops the consumer, the only state without successor is termination
\* (TLC's deadlock check; Terminated makes the final state a stuttering state)
BoundReached == rpc = "idle" /\ Len(prog) >= MaxReads

\* the consumer may always close: from idle, Close is enabled (so `BoundReached` states still have a successor)
\* ==== X22IND section: everything above this line is derived mechanically from ReaderStream.tla (x22ind.py checks it) ====
(***************************************************************************)
(* X22IND (c): typed-for-TLAPS copy of ReaderStream.tla (C20).  TLAPS has  *)
(* no RECURSIVE operators, so the three recursive helpers (Ranges,         *)
(* BatchLen, StripEmpty) are operator CONSTANTS here - the proof therefore *)
(* holds for ANY interpretation of them, in particular the real one; the   *)
(* definitions that need a fourth one (HistLen, EOFComplete) are dropped.  *)
(* Everything else is the original text.  ReaderStreamIndRef.tla lets TLC  *)
(* check, on the C20 bounds, that ReaderStream!Spec implies this module's  *)
(* Spec with the constants instantiated by the real operators, and that    *)
(* the hand-written enabledness predicate NotStuck coincides with          *)
(* ENABLED Next on every reachable state.                                  *)
(*                                                                         *)
(* What is proved (ReaderStreamIndProof.tla, repaired Close: AckInClose =  *)
(* TRUE): the handshake invariant IndInv, for every delivery history of    *)
(* any length, any read sizes, any MaxReads.  It implies NoPanic (no send  *)
(* on a closed channel) and NotStuck (in every reachable state some action *)
(* is enabled or both goroutines have terminated = no deadlock).  The      *)
(* data invariants (ReadIsPrefix, EOFOnlyAtEnd, EOFComplete) depend on the *)
(* recursive helpers and stay bounded (TLC, C20).                          *)
(*  H1  the channels are closed exactly when the assembler has finished    *)
(*  H2  the consumer sends on `done` only while the assembler waits for it *)
(*  H3  the consumer receives on `reassembled` only while the assembler    *)
(*      does not wait on `done`                 <- fails for the pinned Close *)
(*  H4  between channel operations the consumer owes an acknowledgement    *)
(*      exactly when it has received a batch (~first) and not closed       *)
(***************************************************************************)
APcSet == {"send", "waitdone", "finished"}
RPcSet == {"idle", "loop", "recv", "ack", "deliver", "crecv", "cack", "cack0", "done"}
HistOK == \A h \in Batches : Len(h) \in Nat

HTypeOK == /\ apc \in APcSet /\ rpc \in RPcSet /\ bi \in Nat /\ hist \in Batches
           /\ first \in BOOLEAN /\ closed \in BOOLEAN /\ chClosed \in BOOLEAN
H1 == chClosed <=> apc = "finished"
H2 == rpc \in {"ack", "cack", "cack0"} => apc = "waitdone"
H3 == rpc \in {"recv", "crecv"} => apc # "waitdone"
H4 == rpc \in {"idle", "loop", "deliver"} => (apc = "waitdone" <=> (~first /\ ~closed))
H5 == rpc \in {"recv", "ack"} => (~first /\ ~closed)
H6 == rpc = "done" => chClosed
H7 == rpc = "deliver" => (closed \/ Len(current) # 0)
H8 == (closed /\ rpc \in {"idle", "loop", "deliver"}) => chClosed

IndInv == HTypeOK /\ H1 /\ H2 /\ H3 /\ H4 /\ H5 /\ H6 /\ H7 /\ H8

\* some action of Next is enabled (the disjuncts are the guards of the actions; StartClose is enabled whenever rpc = "idle")
NotStuck ==
  \/ apc = "send" /\ bi > Len(hist)                                            \* AComplete
  \/ rpc \in {"idle", "loop", "deliver"}                                        \* StartClose / LoopTest / Deliver
  \/ rpc \in {"ack", "cack", "cack0"} /\ apc = "waitdone" /\ ~chClosed        \* rendezvous on `done`
  \/ rpc \in {"recv", "crecv"} /\ apc = "send" /\ bi <= Len(hist) /\ ~chClosed \* rendezvous on `reassembled`
  \/ rpc \in {"recv", "crecv"} /\ chClosed                                     \* receive from the closed channel
  \/ apc = "finished" /\ rpc = "done"                                          \* Terminated

Safe == NoPanic /\ NotStuck
=============================================================================
