--------------------------- MODULE PoolIndProof ---------------------------
(***************************************************************************)
(* X22IND (a): TLAPS proof that IndInv of PoolInd.tla is an inductive      *)
(* invariant of the correct pool protocol (LateWrite = FALSE) and implies  *)
(* NoAlias / FreeDisjoint / ContentOK - for an ARBITRARY set Pkt of        *)
(* packets (no bound on packets, threads or blocks; Pkt may be infinite).  *)
(*   tlapm --threads N PoolIndProof.tla                                    *)
(* Negative control (x22ind.py): the same script with the assumption       *)
(* flipped to LateWrite = TRUE must NOT go through (PutInd: FreeDisjoint'). *)
(***************************************************************************)
EXTENDS PoolInd, TLAPS

ASSUME Correct == LateWrite = FALSE

THEOREM InitInd == Init => IndInv
  BY DEF Init, IndInv, TypeOK, HoldsIffBetween, NoAlias, FreeDisjoint, ContentOK, Holds, LStates

LEMMA GetInd == ASSUME IndInv, NEW p \in Pkt, Get(p) PROVE IndInv'
  <1> USE DEF IndInv, TypeOK, HoldsIffBetween, NoAlias, FreeDisjoint, ContentOK, Holds, LStates, Get
  <1>1. CASE /\ ~big[p]
             /\ \E b \in free : free' = free \ {b} /\ hold' = [hold EXCEPT ![p] = b]
             /\ UNCHANGED nblk
    <2>1. PICK b \in free : free' = free \ {b} /\ hold' = [hold EXCEPT ![p] = b]
      BY <1>1
    <2>2. TypeOK' BY <2>1, <1>1
    <2>3. HoldsIffBetween' BY <2>1, <1>1
    <2>4. NoAlias' BY <2>1, <1>1
    <2>5. FreeDisjoint' BY <2>1, <1>1
    <2>6. ContentOK' BY <2>1, <1>1
    <2>7. QED BY <2>2, <2>3, <2>4, <2>5, <2>6
  <1>2. CASE /\ hold' = [hold EXCEPT ![p] = nblk + 1]
             /\ nblk' = nblk + 1
             /\ UNCHANGED free
    <2>2. TypeOK' BY <1>2
    <2>3. HoldsIffBetween' BY <1>2
    <2>4. NoAlias' BY <1>2
    <2>5. FreeDisjoint' BY <1>2
    <2>6. ContentOK' BY <1>2
    <2>7. QED BY <2>2, <2>3, <2>4, <2>5, <2>6
  <1>3. QED BY <1>1, <1>2

LEMMA CopyInInd == ASSUME IndInv, NEW p \in Pkt, CopyIn(p) PROVE IndInv'
  <1> USE DEF IndInv, TypeOK, HoldsIffBetween, NoAlias, FreeDisjoint, ContentOK, Holds, LStates, CopyIn
  <1>2. TypeOK' OBVIOUS
  <1>3. HoldsIffBetween' OBVIOUS
  <1>4. NoAlias' OBVIOUS
  <1>5. FreeDisjoint' OBVIOUS
  <1>6. ContentOK' OBVIOUS
  <1>7. QED BY <1>2, <1>3, <1>4, <1>5, <1>6

LEMMA PutInd == ASSUME IndInv, NEW p \in Pkt, Put(p) PROVE IndInv'
  <1> USE Correct DEF IndInv, TypeOK, HoldsIffBetween, NoAlias, FreeDisjoint, ContentOK, Holds, LStates, Put
  <1>2. TypeOK' OBVIOUS
  <1>3. HoldsIffBetween' OBVIOUS
  <1>4. NoAlias' OBVIOUS
  <1>5. FreeDisjoint' OBVIOUS
  <1>6. ContentOK' OBVIOUS
  <1>7. QED BY <1>2, <1>3, <1>4, <1>5, <1>6

LEMMA LateInd == ASSUME IndInv, NEW p \in Pkt, LateWriteStep(p) PROVE IndInv'
  BY Correct DEF LateWriteStep

THEOREM StepInd == IndInv /\ [Next]_vars => IndInv'
  <1> SUFFICES ASSUME IndInv, [Next]_vars PROVE IndInv' OBVIOUS
  <1>1. CASE Next BY <1>1, GetInd, CopyInInd, PutInd, LateInd DEF Next
  <1>2. CASE UNCHANGED vars
    BY <1>2 DEF vars, IndInv, TypeOK, HoldsIffBetween, NoAlias, FreeDisjoint, ContentOK, Holds
  <1>3. QED BY <1>1, <1>2

THEOREM IndImpliesSafe == IndInv => Safe
  BY DEF IndInv, Safe

THEOREM Safety == Spec => []Safe
  <1>1. Spec => []IndInv BY InitInd, StepInd, PTL DEF Spec
  <1>2. QED BY <1>1, IndImpliesSafe, PTL
=============================================================================
