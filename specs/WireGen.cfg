SPECIFICATION Spec
CONSTANTS
  MaxList = 3
  MaxList2 = 2
  Payloads = {0, 1, 33, 1500}
  StackPayloads = {0, 33}
INVARIANTS LawsAcceptIdeal LawsRejectWrong Export
CHECK_DEADLOCK FALSE
