----------------------------- MODULE DnsNameMC -----------------------------
(***************************************************************************)
(* Exhaustive check of the Impl layer of DnsName.tla against its Prop      *)
(* layer: every message `Pad \o msg` with msg any sequence over Alphabet   *)
(* of length <= N, every start offset Base .. Base + Len(msg) (the last    *)
(* one is just behind the data).  Base = 256 puts the modelled region at   *)
(* real offset 256 of a DNS message, so that the second octet of a pointer *)
(* 0xC1 t is the region offset t itself: the small octets 0..N are at once *)
(* label lengths, the root label and every pointer target of the region.   *)
(* The pad is never read (PadNeverRead) as long as Alphabet has no pointer  *)
(* head other than 192 + Base \div 256, so the result holds for any octets  *)
(* in front of the region.                                                 *)
(* phase "gen": the tree of prefixes (every prefix is a message; Export    *)
(* prints it once as a BEH line); phase "run": the Impl machine started at  *)
(* one offset, one Step per transition, until pc = "done".                 *)
(***************************************************************************)
EXTENDS DnsName, Json
CONSTANTS N, Alphabet, Base, DoExport
VARIABLES msg, phase, s, st
vars == <<msg, phase, s, st>>

Pad == [i \in 1..Base |-> 255]
D == Pad \o msg

Init == msg = <<>> /\ phase = "gen" /\ s = 0 /\ st = IInit(0, <<>>)
Next ==
  \/ /\ phase = "gen" /\ Len(msg) < N
     /\ \E a \in Alphabet : msg' = Append(msg, a)
     /\ UNCHANGED <<phase, s, st>>
  \/ /\ phase = "gen"
     /\ \E k \in 0..Len(msg) : s' = k /\ st' = IInit(Base + k, <<>>)
     /\ phase' = "run" /\ UNCHANGED msg
  \/ /\ phase = "run" /\ st.pc # "done"
     /\ \E d \in {D} : st' = Step(d, st)
     /\ UNCHANGED <<msg, phase, s>>
Spec == Init /\ [][Next]_vars

Running == phase = "run"
Final == phase = "run" /\ st.pc = "done"

\* ---- in every state of a run ----
\* the index of the frame on top is inside the data whenever the loop head reads data[index]; the frame below sits on a pointer
\* (checked for each frame while it is the caller of the top one)
IndexInRange   == Running => /\ (st.pc = "loop" => (Top(st).index >= Top(st).offset /\ Top(st).index < Len(D)))
                             /\ \A j \in {Len(st.stack) - 1} \ {0} : st.stack[j].index + 1 < Len(D) /\ At(D, st.stack[j].index) >= 192
NoReadOutside  == Running => ~st.oob /\ st.err # "panic" /\ (st.lo = 1000000 \/ (st.lo >= 0 /\ st.lo < Len(D)))
\* one frame per level, never more than MaxLevel + 1 (the call that is refused)
StackBounded   == Running => /\ Len(st.stack) <= MaxLevel + 1
                             /\ Top(st).level = Len(st.stack)      \* (checked as each frame is pushed)
Terminates     == Running => st.err # "diverged"
\* calls + loop iterations + returns: a frame's loop runs at most once per octet behind its offset
StepsBounded   == Running => st.steps <= (Len(st.stack) + 1) * (Len(msg) + 3) + (IF st.pc = "done" THEN (st.depth + 1) * (Len(msg) + 3) ELSE 0)
\* the buffer only grows, and holds one '.' + label per label met
BufferShape    == Running => (st.buf = <<>> \/ st.buf[1] = Dot)
PadNeverRead   == Running => st.lo >= Base

\* ---- when the run is over ----
\* the transcription of the code satisfies the property: an error where the property demands one, the right name and
\* the right continuation offset otherwise
ImplSatisfiesProp == Final => \A r \in {Ideal(D, Base + s)} : Verdict(IdealExp(r), ImplObs(st), FALSE) = "ok"
\* the recursion limit is only ever the answer to a pointer cycle (no acyclic chain of a small message gets near it)
MaxRecMeansCycle  == Final => \A r \in {Ideal(D, Base + s)} : (st.err = "maxrec") <=> (r.kind = "err" /\ r.why = "cycle")
\* the error the code gives is the one the property names
ErrorsCorrespond  == Final => \A r \in {Ideal(D, Base + s)} :
                       /\ st.err \in {"offhigh", "walked"} => r.why \in {"outside-data", "pointer-past-end"}
                       /\ st.err = "invidx" => r.why = "label-past-end"
                       /\ st.err = "toolong" => r.why = "run-over-255"
                       /\ st.err = "res40" => r.why = "reserved-01"
                       /\ st.err = "res80" => r.why = "reserved-10"
                       /\ st.err = "ptrcut" => r.why = "pointer-cut"
                       /\ st.err = "ptrhigh" => r.why = "pointer-past-end"
                       /\ st.err = "" => (r.kind = "name" /\ st.depth = r.ptrs + 1)
\* the result does not depend on what the shared buffer already holds, and what it held is still there
BufferIndependent == Final => \A j \in {ImplName(D, Base + s, <<7, 7, 7>>)} :
                       /\ st.err = j.err /\ st.name = j.name /\ st.next = j.next /\ st.steps = j.steps
                       /\ SubSeq(j.buf, 1, 3) = <<7, 7, 7>> /\ SubSeq(j.buf, 4, Len(j.buf)) = st.buf
NextIsInside      == Final => (st.err = "" => (st.next > Base + s /\ st.next <= Len(D)))
\* Run (used by the trace validator) is the same machine
RunIsStep         == Final => \A j \in {ImplName(D, Base + s, <<>>)} : j = st

Export == (phase = "gen" /\ DoExport) => PrintT("BEH " \o ToJson([m |-> msg]))
=============================================================================
