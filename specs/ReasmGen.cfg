SPECIFICATION Spec
CONSTANTS
  L = 3
  Dirs = {0}
  MaxOps = 4
  MaxSegLen = 3
INVARIANTS PropAcceptsIdeal IdealSane Export
CHECK_DEADLOCK FALSE
