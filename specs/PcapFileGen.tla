----------------------------- MODULE PcapFileGen -----------------------------
(***************************************************************************)
(* Scenario generator for capture-file round trips (C14) plus an IDEAL     *)
(* writer / reader inside the model.  Every reachable state is one         *)
(* scenario: a classic pcap file (micro / nano writer) or a pcapng file    *)
(* (1-2 interfaces, the second one before or after the first packet, same  *)
(* or mixed link types) with up to MaxPk packets.  Capture lengths range    *)
(* over CapSet for every packet; string options take every length of       *)
(* {0,1,3,4,5} in every position through the rotation v; timestamps        *)
(* include a zero and a maximal fraction.  The ideal reader is an          *)
(* operational block-by-block parser; its answers for EVERY cut offset are *)
(* judged by PcapFile!Judge (PropAcceptsIdeal), so the declarative law     *)
(* ReadPrefix is checked against an independent formulation.               *)
(***************************************************************************)
EXTENDS PcapFile, Json

CONSTANTS MaxPk,      \* packets per file with freely chosen capture length and comment
          MaxPkRot,   \* packets per file when only the capture lengths are free
          VSet,       \* rotations explored (0..4 = all)
          HeadSet     \* pcapng heads explored (1..5 = all)
VARIABLES sc, v, head, free, blk     \* blk = Blocks(sc), computed once per state
gvars == <<sc, v, head, free, blk>>

CapSet == {0, 1, 2, 3, 4, 5, 17}
Strs == <<"", "a", "abc", "abcd", "abcde">>
Str(i) == Strs[(i % 5) + 1]
TsTab == <<[s |-> 0, ns |-> 0], [s |-> 1, ns |-> 999999999], [s |-> 1700000000, ns |-> 1000],
           [s |-> 2147483647, ns |-> 999999000], [s |-> 1600000000, ns |-> 123456789]>>
Ts(i) == TsTab[(i % 5) + 1]
LenDelta(i) == <<0, 1, 1000>>[(i % 3) + 1]
Snap(i) == <<0, 1500, 17>>[(i % 3) + 1]
CmSel == {"-"} \cup {Strs[i] : i \in 1..5}          \* "-" = no comment option

\* heads of pcapng files: number of interfaces, position of the second IDB (0 = before the packets,
\* 1 = after the first packet), mixed link types
Heads == <<[nif |-> 1, pos2 |-> 0, mixed |-> FALSE], [nif |-> 2, pos2 |-> 0, mixed |-> FALSE],
           [nif |-> 2, pos2 |-> 1, mixed |-> FALSE], [nif |-> 2, pos2 |-> 0, mixed |-> TRUE],
           [nif |-> 2, pos2 |-> 1, mixed |-> TRUE]>>

Idb(i, link, snap) == [t |-> "idb", link |-> link, snap |-> snap, name |-> Str(i), cmt |-> Str(i + 1), descr |-> Str(i + 2),
                       filter |-> Str(i + 3), os |-> Str(i + 4), tsoff |-> (IF i = 2 THEN 5 ELSE 0)]
NPk(s) == Len(Packets(s))

InitPcap == /\ v \in VSet /\ head = 0 /\ free = TRUE
            /\ \E nano \in BOOLEAN :
                 sc = [fmt |-> "pcap", nano |-> nano, snap |-> <<65535, 17, 4096>>[(v % 3) + 1], link |-> <<1, 113>>[(v % 2) + 1], items |-> <<>>]
InitNg == /\ head \in HeadSet /\ free \in BOOLEAN
          /\ v \in (IF head = 1 THEN VSet ELSE {head})
          /\ LET h == Heads[head]
                 first == Idb(v + 1, 1, Snap(v))
                 second == Idb(v + 3, IF h.mixed THEN 113 ELSE 1, IF h.mixed THEN Snap(v + 1) ELSE Snap(v))
             IN sc = [fmt |-> "ng", mixed |-> h.mixed,
                      shb |-> [app |-> Str(v), cmt |-> Str(v + 1), hw |-> Str(v + 2), os |-> Str(v + 3)],
                      items |-> IF h.nif = 2 /\ h.pos2 = 0 THEN <<first, second>> ELSE <<first>>]
Init == (InitPcap \/ InitNg) /\ blk = Blocks(sc)

PcapPkt(cap) == LET i == NPk(sc) + v IN [t |-> "pkt", cap |-> cap, len |-> cap + LenDelta(i), s |-> Ts(i).s, ns |-> Ts(i).ns]
NgPkt(cap, cm) ==
  LET i == NPk(sc) + v
      nifs == Len(Idbs(sc))
  IN [t |-> "pkt", ifc |-> i % nifs, cap |-> cap, len |-> cap + LenDelta(i), s |-> Ts(i).s, ns |-> Ts(i).ns,
      cm |-> (IF cm = "-" THEN <<>> ELSE IF i % 4 = 3 THEN <<cm, Str(i)>> ELSE <<cm>>),
      fl |-> (IF i % 4 = 0 THEN 65 + 65536 ELSE -1),
      hs |-> (IF i % 4 = 1 THEN <<4>> ELSE IF i % 4 = 2 THEN <<0, 3>> ELSE <<>>),
      dc |-> (IF i % 3 = 2 THEN 7 ELSE -1), pid |-> (IF i % 3 = 1 THEN 2147483647 ELSE -1),
      q |-> (IF i % 4 = 1 THEN 0 ELSE -1), vd |-> (IF i % 4 = 2 THEN <<8>> ELSE IF i % 4 = 3 THEN <<0>> ELSE <<>>)]
\* the second interface of a pos2 = 1 head follows the first packet
After(items) == IF sc.fmt = "ng" /\ Heads[head].nif = 2 /\ Heads[head].pos2 = 1 /\ NPk(sc) = 0
                THEN Append(items, Idb(v + 3, IF Heads[head].mixed THEN 113 ELSE 1, IF Heads[head].mixed THEN Snap(v + 1) ELSE Snap(v)))
                ELSE items

Next == /\ UNCHANGED <<v, head, free>>
        /\ NPk(sc) < (IF free /\ sc.fmt = "ng" THEN MaxPk ELSE MaxPkRot)
        /\ \E cap \in CapSet :
             \/ sc.fmt = "pcap" /\ sc' = [sc EXCEPT !.items = Append(sc.items, PcapPkt(cap))]
             \/ /\ sc.fmt = "ng"
                /\ \E cm \in (IF free THEN CmSel ELSE {IF (NPk(sc) + cap) % 6 = 0 THEN "-" ELSE Str(NPk(sc) + cap)}) :
                      sc' = [sc EXCEPT !.items = After(Append(sc.items, NgPkt(cap, cm)))]
        /\ blk' = Blocks(sc')
Spec == Init /\ [][Next]_gvars

(* ----------------------------- ideal implementation ---------------------- *)
\* an operational reader: consume whole blocks while they fit into the prefix
RECURSIVE IdealRead(_, _, _, _)
IdealRead(B, i, cut, k) ==
  IF i > Len(B) THEN <<k, "eof">>
  ELSE IF EndOf(B[i]) <= cut THEN IdealRead(B, i + 1, cut, IF B[i].pkt > 0 THEN k + 1 ELSE k)
  ELSE IF B[i].off = cut THEN <<k, "eof">> ELSE <<k, "ueof">>

Digest(i) == ToString(i)
\* what an ideal reader hands back with WantMixedLinkType = mix (pcap: mix is FALSE)
IdealPk(s, mix) ==
               [j \in 1..Len(Expected(s, mix)) |->
                 LET i == Expected(s, mix)[j]
                     it == Packets(s)[i] IN
                 [cap |-> it.cap, len |-> it.len, dl |-> it.cap, dd |-> Digest(i), td |-> Digest((IF mix THEN 1100 ELSE 100) + i), od |-> Digest(200 + i),
                  s |-> it.s, ns |-> ExpNs(s, it.ns),
                  ifc |-> (IF s.fmt = "ng" THEN it.ifc ELSE 0), lt |-> (IF mix THEN LinkOf(s, it) ELSE -1),
                  cm |-> (IF s.fmt = "ng" THEN it.cm ELSE <<>>), fl |-> (IF s.fmt = "ng" THEN it.fl ELSE -1),
                  hs |-> (IF s.fmt = "ng" THEN it.hs ELSE <<>>), dc |-> (IF s.fmt = "ng" THEN it.dc ELSE -1),
                  pid |-> (IF s.fmt = "ng" THEN it.pid ELSE -1), q |-> (IF s.fmt = "ng" THEN it.q ELSE -1),
                  vd |-> (IF s.fmt = "ng" THEN it.vd ELSE <<>>)]]
IdealEvents(s) ==
  LET B == blk
      n == FileLenB(B)
      cmix == s.fmt = "ng" /\ s.mixed          \* the configuration of the truncated re-reads
      pk == IdealPk(s, cmix)
      reads(mix) == [j \in 1..4 |-> [op |-> "read", mode |-> <<"copy", "zero", "optc", "optz">>[j], mix |-> mix, pk |-> IdealPk(s, mix),
                                      end |-> "eof", link |-> FirstLink(s)]]
      \* maximal runs as the block-by-block reader produces them: offset 0, then per block its interior and its end
      run(m, lo, hi) == LET r == IdealRead(B, 1, lo, 0) IN
                        [op |-> "cuts", mode |-> m, lo |-> lo, hi |-> hi, k |-> r[1], end |-> r[2], tds |-> [j \in 1..r[1] |-> pk[j].td]]
      RECURSIVE runs(_, _)
      runs(m, i) == IF i > Len(B) THEN <<>>
                    ELSE (IF B[i].len > 1 THEN <<run(m, B[i].off + 1, EndOf(B[i]))>> ELSE <<>>)
                         \o <<run(m, EndOf(B[i]), EndOf(B[i]) + 1)>> \o runs(m, i + 1)
      cutev(m) == <<run(m, 0, 1)>> \o runs(m, 1)
  IN <<[op |-> "scn", scen |-> s],
       [op |-> "file", size |-> n, walk |-> [i \in 1..Len(B) |-> <<B[i].k, B[i].off, B[i].len, B[i].len>>],
        wofs |-> CallEnds(s, B), wdd |-> [i \in 1..NPk(s) |-> Digest(i)], wod |-> [i \in 1..NPk(s) |-> Digest(200 + i)]]>>
     \o reads(FALSE) \o (IF s.fmt = "ng" THEN reads(TRUE) ELSE <<>>)
     \o <<[op |-> "lib", status |-> "ok", pk |-> IdealPk(s, FALSE), link |-> FirstLink(s)]>>
     \o cutev("copy") \o cutev("zero") \o <<[op |-> "done"]>>
RECURSIVE JudgeAll(_, _, _)
JudgeAll(st, evs, i) == IF i > Len(evs) THEN "ok"
                        ELSE LET r == Judge(st, evs[i]) IN IF r[1] = "ok" THEN JudgeAll(r[2], evs, i + 1) ELSE r[1]

\* lemma used by Judge: between two consecutive boundaries the truncation law does not change, and the operational
\* reader agrees with the declarative law at every single offset
PropPiecewise ==
  LET B == blk
      n == FileLenB(B)
      bnd == BoundariesB(B)
      RP == [c \in 0..n |-> ReadPrefixB(B, c)]
  IN \A c \in 0..n :
       /\ LET r == IdealRead(B, 1, c, 0) IN r[1] = RP[c][1] /\ r[2] \in RP[c][2] /\ (c \in bnd => r[2] = "eof")
       /\ (c < n /\ c \notin bnd /\ (c + 1) \notin bnd) => RP[c] = RP[c + 1]
PropAcceptsIdeal == JudgeAll(NewState, IdealEvents(sc), 1) = "ok"
\* an ideal reader that returns a packet whose last byte is missing must be REJECTED (the law is not vacuous)
PropRejectsEager ==
  NPk(sc) > 0 =>
    LET B == blk
        b == CHOOSE x \in {B[i] : i \in 1..Len(B)} : x.pkt = 1
        st == [NewState EXCEPT !.sc = sc, !.B = B, !.td = [i \in 1..NPk(sc) |-> Digest(100 + i)], !.next = [m \in CutModes |-> EndOf(b) - 1]]
    IN Judge(st, [op |-> "cuts", mode |-> "copy", lo |-> EndOf(b) - 1, hi |-> EndOf(b), k |-> 1, end |-> "ueof",
                  tds |-> <<Digest(101)>>])[1] = "packet-not-wholly-in-prefix-returned"
\* and so must a copying reader whose results share one AncillaryData array (every retained packet then carries the link
\* type of the packet read last) on a file with two link types
PropRejectsSharedAncillary ==
  LET P == Packets(sc) IN
  (sc.fmt = "ng" /\ sc.mixed /\ Len(P) >= 2 /\ \E i \in 1..Len(P) : LinkOf(sc, P[i]) # LinkOf(sc, P[Len(P)])) =>
    LET pk == IdealPk(sc, TRUE)
        shared == [j \in 1..Len(pk) |-> [pk[j] EXCEPT !.lt = pk[Len(pk)].lt]]
        st == [NewState EXCEPT !.sc = sc, !.B = blk, !.filed = TRUE, !.wdd = [i \in 1..NPk(sc) |-> Digest(i)],
                               !.wod = [i \in 1..NPk(sc) |-> Digest(200 + i)]]
    IN Judge(st, [op |-> "read", mode |-> "copy", mix |-> TRUE, pk |-> shared, end |-> "eof", link |-> 0])[1] = "link-type-altered"
\* rotated-comment pcapng scenarios only add the files with more than MaxPk packets
Export == (sc.fmt = "pcap" \/ free \/ NPk(sc) > MaxPk) => PrintT("BEH " \o ToJson([scen |-> sc, size |-> FileLenB(blk),
                                   blocks |-> [i \in 1..Len(blk) |-> <<blk[i].k, blk[i].off, blk[i].len>>]]))
=============================================================================
