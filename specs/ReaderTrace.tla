---------------------------- MODULE ReaderTrace ----------------------------
(* Implementation -> model for tcpreader.ReaderStream (C20): validates what  *)
(* the real Read/Close calls returned against the Prop layer: bytes read are *)
(* exactly the delivered bytes in order; EOF only after completion (or after *)
(* the consumer closed); one DataLost per gap when LossErrors is set; both   *)
(* goroutines return; no deadlock, no panic.                                 *)
EXTENDS Integers, Sequences, FiniteSets, TLC, Json

VARIABLES l, st, bad, skip, nbad
tvars == <<l, st, bad, skip, nbad>>
Trace == ndJsonDeserialize("trace.ndjson")

New(loss) == [delivered |-> 0, readCount |-> 0, completed |-> FALSE, cclosed |-> FALSE, loss |-> loss,
              chunks |-> <<>>, reported |-> {}, aret |-> FALSE, rret |-> FALSE, dead |-> FALSE]

RECURSIVE AddChunks(_, _, _)
AddChunks(s, b, i) ==
  IF i > Len(b) THEN s
  ELSE AddChunks([s EXCEPT !.chunks = Append(@, [start |-> s.delivered, len |-> b[i][1], skip |-> b[i][2]]),
                           !.delivered = @ + b[i][1]], b, i + 1)

\* index of the gap chunk (skip # 0, non-empty) that starts exactly at position p, or 0
GapAt(s, p) == IF \E i \in 1..Len(s.chunks) : s.chunks[i].start = p /\ s.chunks[i].len > 0 /\ s.chunks[i].skip # 0
               THEN CHOOSE i \in 1..Len(s.chunks) : s.chunks[i].start = p /\ s.chunks[i].len > 0 /\ s.chunks[i].skip # 0
               ELSE 0

JudgeRead(s, e) ==
  IF e.err = "" THEN
       IF ~e.content THEN <<"bytes-altered", s>>
       ELSE IF e.at # s.readCount THEN <<"harness-position", s>>
       ELSE IF e.k > e.n \/ e.k < 0 THEN <<"bad-count", s>>
       ELSE IF s.readCount + e.k > s.delivered THEN <<"read-more-than-delivered", s>>
       ELSE IF s.cclosed /\ e.k > 0 THEN <<"data-after-close", s>>
       ELSE IF s.loss /\ e.k > 0 /\ GapAt(s, s.readCount) # 0 /\ GapAt(s, s.readCount) \notin s.reported
            THEN <<"gap-not-reported", s>>
       ELSE <<"ok", [s EXCEPT !.readCount = @ + e.k]>>
  ELSE IF e.err = "EOF" THEN
       IF e.k # 0 THEN <<"bad-count", s>>
       ELSE IF s.cclosed \/ (s.completed /\ s.readCount = s.delivered) THEN <<"ok", s>>
       ELSE IF ~s.completed THEN <<"eof-before-completion", s>>
       ELSE <<"eof-with-unread-data", s>>
  ELSE IF e.err = "DataLost" THEN
       LET g == GapAt(s, s.readCount) IN
       IF ~s.loss THEN <<"dataloss-not-asked-for", s>>
       ELSE IF g = 0 \/ g \in s.reported THEN <<"spurious-or-repeated-dataloss", s>>
       ELSE <<"ok", [s EXCEPT !.reported = @ \cup {g}]>>
  ELSE <<"unexpected-error", s>>

Judge(s, e) ==
  CASE e.op = "deliver"  -> <<"ok", AddChunks(s, e.batch, 1)>>
    [] e.op = "complete" -> <<"ok", [s EXCEPT !.completed = TRUE]>>
    [] e.op = "read"     -> JudgeRead(s, e)
    [] e.op = "close"    -> <<"ok", [s EXCEPT !.cclosed = TRUE]>>
    [] e.op = "closed"   -> <<"ok", s>>
    [] e.op = "areturn"  -> <<"ok", [s EXCEPT !.aret = TRUE]>>
    [] e.op = "rreturn"  -> <<"ok", [s EXCEPT !.rret = TRUE]>>
    [] e.op = "deadlock" -> <<"deadlock", s>>
    [] e.op = "panic"    -> <<"panic", s>>
    [] e.op = "end"      -> <<IF s.aret /\ s.rret THEN "ok" ELSE "not-terminated", s>>
    [] OTHER             -> <<"unknown-event", s>>

Note(b, r) == IF \E i \in 1..Len(b) : b[i].reason = r.reason /\ b[i].op = r.op THEN b
              ELSE IF Len(b) < 100 THEN Append(b, r) ELSE b

TInit == l = 1 /\ st = New(FALSE) /\ bad = <<>> /\ skip = FALSE /\ nbad = 0
Step ==
  /\ l <= Len(Trace)
  /\ l' = l + 1
  /\ LET e == Trace[l] IN
     IF e.op = "reset" THEN st' = New(e.loss) /\ skip' = FALSE /\ UNCHANGED <<bad, nbad>>
     ELSE IF skip THEN UNCHANGED <<st, bad, skip, nbad>>
     ELSE LET r == Judge(st, e) IN
          IF r[1] = "ok" THEN st' = r[2] /\ UNCHANGED <<bad, skip, nbad>>
          ELSE /\ bad' = Note(bad, [sc |-> e.sc, line |-> l, op |-> e.op, reason |-> r[1]])
               /\ nbad' = nbad + 1 /\ skip' = TRUE /\ UNCHANGED st
TSpec == TInit /\ [][Step]_tvars
Done == l = Len(Trace) + 1 => PrintT("VERDICT " \o ToJson([lines |-> Len(Trace), bad |-> bad, nbad |-> nbad]))
=============================================================================
