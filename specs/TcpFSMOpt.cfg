SPECIFICATION OptSpec
CONSTANTS
  MaxLen = 2
  Kinds = {"S"}
  Smes = {FALSE}
  ExportEvery = TRUE
  OMss <- MC_OMss
  OWs <- MC_OWs
  OWin = {0, 2}
  OLen = {0, 1, 2, 3}
  ODiff <- MC_ODiff
VIEW OptView
INVARIANTS OptImplSane OptExport OptReport
CHECK_DEADLOCK FALSE
