SPECIFICATION SafetySpec
CONSTANTS
  Scripts <- MC_Scripts
  K = 2
INVARIANTS IndInv Safe
CHECK_DEADLOCK TRUE
