--------------------------- MODULE PoolConcProof ---------------------------
(***************************************************************************)
(* X22IND (b): TLAPS proof that IndInv (PoolConcInd.tla) is an inductive   *)
(* invariant of PoolConc!Spec - the original C12 design module - for the   *)
(* design with key re-validation, and that it implies the five safety      *)
(* invariants TLC checks on the bounded workloads.  Nothing is bounded      *)
(* here: Progs is any finite sequence of finite programs, NConn any        *)
(* natural number, Bidir either value.                                     *)
(*   tlapm --threads N PoolConcProof.tla                                   *)
(***************************************************************************)
EXTENDS PoolConcInd, TLAPS

ASSUME Design == KeyCheck = TRUE /\ PanicOnRace = FALSE /\ Bidir \in BOOLEAN /\ NConn \in Nat
ASSUME PA == ProgsOK

LEMMA ThreadsNat == Threads \subseteq Nat
  BY PA DEF Threads, ProgsOK

LEMMA CurKey == ASSUME NEW t \in Threads, pi[t] \in Nat \ {0}, pi[t] <= Len(Progs[t])
                PROVE  <<Cur(t)[1], Cur(t)[2]>> \in Key
  BY PA DEF ProgsOK, Cur, Key

LEMMA RevKey == ASSUME NEW k \in Key PROVE Rev(k) \in Key /\ Rev(k) # k /\ Rev(Rev(k)) = k
  BY DEF Key, Rev

LEMMA LookupType == ASSUME TypeOK, NEW key \in Key
                    PROVE  /\ Lookup(key)[1] \in 0..NConn /\ Lookup(key)[2] \in {0, 1}
                           /\ (~Bidir => Lookup(key)[2] = 0)
                           /\ (Lookup(key)[1] = 0 => key \notin DOMAIN conns /\ (Bidir => Rev(key) \notin DOMAIN conns))
                           /\ (Lookup(key)[1] # 0 => \E k \in DOMAIN conns : Lookup(key)[1] = conns[k])
  BY RevKey, Design DEF TypeOK, Lookup

THEOREM InitInd == Init => IndInv
  <1> SUFFICES ASSUME Init PROVE IndInv OBVIOUS
  <1> USE Design DEF Init
  <1>1. TypeOK BY DEF TypeOK, NoConn, ConnRec, LocRec, Key, PcSet, StreamRec
  <1>2. InProg /\ Dir0 /\ Locked /\ Alloc BY DEF InProg, Dir0, Locked, Alloc
  <1>3. ~panic /\ ~misdelivered /\ SingleEntry BY DEF SingleEntry
  <1>4. A1 /\ A2 /\ A3 /\ A4 BY DEF A1, A2, A3, A4
  <1>5. S1 /\ S2 /\ S3 /\ S4 /\ S5 BY DEF S1, S2, S3, S4, S5, NoConn
  <1>6. QED BY <1>1, <1>2, <1>3, <1>4, <1>5 DEF IndInv

----------------------------------------------------------------------------
LEMMA StartPktInd == ASSUME IndInv, NEW t \in Threads, StartPkt(t) PROVE IndInv'
  <1> DEFINE key == <<Cur(t)[1], Cur(t)[2]>>
             r == Lookup(key)
  <1> USE DEF IndInv
  <1>0. key \in Key /\ pi[t] <= Len(Progs[t])
    BY CurKey, PA DEF StartPkt, TypeOK, Done, ProgsOK
  <1>a. /\ loc' = [loc EXCEPT ![t].conn = r[1], ![t].dir = r[2]]
        /\ pc' = [pc EXCEPT ![t] = "looked"]
        /\ UNCHANGED <<conns, free, fresh, conn, streams, pi, panic, misdelivered>>
    BY DEF StartPkt
  <1>b. /\ r[1] \in 0..NConn /\ r[2] \in {0, 1} /\ (~Bidir => r[2] = 0)
        /\ (r[1] # 0 => \E k \in DOMAIN conns : r[1] = conns[k])
    BY <1>0, LookupType
  <1> HIDE DEF key, r
  <1>1. TypeOK' BY <1>a, <1>b DEF TypeOK, LocRec, PcSet
  <1>2. InProg' /\ Dir0' /\ Locked' BY <1>0, <1>a, <1>b DEF TypeOK, LocRec, InProg, Dir0, Locked
  <1>3. Alloc' BY <1>a, <1>b DEF TypeOK, LocRec, Alloc, A1
  <1>4. (~panic)' /\ (~misdelivered)' /\ SingleEntry' BY <1>a DEF SingleEntry
  <1>5. A1' /\ A2' /\ A3' /\ A4' BY <1>a DEF A1, A2, A3, A4
  <1>6. S1' /\ S2' /\ S3' /\ S5' BY <1>a DEF S1, S2, S3, S5
  <1>7. S4' BY <1>a DEF S4, TypeOK, LocRec
  <1>8. QED BY <1>1, <1>2, <1>3, <1>4, <1>5, <1>6, <1>7

LEMMA LookedInd == ASSUME IndInv, NEW t \in Threads, Looked(t) PROVE IndInv'
  <1> DEFINE key == <<Cur(t)[1], Cur(t)[2]>>
  <1> USE DEF IndInv
  <1>0. pc[t] = "looked" /\ key \in Key /\ pi[t] <= Len(Progs[t])
    BY CurKey DEF Looked, TypeOK, InProg
  <1>u. UNCHANGED <<conns, free, fresh, conn, pi, panic, misdelivered>>
    BY DEF Looked
  <1>1. CASE loc[t].conn # 0
    <2>a. pc' = [pc EXCEPT ![t] = "prelock"] /\ UNCHANGED <<streams, loc>>
      BY <1>1 DEF Looked
    <2> HIDE DEF key
    <2>1. TypeOK' BY <1>u, <2>a DEF TypeOK, PcSet
    <2>2. InProg' /\ Dir0' /\ Locked' /\ Alloc' BY <1>0, <1>1, <1>u, <2>a DEF TypeOK, InProg, Dir0, Locked, Alloc
    <2>4. (~panic)' /\ (~misdelivered)' /\ SingleEntry' BY <1>u DEF SingleEntry
    <2>5. A1' /\ A2' /\ A3' /\ A4' BY <1>u DEF A1, A2, A3, A4
    <2>6. S1' /\ S2' /\ S3' /\ S5' BY <1>u, <2>a DEF S1, S2, S3, S5
    <2>7. S4' BY <1>0, <1>u, <2>a DEF S4, TypeOK
    <2>8. QED BY <2>1, <2>2, <2>4, <2>5, <2>6, <2>7
  <1>2. CASE loc[t].conn = 0
    <2> DEFINE s == Len(streams) + 1
               rec == [key |-> key, used |-> FALSE, completes |-> 0, got |-> <<>>]
    <2>a. /\ streams' = Append(streams, rec)
          /\ loc' = [loc EXCEPT ![t].stream = s]
          /\ pc' = [pc EXCEPT ![t] = "created"]
      BY <1>2 DEF Looked
    <2>b. rec \in StreamRec /\ rec.completes = 0
      BY <1>0 DEF StreamRec
    <2>c. /\ streams \in Seq(StreamRec) /\ Len(streams) \in Nat /\ s \in Nat /\ s = Len(streams) + 1
          /\ Len(streams') = s /\ streams'[s] = rec
          /\ \A x \in 1..Len(streams) : streams'[x] = streams[x]
          /\ streams' \in Seq(StreamRec)
      <3>1. streams \in Seq(StreamRec) BY DEF TypeOK
      <3>2. streams' = Append(streams, rec) /\ rec \in StreamRec BY <2>a, <2>b
      <3> HIDE DEF rec
      <3>3. QED BY <3>1, <3>2
    <2> HIDE DEF key, s, rec
    <2>1. TypeOK' BY <1>u, <2>a, <2>c DEF TypeOK, PcSet, LocRec
    <2>2. InProg' /\ Dir0' /\ Locked' /\ Alloc' BY <1>0, <1>u, <2>a DEF TypeOK, LocRec, InProg, Dir0, Locked, Alloc
    <2>4. (~panic)' /\ (~misdelivered)' /\ SingleEntry' BY <1>u DEF SingleEntry
    <2>5. A1' /\ A2' /\ A3' /\ A4' BY <1>u DEF A1, A2, A3, A4
    <2>6. S1' BY <2>b, <2>c DEF S1
    <2>7. S2' BY <1>u, <2>b, <2>c DEF S2, S5, TypeOK, ConnRec
    <2>8. S3' /\ S5' BY <1>u, <2>c DEF S3, S5, TypeOK, ConnRec
    <2>9. S4' BY <1>0, <1>u, <2>a, <2>b, <2>c DEF S4, S5, TypeOK, LocRec, ConnRec
    <2>10. QED BY <2>1, <2>2, <2>4, <2>5, <2>6, <2>7, <2>8, <2>9
  <1>3. QED BY <1>1, <1>2

LEMMA CreatedInd == ASSUME IndInv, NEW t \in Threads, Created(t) PROVE IndInv'
  <1> DEFINE key == <<Cur(t)[1], Cur(t)[2]>>
             fromFree == Len(free) > 0
             c == IF fromFree THEN free[Len(free)] ELSE fresh
             free2 == IF fromFree THEN SubSeq(free, 1, Len(free) - 1) ELSE free
             r == Lookup(key)
             newrec == [key |-> key, stream |-> loc[t].stream, closed |-> {}, completed |-> FALSE]
  <1> USE DEF IndInv
  <1>0. pc[t] = "created" /\ key \in Key /\ pi[t] <= Len(Progs[t])
    BY CurKey DEF Created, TypeOK, InProg
  <1>u. UNCHANGED <<streams, pi, misdelivered>>
    BY DEF Created
  <1>a. /\ c <= NConn
        /\ free' = free2 /\ fresh' = (IF fromFree THEN fresh ELSE fresh + 1)
        /\ conn' = [conn EXCEPT ![c] = newrec]
    BY Design DEF Created
  <1>b. /\ r[1] \in 0..NConn /\ r[2] \in {0, 1} /\ (~Bidir => r[2] = 0)
        /\ (r[1] = 0 => key \notin DOMAIN conns /\ (Bidir => Rev(key) \notin DOMAIN conns))
        /\ (r[1] # 0 => \E k \in DOMAIN conns : r[1] = conns[k])
    BY <1>0, LookupType
  <1>c. /\ free \in Seq(1..NConn) /\ Len(free) \in Nat
        /\ c \in 1..NConn /\ c < fresh' /\ fresh' \in Nat /\ fresh' >= fresh
        /\ free' \in Seq(1..NConn) /\ Len(free') \in Nat /\ Len(free') <= Len(free)
        /\ \A i \in 1..Len(free') : free'[i] = free[i] /\ free'[i] # c
        /\ \A k \in DOMAIN conns : conns[k] # c
    <2>1. CASE fromFree
      <3>1. Len(free) \in Nat /\ Len(free) >= 1 /\ c = free[Len(free)] /\ free' = SubSeq(free, 1, Len(free) - 1) /\ fresh' = fresh
        BY <2>1, <1>a DEF TypeOK
      <3>2. Len(free') = Len(free) - 1 /\ free' \in Seq(1..NConn) /\ \A i \in 1..Len(free') : free'[i] = free[i]
        BY <3>1 DEF TypeOK
      <3>3. QED BY <3>1, <3>2 DEF TypeOK, A1, A2
    <2>2. CASE ~fromFree
      <3>1. Len(free) = 0 /\ c = fresh /\ free' = free /\ fresh' = fresh + 1
        BY <2>2, <1>a DEF TypeOK
      <3>2. QED BY <3>1, <1>a DEF TypeOK, A1
    <2>3. QED BY <2>1, <2>2
  <1>d. newrec \in ConnRec /\ conn' \in [1..NConn -> ConnRec] /\ conn'[c] = newrec
        /\ \A x \in 1..NConn : x # c => conn'[x] = conn[x]
    BY <1>0, <1>a, <1>c DEF TypeOK, ConnRec, LocRec
  <1>e. newrec.key = key /\ newrec.stream = loc[t].stream /\ newrec.completed = FALSE
    OBVIOUS
  <1>s. /\ loc[t].stream \in 1..Len(streams)
        /\ streams[loc[t].stream].completes = 0
        /\ \A x \in 1..NConn : conn[x].stream # loc[t].stream
        /\ \A t2 \in Threads : (t2 # t /\ pc[t2] = "created") => loc[t2].stream # loc[t].stream
    BY <1>0 DEF S4
  <1>1. CASE r[1] # 0
    <2>a. /\ loc' = [loc EXCEPT ![t].conn = r[1], ![t].dir = r[2]]
          /\ pc' = [pc EXCEPT ![t] = "prelock"]
          /\ UNCHANGED <<panic, conns>>
      BY <1>1, Design DEF Created
    <2> HIDE DEF key, fromFree, c, free2, r, newrec
    <2>1. TypeOK' BY <1>u, <1>b, <1>c, <1>d, <2>a DEF TypeOK, PcSet, LocRec
    <2>2. InProg' /\ Dir0' /\ Locked' BY <1>0, <1>1, <1>u, <1>b, <2>a DEF TypeOK, LocRec, InProg, Dir0, Locked
    <2>3. Alloc' BY <1>b, <1>c, <2>a DEF TypeOK, LocRec, Alloc, A1
    <2>4. (~panic)' /\ (~misdelivered)' /\ SingleEntry' BY <1>u, <2>a DEF SingleEntry
    <2>5. A1' BY <1>c, <2>a DEF A1, TypeOK
    <2>6. A2' BY <1>c, <2>a DEF A2, TypeOK
    <2>7. A3' BY <1>c, <1>d, <2>a DEF A3, TypeOK
    <2>8. A4' BY <1>c, <1>d, <2>a DEF A4, TypeOK
    <2>9. S1' BY <1>u DEF S1
    <2>10. S2' BY <1>u, <1>c, <1>d, <1>e, <1>s DEF S2
    <2>11. S3' BY <1>c, <1>d, <1>e, <1>s DEF S3
    <2>12. S5' BY <1>u, <1>c, <1>d, <1>e, <1>s DEF S5
    <2>13. S4' BY <1>0, <1>u, <1>c, <1>d, <1>e, <1>s, <2>a DEF S4, TypeOK, LocRec
    <2>14. QED BY <2>1, <2>2, <2>3, <2>4, <2>5, <2>6, <2>7, <2>8, <2>9, <2>10, <2>11, <2>12, <2>13
  <1>2. CASE r[1] = 0
    <2>a. /\ conns' = [x \in DOMAIN conns \cup {key} |-> IF x = key THEN c ELSE conns[x]]
          /\ loc' = [loc EXCEPT ![t].conn = c, ![t].dir = 0]
          /\ pc' = [pc EXCEPT ![t] = "prelock"]
          /\ UNCHANGED panic
      BY <1>2 DEF Created
    <2>b. /\ DOMAIN conns' = DOMAIN conns \cup {key}
          /\ conns'[key] = c
          /\ \A k \in DOMAIN conns : k # key /\ conns'[k] = conns[k]
          /\ (Bidir => Rev(key) \notin DOMAIN conns)
      BY <2>a, <1>2, <1>b
    <2> HIDE DEF key, fromFree, c, free2, r, newrec
    <2>1. TypeOK' BY <1>0, <1>u, <1>c, <1>d, <2>a, <2>b DEF TypeOK, PcSet, LocRec
    <2>2. InProg' /\ Dir0' /\ Locked' BY <1>0, <1>u, <1>c, <2>a DEF TypeOK, LocRec, InProg, Dir0, Locked
    <2>3. Alloc' BY <1>c, <2>a DEF TypeOK, LocRec, Alloc
    <2>4. (~panic)' /\ (~misdelivered)' BY <1>u, <2>a
    <2>4a. SingleEntry'
      <3>1. CASE Bidir
        <4> SUFFICES ASSUME NEW k \in DOMAIN conns', Rev(k) \in DOMAIN conns' PROVE FALSE
          BY DEF SingleEntry
        <4>1. k \in Key /\ key \in Key BY <1>0, <2>b DEF TypeOK
        <4>2. QED BY <4>1, <3>1, <2>b, RevKey DEF SingleEntry
      <3>2. CASE ~Bidir BY <3>2 DEF SingleEntry
      <3>3. QED BY <3>1, <3>2
    <2>5. A1' BY <1>c, <2>b DEF A1, TypeOK
    <2>6. A2' BY <1>c, <2>b DEF A2, TypeOK
    <2>7. A3' BY <1>c, <1>d DEF A3, TypeOK
    <2>8. A4'
      <3> SUFFICES ASSUME NEW k \in DOMAIN conns' PROVE conn'[conns'[k]].key = k
        BY DEF A4
      <3>1. CASE k = key BY <3>1, <1>c, <1>d, <1>e, <2>b
      <3>2. CASE k # key
        <4>1. k \in DOMAIN conns /\ conns'[k] = conns[k] /\ conns[k] # c /\ conns[k] \in 1..NConn
          BY <3>2, <2>b, <1>c DEF TypeOK
        <4>2. QED BY <4>1, <1>d DEF A4
      <3>3. QED BY <3>1, <3>2
    <2>9. S1' BY <1>u DEF S1
    <2>10. S2' BY <1>u, <1>c, <1>d, <1>e, <1>s DEF S2
    <2>11. S3' BY <1>c, <1>d, <1>e, <1>s DEF S3
    <2>12. S5' BY <1>u, <1>c, <1>d, <1>e, <1>s DEF S5
    <2>13. S4'
      <3> SUFFICES ASSUME NEW t1 \in Threads, pc'[t1] = "created"
                   PROVE  /\ loc'[t1].stream \in 1..Len(streams')
                          /\ streams'[loc'[t1].stream].completes = 0
                          /\ \A x \in 1..NConn : conn'[x].stream # loc'[t1].stream
                          /\ \A t2 \in Threads : (t2 # t1 /\ pc'[t2] = "created") => loc'[t2].stream # loc'[t1].stream
        BY DEF S4
      <3>1. t1 # t /\ pc[t1] = "created" /\ loc'[t1].stream = loc[t1].stream /\ loc[t1].stream # loc[t].stream
        BY <1>0, <1>s, <2>a DEF TypeOK, LocRec
      <3>2. \A t2 \in Threads : pc'[t2] = "created" => (pc[t2] = "created" /\ loc'[t2].stream = loc[t2].stream)
        BY <1>0, <2>a DEF TypeOK, LocRec
      <3>3. /\ loc[t1].stream \in 1..Len(streams)
            /\ streams[loc[t1].stream].completes = 0
            /\ \A x \in 1..NConn : conn[x].stream # loc[t1].stream
            /\ \A t2 \in Threads : (t2 # t1 /\ pc[t2] = "created") => loc[t2].stream # loc[t1].stream
        BY <3>1 DEF S4
      <3>4. \A x \in 1..NConn : conn'[x].stream # loc[t1].stream
        BY <3>1, <3>3, <1>c, <1>d, <1>e
      <3>5. QED BY <3>1, <3>2, <3>3, <3>4, <1>u
    <2>14. QED BY <2>1, <2>2, <2>3, <2>4, <2>4a, <2>5, <2>6, <2>7, <2>8, <2>9, <2>10, <2>11, <2>12, <2>13
  <1>3. QED BY <1>1, <1>2

LEMMA ProcessInd == ASSUME IndInv, NEW t \in Threads, Process(t) PROVE IndInv'
  <1> DEFINE c == loc[t].conn
             key == <<Cur(t)[1], Cur(t)[2]>>
             fin == Cur(t)[3]
             cr == conn[c]
             d == IF KeyCheck /\ Bidir THEN (IF cr.key = key THEN 0 ELSE 1) ELSE loc[t].dir
             allDirs == IF Bidir THEN {0, 1} ELSE {0}
             stale == ~(cr.key = key \/ (Bidir /\ cr.key = Rev(key)))
             right == (cr.key = key /\ d = 0) \/ (Bidir /\ cr.key = Rev(key) /\ d = 1)
             closed2 == IF fin THEN cr.closed \cup {d} ELSE cr.closed
             complete == fin /\ closed2 = allDirs /\ ~cr.completed
  <1> USE DEF IndInv
  <1>0. /\ pc[t] = "prelock" /\ key \in Key /\ pi[t] <= Len(Progs[t]) /\ pi[t] \in Nat \ {0}
        /\ c \in 1..NConn /\ cr \in ConnRec /\ d \in {0, 1} /\ c < fresh
    BY CurKey DEF Process, TypeOK, InProg, Locked, LocRec, ConnRec, Alloc
  <1>u. UNCHANGED <<fresh, panic>>
    BY DEF Process
  <1>1. CASE (~Bidir /\ cr.closed # {}) \/ (KeyCheck /\ stale)
    <2> DEFINE r == Lookup(key)
    <2>a. /\ loc' = [loc EXCEPT ![t].conn = r[1], ![t].dir = r[2]]
          /\ pc' = [pc EXCEPT ![t] = "looked"]
          /\ UNCHANGED <<conns, free, conn, streams, pi, misdelivered>>
      BY <1>1 DEF Process
    <2>b. /\ r[1] \in 0..NConn /\ r[2] \in {0, 1} /\ (~Bidir => r[2] = 0)
          /\ (r[1] # 0 => \E k \in DOMAIN conns : r[1] = conns[k])
      BY <1>0, LookupType
    <2> HIDE DEF c, key, fin, cr, d, allDirs, stale, right, closed2, complete, r
    <2>1. TypeOK' BY <1>u, <2>a, <2>b DEF TypeOK, LocRec, PcSet
    <2>2. InProg' /\ Dir0' /\ Locked' BY <1>0, <2>a, <2>b DEF TypeOK, LocRec, InProg, Dir0, Locked
    <2>3. Alloc' BY <1>u, <2>a, <2>b DEF TypeOK, LocRec, Alloc, A1
    <2>4. (~panic)' /\ (~misdelivered)' /\ SingleEntry' BY <1>u, <2>a DEF SingleEntry
    <2>5. A1' /\ A2' /\ A3' /\ A4' BY <1>u, <2>a DEF A1, A2, A3, A4
    <2>6. S1' /\ S2' /\ S3' /\ S5' BY <2>a DEF S1, S2, S3, S5
    <2>7. S4' BY <1>0, <2>a DEF S4, TypeOK, LocRec
    <2>8. QED BY <2>1, <2>2, <2>3, <2>4, <2>5, <2>6, <2>7
  <1>r. ASSUME ~((~Bidir /\ cr.closed # {}) \/ (KeyCheck /\ stale)) PROVE right
    <2>1. ~stale BY <1>r, Design
    <2>2. CASE Bidir BY <2>1, <2>2, Design
    <2>3. CASE ~Bidir BY <2>1, <2>3, Design DEF Dir0
    <2>4. QED BY <2>2, <2>3
  <1>2. CASE ~((~Bidir /\ cr.closed # {}) \/ (KeyCheck /\ stale)) /\ (Bidir /\ d \in cr.closed)
    <2>a. /\ pi' = [pi EXCEPT ![t] = @ + 1] /\ pc' = [pc EXCEPT ![t] = "start"]
          /\ streams' = [streams EXCEPT ![cr.stream].used = TRUE]
          /\ misdelivered' = (misdelivered \/ ~right)
          /\ UNCHANGED <<conns, free, conn, loc>>
      BY <1>2 DEF Process
    <2>b. right BY <1>2, <1>r
    <2>c. /\ streams' \in Seq(StreamRec) /\ Len(streams') = Len(streams)
          /\ \A x \in 1..Len(streams) : streams'[x].completes = streams[x].completes
      BY <2>a DEF TypeOK, StreamRec
    <2> HIDE DEF c, key, fin, cr, d, allDirs, stale, right, closed2, complete
    <2>1. TypeOK' BY <1>0, <1>u, <2>a, <2>b, <2>c DEF TypeOK, PcSet
    <2>2. InProg' /\ Dir0' /\ Locked' /\ Alloc' BY <1>u, <2>a DEF TypeOK, InProg, Dir0, Locked, Alloc
    <2>4. (~panic)' /\ (~misdelivered)' /\ SingleEntry' BY <1>u, <2>a, <2>b DEF SingleEntry
    <2>5. A1' /\ A2' /\ A3' /\ A4' BY <1>u, <2>a DEF A1, A2, A3, A4
    <2>6. S1' /\ S2' /\ S3' /\ S5' BY <2>a, <2>c DEF S1, S2, S3, S5
    <2>7. S4' BY <1>0, <2>a, <2>c DEF S4, TypeOK
    <2>8. QED BY <2>1, <2>2, <2>4, <2>5, <2>6, <2>7
  <1>3. CASE ~((~Bidir /\ cr.closed # {}) \/ (KeyCheck /\ stale)) /\ ~(Bidir /\ d \in cr.closed)
    <2>a. /\ misdelivered' = (misdelivered \/ ~right)
          /\ streams' = [streams EXCEPT ![cr.stream].used = TRUE,
                                        ![cr.stream].got = Append(@, key),
                                        ![cr.stream].completes = IF complete THEN @ + 1 ELSE @]
          /\ conn' = [conn EXCEPT ![c].closed = closed2, ![c].completed = (cr.completed \/ complete)]
          /\ IF complete /\ cr.key \in DOMAIN conns /\ conns[cr.key] = c
             THEN conns' = [x \in DOMAIN conns \ {cr.key} |-> conns[x]] /\ free' = Append(free, c)
             ELSE UNCHANGED <<conns, free>>
          /\ pi' = [pi EXCEPT ![t] = @ + 1] /\ pc' = [pc EXCEPT ![t] = "start"]
          /\ UNCHANGED loc
      BY <1>3 DEF Process
    <2>b. right BY <1>3, <1>r
    <2>c. /\ streams' \in Seq(StreamRec) /\ Len(streams') = Len(streams)
          /\ \A x \in 1..Len(streams) : x # cr.stream => streams'[x].completes = streams[x].completes
          /\ cr.stream \in 1..Len(streams) => streams'[cr.stream].completes = (IF complete THEN streams[cr.stream].completes + 1 ELSE streams[cr.stream].completes)
      BY <2>a, <1>0 DEF TypeOK, StreamRec
    <2>d. /\ closed2 \in SUBSET {0, 1}
          /\ conn' \in [1..NConn -> ConnRec]
          /\ conn'[c].key = cr.key /\ conn'[c].stream = cr.stream
          /\ conn'[c].completed = (cr.completed \/ complete)
          /\ \A x \in 1..NConn : x # c => conn'[x] = conn[x]
      BY <2>a, <1>0 DEF TypeOK, ConnRec
    <2>e. complete => ~cr.completed
      OBVIOUS
    <2>1. CASE complete /\ cr.key \in DOMAIN conns /\ conns[cr.key] = c
      <3>a. conns' = [x \in DOMAIN conns \ {cr.key} |-> conns[x]] /\ free' = Append(free, c)
        BY <2>1, <2>a
      <3>b. /\ DOMAIN conns' = DOMAIN conns \ {cr.key}
            /\ \A k \in DOMAIN conns' : conns'[k] = conns[k]
            /\ free' \in Seq(1..NConn) /\ Len(free') = Len(free) + 1 /\ free'[Len(free) + 1] = c
            /\ \A i \in 1..Len(free) : free'[i] = free[i]
            /\ Len(free) \in Nat
        BY <3>a, <1>0 DEF TypeOK
      <3>c. /\ \A i \in 1..Len(free) : free[i] # c
            /\ \A k \in DOMAIN conns' : conns[k] # c
        <4>1. ~cr.completed BY <2>1
        <4>2. \A i \in 1..Len(free) : free[i] # c BY <4>1 DEF A3
        <4>3. \A k \in DOMAIN conns' : conns[k] # c BY <3>b DEF A4
        <4>4. QED BY <4>2, <4>3
      <3> HIDE DEF key, fin, d, allDirs, stale, right, closed2, complete
      <3>1. TypeOK' BY <1>0, <1>u, <2>a, <2>b, <2>c, <2>d, <3>b DEF TypeOK, PcSet
      <3>2. InProg' /\ Dir0' /\ Locked' /\ Alloc' BY <1>u, <2>a DEF TypeOK, InProg, Dir0, Locked, Alloc
      <3>4. (~panic)' /\ (~misdelivered)' BY <1>u, <2>a, <2>b
      <3>4a. SingleEntry' BY <3>b DEF SingleEntry
      <3>5. A1' BY <1>0, <1>u, <3>b DEF A1
      <3>6. A2' BY <3>b, <3>c DEF A2
      <3>7. A3' BY <1>0, <2>1, <2>d, <3>b, <3>c DEF A3, TypeOK
      <3>8. A4' BY <2>d, <3>b DEF A4, TypeOK
      <3>9. S1' BY <1>0, <2>c, <2>e DEF S1, S2, TypeOK, StreamRec
      <3>10. S2' BY <1>0, <2>c, <2>d, <2>e DEF S2, S3, TypeOK, ConnRec
      <3>11. S3' /\ S5' BY <1>0, <2>c, <2>d DEF S3, S5
      <3>12. S4' BY <1>0, <2>a, <2>c, <2>d DEF S4, TypeOK
      <3>13. QED BY <3>1, <3>2, <3>4, <3>4a, <3>5, <3>6, <3>7, <3>8, <3>9, <3>10, <3>11, <3>12
    <2>2. CASE ~(complete /\ cr.key \in DOMAIN conns /\ conns[cr.key] = c)
      <3>a. UNCHANGED <<conns, free>>
        BY <2>2, <2>a
      <3> HIDE DEF key, fin, d, allDirs, stale, right, closed2, complete
      <3>1. TypeOK' BY <1>0, <1>u, <2>a, <2>b, <2>c, <2>d, <3>a DEF TypeOK, PcSet
      <3>2. InProg' /\ Dir0' /\ Locked' /\ Alloc' BY <1>u, <2>a DEF TypeOK, InProg, Dir0, Locked, Alloc
      <3>4. (~panic)' /\ (~misdelivered)' BY <1>u, <2>a, <2>b
      <3>4a. SingleEntry' BY <3>a DEF SingleEntry
      <3>5. A1' /\ A2' BY <1>u, <3>a DEF A1, A2
      <3>7. A3' BY <1>0, <2>d, <3>a DEF A3, TypeOK
      <3>8. A4' BY <2>d, <3>a DEF A4, TypeOK
      <3>9. S1' BY <1>0, <2>c, <2>e DEF S1, S2, TypeOK, StreamRec
      <3>10. S2' BY <1>0, <2>c, <2>d, <2>e DEF S2, S3, TypeOK, ConnRec
      <3>11. S3' /\ S5' BY <1>0, <2>c, <2>d DEF S3, S5
      <3>12. S4' BY <1>0, <2>a, <2>c, <2>d DEF S4, TypeOK
      <3>13. QED BY <3>1, <3>2, <3>4, <3>4a, <3>5, <3>7, <3>8, <3>9, <3>10, <3>11, <3>12
    <2>3. QED BY <2>1, <2>2
  <1>4. QED BY <1>1, <1>2, <1>3

LEMMA FlushSnapInd == ASSUME IndInv, NEW t \in Threads, FlushSnap(t) PROVE IndInv'
  <1> USE DEF IndInv
  <1>a. /\ pc[t] = "start"
        /\ loc' = [loc EXCEPT ![t].snap = {conns[k] : k \in DOMAIN conns}]
        /\ pc' = [pc EXCEPT ![t] = "flushing"]
        /\ UNCHANGED <<conns, free, fresh, conn, streams, pi, panic, misdelivered>>
    BY DEF FlushSnap
  <1>1. TypeOK' BY <1>a DEF TypeOK, LocRec, PcSet
  <1>2. InProg' /\ Dir0' /\ Locked' BY <1>a DEF TypeOK, LocRec, InProg, Dir0, Locked
  <1>3. Alloc' BY <1>a DEF TypeOK, LocRec, Alloc, A1
  <1>4. (~panic)' /\ (~misdelivered)' /\ SingleEntry' BY <1>a DEF SingleEntry
  <1>5. A1' /\ A2' /\ A3' /\ A4' BY <1>a DEF A1, A2, A3, A4
  <1>6. S1' /\ S2' /\ S3' /\ S5' BY <1>a DEF S1, S2, S3, S5
  <1>7. S4' BY <1>a DEF S4, TypeOK, LocRec
  <1>8. QED BY <1>1, <1>2, <1>3, <1>4, <1>5, <1>6, <1>7

LEMMA FlushOneInd == ASSUME IndInv, NEW t \in Threads, FlushOne(t) PROVE IndInv'
  <1> USE DEF IndInv
  <1>0. pc[t] = "flushing" BY DEF FlushOne
  <1>u. UNCHANGED <<fresh, panic, misdelivered>> BY DEF FlushOne
  <1>1. CASE loc[t].snap = {}
    <2>a. /\ pi' = [pi EXCEPT ![t] = @ + 1] /\ pc' = [pc EXCEPT ![t] = "start"]
          /\ UNCHANGED <<conns, free, conn, streams, loc>>
      BY <1>1 DEF FlushOne
    <2>1. TypeOK' BY <1>u, <2>a DEF TypeOK, PcSet
    <2>2. InProg' /\ Dir0' /\ Locked' /\ Alloc' BY <1>0, <1>u, <2>a DEF TypeOK, InProg, Dir0, Locked, Alloc
    <2>4. (~panic)' /\ (~misdelivered)' /\ SingleEntry' BY <1>u, <2>a DEF SingleEntry
    <2>5. A1' /\ A2' /\ A3' /\ A4' BY <1>u, <2>a DEF A1, A2, A3, A4
    <2>6. S1' /\ S2' /\ S3' /\ S5' BY <2>a DEF S1, S2, S3, S5
    <2>7. S4' BY <1>0, <2>a DEF S4, TypeOK
    <2>8. QED BY <2>1, <2>2, <2>4, <2>5, <2>6, <2>7
  <1>2. CASE loc[t].snap # {}
    <2>p. PICK c \in loc[t].snap :
            LET cr == conn[c]
                allDirs == IF Bidir THEN {0, 1} ELSE {0}
                complete == cr.closed # allDirs /\ ~cr.completed
            IN /\ loc' = [loc EXCEPT ![t].snap = @ \ {c}]
               /\ conn' = [conn EXCEPT ![c].closed = allDirs, ![c].completed = (cr.completed \/ complete)]
               /\ streams' = IF complete THEN [streams EXCEPT ![cr.stream].used = TRUE, ![cr.stream].completes = @ + 1] ELSE streams
               /\ IF complete /\ cr.key \in DOMAIN conns /\ conns[cr.key] = c
                  THEN conns' = [x \in DOMAIN conns \ {cr.key} |-> conns[x]] /\ free' = Append(free, c)
                  ELSE UNCHANGED <<conns, free>>
               /\ UNCHANGED <<pi, pc>>
      BY <1>2 DEF FlushOne
    <2> DEFINE cr == conn[c]
               allDirs == IF Bidir THEN {0, 1} ELSE {0}
               complete == cr.closed # allDirs /\ ~cr.completed
    <2>0. c \in 1..NConn /\ cr \in ConnRec /\ c < fresh /\ allDirs \in SUBSET {0, 1}
      BY DEF TypeOK, LocRec, Alloc
    <2>a. /\ loc' = [loc EXCEPT ![t].snap = @ \ {c}]
          /\ conn' = [conn EXCEPT ![c].closed = allDirs, ![c].completed = (cr.completed \/ complete)]
          /\ streams' = IF complete THEN [streams EXCEPT ![cr.stream].used = TRUE, ![cr.stream].completes = @ + 1] ELSE streams
          /\ IF complete /\ cr.key \in DOMAIN conns /\ conns[cr.key] = c
             THEN conns' = [x \in DOMAIN conns \ {cr.key} |-> conns[x]] /\ free' = Append(free, c)
             ELSE UNCHANGED <<conns, free>>
          /\ UNCHANGED <<pi, pc>>
      BY <2>p
    <2>c. /\ streams' \in Seq(StreamRec) /\ Len(streams') = Len(streams)
          /\ \A x \in 1..Len(streams) : x # cr.stream => streams'[x].completes = streams[x].completes
          /\ cr.stream \in 1..Len(streams) => streams'[cr.stream].completes = (IF complete THEN streams[cr.stream].completes + 1 ELSE streams[cr.stream].completes)
      BY <2>a, <2>0 DEF TypeOK, StreamRec
    <2>d. /\ conn' \in [1..NConn -> ConnRec]
          /\ conn'[c].key = cr.key /\ conn'[c].stream = cr.stream
          /\ conn'[c].completed = (cr.completed \/ complete)
          /\ \A x \in 1..NConn : x # c => conn'[x] = conn[x]
      BY <2>a, <2>0 DEF TypeOK, ConnRec
    <2>e. complete => ~cr.completed
      OBVIOUS
    <2>1. CASE complete /\ cr.key \in DOMAIN conns /\ conns[cr.key] = c
      <3>a. conns' = [x \in DOMAIN conns \ {cr.key} |-> conns[x]] /\ free' = Append(free, c)
        BY <2>1, <2>a
      <3>b. /\ DOMAIN conns' = DOMAIN conns \ {cr.key}
            /\ \A k \in DOMAIN conns' : conns'[k] = conns[k]
            /\ free' \in Seq(1..NConn) /\ Len(free') = Len(free) + 1 /\ free'[Len(free) + 1] = c
            /\ \A i \in 1..Len(free) : free'[i] = free[i]
            /\ Len(free) \in Nat
        BY <3>a, <2>0 DEF TypeOK
      <3>c. /\ \A i \in 1..Len(free) : free[i] # c
            /\ \A k \in DOMAIN conns' : conns[k] # c
        <4>1. ~cr.completed BY <2>1
        <4>2. \A i \in 1..Len(free) : free[i] # c BY <4>1 DEF A3
        <4>3. \A k \in DOMAIN conns' : conns[k] # c BY <3>b DEF A4
        <4>4. QED BY <4>2, <4>3
      <3> HIDE DEF allDirs, complete
      <3>1. TypeOK' BY <2>0, <1>u, <2>a, <2>c, <2>d, <3>b DEF TypeOK, LocRec
      <3>2. InProg' /\ Dir0' /\ Locked' /\ Alloc' BY <1>0, <1>u, <2>a DEF TypeOK, LocRec, InProg, Dir0, Locked, Alloc
      <3>4. (~panic)' /\ (~misdelivered)' BY <1>u
      <3>4a. SingleEntry' BY <3>b DEF SingleEntry
      <3>5. A1' BY <2>0, <1>u, <3>b DEF A1
      <3>6. A2' BY <3>b, <3>c DEF A2
      <3>7. A3' BY <2>0, <2>1, <2>d, <3>b, <3>c DEF A3, TypeOK
      <3>8. A4' BY <2>d, <3>b DEF A4, TypeOK
      <3>9. S1' BY <2>0, <2>c, <2>e DEF S1, S2, TypeOK, StreamRec
      <3>10. S2' BY <2>0, <2>c, <2>d, <2>e DEF S2, S3, TypeOK, ConnRec
      <3>11. S3' /\ S5' BY <2>0, <2>c, <2>d DEF S3, S5
      <3>12. S4' BY <1>0, <2>0, <2>a, <2>c, <2>d DEF S4, TypeOK, LocRec
      <3>13. QED BY <3>1, <3>2, <3>4, <3>4a, <3>5, <3>6, <3>7, <3>8, <3>9, <3>10, <3>11, <3>12
    <2>2. CASE ~(complete /\ cr.key \in DOMAIN conns /\ conns[cr.key] = c)
      <3>a. UNCHANGED <<conns, free>>
        BY <2>2, <2>a
      <3> HIDE DEF allDirs, complete
      <3>1. TypeOK' BY <2>0, <1>u, <2>a, <2>c, <2>d, <3>a DEF TypeOK, LocRec
      <3>2. InProg' /\ Dir0' /\ Locked' /\ Alloc' BY <1>0, <1>u, <2>a DEF TypeOK, LocRec, InProg, Dir0, Locked, Alloc
      <3>4. (~panic)' /\ (~misdelivered)' BY <1>u
      <3>4a. SingleEntry' BY <3>a DEF SingleEntry
      <3>5. A1' /\ A2' BY <1>u, <3>a DEF A1, A2
      <3>7. A3' BY <2>0, <2>d, <3>a DEF A3, TypeOK
      <3>8. A4' BY <2>d, <3>a DEF A4, TypeOK
      <3>9. S1' BY <2>0, <2>c, <2>e DEF S1, S2, TypeOK, StreamRec
      <3>10. S2' BY <2>0, <2>c, <2>d, <2>e DEF S2, S3, TypeOK, ConnRec
      <3>11. S3' /\ S5' BY <2>0, <2>c, <2>d DEF S3, S5
      <3>12. S4' BY <1>0, <2>0, <2>a, <2>c, <2>d DEF S4, TypeOK, LocRec
      <3>13. QED BY <3>1, <3>2, <3>4, <3>4a, <3>5, <3>7, <3>8, <3>9, <3>10, <3>11, <3>12
    <2>3. QED BY <2>1, <2>2
  <1>3. QED BY <1>1, <1>2

----------------------------------------------------------------------------
THEOREM StepInd == IndInv /\ [Next]_vars => IndInv'
  <1> SUFFICES ASSUME IndInv, [Next]_vars PROVE IndInv' OBVIOUS
  <1>1. ASSUME NEW t \in Threads,
               StartPkt(t) \/ Looked(t) \/ Created(t) \/ Process(t) \/ FlushSnap(t) \/ FlushOne(t)
        PROVE IndInv'
    BY <1>1, StartPktInd, LookedInd, CreatedInd, ProcessInd, FlushSnapInd, FlushOneInd
  <1>2. CASE UNCHANGED vars
    <2> USE <1>2 DEF vars, IndInv
    <2>1. TypeOK' BY DEF TypeOK
    <2>2. InProg' /\ Dir0' /\ Locked' /\ Alloc' BY DEF InProg, Dir0, Locked, Alloc
    <2>3. (~panic)' /\ (~misdelivered)' /\ SingleEntry' BY DEF SingleEntry
    <2>4. A1' /\ A2' /\ A3' /\ A4' BY DEF A1, A2, A3, A4
    <2>5. S1' /\ S2' /\ S3' /\ S4' /\ S5' BY DEF S1, S2, S3, S4, S5
    <2>6. QED BY <2>1, <2>2, <2>3, <2>4, <2>5
  <1>3. QED BY <1>1, <1>2 DEF Next, Terminated

THEOREM IndImpliesSafe == IndInv => Safe
  <1> SUFFICES ASSUME IndInv PROVE Safe OBVIOUS
  <1> USE DEF IndInv
  <1>1. NoPanic /\ NoMisdelivery /\ SingleEntry BY DEF NoPanic, NoMisdelivery
  <1>2. NoSharedObject BY DEF NoSharedObject, A4
  <1>3. CompletedAtMostOnce BY DEF CompletedAtMostOnce, S1
  <1>4. QED BY <1>1, <1>2, <1>3 DEF Safe

THEOREM Safety == Spec => []Safe
  <1>1. Spec => []IndInv BY InitInd, StepInd, PTL DEF Spec
  <1>2. QED BY <1>1, IndImpliesSafe, PTL
=============================================================================
