SPECIFICATION Spec
CONSTANTS
  Scripts <- MC_Scripts
  K = 2
INVARIANTS InOrderOnce NothingLost ClosedMeansDone NoSendAfterClose TypeOK AtMostOneReadAfterCancel
PROPERTIES EofCloses CancelCloses
CHECK_DEADLOCK TRUE
