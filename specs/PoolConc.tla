------------------------------ MODULE PoolConc ------------------------------
(***************************************************************************)
(* Several assemblers sharing one StreamPool (C12).                        *)
(*                                                                         *)
(* Impl layer: each assembler goroutine is a pc-machine whose atomic steps *)
(* are exactly the code segments between the points where the real code    *)
(* is about to take a lock it does not hold (the verifYield hooks):        *)
(*   start   -> RLock; lookup (both key orders when Bidir); RUnlock        *)
(*   looked  -> [found] no-op | [not found] factory.New                    *)
(*   created -> Lock; pop free / allocate; reset; re-lookup;               *)
(*              adopt existing | insert | panic("FIXME ...") ; Unlock      *)
(*   prelock -> conn.mu.Lock; closed? ; deliver ; FIN: close half, when    *)
(*              all halves closed: complete, remove (pool Lock, delete by  *)
(*              conn.key, push free) ; Unlock                              *)
(* plus a flusher (snapshot of the map, then per connection lock + close). *)
(* Constants mirror the code: Bidir (reassembly: one connection for both   *)
(* directions) / ~Bidir (tcpassembly: one connection per direction, retry  *)
(* while closed); PanicOnRace = the pinned reassembly getConnection;       *)
(* KeyCheck = the connection re-validates its key after locking.           *)
(*                                                                         *)
(* Prop layer: no panic; a delivery reaches the stream created for that    *)
(* connection key and the half for its direction (no stale/recycled        *)
(* connection object); both directions share one entry; every stream that  *)
(* is used is completed exactly once.                                      *)
(***************************************************************************)
EXTENDS Integers, Sequences, FiniteSets, TLC

CONSTANTS Progs,        \* sequence of thread programs; a program is a sequence of <<key, dir, fin>>; key 0 = FlushAll
          Bidir, PanicOnRace, KeyCheck,
          NConn         \* number of connection objects available (free list + fresh)

Threads == 1..Len(Progs)
\* a connection key is <<k, dir>>; its reverse is <<k, 1-dir>>
Rev(key) == <<key[1], 1 - key[2]>>

VARIABLES conns,      \* map: key -> conn id   (function with a finite domain)
          free,       \* stack of conn ids
          fresh,      \* next never-used conn id
          conn,       \* conn id -> [key, stream, closed (set of dirs closed), completed]
          streams,    \* stream id -> [key, used, completes, got (sequence of packet keys delivered)]
          pc, pi, loc,\* per thread: pc, program index, locals [conn, stream, dir]
          panic, misdelivered, sched
vars == <<conns, free, fresh, conn, streams, pc, pi, loc, panic, misdelivered, sched>>

Lookup(key) ==   \* returns <<conn id, dir within the connection>> or <<0, 0>>
  IF key \in DOMAIN conns THEN <<conns[key], 0>>
  ELSE IF Bidir /\ Rev(key) \in DOMAIN conns THEN <<conns[Rev(key)], 1>>
  ELSE <<0, 0>>

NoConn == [key |-> <<0, 0>>, stream |-> 0, closed |-> {}, completed |-> FALSE]

Init == /\ conns = <<>> /\ free = <<>> /\ fresh = 1
        /\ conn = [c \in 1..NConn |-> NoConn]
        /\ streams = <<>>
        /\ pc = [t \in Threads |-> "start"] /\ pi = [t \in Threads |-> 1]
        /\ loc = [t \in Threads |-> [conn |-> 0, stream |-> 0, dir |-> 0, snap |-> {}]]
        /\ panic = FALSE /\ misdelivered = FALSE /\ sched = <<>>

Cur(t) == Progs[t][pi[t]]
Done(t) == pi[t] > Len(Progs[t])
Step(t) == sched' = Append(sched, t)

\* ---- worker steps ---------------------------------------------------------
StartPkt(t) ==
  /\ pc[t] = "start" /\ ~Done(t) /\ Cur(t)[1] # 0
  /\ LET key == <<Cur(t)[1], Cur(t)[2]>> r == Lookup(key) IN
     /\ loc' = [loc EXCEPT ![t].conn = r[1], ![t].dir = r[2]]
     /\ pc' = [pc EXCEPT ![t] = "looked"]
  /\ Step(t) /\ UNCHANGED <<conns, free, fresh, conn, streams, pi, panic, misdelivered>>

Looked(t) ==
  /\ pc[t] = "looked"
  /\ IF loc[t].conn # 0
     THEN /\ pc' = [pc EXCEPT ![t] = "prelock"] /\ UNCHANGED <<streams, loc>>
     ELSE LET s == Len(streams) + 1 key == <<Cur(t)[1], Cur(t)[2]>> IN
          /\ streams' = Append(streams, [key |-> key, used |-> FALSE, completes |-> 0, got |-> <<>>])
          /\ loc' = [loc EXCEPT ![t].stream = s]
          /\ pc' = [pc EXCEPT ![t] = "created"]
  /\ Step(t) /\ UNCHANGED <<conns, free, fresh, conn, pi, panic, misdelivered>>

Created(t) ==
  /\ pc[t] = "created"
  /\ LET key == <<Cur(t)[1], Cur(t)[2]>>
         fromFree == Len(free) > 0
         c == IF fromFree THEN free[Len(free)] ELSE fresh
         free2 == IF fromFree THEN SubSeq(free, 1, Len(free) - 1) ELSE free
         r == Lookup(key)
     IN /\ c <= NConn
        /\ free' = free2 /\ fresh' = (IF fromFree THEN fresh ELSE fresh + 1)
        /\ IF r[1] # 0
           THEN \* someone else created it meanwhile: the popped connection is reset but never used
                /\ conn' = [conn EXCEPT ![c] = [key |-> key, stream |-> loc[t].stream, closed |-> {}, completed |-> FALSE]]
                /\ IF Bidir /\ PanicOnRace /\ conn[r[1]].key # key
                   THEN panic' = TRUE /\ pc' = [pc EXCEPT ![t] = "dead"] /\ UNCHANGED <<loc, conns>>
                   ELSE /\ loc' = [loc EXCEPT ![t].conn = r[1], ![t].dir = r[2]]
                        /\ pc' = [pc EXCEPT ![t] = "prelock"] /\ UNCHANGED <<panic, conns>>
           ELSE /\ conn' = [conn EXCEPT ![c] = [key |-> key, stream |-> loc[t].stream, closed |-> {}, completed |-> FALSE]]
                /\ conns' = [x \in DOMAIN conns \cup {key} |-> IF x = key THEN c ELSE conns[x]]
                /\ loc' = [loc EXCEPT ![t].conn = c, ![t].dir = 0]
                /\ pc' = [pc EXCEPT ![t] = "prelock"] /\ UNCHANGED panic
  /\ Step(t) /\ UNCHANGED <<streams, pi, misdelivered>>

Remove(cs, c, k) == IF k \in DOMAIN cs /\ (Bidir => TRUE) THEN [x \in DOMAIN cs \ {k} |-> cs[x]] ELSE cs

\* conn.mu.Lock() ... process ... Unlock
\* The direction d was decided at lookup time (loc[t].dir); the design with KeyCheck decides it again from the
\* connection's key once the lock is held.  A delivery is RIGHT when the packet's key is the connection's key and it
\* is treated as the connection's forward direction, or (Bidir) it is the reverse key treated as the reverse
\* direction; anything else hands the packet to another connection's stream or to the wrong half of its own
\* (a connection object recycled for the reverse key of the same connection).
Process(t) ==
  /\ pc[t] = "prelock"
  /\ LET c == loc[t].conn
         key == <<Cur(t)[1], Cur(t)[2]>>
         fin == Cur(t)[3]
         cr == conn[c]
         d == IF KeyCheck /\ Bidir THEN (IF cr.key = key THEN 0 ELSE 1) ELSE loc[t].dir
         allDirs == IF Bidir THEN {0, 1} ELSE {0}
         stale == ~(cr.key = key \/ (Bidir /\ cr.key = Rev(key)))
         right == (cr.key = key /\ d = 0) \/ (Bidir /\ cr.key = Rev(key) /\ d = 1)
     IN
     IF (~Bidir /\ cr.closed # {}) \/ (KeyCheck /\ stale)
     THEN \* tcpassembly: closed connection (or, when re-validating, a recycled one): unlock and look up again
          /\ LET r == Lookup(key) IN loc' = [loc EXCEPT ![t].conn = r[1], ![t].dir = r[2]]
          /\ pc' = [pc EXCEPT ![t] = "looked"]
          /\ UNCHANGED <<conns, free, conn, streams, pi, misdelivered>>
     ELSE IF Bidir /\ d \in cr.closed
     THEN \* reassembly: packet on a closed half is dropped (after Stream.Accept has seen it)
          /\ pi' = [pi EXCEPT ![t] = @ + 1] /\ pc' = [pc EXCEPT ![t] = "start"]
          /\ streams' = [streams EXCEPT ![cr.stream].used = TRUE]
          /\ misdelivered' = (misdelivered \/ ~right)
          /\ UNCHANGED <<conns, free, conn, loc>>
     ELSE LET closed2 == IF fin THEN cr.closed \cup {d} ELSE cr.closed
              complete == fin /\ closed2 = allDirs /\ ~cr.completed
          IN /\ misdelivered' = (misdelivered \/ ~right)
             /\ streams' = [streams EXCEPT ![cr.stream].used = TRUE,
                                           ![cr.stream].got = Append(@, key),
                                           ![cr.stream].completes = IF complete THEN @ + 1 ELSE @]
             /\ conn' = [conn EXCEPT ![c].closed = closed2, ![c].completed = (cr.completed \/ complete)]
             /\ IF complete /\ cr.key \in DOMAIN conns /\ conns[cr.key] = c     \* remove: only the object registered under the key
                THEN conns' = [x \in DOMAIN conns \ {cr.key} |-> conns[x]] /\ free' = Append(free, c)
                ELSE UNCHANGED <<conns, free>>
             /\ pi' = [pi EXCEPT ![t] = @ + 1] /\ pc' = [pc EXCEPT ![t] = "start"]
             /\ UNCHANGED loc
  /\ Step(t) /\ UNCHANGED <<fresh, panic>>

\* ---- flusher: FlushAll ------------------------------------------------------
FlushSnap(t) ==
  /\ pc[t] = "start" /\ ~Done(t) /\ Cur(t)[1] = 0
  /\ loc' = [loc EXCEPT ![t].snap = {conns[k] : k \in DOMAIN conns}]
  /\ pc' = [pc EXCEPT ![t] = "flushing"]
  /\ Step(t) /\ UNCHANGED <<conns, free, fresh, conn, streams, pi, panic, misdelivered>>

FlushOne(t) ==
  /\ pc[t] = "flushing"
  /\ IF loc[t].snap = {}
     THEN /\ pi' = [pi EXCEPT ![t] = @ + 1] /\ pc' = [pc EXCEPT ![t] = "start"]
          /\ UNCHANGED <<conns, free, conn, streams, loc>>
     ELSE \E c \in loc[t].snap :
          LET cr == conn[c]
              allDirs == IF Bidir THEN {0, 1} ELSE {0}
              complete == cr.closed # allDirs /\ ~cr.completed
          IN /\ loc' = [loc EXCEPT ![t].snap = @ \ {c}]
             /\ conn' = [conn EXCEPT ![c].closed = allDirs, ![c].completed = (cr.completed \/ complete)]
             /\ streams' = IF complete THEN [streams EXCEPT ![cr.stream].used = TRUE, ![cr.stream].completes = @ + 1] ELSE streams
             /\ IF complete /\ cr.key \in DOMAIN conns /\ conns[cr.key] = c
                THEN conns' = [x \in DOMAIN conns \ {cr.key} |-> conns[x]] /\ free' = Append(free, c)
                ELSE UNCHANGED <<conns, free>>
             /\ UNCHANGED <<pi, pc>>
  /\ Step(t) /\ UNCHANGED <<fresh, panic, misdelivered>>

AllDone == \A t \in Threads : Done(t) \/ pc[t] = "dead"
Terminated == AllDone /\ UNCHANGED vars

Next == (\E t \in Threads : StartPkt(t) \/ Looked(t) \/ Created(t) \/ Process(t) \/ FlushSnap(t) \/ FlushOne(t)) \/ Terminated
Spec == Init /\ [][Next]_vars

-----------------------------------------------------------------------------
NoPanic == ~panic
NoMisdelivery == ~misdelivered
CompletedAtMostOnce == \A s \in 1..Len(streams) : streams[s].completes <= 1
SingleEntry == Bidir => \A k \in DOMAIN conns : Rev(k) \notin DOMAIN conns
\* the same connection object is never registered under two keys
NoSharedObject == \A k1, k2 \in DOMAIN conns : k1 # k2 => conns[k1] # conns[k2]
MCView == <<conns, free, fresh, conn, streams, pc, pi, loc, panic, misdelivered>>
=============================================================================
