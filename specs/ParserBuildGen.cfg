SPECIFICATION Spec
CONSTANTS
  Types <- MC_Types
INVARIANTS DecodesSeeWhatWasGiven Export
CHECK_DEADLOCK FALSE
