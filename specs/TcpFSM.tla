------------------------------- MODULE TcpFSM -------------------------------
(***************************************************************************)
(* X21FSM - the two explicit state machines of reassembly/tcpcheck.go.     *)
(*                                                                         *)
(*  Impl layer  FsmImplStep / OptImplStep : transcriptions of              *)
(*              TCPSimpleFSM.CheckState and TCPOptionCheck.Accept.         *)
(*  Prop layer  FsmJudge / OptJudge : what a user of the two checkers      *)
(*              relies on, written from RFC 793 (connection state diagram, *)
(*              segment acceptability test), RFC 1122 4.2.3.6 (keep-alive) *)
(*              and RFC 7323 (window scale) restricted to what a passive   *)
(*              observer that sees every packet in order can know.         *)
(*                                                                         *)
(* A packet of the FSM alphabet is <<k, d>>: k a flag combination, d in    *)
(* {0,1} the direction as the assembler names it (0 = TCPDirClientToServer *)
(* = direction of the first packet the assembler saw).                     *)
(*    "S" SYN   "SA" SYN+ACK   "A" ACK   "AD" ACK+payload   "FA" FIN+ACK   *)
(*    "R" RST   and, outside the six-letter alphabet of the task,          *)
(*    "F" FIN without ACK   "RA" RST+ACK   "N" no flag at all              *)
(***************************************************************************)
EXTENDS Integers, Sequences

Rev(d) == 1 - d
Kinds6 == {"S", "SA", "A", "AD", "FA", "R"}
KindsX == Kinds6 \cup {"F", "RA", "N"}
FSyn(k) == k \in {"S", "SA"}
FAck(k) == k \in {"SA", "A", "AD", "FA", "RA"}
FFin(k) == k \in {"FA", "F"}
FRst(k) == k \in {"R", "RA"}

(***************************************************************************)
(* IMPL 1: TCPSimpleFSM.CheckState (tcpcheck.go), statement by statement.  *)
(* State = [st, dir]; NewTCPSimpleFSM leaves dir at its zero value         *)
(* (false = TCPDirClientToServer = 0).                                     *)
(***************************************************************************)
FsmImplInit == [st |-> "Closed", dir |-> 0]

\* "try to figure out state": only in Closed, only with SupportMissingEstablishment, not for a bare SYN
FsmGuess(s, k, d, sme) ==
  IF s.st = "Closed" /\ sme /\ ~(FSyn(k) /\ ~FAck(k))
  THEN IF FSyn(k) /\ FAck(k)      THEN [st |-> "SynSent",     dir |-> Rev(d)]
       ELSE IF FFin(k) /\ ~FAck(k) THEN [st |-> "Established", dir |-> s.dir]
       ELSE IF FFin(k) /\ FAck(k)  THEN [st |-> "CloseWait",   dir |-> Rev(d)]
       ELSE                             [st |-> "Established", dir |-> s.dir]
  ELSE s

\* the switch; result <<accepted, state after>>
FsmSwitch(s, k, d) ==
  CASE s.st = "Closed" ->
         IF FSyn(k) /\ ~FAck(k) THEN <<TRUE, [st |-> "SynSent", dir |-> d]>> ELSE <<FALSE, s>>
    [] s.st = "SynSent" ->
         IF FRst(k) THEN <<TRUE, [s EXCEPT !.st = "Reset"]>>
         ELSE IF FSyn(k) /\ FAck(k) /\ d = Rev(s.dir) THEN <<TRUE, [s EXCEPT !.st = "Established"]>>
         ELSE IF FSyn(k) /\ ~FAck(k) /\ d = s.dir THEN <<TRUE, s>>
         ELSE <<FALSE, s>>
    [] s.st = "Established" ->
         IF FRst(k) THEN <<TRUE, [s EXCEPT !.st = "Reset"]>>
         ELSE IF FFin(k) THEN <<TRUE, [st |-> "CloseWait", dir |-> d]>>
         ELSE <<TRUE, s>>                                   \* "accept any packet"
    [] s.st = "CloseWait" ->
         IF FRst(k) THEN <<TRUE, [s EXCEPT !.st = "Reset"]>>
         ELSE IF FFin(k) /\ FAck(k) /\ d = Rev(s.dir) THEN <<TRUE, [s EXCEPT !.st = "LastAck"]>>
         ELSE IF FAck(k) THEN <<TRUE, s>>
         ELSE <<FALSE, s>>
    [] s.st = "LastAck" ->
         IF FRst(k) THEN <<TRUE, [s EXCEPT !.st = "Reset"]>>
         ELSE IF FAck(k) /\ s.dir = d THEN <<TRUE, [s EXCEPT !.st = "Closed"]>>
         ELSE <<FALSE, s>>
    [] OTHER -> <<FALSE, s>>                                \* Reset: no case, return false

FsmImplStep(s, k, d, sme) == FsmSwitch(FsmGuess(s, k, d, sme), k, d)

(***************************************************************************)
(* PROP 1: the observer's view of one connection, from RFC 793 figure 6.   *)
(*   ph   none    nothing accepted yet                                     *)
(*        syn     SYN of client c seen            (c: SYN-SENT)            *)
(*        synack  SYN+ACK of the server seen      (s: SYN-RECEIVED)        *)
(*        est     third handshake segment seen    (both ESTABLISHED)       *)
(*        mid     joined mid-stream (missing establishment supported)      *)
(*        fin1    x sent its FIN       (x: FIN-WAIT, peer: CLOSE-WAIT)     *)
(*        fin2    the peer sent its FIN too       (peer: LAST-ACK)         *)
(*        closed  x acknowledged the second FIN   (x: TIME-WAIT)           *)
(*        reset   a RST was accepted                                       *)
(*        weak    the conversation left the orderly path through a packet  *)
(*                whose meaning the observer cannot know: no claims        *)
(*   c    client direction or 2 (unknown);  x  first closer or 2           *)
(*   obs  the state name the FSM showed after the last packet              *)
(* Every (state, packet) is classified                                     *)
(*   must   occurs in a legal conversation seen completely and in order:   *)
(*          handshake, data and acknowledgements in both directions, an    *)
(*          orderly close started by either side (half-close included),    *)
(*          RST at any point of a connection                               *)
(*   never  cannot occur in this state in any legal conversation           *)
(*   may    retransmissions, simultaneous open/close, probes, packets of a *)
(*          next incarnation, ... : a passive observer without sequence    *)
(*          numbers may take either decision                               *)
(***************************************************************************)
FsmPropInit(sme) == [ph |-> "none", c |-> 2, x |-> 2, obs |-> "Closed", sme |-> sme]

FsmClass(st, k, d) ==
  LET ph == st.ph  c == st.c  x == st.x IN
  IF k \in {"F", "N"} THEN "may"                   \* not segments of an RFC 793 conversation: unspecified
  ELSE CASE ph = "none" ->
         IF k = "S" THEN "must"
         ELSE IF FRst(k) THEN "may"                \* a RST without any connection
         ELSE IF st.sme THEN "must" ELSE "never"   \* SYN+ACK, ACK, data, FIN before any SYN
    [] ph = "syn" ->
         IF FRst(k) THEN "must"
         ELSE IF k = "SA" THEN (IF d = Rev(c) THEN "must" ELSE "never")
         ELSE IF k = "S" THEN "may"                \* retransmission / simultaneous open
         ELSE IF d = c THEN "never"                \* the client is in SYN-SENT: no ACK, data or FIN
         ELSE "may"                                \* half-open discovery (RFC 793 fig. 10)
    [] ph = "synack" ->
         IF FRst(k) THEN "must"
         ELSE IF k \in {"A", "AD"} /\ d = c THEN "must"
         ELSE "may"
    [] ph \in {"est", "mid"} ->
         IF FRst(k) THEN "must"
         ELSE IF k \in {"A", "AD", "FA"} THEN "must"
         ELSE IF k = "S" THEN "never"              \* both ends are synchronized: no SYN any more
         ELSE IF ph = "est" /\ d = c THEN "never"  \* SYN+ACK of the client
         ELSE "may"                                \* SYN+ACK retransmitted by the server
    [] ph = "fin1" ->
         IF FRst(k) THEN "must"
         ELSE IF k = "S" THEN "never"
         ELSE IF k = "SA" THEN (IF c # 2 /\ d = c THEN "never" ELSE "may")
         ELSE IF d = Rev(x) THEN "must"            \* CLOSE-WAIT side: ACK, more data, its own FIN
         ELSE IF k = "A" THEN "must"               \* FIN-WAIT side still acknowledges
         ELSE "may"                                \* data / FIN again from the closer: retransmissions
    [] ph = "fin2" ->
         IF FRst(k) THEN "must"
         ELSE IF k = "S" THEN "never"
         ELSE IF k = "SA" THEN (IF c # 2 /\ d = c THEN "never" ELSE "may")
         ELSE IF k = "A" /\ d = x THEN "must"      \* the last ACK
         ELSE "may"                                \* simultaneous close, retransmissions
    [] ph = "closed" ->
         IF k = "AD" THEN "never" ELSE "may"       \* no data after both FINs were acknowledged
    [] ph = "reset" ->
         IF k \in {"A", "AD", "FA"} THEN "never" ELSE "may"   \* the RST ended the connection
    [] OTHER -> "may"                              \* weak: no claims

\* the observer's state after an ACCEPTED packet
FsmNext(st, k, d) ==
  LET ph == st.ph  c == st.c  x == st.x
      W == [st EXCEPT !.ph = "weak", !.c = 2, !.x = 2] IN
  IF FRst(k) THEN [st EXCEPT !.ph = "reset"]
  ELSE CASE ph \in {"none", "closed", "reset"} ->
         IF k = "S" THEN [st EXCEPT !.ph = "syn", !.c = d, !.x = 2]
         ELSE IF k = "SA" THEN [st EXCEPT !.ph = "synack", !.c = Rev(d), !.x = 2]
         ELSE IF ph = "reset" THEN st
         ELSE IF ph = "closed" THEN W             \* taken for a new conversation whose start was not seen
         ELSE IF k \in {"A", "AD"} THEN [st EXCEPT !.ph = "mid"]
         ELSE W                                   \* joined at a FIN: first or second one?
    [] ph = "syn" ->
         IF k = "SA" /\ d = Rev(c) THEN [st EXCEPT !.ph = "synack"]
         ELSE IF k = "S" /\ d = c THEN st
         ELSE W
    [] ph = "synack" ->
         IF k \in {"A", "AD"} /\ d = c THEN [st EXCEPT !.ph = "est"]
         ELSE IF FFin(k) THEN [st EXCEPT !.ph = "fin1", !.x = d]   \* CLOSE in SYN-RECEIVED / right after SYN+ACK
         ELSE st
    [] ph \in {"est", "mid"} ->
         IF FFin(k) THEN [st EXCEPT !.ph = "fin1", !.x = d] ELSE st
    [] ph = "fin1" ->
         IF FFin(k) /\ d = Rev(x) THEN [st EXCEPT !.ph = "fin2"] ELSE st
    [] ph = "fin2" ->
         IF FAck(k) /\ d = x THEN [st EXCEPT !.ph = "closed"] ELSE st
    [] OTHER -> st

FsmRel(st, d) ==
  IF st.ph \in {"fin1", "fin2", "closed"} /\ st.x # 2 THEN (IF d = st.x THEN "closer" ELSE "peer")
  ELSE IF st.c # 2 THEN (IF d = st.c THEN "client" ELSE "server")
  ELSE "any"

\* e = [k, d, res \in {"acc","rej","panic"}, state (name shown after the call), det]
FsmJudge(st, e) ==
  LET cl == FsmClass(st, e.k, e.d) IN
  IF e.res = "panic" THEN <<"panic", st>>
  ELSE IF ~e.det THEN <<"nondeterministic", st>>
  ELSE IF e.res = "rej" /\ cl = "must" THEN <<"must-rejected", st>>
  ELSE IF e.res = "acc" /\ cl = "never" THEN <<"never-accepted", st>>
  ELSE IF e.res = "rej" /\ e.state # st.obs THEN <<"state-changed-on-reject", st>>
  ELSE IF e.res = "acc" THEN <<"ok", [FsmNext(st, e.k, e.d) EXCEPT !.obs = e.state]>>
  ELSE <<"ok", st>>

(***************************************************************************)
(* IMPL 2: TCPOptionCheck.Accept.  One operation is                        *)
(*   [d, syn, mss, ws, win, len, has, diff]                                *)
(*   mss / ws  value of the option, -1 absent, -2 present with a wrong     *)
(*             data length;  win the window field;  len payload length;    *)
(*   has       nextSeq # invalidSequence;  diff = tcp.Seq - nextSeq        *)
(* State: per direction [mss, scale, rwnd] (NewTCPOptionCheck: 0, -1, 0).  *)
(***************************************************************************)
OptImplInit == [i \in {0, 1} |-> [mss |-> 0, scale |-> -1, rwnd |-> 0]]

OptFinish(s, d, o, win) ==
  [s EXCEPT ![d] = [o EXCEPT !.rwnd = IF o.scale > 0 THEN win * (2 ^ o.scale) ELSE win]]

OptImplStep(s, e) ==
  LET o == s[e.d]  r == s[Rev(e.d)] IN
  IF e.syn THEN
     IF e.mss = -2 \/ e.ws = -2 THEN <<FALSE, s>>
     ELSE <<TRUE, OptFinish(s, e.d, [o EXCEPT !.mss = e.mss, !.scale = e.ws], e.win)>>
  ELSE IF e.has /\ ~(e.diff = -1 /\ e.len \in {0, 1})
              /\ (\/ e.diff < 0
                  \/ (r.mss > 0 /\ e.len > r.mss)
                  \/ (r.rwnd # 0 /\ r.scale < 0 /\ e.diff > r.rwnd))
       THEN <<FALSE, s>>
  ELSE <<TRUE, OptFinish(s, e.d, o, e.win)>>

(***************************************************************************)
(* PROP 2.  The observer remembers per direction what that endpoint        *)
(* announced in packets that were accepted: whether its SYN was seen, MSS   *)
(* and window-scale options of that SYN (-1 none), its last window field    *)
(* (-1 nothing seen yet).  With p the receiver of the judged segment:      *)
(*   SYN          must, unless an MSS / window-scale option is malformed   *)
(*   no nextSeq   must (nothing to compare with)                           *)
(*   keep-alive   must: seq = next-1 with 0 or 1 byte (RFC 1122 4.2.3.6)   *)
(*   len > MSS announced by p                      never (RFC 793 3.1, 879)*)
(*   starts before next, ends after it             must: carries new bytes,*)
(*                                 RFC 793 p.69 second acceptability test  *)
(*   ends at or before next                        may (pure retransmission)*)
(*   starts more than p's window beyond next, p's SYN was seen and offered  *)
(*   no scaling, window not zero                   never: right edge <=    *)
(*                                 ack + window <= next + window           *)
(*   starts within next + window field, or p's SYN was not seen (the shift  *)
(*   is unknown, RFC 7323 2.2), or no window known yet        must         *)
(*   anything else (zero window, scaled window)               may          *)
(***************************************************************************)
OptPropInit == [i \in {0, 1} |-> [syn |-> FALSE, mss |-> -1, ws |-> -1, win |-> -1]]

OptClass(st, e) ==
  LET p == st[Rev(e.d)] IN
  IF e.syn THEN (IF e.mss = -2 \/ e.ws = -2 THEN "never" ELSE "must")
  ELSE IF ~e.has THEN "must"
  ELSE IF e.diff = -1 /\ e.len <= 1 THEN "must"
  ELSE IF p.mss > 0 /\ e.len > p.mss THEN "never"
  ELSE IF e.diff < 0 THEN (IF e.diff + e.len > 0 THEN "must" ELSE "may")
  ELSE IF p.syn /\ p.ws = -1 /\ p.win > 0 /\ e.diff > p.win THEN "never"
  ELSE IF p.win = -1 \/ ~p.syn \/ e.diff <= p.win THEN "must"
  ELSE "may"

OptNext(st, e) ==
  [st EXCEPT ![e.d] = [syn |-> @.syn \/ e.syn,
                       mss |-> IF e.syn THEN e.mss ELSE @.mss,
                       ws  |-> IF e.syn THEN e.ws ELSE @.ws,
                       win |-> e.win]]

OptCase(st, e) ==       \* which clause of the table decided (for signatures)
  LET p == st[Rev(e.d)] IN
  IF e.syn THEN "syn"
  ELSE IF ~e.has THEN "nonext"
  ELSE IF e.diff = -1 /\ e.len <= 1 THEN "keepalive"
  ELSE IF p.mss > 0 /\ e.len > p.mss THEN "mss"
  ELSE IF e.diff < 0 THEN (IF e.diff + e.len > 0 THEN "overlap-new" ELSE "old")
  ELSE IF ~p.syn /\ p.win > 0 /\ e.diff > p.win THEN "window-unknown-scale"
  ELSE "window"

OptJudge(st, e) ==
  LET cl == OptClass(st, e) IN
  IF e.res = "panic" THEN <<"panic", st>>
  ELSE IF ~e.det THEN <<"nondeterministic", st>>
  ELSE IF e.res = "rej" /\ cl = "must" THEN <<"must-rejected", st>>
  ELSE IF e.res = "acc" /\ cl = "never" THEN <<"never-accepted", st>>
  ELSE IF e.res = "acc" THEN <<"ok", OptNext(st, e)>>
  ELSE <<"ok", st>>
=============================================================================
