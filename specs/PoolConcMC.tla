----------------------------- MODULE PoolConcMC -----------------------------
EXTENDS PoolConc, Json
\* keys: 1 = connection A, 2 = connection B; dir 0/1
P(k, d, f) == <<k, d, f>>
\* W1: first packets of the two directions race
MC_W1 == << <<P(1, 0, FALSE)>>, <<P(1, 1, FALSE)>> >>
\* W2: a connection is closed by FINs and its object recycled for another key while a thread holds the old pointer
MC_W2 == << <<P(1, 0, TRUE), P(1, 0, FALSE)>>, <<P(1, 1, TRUE), P(2, 0, FALSE)>> >>
\* W3: a flusher closes a connection while a worker holds its pointer; another worker opens a new connection
MC_W3 == << <<P(1, 0, FALSE), P(1, 0, FALSE)>>, <<P(2, 0, FALSE)>>, <<P(0, 0, FALSE)>> >>
\* W4: both directions, FIN, second connection, flusher
MC_W4 == << <<P(1, 0, FALSE), P(1, 0, TRUE)>>, <<P(1, 1, FALSE), P(2, 0, FALSE)>>, <<P(0, 0, FALSE)>> >>
\* W5: two workers create the same connection at once; a third creates another
MC_W5 == << <<P(1, 0, FALSE)>>, <<P(1, 1, FALSE), P(1, 1, FALSE)>>, <<P(2, 0, FALSE)>> >>

Export == AllDone => PrintT("BEH " \o ToJson([progs |-> Progs, sched |-> sched, panic |-> panic, mis |-> misdelivered]))
=============================================================================
