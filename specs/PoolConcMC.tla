----------------------------- MODULE PoolConcMC -----------------------------
EXTENDS PoolConc, Json
\* keys: 1 = connection A, 2 = connection B; dir 0/1
P(k, d, f) == <<k, d, f, FALSE>>
\* a packet sent beyond a hole (queued out of order); the model ignores the marker, the driver honours it
PO(k, d, f) == <<k, d, f, TRUE>>
\* key 0: dir 0 = FlushAll, dir 1 = FlushOlderThan(far future)
\* W1: first packets of the two directions race
MC_W1 == << <<P(1, 0, FALSE)>>, <<P(1, 1, FALSE)>> >>
\* W2: a connection is closed by FINs and its object recycled for another key while a thread holds the old pointer
MC_W2 == << <<P(1, 0, TRUE), P(1, 0, FALSE)>>, <<P(1, 1, TRUE), P(2, 0, FALSE)>> >>
\* W3: a flusher closes a connection while a worker holds its pointer; another worker opens a new connection
MC_W3 == << <<P(1, 0, FALSE), P(1, 0, FALSE)>>, <<P(2, 0, FALSE)>>, <<P(0, 0, FALSE)>> >>
\* W4: both directions, FIN, second connection, flusher
MC_W4 == << <<P(1, 0, FALSE), P(1, 0, TRUE)>>, <<P(1, 1, FALSE), P(2, 0, FALSE)>>, <<P(0, 0, FALSE)>> >>
\* W5: two workers create the same connection at once; a third creates another
MC_W5 == << <<P(1, 0, FALSE)>>, <<P(1, 1, FALSE), P(1, 1, FALSE)>>, <<P(2, 0, FALSE)>> >>

\* W6: out-of-order data is still queued when an in-order FIN closes the connection; an age flush with a stale snapshot runs concurrently
MC_W6 == << <<P(1, 0, FALSE), PO(1, 0, FALSE), P(1, 0, TRUE)>>, <<P(0, 1, FALSE)>>, <<P(2, 0, FALSE)>> >>

\* W7: an in-order FIN closes the connection while an age flush (CloseAll) holds it in its snapshot
MC_W7 == << <<P(1, 0, FALSE), P(1, 0, TRUE)>>, <<P(0, 1, FALSE)>>, <<P(2, 0, FALSE)>> >>

Export == AllDone => PrintT("BEH " \o ToJson([progs |-> Progs, sched |-> sched, panic |-> panic, mis |-> misdelivered]))
=============================================================================
