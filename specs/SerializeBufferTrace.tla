------------------------ MODULE SerializeBufferTrace ------------------------
(* Implementation -> model: validates ndjson traces recorded from the real   *)
(* gopacket.SerializeBuffer against the Prop layer of SerializeBuffer.tla.   *)
(* Total: a rejected scenario is recorded in `bad` and skipped up to the     *)
(* next reset, so one TLC run judges every scenario in the file.             *)
EXTENDS Integers, Sequences, TLC, Json

CONSTANTS Sizes, Hints, MaxDepth, LTypes, Stacks
VARIABLES prop, impl, hist
INSTANCE SerializeBuffer

VARIABLES l, bad, skip
tvars == <<prop, impl, hist, l, bad, skip>>

Trace == ndJsonDeserialize("trace.ndjson")

TInit == /\ prop = PInit /\ impl = 0 /\ hist = <<>>
         /\ l = 1 /\ bad = <<>> /\ skip = FALSE

\* keep at most 64 rejections (a mostly-broken tree would otherwise make every state carry them all)
Note(b, r) == IF Len(b) < 64 THEN Append(b, r) ELSE b

Apply(e) ==
  CASE e.op = "prepend"   -> PPrepend(prop, e.n)
    [] e.op = "append"    -> PAppend(prop, e.n)
    [] e.op = "clear"     -> PClear(prop)
    [] e.op = "push"      -> PPush(prop, e.t)
    [] e.op = "wwrite"    -> PWWrite(prop, e.w)
    [] e.op = "serlayers" -> PSerLayers(prop, e.ls)

\* reasons a step of the real buffer is not a step the property allows
Reason(e, p2) ==
  IF e.op \in {"prepend", "append"} /\ e.rlen # e.n THEN "returned-slice-length"
  ELSE IF e.op = "wwrite" /\ (e.w > Len(prop.windows) \/ ~prop.windows[e.w].alive) THEN "write-through-dead-window"
  ELSE IF e.bytes # p2.contents THEN "contents"
  ELSE IF e.layers # p2.layers THEN "layers"
  ELSE "ok"

Step ==
  /\ l <= Len(Trace)
  /\ l' = l + 1
  /\ UNCHANGED <<impl, hist>>
  /\ LET e == Trace[l] IN
     IF e.op = "reset"
     THEN prop' = PInit /\ skip' = FALSE /\ bad' = bad
     ELSE IF skip THEN UNCHANGED <<prop, bad, skip>>
     ELSE IF e.op = "panic"      \* the specification has no panicking transition
     THEN /\ bad' = Note(bad, [sc |-> e.sc, line |-> l, op |-> e.op, reason |-> "panic"])
          /\ skip' = TRUE /\ UNCHANGED prop
     ELSE LET p2 == Apply(e)
              r  == Reason(e, p2)
          IN IF r = "ok"
             THEN prop' = p2 /\ UNCHANGED <<bad, skip>>
             ELSE /\ bad' = Note(bad, [sc |-> e.sc, line |-> l, op |-> e.op, reason |-> r])
                  /\ skip' = TRUE /\ UNCHANGED prop

TSpec == TInit /\ [][Step]_tvars

\* printed exactly once, in the final state
Done == l = Len(Trace) + 1 => PrintT("VERDICT " \o ToJson([lines |-> Len(Trace), bad |-> bad]))
=============================================================================
