---------------------------- MODULE PoolIndRef ----------------------------
(***************************************************************************)
(* X22IND (a): binds PoolInd.tla (for which the invariant is proved        *)
(* without bounds) to Pool.tla (the specification C04 model-checks and     *)
(* replays on the real NewPacket/Dispose).  TLC checks, for the bounded    *)
(* constants of the cfg, that every behaviour of Pool!PSpec is a behaviour *)
(* of PoolInd!Spec under the refinement mapping below (PROPERTY ARefines), *)
(* that the mapped state satisfies the inductive invariant (AInd), and     *)
(* that the mapped properties coincide with Pool.tla's own formulation     *)
(* (SameVerdicts).                                                         *)
(***************************************************************************)
EXTENDS Pool

KN(p) == Idx(order[p[1]], <<"N", p[2]>>)
KD(p) == Idx(order[p[1]], <<"D", p[2]>>)

\* life-cycle state of packet p = <<t, i>>, read off its thread's program counter
ASt == [p \in Pkts |->
          LET t == p[1]  kn == KN(p)  kd == KD(p) IN
          IF pos[t] < kn \/ (pos[t] = kn /\ sub[t] = 0) THEN "new"
          ELSE IF pos[t] = kn /\ sub[t] = 1 THEN "got"
          ELSE IF pos[t] < kd \/ (pos[t] = kd /\ sub[t] # 9) THEN "live"
          ELSE IF pos[t] = kd THEN "late"
          ELSE "done"]
AHold == [p \in Pkts |-> IF p \in DOMAIN hold THEN hold[p] ELSE 0]
PktOf(id) == CHOOSE p \in Pkts : Pid(p[1], p[2]) = id
AContent == {<<b, PktOf(content[b])>> : b \in {x \in DOMAIN content : content[x] # 0}}

A == INSTANCE PoolInd WITH Pkt <- Pkts, st <- ASt, hold <- AHold, content <- AContent

ARefines == A!Spec
AInd == (~LateWrite) => A!IndInv
SameVerdicts == /\ NoAlias <=> A!NoAlias
                /\ FreeDisjoint <=> A!FreeDisjoint
                /\ ContentOK <=> A!ContentOK

\* self-test of this binding: a deliberately wrong mapping (Get jumps straight to "live") must be rejected by TLC
AStWrong == [p \in Pkts |-> IF ASt[p] = "got" THEN "live" ELSE ASt[p]]
AWrong == INSTANCE PoolInd WITH Pkt <- Pkts, st <- AStWrong, hold <- AHold, content <- AContent
AWrongRefines == AWrong!Spec
=============================================================================
