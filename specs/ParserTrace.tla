---------------------------- MODULE ParserTrace ----------------------------
(* Implementation -> model for DecodingLayerParser with scripted layers (C05 part 1).     *)
(* One event per (script, container set): what gopacket.NewPacket produced for the bytes  *)
(* and what DecodeLayers reported through each of 4 containers x 5 flavours x             *)
(* IgnoreUnsupported (identical observations are merged, `who` lists their producers:     *)
(* container + 4*flavour + 20*ignore; flavours: 0 container filled with Put and installed *)
(* with SetDecodingLayerContainer, 1 the same after decoding a truncated packet, 2 the    *)
(* same with a non-empty `decoded` slice, 3 empty container installed and the layers      *)
(* added with AddDecodingLayer in the order of a construction plan (ParserBuild.tla),     *)
(* 4 the plan's first `cut` layers, a decode - recorded in `mid`, judged against that     *)
(* smaller set - then the remaining layers added).                                        *)
(*   reason "parser-ne-packet"      : verdict - the parser did not report the leading run *)
(*                                    of the REAL packet's layers (Parser!LeadingRun)     *)
(*   reason "wrong-decoder-called"  : verdict - a scripted layer registered for type T was *)
(*                                    handed bytes whose type (per the preceding layer's  *)
(*                                    NextLayerType) is not T: the container lookup lied  *)
(*   reason "decoded-not-truncated" : verdict - as above, and the only difference is that *)
(*                                    the caller's slice kept its old entries             *)
(*   reason "model-drift"           : parser and packet agree with each other but differ  *)
(*                                    from Parser.tla / Packet.tla (no verdict)           *)
EXTENDS Integers, Sequences, FiniteSets, TLC, Json

CONSTANTS Steps, MaxScript
VARIABLES script, cset, ps
INSTANCE Parser

VARIABLES l, bad, cnt, self
tvars == <<script, cset, ps, l, bad, cnt, self>>
Reasons == {"parser-ne-packet", "decoded-not-truncated", "model-drift", "wrong-decoder-called", "incomplete-event", "panic", "hang"}

Trace == ndJsonDeserialize("trace.ndjson")
Note(b, r) == IF \E i \in 1..Len(b) : b[i].reason = r.reason THEN b
              ELSE IF Len(b) < 64 THEN Append(b, r) ELSE b

Range(s) == {s[i] : i \in DOMAIN s}
IgnOf(w) == w >= 20
PreOf(w) == (w % 20) \div 4 = 2
Junk == <<5, 5>>

Obs(r) == [types |-> r.types, err |-> r.err, ut |-> r.ut, trunc |-> r.trunc]

\* verdict of one observation r for producer class <<ignore, prefilled>>
JudgeRun(e, S, steps, r, ig, pre) ==
  LET lr == LeadingRun(steps, S, ig, ZeroType) IN
  IF Conforms(Obs(r), lr, e.pkt.trunc) THEN "ok"
  ELSE IF pre /\ r.types = Junk /\ LType(e.script[1]) \notin S
          /\ Conforms([Obs(r) EXCEPT !.types = <<>>], lr, e.pkt.trunc) THEN "decoded-not-truncated"
  ELSE "parser-ne-packet"

Judge(e) ==
  IF e.op # "scr" THEN e.op                       \* "panic", "hang"
  ELSE
  LET S     == Range(e.s)
      scr   == e.script
      \* <<observation, IgnoreUnsupported, prefilled slice>> for every producer of every observation
      mine  == UNION {{<<r, IgnOf(w), PreOf(w)>> : w \in Range(r.who)} : r \in Range(e.res)}
  IN IF \E r \in Range(e.res) : r.bad # "" THEN "wrong-decoder-called"
     ELSE IF UNION {Range(r.who) : r \in Range(e.res)} # 0..39 THEN "incomplete-event"
     ELSE IF ~LayersExplained(scr, e.pkt.types) THEN "parser-ne-packet"
     ELSE IF UNION {Range(r.who) : r \in Range(e.mid.res)} # 0..7 THEN "incomplete-event"
     ELSE LET steps == EagerSteps(scr, e.pkt.types)
              \* the decode made when only the first `cut` layers of the plan had been added is judged
              \* against that smaller set
              midS  == Range(e.mid.s)
              vs    == {JudgeRun(e, S, steps, x[1], x[2], x[3]) : x \in mine}
                       \cup UNION {{JudgeRun(e, midS, steps, r, w >= 4, FALSE) : w \in Range(r.who)} : r \in Range(e.mid.res)}
          IN IF "parser-ne-packet" \in vs THEN "parser-ne-packet"
             ELSE IF "decoded-not-truncated" \in vs THEN "decoded-not-truncated"
             ELSE LET eg == EagerResult(scr) IN
                  IF \/ e.pkt.types # eg.layers \/ e.pkt.trunc # eg.trunc \/ e.pkt.fail # eg.fail
                     \/ \E x \in mine : Obs(x[1]) # ParserResult(scr, S, x[2])
                  THEN "model-drift"
                  ELSE "ok"

TInit == /\ script = <<>> /\ cset = {} /\ ps = PInit
         /\ l = 1 /\ bad = <<>> /\ cnt = [x \in Reasons |-> 0] /\ self = <<>>

Step == /\ l <= Len(Trace)
        /\ l' = l + 1
        /\ UNCHANGED <<script, cset, ps>>
        /\ LET e == Trace[l]
               r == Judge(e)
           IN IF e.sc < 0      \* binding self-test events appended by the check: reported apart, never counted
              THEN self' = Append(self, [line |-> l, sc |-> e.sc, reason |-> r]) /\ UNCHANGED <<bad, cnt>>
              ELSE IF r = "ok" THEN UNCHANGED <<bad, cnt, self>>
              ELSE /\ bad' = Note(bad, [sc |-> e.sc, line |-> l, op |-> e.op, reason |-> r])
                   /\ cnt' = IF r \in Reasons THEN [cnt EXCEPT ![r] = @ + 1] ELSE cnt
                   /\ UNCHANGED self

TSpec == TInit /\ [][Step]_tvars
Done == l = Len(Trace) + 1 => PrintT("VERDICT " \o ToJson([lines |-> Len(Trace), bad |-> bad, cnt |-> cnt, self |-> self]))
=============================================================================
