------------------------------ MODULE TcpFSMMC ------------------------------
(***************************************************************************)
(* Model checking of the Impl layer of TcpFSM.tla against its Prop layer   *)
(* and export of behaviours for replay on the real code.                   *)
(*                                                                         *)
(* FsmSpec: every packet sequence over Kinds x {0,1} up to MaxLen, for     *)
(* every value of SupportMissingEstablishment in Smes.  The transcribed    *)
(* CheckState runs inside the model and every one of its answers is fed to *)
(* FsmJudge.  OptSpec: the same for TCPOptionCheck.Accept over small       *)
(* integer windows.  A disagreement is a *finding candidate*: it is        *)
(* printed (DISC, with the concrete sequence), the path ends there, and    *)
(* the sequence is replayed on the real code like every other one -        *)
(* verdicts come from the real answers only.  MAY lines show how the code  *)
(* resolves what Prop leaves open (informational).                         *)
(*                                                                         *)
(* hist is output only.  With VIEW (cfg *View) it is hidden and one        *)
(* behaviour per distinct (length, last packet, Impl state, Prop state) is *)
(* exported - every transition of the product once; without VIEW (cfg      *)
(* *All) every sequence of length MaxLen is a state of its own.            *)
(***************************************************************************)
EXTENDS TcpFSM, Json, TLC

CONSTANTS MaxLen, Kinds, Smes, ExportEvery,
          OMss, OWs, OWin, OLen, ODiff
VARIABLES hist, impl, prop, last
mvars == <<hist, impl, prop, last>>

Quiet == [reason |-> "", cls |-> "", res |-> "", ph |-> "", k |-> "", rel |-> ""]

(* ------------------------------ FSM ------------------------------------ *)
FsmInit == /\ hist = <<>> /\ impl = FsmImplInit /\ last = Quiet
           /\ \E b \in Smes : prop = FsmPropInit(b)

FsmPkt(k, d) ==
  LET r == FsmImplStep(impl, k, d, prop.sme)
      e == [k |-> k, d |-> d, res |-> (IF r[1] THEN "acc" ELSE "rej"), state |-> r[2].st, det |-> TRUE]
      j == FsmJudge(prop, e)
  IN /\ hist' = Append(hist, <<k, d>>)
     /\ impl' = r[2]
     /\ prop' = j[2]
     /\ last' = [reason |-> (IF j[1] = "ok" THEN "" ELSE j[1]), cls |-> FsmClass(prop, k, d), res |-> e.res,
                 ph |-> prop.ph, k |-> k, rel |-> FsmRel(prop, d)]

FsmNextRel == /\ Len(hist) < MaxLen /\ last.reason = ""
              /\ \E k \in Kinds, d \in {0, 1} : FsmPkt(k, d)
FsmSpec == FsmInit /\ [][FsmNextRel]_mvars
FsmBeh == [t |-> "fsm", sme |-> prop.sme, pk |-> hist]

(* ------------------------------ options -------------------------------- *)
OptOps ==
  {[d |-> d, syn |-> TRUE, mss |-> m, ws |-> w, win |-> wi, len |-> 0, has |-> FALSE, diff |-> 0] :
      d \in {0, 1}, m \in OMss, w \in OWs, wi \in OWin}
  \cup {[d |-> d, syn |-> FALSE, mss |-> -1, ws |-> -1, win |-> wi, len |-> n, has |-> FALSE, diff |-> 0] :
      d \in {0, 1}, wi \in OWin, n \in OLen}
  \cup {[d |-> d, syn |-> FALSE, mss |-> -1, ws |-> -1, win |-> wi, len |-> n, has |-> TRUE, diff |-> df] :
      d \in {0, 1}, wi \in OWin, n \in OLen, df \in ODiff}

OptInit == hist = <<>> /\ impl = OptImplInit /\ prop = OptPropInit /\ last = Quiet

OptOp(o) ==
  LET r == OptImplStep(impl, o)
      e == [d |-> o.d, syn |-> o.syn, mss |-> o.mss, ws |-> o.ws, win |-> o.win, len |-> o.len, has |-> o.has,
            diff |-> o.diff, res |-> (IF r[1] THEN "acc" ELSE "rej"), det |-> TRUE]
      j == OptJudge(prop, e)
  IN /\ hist' = Append(hist, o)
     /\ impl' = r[2]
     /\ prop' = j[2]
     /\ last' = [reason |-> (IF j[1] = "ok" THEN "" ELSE j[1]), cls |-> OptClass(prop, e), res |-> e.res,
                 ph |-> OptCase(prop, e), k |-> (IF o.syn THEN "syn" ELSE "seg"), rel |-> ""]

OptNextRel == /\ Len(hist) < MaxLen /\ last.reason = ""
              /\ \E o \in OptOps : OptOp(o)
OptSpec == OptInit /\ [][OptNextRel]_mvars
OptBeh == [t |-> "opt", ops |-> hist]

(* ------------------------------ output --------------------------------- *)
LastOf(h) == IF h = <<>> THEN <<>> ELSE h[Len(h)]
View == <<Len(hist), LastOf(hist), impl, prop, last>>
OptView == View      \* (the length must be part of a VIEW under a length bound, or the set explored depends on the schedule)

Terminal == Len(hist) = MaxLen \/ last.reason # ""
\* ExportEvery: one BEH per state (use with VIEW).  Otherwise all sequences of length MaxLen: printing is the
\* expensive part of TLC here, so each state of length MaxLen-1 prints its whole fan-out in one BEHS line
\* (prefix + the alphabet; every extension is still a state of the model and is judged there), and a path
\* that ended earlier at a finding candidate prints itself.
FsmExport ==
  /\ (ExportEvery /\ hist # <<>>) => PrintT("BEH " \o ToJson(FsmBeh))
  /\ (~ExportEvery /\ last.reason # "" /\ Len(hist) < MaxLen) => PrintT("BEH " \o ToJson(FsmBeh))
  /\ (~ExportEvery /\ last.reason = "" /\ Len(hist) = MaxLen - 1) =>
        PrintT("BEHS " \o ToJson([t |-> "fsm", sme |-> prop.sme, pre |-> hist,
                                  ext |-> {<<k, d>> : k \in Kinds, d \in {0, 1}}]))
OptExport == (hist # <<>> /\ (ExportEvery \/ Terminal)) => PrintT("BEH " \o ToJson(OptBeh))
FsmReport == /\ last.reason # "" => PrintT("DISC " \o ToJson([last |-> last, beh |-> FsmBeh]))
             /\ (last.cls = "may" /\ ExportEvery) => PrintT("MAY " \o ToJson([ph |-> last.ph, k |-> last.k, rel |-> last.rel,
                                                                             res |-> last.res, sme |-> prop.sme]))
OptReport == last.reason # "" => PrintT("DISC " \o ToJson([last |-> last, beh |-> OptBeh]))

\* cfg files cannot hold negative numbers
MC_OMss == {-2, -1, 2}
MC_OWs == {-2, -1, 0, 1}
MC_ODiff == {-2, -1, 0, 2, 3, 5}
MC_ODiffT == {-3, -2, -1, 0, 1, 2, 3, 4, 5, 9}
MC_OWsT == {-2, -1, 0, 1, 2}
MC_None == {-1}

\* design-level sanity of the transcription itself (independent of Prop)
FsmImplSane == /\ impl.st \in {"Closed", "SynSent", "Established", "CloseWait", "LastAck", "Reset"}
               /\ impl.dir \in {0, 1}
OptImplSane == \A i \in {0, 1} : impl[i].rwnd >= 0 /\ impl[i].scale >= -1 /\ impl[i].mss >= -1
=============================================================================
