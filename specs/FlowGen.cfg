SPECIFICATION Spec
CONSTANTS
  MaxShort = 2
  FlowLevel = 1
INVARIANTS Laws PropAcceptsIdeal Export
CHECK_DEADLOCK FALSE
