SPECIFICATION Spec
CONSTANTS
  Batches <- MC_BatchesSmall
  ReadSizes = {1, 2, 8}
  LossErrors = TRUE
  AckInClose = TRUE
  MaxReads = 5
INVARIANTS ReadIsPrefix NoPanic Export
CHECK_DEADLOCK TRUE
