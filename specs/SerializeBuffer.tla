--------------------------- MODULE SerializeBuffer ---------------------------
(***************************************************************************)
(* gopacket writer.go: the serialize buffer.                               *)
(*                                                                         *)
(* Prop layer  : what the API promises (C18).  `prop` is the abstract      *)
(*               buffer: contents as a sequence of unique byte ids, the    *)
(*               recorded layers, and every window (slice) handed out.     *)
(* Impl layer  : transcription of serializeBuffer{data,start,prepended,    *)
(*               appended} with the code's growth rules.                   *)
(* Refinement  : prop.contents = impl.data[start+1 .. dlen] in every       *)
(*               reachable state, and every window that is still valid     *)
(*               (no Clear, no reallocation since it was returned) sits at *)
(*               the position Prop says.                                   *)
(***************************************************************************)
EXTENDS Integers, Sequences, FiniteSets, TLC

CONSTANTS Sizes,      \* sizes n used for Prepend/Append
          Hints,      \* set of <<expectedPrepend, expectedAppend>>
          MaxDepth,   \* bound on Len(hist)
          LTypes,     \* layer type numbers for PushLayer / SerializeLayers
          Stacks      \* set of sequences of <<type, npre, napp>> for SerializeLayers

VARIABLES prop, impl, hist
vars == <<prop, impl, hist>>

Max(a, b) == IF a > b THEN a ELSE b
IdOf(k) == (k % 251) + 1              \* byte value written for the k-th written byte
Ids(k, n) == [i \in 1..n |-> IdOf(k + i - 1)]

-----------------------------------------------------------------------------
(* Prop: pure operators on the abstract buffer                             *)

PInit == [contents |-> <<>>, layers |-> <<>>, windows |-> <<>>, nextId |-> 0]

\* windows: sequence of [pos |-> 1-based index into contents, len, alive]
ShiftWindows(ws, n) == [i \in 1..Len(ws) |-> [ws[i] EXCEPT !.pos = @ + n]]
KillWindows(ws) == [i \in 1..Len(ws) |-> [ws[i] EXCEPT !.alive = FALSE]]

PPrepend(p, n) ==
  [p EXCEPT !.contents = Ids(p.nextId, n) \o p.contents,
            !.windows  = Append(ShiftWindows(p.windows, n), [pos |-> 1, len |-> n, alive |-> TRUE]),
            !.nextId   = p.nextId + n]

PAppend(p, n) ==
  [p EXCEPT !.contents = p.contents \o Ids(p.nextId, n),
            !.windows  = Append(p.windows, [pos |-> Len(p.contents) + 1, len |-> n, alive |-> TRUE]),
            !.nextId   = p.nextId + n]

PClear(p) == [p EXCEPT !.contents = <<>>, !.layers = <<>>, !.windows = KillWindows(p.windows)]

PPush(p, t) == [p EXCEPT !.layers = Append(p.layers, t)]

\* rewrite an earlier window with fresh ids
PWWrite(p, w) ==
  LET win == p.windows[w] IN
  [p EXCEPT !.contents = [i \in 1..Len(p.contents) |->
                            IF i >= win.pos /\ i < win.pos + win.len
                            THEN IdOf(p.nextId + (i - win.pos)) ELSE p.contents[i]],
            !.nextId = p.nextId + win.len]

\* one layer <<type, npre, napp>> serialised onto the buffer: prepend header, append trailer
PLayer(p, l) == PPush(PAppend(PPrepend(p, l[2]), l[3]), l[1])

RECURSIVE PStack(_, _, _)
PStack(p, ls, i) == IF i = 0 THEN p ELSE PStack(PLayer(p, ls[i]), ls, i - 1)

\* SerializeLayers: clear, then innermost (last) layer first
PSerLayers(p, ls) == PStack(PClear(p), ls, Len(ls))

-----------------------------------------------------------------------------
(* Impl: transcription of writer.go                                        *)

IInit(h) == [data |-> [i \in 1..(h[1] + h[2]) |-> 0], dlen |-> h[1], start |-> h[1],
             pre |-> h[1], app |-> h[2], gen |-> 0,
             wins |-> <<>>]    \* wins: [ipos (0-based offset in data), len, gen, cleared]

Cap(s) == Len(s.data)

IWrite(s, off, ids) ==   \* write ids at 0-based offset off
  [s EXCEPT !.data = [i \in 1..Len(s.data) |->
                        IF i > off /\ i <= off + Len(ids) THEN ids[i - off] ELSE s.data[i]]]

IPrepend(s, n, ids) ==
  LET grown ==
        IF s.start < n
        THEN LET toPre    == Max(s.pre, n)
                 newCap   == Cap(s) + toPre
                 newStart == s.start + toPre
             IN [s EXCEPT !.pre = s.pre + toPre,
                          !.data = [i \in 1..newCap |->
                                      IF i > newStart /\ i <= newStart + (s.dlen - s.start)
                                      THEN s.data[i - toPre] ELSE 0],
                          !.start = newStart,
                          !.dlen = toPre + s.dlen,
                          !.gen = s.gen + 1]
        ELSE s
      st2 == grown.start - n
      w   == [ipos |-> st2, len |-> n, gen |-> grown.gen, cleared |-> FALSE]
  IN IWrite([grown EXCEPT !.start = st2, !.wins = Append(grown.wins, w)], st2, ids)

IAppend(s, n, ids) ==
  LET grown ==
        IF Cap(s) - s.dlen < n
        THEN LET toApp  == Max(s.app, n)
                 newCap == Cap(s) + toApp
             IN [s EXCEPT !.app = s.app + toApp,
                          !.data = [i \in 1..newCap |->
                                      IF i > s.start /\ i <= s.dlen THEN s.data[i] ELSE 0],
                          !.gen = s.gen + 1]
        ELSE s
      w == [ipos |-> grown.dlen, len |-> n, gen |-> grown.gen, cleared |-> FALSE]
  IN IWrite([grown EXCEPT !.dlen = grown.dlen + n, !.wins = Append(grown.wins, w)], grown.dlen, ids)

IClear(s) == [s EXCEPT !.start = s.pre, !.dlen = s.pre,
                       !.wins = [i \in 1..Len(s.wins) |-> [s.wins[i] EXCEPT !.cleared = TRUE]]]

IValid(s, w) == ~s.wins[w].cleared /\ s.wins[w].gen = s.gen

IWWrite(s, w, ids) == IWrite(s, s.wins[w].ipos, ids)

ILayer(s, l, k) == IAppend(IPrepend(s, l[2], Ids(k, l[2])), l[3], Ids(k + l[2], l[3]))

RECURSIVE IStack(_, _, _, _)
IStack(s, ls, i, k) ==
  IF i = 0 THEN s ELSE IStack(ILayer(s, ls[i], k), ls, i - 1, k + ls[i][2] + ls[i][3])

ISerLayers(s, ls, k) == IStack(IClear(s), ls, Len(ls), k)

IBytes(s) == SubSeq(s.data, s.start + 1, s.dlen)

-----------------------------------------------------------------------------
(* Actions                                                                 *)

Init == /\ prop = PInit
        /\ \E h \in Hints : impl = IInit(h) /\ hist = << <<"new", h[1], h[2]>> >>

Prepend(n) == /\ prop' = PPrepend(prop, n)
              /\ impl' = IPrepend(impl, n, Ids(prop.nextId, n))
              /\ hist' = Append(hist, <<"prepend", n>>)

AppendB(n) == /\ prop' = PAppend(prop, n)
              /\ impl' = IAppend(impl, n, Ids(prop.nextId, n))
              /\ hist' = Append(hist, <<"append", n>>)

Clear == /\ prop' = PClear(prop)
         /\ impl' = IClear(impl)
         /\ hist' = Append(hist, <<"clear">>)

Push(t) == /\ prop' = PPush(prop, t)
           /\ UNCHANGED impl
           /\ hist' = Append(hist, <<"push", t>>)

\* write through a previously returned slice that is still valid
WWrite(w) == /\ IValid(impl, w) /\ prop.windows[w].len > 0
             /\ prop' = PWWrite(prop, w)
             /\ impl' = IWWrite(impl, w, Ids(prop.nextId, prop.windows[w].len))
             /\ hist' = Append(hist, <<"wwrite", w>>)

SerLayers(ls) == /\ prop' = PSerLayers(prop, ls)
                 /\ impl' = ISerLayers(impl, ls, prop.nextId)
                 /\ hist' = Append(hist, <<"serlayers", ls>>)

Next == /\ Len(hist) < MaxDepth
        /\ \/ \E n \in Sizes : Prepend(n) \/ AppendB(n)
           \/ Clear
           \/ \E t \in LTypes : Push(t)
           \/ \E w \in 1..Len(prop.windows) : WWrite(w)
           \/ \E ls \in Stacks : SerLayers(ls)

Spec == Init /\ [][Next]_vars

-----------------------------------------------------------------------------
(* Properties (C18)                                                        *)

\* the implementation holds exactly the abstract contents
Refines == IBytes(impl) = prop.contents

\* the impl offsets stay inside the array
ImplSane == /\ 0 <= impl.start /\ impl.start <= impl.dlen /\ impl.dlen <= Cap(impl)
            /\ Len(impl.wins) = Len(prop.windows)

\* every still-valid window is a window onto contents at the position Prop says
WindowsAgree ==
  \A w \in 1..Len(prop.windows) :
     IValid(impl, w) =>
        /\ prop.windows[w].alive
        /\ impl.wins[w].len = prop.windows[w].len
        /\ impl.wins[w].ipos - impl.start = prop.windows[w].pos - 1
        /\ prop.windows[w].pos + prop.windows[w].len - 1 <= Len(prop.contents)

\* all bytes in contents are distinct ids (nothing duplicated / lost), while ids do not wrap
NoDup == prop.nextId <= 251 =>
           \A i, j \in 1..Len(prop.contents) : i # j => prop.contents[i] # prop.contents[j]

\* earlier bytes survive growth: any step that is not Clear/SerLayers/WWrite keeps old contents
\* as a contiguous block (action property)
Survives ==
  [][ \/ prop'.contents = <<>>
      \/ Len(hist') > 0 /\ hist'[Len(hist')][1] \in {"wwrite", "serlayers"}
      \/ \E k \in 0..Len(prop'.contents) :
            SubSeq(prop'.contents, k + 1, k + Len(prop.contents)) = prop.contents
    ]_vars

ClearEmpties == [][ (Len(hist') > 0 /\ hist'[Len(hist')][1] = "clear")
                     => (IBytes(impl') = <<>> /\ prop'.layers = <<>>) ]_vars

\* --- behaviour export: print each complete path once ---
ExportView == <<prop, impl>>
=============================================================================
