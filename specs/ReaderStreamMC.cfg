SPECIFICATION Spec
CONSTANTS
  Batches <- MC_Batches
  ReadSizes = {1, 2, 8}
  LossErrors = TRUE
  AckInClose = TRUE
  MaxReads = 12
INVARIANTS ReadIsPrefix NoPanic EOFOnlyAtEnd EOFComplete
VIEW MCView
CHECK_DEADLOCK TRUE
